(* Scope.v — a mini-Liquid interpreter over the render context of liquid/context.py:
   the scope chain (pushed namespaces ▷ locals ▷ globals chain ▷ builtin ▷ counters), path resolution
   (RenderContext.get / get_item), assign/capture/for/with/if/include/render/macro/call/increment/decrement,
   RenderContext.copy for isolated partials and macro bodies, disabled tags, the four undefined types and the
   strict/lax tolerance modes.  Shared model of C14, C15 and C16.  Executable definitions only (no proofs).
   The model is that of the code AFTER the three C15 repairs (.work/fixes/C15-*.patch): `copy` builds an isolated scope on
   the root globals, render..for copies the context once per item, and the block-scoped copy keeps the disabled tags; the old behaviours are kept as copy_old and
   render_loop_old for the witnesses in Props/C15.v.  Round-3 additions: the block-scoped branch of copy with the
   block / extends tags of liquid.extra (copy_block; copy_block_old is a seeded variant), the string feature flags
   (flags, read through the context), the `has` array filter and abstract filters (FGen + filter_table). *)
From Coq Require Import String Ascii.
From LiquidVerif Require Import Prelude PyPrims.

Definition slit (x : string) : str := map N_of_ascii (list_ascii_of_string x).

(* ------------------------------------------------------------------ values *)
Inductive val :=
| VNil
| VUndef                              (* an instance of env.undefined; how a USE of it behaves depends on the kind *)
| VBool (b : bool) | VInt (z : Z) | VStr (s : str)
| VList (l : list val)
| VTuple (l : list val)               (* (key, value) pairs produced by iterating a dict / dict.first *)
| VDict (d : list (str * val))        (* insertion order = Python dict order *)
| VBuiltin.                           (* now / today: a datetime; truthy, equal to no literal, never printed *)

Definition ns := list (str * val).    (* one namespace (a Python dict with str keys) *)

Inductive scalar := LNil | LBool (b : bool) | LInt (z : Z) | LStr (s : str).
Definition val_of_scalar (l : scalar) : val :=
  match l with LNil => VNil | LBool b => VBool b | LInt z => VInt z | LStr s => VStr s end.

(* the configured undefined type (liquid/undefined.py) and the tolerance mode *)
Inductive ukind := UDefault | UStrict | UFalsy | UStrictDefault.
Inductive mode := MStrict | MLax.

(* every dunder of StrictUndefined and its subclasses raises (str, len, iter, getitem, ...) *)
Definition strict_kind (k : ukind) : bool := match k with UDefault => false | _ => true end.
(* hasattr(x, "__liquid__") / x.__class__ (isinstance against a non-base class) go through __getattribute__:
   allowed for FalsyStrictUndefined, UndefinedError for StrictUndefined and StrictDefaultUndefined *)
Definition probe_raises (k : ukind) : bool := match k with UStrict | UStrictDefault => true | _ => false end.

Definition is_undef (v : val) : bool := match v with VUndef => true | _ => false end.

(* Python dict assignment d[k] = v: replace in place, or append *)
Fixpoint dict_set {V} (k : str) (v : V) (l : list (str * V)) : list (str * V) :=
  match l with
  | [] => [(k, v)]
  | (k', v') :: r => if str_eqb k k' then (k, v) :: r else (k', v') :: dict_set k v r
  end.

(* ------------------------------------------------- Python str()/repr() of the modelled values *)
Fixpoint join_sep (sep : str) (l : list str) : str :=
  match l with [] => [] | [s] => s | s :: r => s ++ sep ++ join_sep sep r end.
Definition comma_sp : str := [44; 32]%N.

Fixpoint py_repr (v : val) : str :=
  match v with
  | VNil => slit "None"
  | VUndef => []
  | VBool b => if b then slit "True" else slit "False"
  | VInt z => Z_to_str z
  | VStr s => [39%N] ++ s ++ [39%N]                       (* strings without quotes, backslashes, controls *)
  | VList l => [91%N] ++ join_sep comma_sp (map py_repr l) ++ [93%N]
  | VTuple l => [40%N] ++ join_sep comma_sp (map py_repr l) ++ (match l with [_] => [44%N] | _ => [] end) ++ [41%N]
  | VDict d => [123%N] ++ join_sep comma_sp (map (fun p => match p with (k, x) => [39%N] ++ k ++ [39; 58; 32]%N ++ py_repr x end) d) ++ [125%N]
  | VBuiltin => []
  end.

Definition py_str (v : val) : str := match v with VStr s => s | _ => py_repr v end.

(* liquid.stringify.to_liquid_string, autoescape off *)
Definition to_output (uk : ukind) (v : val) : res str :=
  match v with
  | VStr s => Ok s
  | VBool b => Ok (bool_to_str b)
  | VNil => Ok []
  | VList l => Ok (concat_str (map py_str l))
  | VUndef => if strict_kind uk then Err EUndefined else Ok []
  | _ => Ok (py_str v)
  end.

(* the two feature flags of the Environment that change how STRINGS are subscripted (read through context.env) *)
Record flags := Flags { fl_first_last : bool;      (* string_first_and_last: s.first / s.last are the first / last character *)
                        fl_sequences : bool }.     (* string_sequences: s[i] is a character; a for loop visits the characters *)
Definition default_flags : flags := Flags false false.
Definition char_val (ch : N) : val := VStr [ch].

(* ------------------------------------------------------------- get_item *)
Definition s_size : str := slit "size".
Definition s_first : str := slit "first".
Definition s_last : str := slit "last".

(* a path segment value as a subscript *)
Inductive nkey := KS (s : str) | KI (z : Z) | KOther.
Definition key_of_val (v : val) : nkey :=
  match v with VStr s => KS s | VInt z => KI z | VBool b => KI (if b then 1 else 0)%Z | _ => KOther end.

(* Python sequence indexing with the negative-index rule; None = IndexError *)
Definition py_index {A} (l : list A) (z : Z) : option A :=
  let n := zlen l in
  if (0 <=? z)%Z then (if (z <? n)%Z then nth_error l (Z.to_nat z) else None)
  else if (0 <=? n + z)%Z then nth_error l (Z.to_nat (n + z)) else None.

(* obj[key] for a defined obj; None = KeyError / TypeError / IndexError (strings are not subscriptable) *)
Definition subscript (g : flags) (obj : val) (k : nkey) : option val :=
  match obj, k with
  | VDict d, KS s => alookup s d
  | VList l, KI z => py_index l z
  | VTuple l, KI z => py_index l z
  | VStr s, KI z => if fl_sequences g then option_map char_val (py_index s z) else None
  | _, _ => None
  end.

Definition sized_len (v : val) : option Z :=
  match v with
  | VStr s => Some (zlen s) | VList l => Some (zlen l) | VTuple l => Some (zlen l) | VDict d => Some (zlen d)
  | _ => None
  end.

(* RenderContext.get_item for a defined obj: size / first / last fall back to len / first item / last item *)
Definition get_item (g : flags) (obj : val) (k : nkey) : option val :=
  match k with
  | KS s =>
      if str_eqb s s_size then
        match subscript g obj k with Some v => Some v | None => option_map VInt (sized_len obj) end
      else if str_eqb s s_first then
        match subscript g obj k with
        | Some v => Some v
        | None => match obj with
                  | VDict ((k0, v0) :: _) => Some (VTuple [VStr k0; v0])
                  | VList (x :: _) => Some x
                  | VTuple (x :: _) => Some x
                  | VStr s0 => if fl_first_last g then option_map char_val (hd_error s0) else None
                  | _ => None
                  end
        end
      else if str_eqb s s_last then
        match subscript g obj k with
        | Some v => Some v
        | None => match obj with
                  | VList l => py_index l (-1) | VTuple l => py_index l (-1)
                  | VStr s0 => if fl_first_last g then option_map char_val (py_index s0 (-1)) else None
                  | _ => None
                  end
        end
      else subscript g obj k
  | _ => subscript g obj k
  end.

Inductive step := SVal (v : val) | SMissing | SRaise.

(* one segment of RenderContext.get: the key is probed for __liquid__ first; an undefined OBJECT returns
   itself from __getitem__ (default) or raises (all strict kinds) *)
Definition step_item (g : flags) (uk : ukind) (obj kv : val) : step :=
  if is_undef kv && probe_raises uk then SRaise
  else match obj with
       | VUndef => if strict_kind uk then SRaise else SVal VUndef
       | _ => match get_item g obj (key_of_val kv) with Some v => SVal v | None => SMissing end
       end.

Fixpoint walk (g : flags) (uk : ukind) (obj : val) (ks : list val) : res val :=
  match ks with
  | [] => Ok obj
  | k :: r => match step_item g uk obj k with
              | SVal v => walk g uk v r
              | SMissing => Ok VUndef
              | SRaise => Err EUndefined
              end
  end.

(* ------------------------------------------------------------------ syntax *)
Inductive key := KName (s : str) | KIndex (z : Z).
Inductive style := Dot | SQ | DQ.      (* a.b / a['b'] / a["b"]: how the harness prints the segment; evaluation ignores it *)
Inductive seg := SKey (st : style) (k : key) | SNested (root : str) (ks : list key).   (* a[b.c] *)
Record path := Path { p_root : str; p_segs : list seg }.

Inductive expr := ELit (l : scalar) | EPath (p : path).

Inductive filt :=
| FUpcase | FSize | FDefault (l : scalar)
| FHas (attr : str) (value : option expr)          (* arr | has: 'attr' [, value] *)
| FGen (id : N) (args : list expr).                (* any other filter: an abstract function of its evaluated arguments *)
Inductive fexpr := FPlain (e : expr) (fs : list filt).

Inductive atom := CTruthy (e : expr) | CEq (e : expr) (l : scalar) | CNe (e : expr) (l : scalar) | CLt (e : expr) (n : Z).
Inductive cond := CAtom (a : atom) | CAnd (a : atom) (r : cond) | COr (a : atom) (r : cond).   (* right-nested, as parsed *)

Inductive iter := IPath (p : path) | IRange (a b : Z).

Inductive node :=
| NText (s : str)
| NOut (e : fexpr)
| NAssign (x : str) (e : fexpr)
| NCapture (x : str) (body : list node)
| NIf (c : cond) (th el : list node)
| NFor (x : str) (it : iter) (body els : list node)
| NBreak | NContinue
| NWith (args : list (str * expr)) (body : list node)
| NInclude (name : str) (var : option (path * option str)) (args : list (str * expr))
| NRender (name : str) (var : option (path * bool * option str)) (args : list (str * expr))   (* bool: `for` *)
| NMacro (name : str) (params : list (str * option expr)) (body : list node)
| NCall (name : str) (kws : list (str * expr))
| NIncr (x : str) | NDecr (x : str)
| NBlock (name : str) (body : list node)                              (* liquid.extra: {% block name %} *)
| NExtends (base : str) (blocks : list (str * list node)).            (* {% extends 'base' %} followed by the child's blocks *)

Inductive tag := TInclude | TBlock.
Definition tag_eqb (a b : tag) : bool := match a, b with TInclude, TInclude | TBlock, TBlock => true | _, _ => false end.

(* ------------------------------------------------------------------ render context *)
Record ctx := Ctx {
  scopes : list ns;                     (* pushed namespaces, innermost first *)
  locals : ns;                          (* assign / capture *)
  gl : list ns;                         (* the globals chain: top level = [render args; matter; template ▷ env globals];
                                           after copy = namespace :: base *)
  base : list ns;                       (* the root context's globals (RenderContext.base_globals) *)
  counters : list (str * Z);
  macros : list (str * (list (str * option expr) * list node));
  disabled : list tag;
  overrides : option (list (str * list node));   (* tag_namespace["extends"]: Some = rendering an inheritance chain *)
  cfg : flags }.                                 (* context.env's string flags *)

Definition set_scopes (c : ctx) (s : list ns) : ctx :=
  Ctx s (locals c) (gl c) (base c) (counters c) (macros c) (disabled c) (overrides c) (cfg c).
Definition set_locals (c : ctx) (l : ns) : ctx :=
  Ctx (scopes c) l (gl c) (base c) (counters c) (macros c) (disabled c) (overrides c) (cfg c).
Definition set_gl (c : ctx) (g : list ns) : ctx :=
  Ctx (scopes c) (locals c) g (base c) (counters c) (macros c) (disabled c) (overrides c) (cfg c).
Definition set_counters (c : ctx) (k : list (str * Z)) : ctx :=
  Ctx (scopes c) (locals c) (gl c) (base c) k (macros c) (disabled c) (overrides c) (cfg c).
Definition set_macros (c : ctx) (m : list (str * (list (str * option expr) * list node))) : ctx :=
  Ctx (scopes c) (locals c) (gl c) (base c) (counters c) m (disabled c) (overrides c) (cfg c).

Definition set_overrides (c : ctx) (o : option (list (str * list node))) : ctx :=
  Ctx (scopes c) (locals c) (gl c) (base c) (counters c) (macros c) (disabled c) o (cfg c).

Definition push (c : ctx) (n : ns) : ctx := set_scopes c (n :: scopes c).            (* ReadOnlyChainMap.push *)
Definition pop (c : ctx) : ctx := set_scopes c (tl (scopes c)).                       (* ReadOnlyChainMap.pop *)
(* `namespace[key] = value` on the dict that was pushed last *)
Definition set_head (c : ctx) (n : ns) : ctx := set_scopes c (n :: tl (scopes c)).
Definition head_scope (c : ctx) : ns := hd [] (scopes c).
Definition set_gl_head (c : ctx) (n : ns) : ctx := set_gl c (n :: tl (gl c)).

Definition assign (c : ctx) (x : str) (v : val) : ctx := set_locals c (dict_set x v (locals c)).

(* RenderContext.copy (block_scope = False): fresh locals, counters and tag state; the namespace in front of
   the ROOT globals; the given disabled tags *)
Definition copy (c : ctx) (n : ns) (dis : list tag) : ctx :=
  Ctx [] [] (n :: base c) (base c) [] [] dis None (cfg c).
(* before the repair: in front of the CALLER's globals chain *)
Definition copy_old (c : ctx) (n : ns) (dis : list tag) : ctx :=
  Ctx [] [] (n :: gl c) (base c) [] [] dis None (cfg c).

Definition is_disabled (t : tag) (c : ctx) : bool := existsb (tag_eqb t) (disabled c).

Definition builtin_ns : ns := [(slit "now", VBuiltin); (slit "today", VBuiltin)].

Fixpoint first_hit (x : str) (ms : list ns) : option val :=
  match ms with
  | [] => None
  | m :: r => match alookup x m with Some v => Some v | None => first_hit x r end
  end.

(* self.scope[root]: ReadOnlyChainMap over the pushed namespaces, locals, globals, builtin, counters *)
Definition resolve (c : ctx) (x : str) : option val :=
  match first_hit x (scopes c) with Some v => Some v | None =>
  match alookup x (locals c) with Some v => Some v | None =>
  match first_hit x (gl c) with Some v => Some v | None =>
  match alookup x builtin_ns with Some v => Some v | None =>
  option_map VInt (alookup x (counters c))
  end end end end.

(* the documented order as one flat list of namespaces *)
Definition counter_ns (c : ctx) : ns := map (fun p => (fst p, VInt (snd p))) (counters c).
Definition chain (c : ctx) : list ns := scopes c ++ [locals c] ++ gl c ++ [builtin_ns] ++ [counter_ns c].

(* RenderContext.copy (block_scope = True), used for an overridden {% block %}: fresh locals, counters and tag state; the
   namespace (the `block` drop, opaque here) in front of the WHOLE scope chain of the template being extended; the root
   globals, the block stacks and (after the repair C15-block-scope-drops-disabled-tags) the disabled tags are shared *)
Definition s_block : str := slit "block".
Definition copy_block (c : ctx) : ctx :=
  Ctx [] [] ([(s_block, VBuiltin)] :: chain c) (base c) [] [] (disabled c) (overrides c) (cfg c).
(* before that repair: no disabled tags in the copy *)
Definition copy_block_enabled_old (c : ctx) : ctx :=
  Ctx [] [] ([(s_block, VBuiltin)] :: chain c) (base c) [] [] [] (overrides c) (cfg c).
(* a seeded variant: base_globals not propagated, so the root globals of the copy are its own globals chain *)
Definition copy_block_old (c : ctx) : ctx :=
  Ctx [] [] ([(s_block, VBuiltin)] :: chain c) ([(s_block, VBuiltin)] :: chain c) [] [] (disabled c) (overrides c) (cfg c).

(* Environment.make_globals: {**env.globals, **template_globals} *)
Definition merge_globals (eg tg : ns) : ns := fold_left (fun acc p => dict_set (fst p) (snd p) acc) tg eg.

(* ------------------------------------------------------------------ expressions *)
Definition key_val (k : key) : val := match k with KName s => VStr s | KIndex z => VInt z end.

Definition eval_simple (uk : ukind) (c : ctx) (root : str) (ks : list key) : res val :=
  match resolve c root with None => Ok VUndef | Some obj => walk (cfg c) uk obj (map key_val ks) end.

(* Path.evaluate: nested paths are evaluated first, then RenderContext.get walks the segments *)
Fixpoint eval_segs (uk : ukind) (c : ctx) (ss : list seg) : res (list val) :=
  match ss with
  | [] => Ok []
  | s :: r =>
      do v <- (match s with SKey _ k => Ok (key_val k) | SNested root ks => eval_simple uk c root ks end);
      do vs <- eval_segs uk c r;
      Ok (v :: vs)
  end.

Definition eval_path (uk : ukind) (c : ctx) (p : path) : res val :=
  do ks <- eval_segs uk c (p_segs p);
  match resolve c (p_root p) with None => Ok VUndef | Some obj => walk (cfg c) uk obj ks end.

Definition eval_expr (uk : ukind) (c : ctx) (e : expr) : res val :=
  match e with ELit l => Ok (val_of_scalar l) | EPath p => eval_path uk c p end.

(* str.upper on ASCII *)
Definition upper (s : str) : str := map (fun ch => if ((97 <=? ch) && (ch <=? 122))%N then (ch - 32)%N else ch) s.

(* ---- the `has` array filter: @sequence_filter, then any(item[attr] == value) / any(item[attr] is truthy) ---- *)
Fixpoint flat (v : val) : list val :=          (* filter.flatten (nesting below its level limit of 5) *)
  match v with
  | VList l => concat (map flat l)
  | VTuple l => concat (map flat l)
  | _ => [v]
  end.

Fixpoint is_prefix (a s : str) : bool :=
  match a, s with [], _ => true | x :: a', y :: s' => (x =? y)%N && is_prefix a' s' | _, [] => false end.
Fixpoint is_infix (a s : str) : bool :=
  is_prefix a s || match s with [] => false | _ :: s' => is_infix a s' end.

Inductive item_attr := IVal (x : val) | INil | IErr.
(* array._getitem(item, attr) for a string attr *)
Definition getattr_item (itm : val) (attr : str) : item_attr :=
  match itm with
  | VDict d => IVal (match alookup attr d with Some x => x | None => VNil end)
  | VNil => INil                                    (* FilterItemTypeError: the filter returns nil *)
  | VStr s => IVal (if is_infix attr s then VStr attr else VNil)
  | VList _ | VTuple _ => IVal VNil
  | _ => IErr                                       (* TypeError -> FilterArgumentError *)
  end.

Fixpoint has_any (test : val -> bool) (attr : str) (items : list val) : res val :=
  match items with
  | [] => Ok (VBool false)
  | itm :: r => match getattr_item itm attr with
                | IErr => Err EFilterArg
                | INil => Ok VNil
                | IVal x => if test x then Ok (VBool true) else has_any test attr r
                end
  end.

(* Python == between an item's attribute and a scalar argument (True == 1, False == 0) *)
Definition num_of (v : val) : option Z :=
  match v with VBool b => Some (if b then 1 else 0)%Z | VInt z => Some z | _ => None end.
Definition py_eq (x w : val) : bool :=
  match num_of x, num_of w with
  | Some a, Some b => (a =? b)%Z
  | None, None => match x, w with VStr a, VStr b => str_eqb a b | VNil, VNil => true | _, _ => false end
  | _, _ => false
  end.
(* x not in (False, None) *)
Definition attr_present (x : val) : bool :=
  match x with VNil => false | _ => match num_of x with Some 0%Z => false | _ => true end end.

Definition has_input (uk : ukind) (v : val) : res (list val) :=
  match v with
  | VUndef => if strict_kind uk then Err EUndefined else Ok []
  | VList _ | VTuple _ => Ok (flat v)
  | _ => Ok [v]
  end.

(* `if value is not None and not is_undefined(value)`: is_undefined is isinstance against an ABC, which reads
   value.__class__ -- UndefinedError for StrictUndefined / StrictDefaultUndefined; otherwise undefined counts as nil *)
Definition has_filter (uk : ukind) (v : val) (attr : str) (w : val) : res val :=
  do items <- has_input uk v;
  match w with
  | VUndef => if probe_raises uk then Err EUndefined else has_any attr_present attr items
  | VNil => has_any attr_present attr items
  | _ => has_any (fun x => py_eq x w) attr items
  end.
(* a seeded variant without the is_undefined guard: the item attribute is compared with the undefined OBJECT, whose
   __eq__ differs per type (default: equal to nil/undefined; FalsyStrict: equal to false only; the others raise) *)
Definition has_filter_unguarded (uk : ukind) (v : val) (attr : str) (w : val) : res val :=
  do items <- has_input uk v;
  match w with
  | VUndef => match uk with
              | UDefault => has_any (fun x => match x with VNil | VUndef => true | _ => false end) attr items
              | UFalsy => has_any (fun x => match x with VBool false => true | _ => false end) attr items
              | _ => match items with [] => Ok (VBool false) | _ => Err EUndefined end
              end
  | VNil => has_any attr_present attr items
  | _ => has_any (fun x => py_eq x w) attr items
  end.

(* the semantics of the abstract filters: id, undefined type, left value, evaluated arguments *)
Definition filter_table := N -> ukind -> val -> list val -> res val.

Fixpoint eval_args (uk : ukind) (c : ctx) (es : list expr) : res (list val) :=
  match es with [] => Ok [] | e :: r => do v <- eval_expr uk c e; do vs <- eval_args uk c r; Ok (v :: vs) end.

Definition apply_filter (ft : filter_table) (uk : ukind) (c : ctx) (f : filt) (v : val) : res val :=
  match f with
  | FUpcase =>                                  (* @string_filter: None -> "", str(val) otherwise *)
      match v with
      | VUndef => if strict_kind uk then Err EUndefined else Ok (VStr [])
      | VNil => Ok (VStr [])
      | _ => Ok (VStr (upper (py_str v)))
      end
  | FSize =>                                    (* len(obj), TypeError -> 0 *)
      match v with
      | VUndef => if strict_kind uk then Err EUndefined else Ok (VInt 0)
      | _ => Ok (VInt (match sized_len v with Some n => n | None => 0%Z end))
      end
  | FDefault l =>
      match v with
      | VUndef => match uk with UStrict => Err EUndefined | _ => Ok (val_of_scalar l) end
      | VNil | VBool false | VStr [] | VList [] | VDict [] => Ok (val_of_scalar l)
      | _ => Ok v
      end
  | FHas attr value =>
      do w <- (match value with Some e => eval_expr uk c e | None => Ok VNil end);
      has_filter uk v attr w
  | FGen id args => do ws <- eval_args uk c args; ft id uk v ws
  end.

Fixpoint apply_filters (ft : filter_table) (uk : ukind) (c : ctx) (fs : list filt) (v : val) : res val :=
  match fs with [] => Ok v | f :: r => do v' <- apply_filter ft uk c f v; apply_filters ft uk c r v' end.

Definition eval_fexpr (ft : filter_table) (uk : ukind) (c : ctx) (e : fexpr) : res val :=
  match e with FPlain e0 fs => do v <- eval_expr uk c e0; apply_filters ft uk c fs v end.

(* is_truthy *)
Definition truthy (uk : ukind) (v : val) : res bool :=
  match v with
  | VUndef => if probe_raises uk then Err EUndefined else Ok false
  | VNil | VBool false => Ok false
  | _ => Ok true
  end.

(* _eq against a literal (after __liquid__(): an undefined value compares like nil) *)
Definition eq_lit (v : val) (l : scalar) : bool :=
  match v, l with
  | VNil, LNil | VUndef, LNil => true
  | VBool a, LBool b => Bool.eqb a b
  | VInt a, LInt b => (a =? b)%Z
  | VStr a, LStr b => str_eqb a b
  | _, _ => false
  end.

Definition eval_atom (uk : ukind) (c : ctx) (a : atom) : res bool :=
  match a with
  | CTruthy e => do v <- eval_expr uk c e; truthy uk v
  | CEq e l => do v <- eval_expr uk c e; if is_undef v && probe_raises uk then Err EUndefined else Ok (eq_lit v l)
  | CNe e l => do v <- eval_expr uk c e; if is_undef v && probe_raises uk then Err EUndefined else Ok (negb (eq_lit v l))
  | CLt e n => do v <- eval_expr uk c e;
               match v with
               | VUndef => if probe_raises uk then Err EUndefined else Err EType
               | VBool _ => Ok false
               | VInt z => Ok (z <? n)%Z
               | _ => Err EType
               end
  end.

(* `and` / `or` are right-associative and short-circuit *)
Fixpoint eval_cond (uk : ukind) (c : ctx) (cd : cond) : res bool :=
  match cd with
  | CAtom a => eval_atom uk c a
  | CAnd a r => do b <- eval_atom uk c a; if b then eval_cond uk c r else Ok false
  | COr a r => do b <- eval_atom uk c a; if b then Ok true else eval_cond uk c r
  end.

(* {name: value.evaluate(context) for ...}: a repeated name keeps its first position and its last value *)
Fixpoint eval_kwargs (uk : ukind) (c : ctx) (args : list (str * expr)) (acc : ns) : res ns :=
  match args with
  | [] => Ok acc
  | (k, e) :: r => do v <- eval_expr uk c e; eval_kwargs uk c r (dict_set k v acc)
  end.

(* LoopExpression._to_iter *)
Definition items_of (g : flags) (uk : ukind) (v : val) : res (list val) :=
  match v with
  | VUndef => if strict_kind uk then Err EUndefined else Ok []
  | VDict d => Ok (map (fun p => VTuple [VStr (fst p); snd p]) d)
  | VStr s => if fl_sequences g then Ok (map char_val s) else match s with [] => Ok [] | _ => Ok [VStr s] end
  | VList l => Ok l
  | VTuple l => Ok l
  | _ => Ok []
  end.

Definition eval_iter (uk : ukind) (c : ctx) (it : iter) : res (list val) :=
  match it with
  | IPath p => do v <- eval_path uk c p; items_of (cfg c) uk v
  | IRange a b => Ok (map VInt (zrange_incl a b))
  end.

(* isinstance(val, (tuple, list, IterableDrop)) in include / render *)
Inductive arr := AItems (l : list val) | ANot | ARaise.
Definition arraylike (uk : ukind) (v : val) : arr :=
  match v with
  | VList l => AItems l
  | VTuple l => AItems l
  | VUndef => if probe_raises uk then ARaise else ANot
  | _ => ANot
  end.

(* the forloop drop, as the mapping a template can read *)
Definition forloop_drop (i len : Z) : val :=
  VDict [(slit "index", VInt (i + 1)); (slit "index0", VInt i); (slit "rindex", VInt (len - i));
         (slit "rindex0", VInt (len - i - 1)); (slit "first", VBool (i =? 0)%Z); (slit "last", VBool (i =? len - 1)%Z);
         (slit "length", VInt len)].
Definition s_forloop : str := slit "forloop".
Definition loop_ns (x : str) (v : val) (i len : Z) : ns := dict_set x v [(s_forloop, forloop_drop i len)].

(* CallNode.macro_args for keyword-only calls, evaluated in the caller's context *)
Fixpoint last_kw (k : str) (kws : list (str * expr)) : option expr :=
  match kws with
  | [] => None
  | (k', e) :: r => match last_kw k r with Some x => Some x | None => if str_eqb k k' then Some e else None end
  end.
Fixpoint has_param (k : str) (ps : list (str * option expr)) : bool :=
  match ps with [] => false | (k', _) :: r => str_eqb k k' || has_param k r end.

Fixpoint bind_params (uk : ukind) (c : ctx) (ps : list (str * option expr)) (kws : list (str * expr)) (acc : ns) : res ns :=
  match ps with
  | [] => Ok acc
  | (p, d) :: r =>
      do v <- (match last_kw p kws with
               | Some e => eval_expr uk c e
               | None => match d with Some e => eval_expr uk c e | None => Ok VUndef end
               end);
      bind_params uk c r kws (dict_set p v acc)
  end.

Definition macro_namespace (uk : ukind) (c : ctx) (ps : list (str * option expr)) (kws : list (str * expr)) : res ns :=
  do extra <- eval_kwargs uk c (filter (fun kv => negb (has_param (fst kv) ps)) kws) [];
  bind_params uk c ps kws [(slit "args", VList []); (slit "kwargs", VDict extra)].

(* template.name.split(".")[0] *)
Fixpoint stem (s : str) : str := match s with [] => [] | ch :: r => if (ch =? 46)%N then [] else ch :: stem r end.

(* ------------------------------------------------------------------ execution *)
Inductive signal := Normal | Break | Continue | Raise (e : exn).
Inductive outcome := Done (c : ctx) (out : str) (s : signal) | Fuel.

Definition lift {A} (r : res A) (c : ctx) (k : A -> outcome) : outcome :=
  match r with Ok a => k a | Err x => Done c [] (Raise x) | OutOfFuel => Fuel end.

Definition after (o : outcome) (f : ctx -> ctx) : outcome :=
  match o with Fuel => Fuel | Done c out s => Done (f c) out s end.

(* BlockNode.render: the nodes in order; anything but a normal completion stops the block *)
Fixpoint seq_nodes (run : node -> ctx -> outcome) (l : list node) (c : ctx) : outcome :=
  match l with
  | [] => Done c [] Normal
  | n :: r =>
      match run n c with
      | Fuel => Fuel
      | Done c1 o1 Normal =>
          match seq_nodes run r c1 with Fuel => Fuel | Done c2 o2 s => Done c2 (o1 ++ o2) s end
      | Done c1 o1 s => Done c1 o1 s
      end
  end.

(* a Python loop over items; `catch`: break/continue belong to this loop (for tag) or propagate (include/render) *)
Fixpoint loop_items (catch : bool) (run : ctx -> val -> Z -> outcome) (items : list val) (i : Z) (c : ctx) : outcome :=
  match items with
  | [] => Done c [] Normal
  | v :: r =>
      match run c v i with
      | Fuel => Fuel
      | Done c1 o1 s =>
          let cont := match loop_items catch run r (i + 1)%Z c1 with
                      | Fuel => Fuel | Done c2 o2 s2 => Done c2 (o1 ++ o2) s2 end in
          match s with
          | Normal => cont
          | Continue => if catch then cont else Done c1 o1 s
          | Break => if catch then Done c1 o1 Normal else Done c1 o1 s
          | Raise _ => Done c1 o1 s
          end
      end
  end.

(* the node loop of BoundTemplate.render_with_context: an interrupt becomes a syntax error unless this is an
   included (shared-scope) partial; Liquid errors go through Environment.error *)
Fixpoint tmpl_nodes (md : mode) (propagate : bool) (run : node -> ctx -> outcome) (l : list node) (c : ctx) : outcome :=
  match l with
  | [] => Done c [] Normal
  | n :: r =>
      match run n c with
      | Fuel => Fuel
      | Done c1 o1 s =>
          let cont := match tmpl_nodes md propagate run r c1 with
                      | Fuel => Fuel | Done c2 o2 s2 => Done c2 (o1 ++ o2) s2 end in
          let s' := match s with
                    | Break | Continue => if propagate then s else Raise ESyntax
                    | _ => s
                    end in
          match s' with
          | Normal => cont
          | Raise e => match md with
                       | MLax => if is_liquid e then cont else Done c1 o1 s'
                       | MStrict => Done c1 o1 s'
                       end
          | _ => Done c1 o1 s'
          end
      end
  end.

Definition s_partial : str := slit "partial".

(* render_with_context: extend with {"partial": partial}, run the nodes, pop *)
Definition run_template (md : mode) (partial propagate : bool) (run : node -> ctx -> outcome) (body : list node) (c : ctx) : outcome :=
  after (tmpl_nodes md propagate run body (push c [(s_partial, VBool partial)])) pop.

Record env := Env { e_mode : mode; e_uk : ukind; e_loader : list (str * list node); e_filters : filter_table }.

Definition counter (c : ctx) (x : str) : Z := match alookup x (counters c) with Some n => n | None => 0%Z end.

(* render ... for: every item is rendered in its OWN copy of the context (c0 with the item and the forloop drop in
   the argument namespace); nothing assigned or counted while rendering one item is seen by the next *)
Definition render_loop (render1 : ctx -> outcome) (key : str) (na : ns) (items : list val) (c0 : ctx) : outcome :=
  let len := zlen items in
  loop_items false
    (fun _ itm i => render1 (set_gl_head c0 (dict_set key itm (dict_set s_forloop (forloop_drop i len) na))))
    items 0%Z c0.
(* before the repair: ONE copied context served every iteration *)
Definition render_loop_old (render1 : ctx -> outcome) (key : str) (na : ns) (items : list val) (c0 : ctx) : outcome :=
  let len := zlen items in
  loop_items false
    (fun ci itm i => render1 (set_gl_head ci (dict_set key itm (dict_set s_forloop (forloop_drop i len) na))))
    items 0%Z c0.

(* one node, given the interpreter `run` for the nodes nested one level deeper *)
Definition exec_step (E : env) (run : node -> ctx -> outcome) (n : node) (c : ctx) : outcome :=
    let uk := e_uk E in
    match n with
    | NText s => Done c s Normal
    | NOut e => lift (eval_fexpr (e_filters E) uk c e) c (fun v => lift (to_output uk v) c (fun s => Done c s Normal))
    | NAssign x e => lift (eval_fexpr (e_filters E) uk c e) c (fun v => Done (assign c x v) [] Normal)
    | NCapture x body =>
        match seq_nodes run body c with
        | Fuel => Fuel
        | Done c1 o Normal => Done (assign c1 x (VStr o)) [] Normal
        | Done c1 _ s => Done c1 [] s                  (* the exception leaves the tag before _assign *)
        end
    | NIf cd th el => lift (eval_cond uk c cd) c (fun b => seq_nodes run (if b then th else el) c)
    | NFor x it body els =>
        lift (eval_iter uk c it) c (fun items =>
          match items with
          | [] => seq_nodes run els c
          | _ =>
              let len := zlen items in
              after (loop_items true
                       (fun ci v i => seq_nodes run body (set_head ci (loop_ns x v i len)))
                       items 0%Z (push c (loop_ns x VNil 0 len)))
                    pop
          end)
    | NBreak => Done c [] Break
    | NContinue => Done c [] Continue
    | NWith args body =>
        lift (eval_kwargs uk c args []) c (fun nw => after (seq_nodes run body (push c nw)) pop)
    | NInclude name var args =>
        if is_disabled TInclude c then Done c [] (Raise EDisabledTag) else
        match alookup name (e_loader E) with
        | None => Done c [] (Raise ENotFound)
        | Some body =>
            lift (eval_kwargs uk c args []) c (fun na =>
              let c0 := push c na in
              let render1 := run_template (e_mode E) true true run body in
              after
                (match var with
                 | None => render1 c0
                 | Some (p, alias) =>
                     (* the bound variable is evaluated INSIDE the extended scope *)
                     lift (eval_path uk c0 p) c0 (fun v =>
                       let key := match alias with Some a => a | None => stem name end in
                       match arraylike uk v with
                       | ARaise => Done c0 [] (Raise EUndefined)
                       | AItems items =>
                           loop_items false (fun ci itm _ => render1 (set_head ci (dict_set key itm (head_scope ci)))) items 0%Z c0
                       | ANot => render1 (set_head c0 (dict_set key v na))
                       end)
                 end)
                pop)
        end
    | NRender name var args =>
        match alookup name (e_loader E) with
        | None => Done c [] (Raise ENotFound)
        | Some body =>
            lift (eval_kwargs uk c args []) c (fun na =>
              let c0 := copy c na [TInclude] in
              let render1 := run_template (e_mode E) true false run body in
              let back := fun o => match o with Fuel => Fuel | Done _ out s => Done c out s end in
              match var with
              | None => back (render1 c0)
              | Some (p, lp, alias) =>
                  (* the bound variable is evaluated in the CALLER's context *)
                  lift (eval_path uk c p) c (fun v =>
                    let key := match alias with Some a => a | None => stem name end in
                    match (if lp then arraylike uk v else ANot) with
                    | ARaise => Done c [] (Raise EUndefined)
                    | AItems items => back (render_loop render1 key na items c0)
                    | ANot => back (render1 (set_gl_head c0 (dict_set key v na)))
                    end)
              end)
        end
    | NMacro name params body => Done (set_macros c (dict_set name (params, body) (macros c))) [] Normal
    | NCall name kws =>
        match alookup name (macros c) with
        | None => lift (to_output uk VUndef) c (fun s => Done c s Normal)        (* buffer.write(str(undefined)) *)
        | Some (params, body) =>
            lift (macro_namespace uk c params kws) c (fun nm =>
              match seq_nodes run body (copy c nm [TInclude; TBlock]) with
              | Fuel => Fuel
              | Done _ out s => Done c out s
              end)
        end
    | NIncr x => let v := counter c x in Done (set_counters c (dict_set x (v + 1)%Z (counters c))) (Z_to_str v) Normal
    | NDecr x => let v := (counter c x - 1)%Z in Done (set_counters c (dict_set x v (counters c))) (Z_to_str v) Normal
    | NBlock name body =>
        if is_disabled TBlock c then Done c [] (Raise EDisabledTag) else
        match overrides c with
        | None =>                                   (* the template is rendered directly: a shared scope with `block` pushed *)
            after (seq_nodes run body (push c [(s_block, VBuiltin)])) pop
        | Some ovs =>                               (* the most-derived definition, in a block-scoped copy of the context *)
            let b := match alookup name ovs with Some b' => b' | None => body end in
            match seq_nodes run b (copy_block c) with Fuel => Fuel | Done _ out s => Done c out s end
        end
    | NExtends bname blocks =>
        match alookup bname (e_loader E) with
        | None => Done c [] (Raise ENotFound)
        | Some body =>
            after (run_template (e_mode E) false false run body (set_overrides c (Some blocks)))
                  (fun c1 => set_overrides c1 None)
        end
    end.

(* fuel bounds the nesting depth of blocks and partials; exhausting it is the separate outcome Fuel *)
Fixpoint exec (fuel : nat) (E : env) (n : node) (c : ctx) {struct fuel} : outcome :=
  match fuel with
  | O => Fuel
  | S f => exec_step E (exec f E) n c
  end.

(* ------------------------------------------------------------------ the case the harness runs *)
Record case := Case {
  k_mode : mode; k_uk : ukind; k_flags : flags;
  k_loader : list (str * list node);
  k_args : ns; k_matter : ns; k_tglobals : ns; k_eglobals : ns;
  k_body : list node }.

Definition top_globals (k : case) : list ns := [k_args k; k_matter k; merge_globals (k_eglobals k) (k_tglobals k)].

Definition init_ctx (k : case) : ctx := Ctx [] [] (top_globals k) (top_globals k) [] [] [] None (k_flags k).

(* the generated cases use the modelled filters only *)
Definition no_filters : filter_table := fun _ _ v _ => Ok v.
Definition case_env (k : case) : env := Env (k_mode k) (k_uk k) (k_loader k) no_filters.

Definition run_fuel : nat := 40.     (* bounds the NESTING depth of blocks and partials only *)

Definition finish (o : outcome) : res str :=
  match o with
  | Fuel => OutOfFuel
  | Done _ out Normal => Ok out
  | Done _ _ (Raise e) => Err e
  | Done _ _ _ => Err EOtherForeign    (* an interrupt cannot leave a top-level template (proved) *)
  end.

Definition run_top (k : case) : outcome :=
  run_template (k_mode k) false false (exec run_fuel (case_env k)) (k_body k) (init_ctx k).

Definition run_case (k : case) : res str := finish (run_top k).

Definition res_str_eqb (a b : res str) : bool :=
  match a, b with
  | Ok x, Ok y => str_eqb x y
  | Err x, Err y => exn_eqb x y
  | OutOfFuel, OutOfFuel => true
  | _, _ => false
  end.

(* the same case under another undefined type (C16) *)
Definition with_uk (k : case) (u : ukind) : case :=
  Case (k_mode k) u (k_flags k) (k_loader k) (k_args k) (k_matter k) (k_tglobals k) (k_eglobals k) (k_body k).

(* ---- the old copy, for the recorded defect: an interpreter identical except for copy_old in render ---- *)
(* one level is enough for the witness: what a partial rendered from inside another partial resolves *)
Definition nested_partial_ctx_old (c : ctx) (outer_args inner_args : ns) : ctx :=
  copy_old (copy_old c outer_args [TInclude]) inner_args [TInclude].
Definition nested_partial_ctx (c : ctx) (outer_args inner_args : ns) : ctx :=
  copy (copy c outer_args [TInclude]) inner_args [TInclude].
