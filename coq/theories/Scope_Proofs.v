(* Scope_Proofs.v — lemmas about the scope chain, path resolution and the balance of pushed namespaces (C14). *)
From Coq Require Import String Ascii ZArith List Bool Lia ZifyBool.
From LiquidVerif Require Import Prelude PyPrims Scope.
Import ListNotations.

(* ------------------------------------------------------------------ association lists *)
Lemma alookup_dict_set {V} x k (v : V) l :
  alookup x (dict_set k v l) = if str_eqb x k then Some v else alookup x l.
Proof.
  induction l as [|[k' v'] l IH]; simpl.
  - reflexivity.
  - destruct (str_eqb_spec k k') as [->|Hkk']; simpl.
    + destruct (str_eqb x k'); reflexivity.
    + rewrite IH. destruct (str_eqb_spec x k') as [->|Hx]; [|reflexivity].
      destruct (str_eqb_spec k' k) as [E|_]; [congruence|reflexivity].
Qed.

Lemma alookup_dict_set_same {V} k (v : V) l : alookup k (dict_set k v l) = Some v.
Proof. rewrite alookup_dict_set, str_eqb_refl. reflexivity. Qed.

Lemma alookup_dict_set_other {V} x k (v : V) l : x <> k -> alookup x (dict_set k v l) = alookup x l.
Proof. intro H. rewrite alookup_dict_set. destruct (str_eqb_spec x k); congruence. Qed.

Lemma first_hit_app x a b :
  first_hit x (a ++ b) = match first_hit x a with Some v => Some v | None => first_hit x b end.
Proof. induction a as [|m a IH]; simpl; [reflexivity|]. destruct (alookup x m); [reflexivity|apply IH]. Qed.

Lemma alookup_counter_ns x c : alookup x (counter_ns c) = option_map VInt (alookup x (counters c)).
Proof.
  unfold counter_ns. induction (counters c) as [|[k n] l IH]; simpl; [reflexivity|].
  destruct (str_eqb x k); [reflexivity|apply IH].
Qed.

(* ------------------------------------------------------------------ the resolution order *)
(* a name resolves to the first namespace, in the documented order, that binds it *)
Lemma resolve_is_first_hit c x : resolve c x = first_hit x (chain c).
Proof.
  unfold resolve, chain. rewrite first_hit_app. destruct (first_hit x (scopes c)); [reflexivity|].
  cbn [app first_hit]. destruct (alookup x (locals c)); [reflexivity|].
  rewrite first_hit_app. destruct (first_hit x (gl c)); [reflexivity|].
  cbn [app first_hit]. destruct (alookup x builtin_ns); [reflexivity|].
  rewrite alookup_counter_ns. destruct (alookup x (counters c)); reflexivity.
Qed.

Lemma first_hit_skip x pre m post v :
  (forall m', In m' pre -> alookup x m' = None) -> alookup x m = Some v ->
  first_hit x (pre ++ m :: post) = Some v.
Proof.
  intros Hpre Hm. induction pre as [|p pre IH]; simpl.
  - rewrite Hm. reflexivity.
  - rewrite (Hpre p (or_introl eq_refl)). apply IH. intros m' Hin. apply Hpre. right. exact Hin.
Qed.

(* innermost binding: the namespaces in front of the binding one do not bind the name *)
Lemma resolve_innermost c x pre m post v :
  chain c = pre ++ m :: post -> (forall m', In m' pre -> alookup x m' = None) -> alookup x m = Some v ->
  resolve c x = Some v.
Proof. intros Hc Hpre Hm. rewrite resolve_is_first_hit, Hc. apply first_hit_skip; assumption. Qed.

Lemma first_hit_none x ms : (forall m, In m ms -> alookup x m = None) -> first_hit x ms = None.
Proof.
  induction ms as [|m ms IH]; simpl; intro H; [reflexivity|].
  rewrite (H m (or_introl eq_refl)). apply IH. intros m' Hin. apply H. right. exact Hin.
Qed.

(* a name bound nowhere in the chain is unresolved (and then evaluates to the undefined value) *)
Lemma resolve_missing c x : (forall m, In m (chain c) -> alookup x m = None) -> resolve c x = None.
Proof. intro H. rewrite resolve_is_first_hit. apply first_hit_none. exact H. Qed.

Lemma alookup_not_in {V} k (l : list (str * V)) : ~ In k (map fst l) -> alookup k l = None.
Proof.
  induction l as [|[k' v] l IH]; simpl; intro H; [reflexivity|].
  destruct (str_eqb_spec k k') as [->|Hn]; [exfalso; apply H; left; reflexivity|].
  apply IH. intro Hin. apply H. right. exact Hin.
Qed.

(* {**env.globals, **template_globals}: template globals take priority over environment globals
   (a Python dict has each key once) *)
Lemma merge_globals_lookup x eg tg :
  NoDup (map fst tg) ->
  alookup x (merge_globals eg tg) = match alookup x tg with Some v => Some v | None => alookup x eg end.
Proof.
  unfold merge_globals. revert eg. induction tg as [|[k v] tg IH]; intros eg Hnd; simpl; [reflexivity|].
  inversion Hnd as [|? ? Hk Hnd']; subst. rewrite IH by exact Hnd'.
  destruct (str_eqb_spec x k) as [->|Hx].
  - simpl in Hk. rewrite (alookup_not_in k tg Hk). apply alookup_dict_set_same.
  - destruct (alookup x tg); [reflexivity|]. apply alookup_dict_set_other. exact Hx.
Qed.

(* the order at the top level of a template: render arguments, front matter, template globals, environment
   globals, builtin objects (the counters are empty before the first increment) *)
Lemma resolve_top_level k x :
  NoDup (map fst (k_tglobals k)) ->
  resolve (init_ctx k) x = first_hit x [k_args k; k_matter k; k_tglobals k; k_eglobals k; builtin_ns].
Proof.
  intro Hnd. unfold resolve, init_ctx, top_globals. cbn [scopes locals gl counters first_hit alookup option_map].
  destruct (alookup x (k_args k)); [reflexivity|].
  destruct (alookup x (k_matter k)); [reflexivity|].
  rewrite merge_globals_lookup by exact Hnd.
  destruct (alookup x (k_tglobals k)); [reflexivity|].
  destruct (alookup x (k_eglobals k)); [reflexivity|].
  destruct (alookup x builtin_ns); reflexivity.
Qed.

(* ------------------------------------------------------------------ invariants of the block combinators *)
Section CtxInvariant.
  Variable J : ctx -> Prop.

  Lemma seq_nodes_inv run l :
    (forall n c c' o s, J c -> run n c = Done c' o s -> J c') ->
    forall c c' o s, J c -> seq_nodes run l c = Done c' o s -> J c'.
  Proof.
    intro Hrun. induction l as [|n l IH]; simpl; intros c c' o s Hc H.
    - inversion H; subst; exact Hc.
    - destruct (run n c) as [c1 o1 s1|] eqn:Hr; [|discriminate].
      pose proof (Hrun _ _ _ _ _ Hc Hr) as H1.
      destruct s1; try (inversion H; subst; exact H1).
      destruct (seq_nodes run l c1) as [c2 o2 s2|] eqn:Hs; [|discriminate].
      inversion H; subst. eapply IH; eauto.
  Qed.

  Lemma loop_items_inv catch run items :
    (forall c v i c' o s, J c -> run c v i = Done c' o s -> J c') ->
    forall i c c' o s, J c -> loop_items catch run items i c = Done c' o s -> J c'.
  Proof.
    intro Hrun. induction items as [|v items IH]; simpl; intros i c c' o s Hc H.
    - inversion H; subst; exact Hc.
    - destruct (run c v i) as [c1 o1 s1|] eqn:Hr; [|discriminate].
      pose proof (Hrun _ _ _ _ _ _ Hc Hr) as H1.
      destruct (loop_items catch run items (i + 1)%Z c1) as [c2 o2 s2|] eqn:Hl.
      + specialize (IH _ _ _ _ _ H1 Hl).
        destruct s1; [|destruct catch|destruct catch|]; inversion H; subst; assumption.
      + destruct s1; [|destruct catch|destruct catch|]; try discriminate; inversion H; subst; assumption.
  Qed.

  Lemma tmpl_nodes_inv md pr run l :
    (forall n c c' o s, J c -> run n c = Done c' o s -> J c') ->
    forall c c' o s, J c -> tmpl_nodes md pr run l c = Done c' o s -> J c'.
  Proof.
    intro Hrun. induction l as [|n l IH]; simpl; intros c c' o s Hc H.
    - inversion H; subst; exact Hc.
    - destruct (run n c) as [c1 o1 s1|] eqn:Hr; [|discriminate].
      pose proof (Hrun _ _ _ _ _ Hc Hr) as H1.
      destruct (tmpl_nodes md pr run l c1) as [c2 o2 s2|] eqn:Hl.
      + specialize (IH _ _ _ _ H1 Hl).
        destruct s1 as [| | |e]; [|destruct pr|destruct pr|]; try destruct md; try destruct (is_liquid _);
          inversion H; subst; assumption.
      + destruct s1 as [| | |e]; [|destruct pr|destruct pr|]; try destruct md; try destruct (is_liquid _);
          try discriminate; inversion H; subst; assumption.
  Qed.
End CtxInvariant.

(* the frame of a context: everything a node is NOT allowed to change — the pushed namespaces, the globals chain,
   the root globals and the disabled tags.  Only locals, counters and the macro table may differ afterwards. *)
Definition same_frame (c c' : ctx) : Prop :=
  scopes c' = scopes c /\ gl c' = gl c /\ base c' = base c /\ disabled c' = disabled c.

Lemma same_frame_refl c : same_frame c c.
Proof. repeat split. Qed.

Lemma same_frame_trans a b c : same_frame a b -> same_frame b c -> same_frame a c.
Proof. unfold same_frame. intros (A1 & A2 & A3 & A4) (B1 & B2 & B3 & B4). repeat split; congruence. Qed.

(* the frame below the innermost pushed namespace *)
Definition under (S : list ns) (c0 c : ctx) : Prop :=
  tl (scopes c) = S /\ scopes c <> [] /\ gl c = gl c0 /\ base c = base c0 /\ disabled c = disabled c0.

Definition frame_ok (run : node -> ctx -> outcome) : Prop :=
  forall n c c' o s, run n c = Done c' o s -> same_frame c c'.

Lemma lift_frame {A} (r : res A) c k c' o s :
  (forall a, k a = Done c' o s -> same_frame c c') -> lift r c k = Done c' o s -> same_frame c c'.
Proof.
  intros Hk H. destruct r; simpl in H.
  - apply Hk with a. exact H.
  - inversion H; subst. apply same_frame_refl.
  - discriminate.
Qed.

Lemma seq_nodes_frame run l c c' o s :
  frame_ok run -> seq_nodes run l c = Done c' o s -> same_frame c c'.
Proof.
  intros Hrun H. apply (seq_nodes_inv (same_frame c) run l) with (c := c) (o := o) (s := s); auto using same_frame_refl.
  intros n c1 c2 o2 s2 H1 H2. eapply same_frame_trans; [exact H1|]. eapply Hrun; eauto.
Qed.

(* a block run on a context with one more pushed namespace, which is popped afterwards *)
Lemma pushed_block_frame (blk : ctx -> outcome) c nsx c' o s :
  (forall c1 c2 o2 s2, blk c1 = Done c2 o2 s2 -> same_frame c1 c2) ->
  after (blk (push c nsx)) pop = Done c' o s -> same_frame c c'.
Proof.
  intros Hb H. unfold after in H. destruct (blk (push c nsx)) as [c1 o1 s1|] eqn:E; [|discriminate].
  inversion H; subst. apply Hb in E. destruct E as (E1 & E2 & E3 & E4).
  unfold same_frame, pop, push in *. simpl in *. rewrite E1. simpl. repeat split; assumption.
Qed.

Lemma run_template_frame md p pr run body c c' o s :
  frame_ok run -> run_template md p pr run body c = Done c' o s -> same_frame c c'.
Proof.
  intros Hrun H. unfold run_template in H. eapply pushed_block_frame; [|exact H].
  intros c1 c2 o2 s2 H2.
  apply (tmpl_nodes_inv (same_frame c1) md pr run body) with (c := c1) (o := o2) (s := s2); auto using same_frame_refl.
  intros n a b o3 s3 Ha Hb. eapply same_frame_trans; [exact Ha|]. eapply Hrun; eauto.
Qed.

Lemma under_set_head S c0 c nsx : under S c0 c -> under S c0 (set_head c nsx).
Proof. unfold under, set_head. simpl. intros (A & B & C & D & E). repeat split; auto. discriminate. Qed.

Lemma under_after_frame S c0 c c' : under S c0 c -> same_frame c c' -> under S c0 c'.
Proof.
  unfold under, same_frame. intros (A & B & C & D & E) (F & G & H & I). rewrite F, G, H, I. repeat split; assumption.
Qed.

(* THE BALANCE INVARIANT: whatever a node does — complete, break, continue or raise — the pushed namespaces
   (and the globals chain, root globals, disabled tags) are afterwards exactly what they were before *)
Lemma exec_step_frame E run : frame_ok run -> frame_ok (exec_step E run).
Proof.
  intros Hrun n c c' o s H. destruct n; simpl in H.
  - (* text *) inversion H; subst; apply same_frame_refl.
  - (* output *)
    eapply lift_frame; [|exact H]. intros v Hv. cbv beta in Hv. eapply lift_frame; [|exact Hv]. intros t Ht. cbv beta in Ht.
    inversion Ht; subst; apply same_frame_refl.
  - (* assign *)
    eapply lift_frame; [|exact H]. intros v Hv. cbv beta in Hv. inversion Hv; subst. repeat split.
  - (* capture *)
    destruct (seq_nodes run body c) as [c1 o1 s1|] eqn:Hs; [|discriminate].
    apply seq_nodes_frame in Hs; [|exact Hrun].
    destruct s1; inversion H; subst; exact Hs.
  - (* if *)
    eapply lift_frame; [|exact H]. intros b Hb. cbv beta in Hb. eapply seq_nodes_frame; [exact Hrun|exact Hb].
  - (* for *)
    eapply lift_frame; [|exact H]. intros items Hi. cbv beta in Hi. destruct items as [|v0 items0].
    + eapply seq_nodes_frame; [exact Hrun|exact Hi].
    + remember (v0 :: items0) as items.
      unfold after in Hi.
      match type of Hi with context [loop_items ?ca ?r ?it ?i ?cc] =>
        destruct (loop_items ca r it i cc) as [c1 o1 s1|] eqn:Hl; [|discriminate] end.
      inversion Hi; subst c' o s. clear Hi.
      assert (U : under (scopes c) c c1).
      { eapply (loop_items_inv (under (scopes c) c)); [| |exact Hl].
        - intros ci v i cj oj sj Hci Hb.
          apply seq_nodes_frame in Hb; [|exact Hrun].
          eapply under_after_frame; [|exact Hb]. apply under_set_head. exact Hci.
        - unfold under, push. simpl. repeat split; auto. discriminate. }
      destruct U as (A & B & C & D & F). unfold same_frame, pop. simpl. repeat split; assumption.
  - inversion H; subst; apply same_frame_refl.
  - inversion H; subst; apply same_frame_refl.
  - (* with *)
    eapply lift_frame; [|exact H]. intros nw Hw. cbv beta in Hw.
    eapply pushed_block_frame; [|exact Hw]. intros c1 c2 o2 s2 H2. eapply seq_nodes_frame; [exact Hrun|exact H2].
  - (* include *)
    destruct (is_disabled TInclude c); [inversion H; subst; apply same_frame_refl|].
    destruct (alookup name (e_loader E)) as [body|]; [|inversion H; subst; apply same_frame_refl].
    eapply lift_frame; [|exact H]. intros na Ha. cbv beta in Ha.
    unfold after in Ha.
    match type of Ha with match ?X with _ => _ end = _ => destruct X as [c1 o1 s1|] eqn:Hx; [|discriminate] end.
    inversion Ha; subst c' o s. clear Ha.
    assert (U : under (scopes c) c c1).
    { assert (U0 : under (scopes c) c (push c na)) by (unfold under, push; simpl; repeat split; auto; discriminate).
      destruct var as [[p alias]|].
      - unfold lift in Hx. destruct (eval_path (e_uk E) (push c na) p) as [v| |]; [|inversion Hx; subst; exact U0|discriminate].
        destruct (arraylike (e_uk E) v).
        + eapply (loop_items_inv (under (scopes c) c)); [| |exact Hx]; [|exact U0].
          intros ci itm i cj oj sj Hci Hb. apply run_template_frame in Hb; [|exact Hrun].
          eapply under_after_frame; [|exact Hb]. apply under_set_head. exact Hci.
        + apply run_template_frame in Hx; [|exact Hrun].
          eapply under_after_frame; [|exact Hx]. apply under_set_head. exact U0.
        + inversion Hx; subst; exact U0.
      - apply run_template_frame in Hx; [|exact Hrun]. eapply under_after_frame; eauto. }
    destruct U as (A & B & C & D & F). unfold same_frame, pop. simpl. repeat split; assumption.
  - (* render: the caller's context is returned as it was *)
    destruct (alookup name (e_loader E)) as [body|]; [|inversion H; subst; apply same_frame_refl].
    eapply lift_frame; [|exact H]. intros na Ha. cbv beta in Ha.
    destruct var as [[[p lp] alias]|].
    + eapply lift_frame; [|exact Ha]. intros v Hv. cbv beta in Hv.
      destruct (if lp then arraylike (e_uk E) v else ANot).
      * match type of Hv with match ?X with _ => _ end = _ => destruct X; [|discriminate] end.
        inversion Hv; subst; apply same_frame_refl.
      * match type of Hv with match ?X with _ => _ end = _ => destruct X; [|discriminate] end.
        inversion Hv; subst; apply same_frame_refl.
      * inversion Hv; subst; apply same_frame_refl.
    + match type of Ha with match ?X with _ => _ end = _ => destruct X; [|discriminate] end.
      inversion Ha; subst; apply same_frame_refl.
  - (* macro *) inversion H; subst. repeat split.
  - (* call *)
    destruct (alookup name (macros c)) as [[params body]|].
    + eapply lift_frame; [|exact H]. intros nm Hm. cbv beta in Hm.
      match type of Hm with match ?X with _ => _ end = _ => destruct X; [|discriminate] end.
      inversion Hm; subst; apply same_frame_refl.
    + eapply lift_frame; [|exact H]. intros t Ht. cbv beta in Ht. inversion Ht; subst; apply same_frame_refl.
  - inversion H; subst. repeat split.
  - inversion H; subst. repeat split.
  - (* block *)
    destruct (is_disabled TBlock c); [inversion H; subst; apply same_frame_refl|].
    destruct (overrides c) as [ovs|].
    + match type of H with match ?X with _ => _ end = _ => destruct X; [|discriminate] end.
      inversion H; subst; apply same_frame_refl.
    + eapply pushed_block_frame; [|exact H]. intros c1 c2 o2 s2 H2. eapply seq_nodes_frame; [exact Hrun|exact H2].
  - (* extends *)
    match type of H with context [alookup ?b (e_loader E)] =>
      destruct (alookup b (e_loader E)) as [body|]; [|inversion H; subst; apply same_frame_refl] end.
    unfold after in H.
    match type of H with match ?X with _ => _ end = _ => destruct X as [c1 o1 s1|] eqn:Hx; [|discriminate] end.
    inversion H; subst c' o s. apply run_template_frame in Hx; [|exact Hrun].
    destruct Hx as (A & B & C & D). repeat split; assumption.
Qed.

Theorem exec_frame fuel E : frame_ok (exec fuel E).
Proof.
  induction fuel as [|f IH].
  - intros n c c' o s H. discriminate.
  - simpl. apply exec_step_frame. exact IH.
Qed.

(* block-scoped names vanish after their block: the scopes after ANY node, on any signal, are the scopes before *)
Corollary exec_scopes_balanced fuel E n c c' o s :
  exec fuel E n c = Done c' o s -> scopes c' = scopes c.
Proof. intro H. apply exec_frame in H. apply H. Qed.

(* hence every name resolves after a node exactly as the locals/counters then say: nothing a block pushed is left *)
Corollary exec_block_names_vanish fuel E n c c' o s x :
  exec fuel E n c = Done c' o s -> locals c' = locals c -> counters c' = counters c -> resolve c' x = resolve c x.
Proof.
  intros H Hl Hc. apply exec_frame in H. destruct H as (A & B & _ & _).
  unfold resolve. rewrite A, B, Hl, Hc. reflexivity.
Qed.

(* ------------------------------------------------------------------ signals that can leave a template *)
Section SignalInvariant.
  Variable Sg : signal -> Prop.
  Lemma tmpl_nodes_signal md run l :
    Sg Normal -> (forall e, Sg (Raise e)) ->
    forall c c' o s, tmpl_nodes md false run l c = Done c' o s -> Sg s.
  Proof.
    intros HN HR. induction l as [|n l IH]; simpl; intros c c' o s H.
    - inversion H; subst; exact HN.
    - destruct (run n c) as [c1 o1 s1|]; [|discriminate].
      destruct (tmpl_nodes md false run l c1) as [c2 o2 s2|] eqn:Hl.
      + specialize (IH _ _ _ _ Hl).
        destruct s1 as [| | |e]; try destruct md; try destruct (is_liquid _); inversion H; subst; auto.
      + destruct s1 as [| | |e]; try destruct md; try destruct (is_liquid _); try discriminate; inversion H; subst; auto.
  Qed.
End SignalInvariant.

(* a break/continue never leaves a top-level template (or an isolated partial): it becomes a syntax error *)
Lemma run_template_no_interrupt md p run body c c' o s :
  run_template md p false run body c = Done c' o s -> s = Normal \/ exists e, s = Raise e.
Proof.
  unfold run_template, after. destruct (tmpl_nodes md false run body _) as [c1 o1 s1|] eqn:H; [|discriminate].
  intro E; inversion E; subst.
  eapply (tmpl_nodes_signal (fun s => s = Normal \/ exists e, s = Raise e)); eauto.
Qed.

Lemma run_case_never_interrupt k : run_case k <> Err EOtherForeign \/ exists c o, run_top k = Done c o (Raise EOtherForeign).
Proof.
  unfold run_case, finish. destruct (run_top k) as [c o s|] eqn:H.
  - apply run_template_no_interrupt in H. destruct H as [->|[e ->]].
    + left; discriminate.
    + destruct e; try (left; discriminate). right; eauto.
  - left; discriminate.
Qed.

(* ------------------------------------------------------------------ assign / capture write the locals *)
Lemma exec_assign_locals f E x e c v :
  eval_fexpr (e_filters E) (e_uk E) c e = Ok v ->
  exec (S f) E (NAssign x e) c = Done (assign c x v) [] Normal.
Proof. intro H. simpl. rewrite H. reflexivity. Qed.

(* whatever is pushed on the scopes, the assigned name lands in the locals with its new value, the scopes are untouched *)
Lemma assign_writes_locals c x v :
  alookup x (locals (assign c x v)) = Some v /\ scopes (assign c x v) = scopes c /\
  forall y, y <> x -> alookup y (locals (assign c x v)) = alookup y (locals c).
Proof.
  unfold assign. simpl. split; [apply alookup_dict_set_same|]. split; [reflexivity|].
  intros y Hy. apply alookup_dict_set_other. exact Hy.
Qed.

(* ... and is then what the name resolves to wherever no pushed namespace shadows it *)
Lemma assign_then_resolve c x v :
  first_hit x (scopes c) = None -> resolve (assign c x v) x = Some v.
Proof.
  intro H. unfold resolve. simpl. rewrite H. rewrite alookup_dict_set_same. reflexivity.
Qed.

Lemma exec_capture_locals f E x body c c1 o :
  seq_nodes (exec f E) body c = Done c1 o Normal ->
  exec (S f) E (NCapture x body) c = Done (assign c1 x (VStr o)) [] Normal.
Proof. intro H. simpl. rewrite H. reflexivity. Qed.

(* assignment from inside any nesting of with / for / if / capture blocks *)
Inductive frame :=
| FWith (args : list (str * expr))
| FFor (y : str) (a b : Z)
| FIf (cd : cond) (els : list node)
| FCapture (y : str).

Fixpoint wrap_frames (fs : list frame) (n : node) : node :=
  match fs with
  | [] => n
  | FWith args :: r => NWith args [wrap_frames r n]
  | FFor y a b :: r => NFor y (IRange a b) [wrap_frames r n] []
  | FIf cd els :: r => NIf cd [wrap_frames r n] els
  | FCapture y :: r => NCapture y [wrap_frames r n]
  end.

Definition frame_ok_for (x : str) (uk : ukind) (c : ctx) (f : frame) : Prop :=
  match f with
  | FFor _ a b => (a <= b)%Z
  | FCapture y => y <> x
  | FIf cd _ => forall c', eval_cond uk c' cd = Ok true
  | FWith _ => True
  end.

Lemma seq_single run n c : seq_nodes run [n] c =
  match run n c with Fuel => Fuel | Done c1 o1 Normal => Done c1 (o1 ++ []) Normal | Done c1 o1 s => Done c1 o1 s end.
Proof. simpl. destruct (run n c) as [c1 o1 s1|]; [|reflexivity]. destruct s1; reflexivity. Qed.

Definition ends_well (s : signal) : Prop := s = Normal \/ exists e, s = Raise e.

Lemma zrange_from_nonempty a n : (0 < n)%nat -> exists v r, map VInt (zrange_from a n) = v :: r.
Proof. destruct n; [lia|]. simpl. eauto. Qed.

(* the loop of a for tag whose body ends normally or raises: afterwards the invariant Q of the last body run holds *)
Lemma loop_items_last (Q : ctx -> Prop) run items :
  items <> [] ->
  (forall c v i c' o s, run c v i = Done c' o s -> ends_well s /\ (s = Normal -> Q c')) ->
  forall i c c' o s, loop_items true run items i c = Done c' o s -> ends_well s /\ (s = Normal -> Q c').
Proof.
  intros Hne Hrun. induction items as [|v items IH]; [congruence|]. clear Hne.
  intros i c c' o s H. simpl in H.
  destruct (run c v i) as [c1 o1 s1|] eqn:Hr; [|discriminate].
  destruct (Hrun _ _ _ _ _ _ Hr) as [Hw HQ].
  destruct Hw as [->|[e ->]].
  - destruct items as [|v2 items].
    + simpl in H. inversion H; subst. split; [left; reflexivity|]. intros _. apply HQ. reflexivity.
    + destruct (loop_items true run (v2 :: items) (i + 1)%Z c1) as [c2 o2 s2|] eqn:Hl; [|discriminate].
      inversion H; subst. eapply IH; [discriminate|exact Hl].
  - inversion H; subst. split; [right; eauto|]. discriminate.
Qed.

(* C14 "assign always writes the template's top-level scope": an assignment wrapped in any nesting of with, for
   (over a non-empty range), if (whose condition holds) and capture blocks leaves the assigned value in the LOCALS,
   visible after all the blocks have ended *)
Theorem assign_under_blocks uk : forall fs x lv fuel md ld ft c c' o s,
  (forall f c0, In f fs -> frame_ok_for x uk c0 f) ->
  exec fuel (Env md uk ld ft) (wrap_frames fs (NAssign x (FPlain (ELit lv) []))) c = Done c' o s ->
  ends_well s /\ (s = Normal -> alookup x (locals c') = Some (val_of_scalar lv)).
Proof.
  induction fs as [|f fs IH]; intros x lv fuel md ld ft c c' o s Hok H.
  - destruct fuel; [discriminate|]. simpl in H. inversion H; subst.
    split; [left; reflexivity|]. intros _. apply alookup_dict_set_same.
  - assert (Hok' : forall f0 c0, In f0 fs -> frame_ok_for x uk c0 f0) by (intros; apply Hok; right; assumption).
    destruct fuel as [|fuel]; [discriminate|].
    destruct f as [args|y a b|cd els|y]; simpl in H.
    + (* with *)
      unfold lift in H. destruct (eval_kwargs uk c args []) as [nw| |]; [| |discriminate].
      * unfold after in H.
        destruct (exec fuel (Env md uk ld ft) (wrap_frames fs _) (push c nw)) as [c1 o1 s1|] eqn:Hb; [|discriminate].
        apply IH in Hb; [|exact Hok']. destruct Hb as [Hw HQ].
        destruct s1; inversion H; subst; (split; [exact Hw|]); intro Hs; try discriminate.
        simpl. apply HQ. reflexivity.
      * inversion H; subst. split; [right; eauto|discriminate].
    + (* for *)
      pose proof (Hok (FFor y a b) c (or_introl eq_refl)) as Hab. simpl in Hab.
      unfold zrange_incl in H.
      destruct (zrange_from_nonempty a (Z.to_nat (b - a + 1))) as (v0 & r0 & Hv); [lia|].
      rewrite Hv in H. unfold after in H.
      match type of H with context [loop_items true ?r ?it ?i ?cc] =>
        destruct (loop_items true r it i cc) as [c1 o1 s1|] eqn:Hl; [|discriminate] end.
      inversion H; subst c' o s. clear H.
      apply (loop_items_last (fun c2 => alookup x (locals c2) = Some (val_of_scalar lv))) in Hl.
      * destruct Hl as [Hw HQ]. split; [exact Hw|]. intro Hs. simpl. apply HQ. exact Hs.
      * discriminate.
      * intros ci v i cj oj sj Hb. cbv beta in Hb.
        destruct (exec fuel (Env md uk ld ft) (wrap_frames fs _) _) as [c2 o2 s2|] eqn:Hb2; [|discriminate].
        apply IH in Hb2; [|exact Hok']. destruct Hb2 as [Hw HQ].
        destruct s2; inversion Hb; subst; (split; [exact Hw|]); intro Hs; try discriminate. apply HQ. reflexivity.
    + (* if *)
      pose proof (Hok (FIf cd els) c (or_introl eq_refl) c) as Hcd. simpl in Hcd. simpl in H. rewrite Hcd in H. simpl in H.
      destruct (exec fuel (Env md uk ld ft) (wrap_frames fs _) c) as [c1 o1 s1|] eqn:Hb; [|discriminate].
      apply IH in Hb; [|exact Hok']. destruct Hb as [Hw HQ].
      destruct s1; inversion H; subst; (split; [exact Hw|]); intro Hs; try discriminate. apply HQ. reflexivity.
    + (* capture *)
      pose proof (Hok (FCapture y) c (or_introl eq_refl)) as Hy. simpl in Hy.
      destruct (exec fuel (Env md uk ld ft) (wrap_frames fs _) c) as [c1 o1 s1|] eqn:Hb; [|discriminate].
      apply IH in Hb; [|exact Hok']. destruct Hb as [Hw HQ].
      destruct s1; inversion H; subst; (split; [exact Hw|]); intro Hs; try discriminate.
      simpl. rewrite alookup_dict_set_other; [apply HQ; reflexivity|]. congruence.
Qed.

(* ------------------------------------------------------------------ path rules *)
Definition restyle_seg (g : style -> style) (s : seg) : seg :=
  match s with SKey st k => SKey (g st) k | SNested r ks => SNested r ks end.
Definition restyle (g : style -> style) (p : path) : path := Path (p_root p) (map (restyle_seg g) (p_segs p)).

(* a.b, a['b'] and a["b"] are the same path *)
Lemma eval_path_restyle g uk c p : eval_path uk c (restyle g p) = eval_path uk c p.
Proof.
  unfold eval_path, restyle. simpl.
  assert (E : eval_segs uk c (map (restyle_seg g) (p_segs p)) = eval_segs uk c (p_segs p)).
  { induction (p_segs p) as [|s l IH]; simpl; [reflexivity|]. rewrite IH. destruct s; reflexivity. }
  rewrite E. reflexivity.
Qed.

Lemma zlen_nonneg {A} (l : list A) : (0 <= zlen l)%Z.
Proof. unfold zlen. lia. Qed.

(* a negative index counts from the end *)
Lemma py_index_negative {A} (l : list A) k :
  (1 <= k <= zlen l)%Z -> py_index l (- k) = nth_error l (Z.to_nat (zlen l - k)).
Proof.
  intro H. unfold py_index. cbn zeta.
  destruct (0 <=? - k)%Z eqn:E1; [lia|].
  destruct (0 <=? zlen l + - k)%Z eqn:E2; [|lia].
  f_equal; lia.
Qed.

Lemma py_index_nonneg {A} (l : list A) z :
  (0 <= z < zlen l)%Z -> py_index l z = nth_error l (Z.to_nat z).
Proof.
  intro H. unfold py_index. cbn zeta.
  destruct (0 <=? z)%Z eqn:E1; [|lia]. destruct (z <? zlen l)%Z eqn:E2; [reflexivity|lia].
Qed.

(* an index outside -len .. len-1 is missing *)
Lemma py_index_out_of_range {A} (l : list A) z :
  (z >= zlen l \/ z < - zlen l)%Z -> py_index l z = None.
Proof.
  intro H. unfold py_index. cbn zeta. pose proof (zlen_nonneg l).
  destruct (0 <=? z)%Z eqn:E1.
  - destruct (z <? zlen l)%Z eqn:E2; [lia|reflexivity].
  - destruct (0 <=? zlen l + z)%Z eqn:E2; [lia|reflexivity].
Qed.

Lemma str_eqb_slit_neq a b : str_eqb (slit a) (slit b) = false -> slit a <> slit b.
Proof. intros H E. rewrite E, str_eqb_refl in H. discriminate. Qed.

(* the size / first / last table *)
Lemma get_item_size_list g l : get_item g (VList l) (KS s_size) = Some (VInt (zlen l)).
Proof. reflexivity. Qed.
Lemma get_item_size_str g s : get_item g (VStr s) (KS s_size) = Some (VInt (zlen s)).
Proof. reflexivity. Qed.
Lemma get_item_size_dict g d :
  get_item g (VDict d) (KS s_size) = match alookup s_size d with Some v => Some v | None => Some (VInt (zlen d)) end.
Proof. unfold get_item. simpl. destruct (alookup s_size d); reflexivity. Qed.
Lemma get_item_size_scalar g v :
  match v with VNil | VBool _ | VInt _ | VBuiltin => True | _ => False end -> get_item g v (KS s_size) = None.
Proof. destruct v; simpl; intro H; try contradiction; reflexivity. Qed.
Lemma get_item_first_list g l : get_item g (VList l) (KS s_first) = hd_error l.
Proof. destruct l; reflexivity. Qed.
Lemma get_item_last_list g l : get_item g (VList l) (KS s_last) = py_index l (-1).
Proof. reflexivity. Qed.
Lemma get_item_first_dict g d :
  get_item g (VDict d) (KS s_first) =
  match alookup s_first d with
  | Some v => Some v
  | None => match d with (k0, v0) :: _ => Some (VTuple [VStr k0; v0]) | [] => None end
  end.
Proof. unfold get_item. simpl. destruct (alookup s_first d); [reflexivity|]. destruct d as [|[k0 v0] d]; reflexivity. Qed.
(* strings: first / last are characters exactly when string_first_and_last is set; an index is a character exactly when
   string_sequences is set; size never depends on the flags; a name never subscripts a string *)
Lemma get_item_first_str g s :
  get_item g (VStr s) (KS s_first) = if fl_first_last g then option_map char_val (hd_error s) else None.
Proof. reflexivity. Qed.
Lemma get_item_last_str g s :
  get_item g (VStr s) (KS s_last) = if fl_first_last g then option_map char_val (py_index s (-1)) else None.
Proof. reflexivity. Qed.
Lemma get_item_index_str g s z :
  get_item g (VStr s) (KI z) = if fl_sequences g then option_map char_val (py_index s z) else None.
Proof. reflexivity. Qed.
Lemma get_item_first_last_str s : get_item default_flags (VStr s) (KS s_first) = None /\ get_item default_flags (VStr s) (KS s_last) = None.
Proof. split; reflexivity. Qed.
(* lists and dicts ignore the flags altogether *)
Lemma get_item_list_flags g g' l k : get_item g (VList l) k = get_item g' (VList l) k.
Proof. destruct k as [s| |]; reflexivity. Qed.
Lemma get_item_dict_flags g g' d k : get_item g (VDict d) k = get_item g' (VDict d) k.
Proof. destruct k as [s| |]; reflexivity. Qed.
Lemma get_item_index_list g l z : get_item g (VList l) (KI z) = py_index l z.
Proof. reflexivity. Qed.
Lemma get_item_name_dict g d s :
  str_eqb s s_size = false -> str_eqb s s_first = false -> str_eqb s s_last = false ->
  get_item g (VDict d) (KS s) = alookup s d.
Proof. intros A B C. unfold get_item. rewrite A, B, C. reflexivity. Qed.

(* anything missing resolves to the undefined value and, with the default undefined type, never to an error *)
Lemma walk_default_total g obj ks : exists v, walk g UDefault obj ks = Ok v.
Proof.
  revert obj. induction ks as [|k ks IH]; intro obj; simpl; [eauto|].
  unfold step_item. simpl. rewrite andb_false_r.
  destruct obj; try (destruct (get_item _ _); [apply IH|eauto]). apply IH.
Qed.

Lemma eval_simple_default_total c r ks : exists v, eval_simple UDefault c r ks = Ok v.
Proof. unfold eval_simple. destruct (resolve c r); [apply walk_default_total|eauto]. Qed.

Lemma eval_segs_default_total c ss : exists vs, eval_segs UDefault c ss = Ok vs.
Proof.
  induction ss as [|s ss [vs IH]]; simpl; [eauto|].
  destruct s as [st k|r ks]; simpl.
  - rewrite IH. simpl. eauto.
  - destruct (eval_simple_default_total c r ks) as [v ->]. simpl. rewrite IH. simpl. eauto.
Qed.

Theorem eval_path_default_total c p : exists v, eval_path UDefault c p = Ok v.
Proof.
  unfold eval_path. destruct (eval_segs_default_total c (p_segs p)) as [vs ->]. simpl.
  destruct (resolve c (p_root p)); [apply walk_default_total|eauto].
Qed.

(* a path whose root is bound nowhere is undefined, whatever follows the root *)
Lemma eval_path_missing_root c p :
  resolve c (p_root p) = None -> eval_path UDefault c p = Ok VUndef.
Proof.
  intro H. unfold eval_path. destruct (eval_segs_default_total c (p_segs p)) as [vs ->]. simpl. rewrite H. reflexivity.
Qed.

(* a path that leaves the data at some segment is undefined from there on *)
Lemma walk_missing_segment g uk obj k ks :
  step_item g uk obj k = SMissing -> walk g uk obj (k :: ks) = Ok VUndef.
Proof. intro H. simpl. rewrite H. reflexivity. Qed.

(* ------------------------------------------------------------------ include shares the caller's scope *)
(* a variable assigned by an included partial is assigned in the CALLER's locals *)
Lemma include_shares_assign f E name x lv c :
  is_disabled TInclude c = false ->
  alookup name (e_loader E) = Some [NAssign x (FPlain (ELit lv) [])] ->
  exec (S (S f)) E (NInclude name None []) c = Done (assign c x (val_of_scalar lv)) [] Normal.
Proof.
  intros Hd Hl. cbn [exec]. unfold exec_step at 1. rewrite Hd, Hl. cbn [eval_kwargs lift].
  unfold run_template, after. cbn [tmpl_nodes]. cbn [exec exec_step eval_fexpr eval_expr apply_filters bind lift].
  destruct (e_mode E); destruct c; reflexivity.
Qed.

(* an included partial reads the caller's variables: block scopes, locals, everything *)
Lemma include_shares_read f E name y c v t :
  is_disabled TInclude c = false ->
  alookup name (e_loader E) = Some [NOut (FPlain (EPath (Path y [])) [])] ->
  y <> s_partial ->
  resolve c y = Some v -> to_output (e_uk E) v = Ok t ->
  exec (S (S f)) E (NInclude name None []) c = Done c t Normal.
Proof.
  intros Hd Hl Hy Hr Ht. cbn [exec]. unfold exec_step at 1. rewrite Hd, Hl. cbn [eval_kwargs lift].
  unfold run_template, after. cbn [tmpl_nodes]. cbn [exec exec_step eval_fexpr eval_expr apply_filters bind lift].
  assert (R : resolve (push (push c []) [(s_partial, VBool true)]) y = Some v).
  { unfold resolve, push. cbn [scopes locals gl counters set_scopes first_hit alookup].
    destruct (str_eqb_spec y s_partial) as [E0|_]; [congruence|]. exact Hr. }
  unfold eval_path. cbn [p_segs p_root eval_segs bind]. rewrite R. cbn [walk bind lift]. rewrite Ht. cbn [lift].
  rewrite app_nil_r. destruct (e_mode E); destruct c; reflexivity.
Qed.
