(* ExprLex.v — char-level model of the expression tokenizer liquid/builtin/expressions/_tokenize.py:
   the ordered rule list  RANGE_LITERAL \((?=[^(]+?\.\.)  IDENTINDEX \[\s*(-?\d+)\s*]  IDENTSTRING \[\s*(["'])(.*?)\1\s*]
   STRING (["'])(.*?)\1  RANGE \.\.  FLOAT -?\d+\.(?!\.)\d*  INTEGER -?\d+\b  DOT  WORD \w[\w\-]*\??  ( ) [ ] : ,  || |
   OP [!=<>]{1,2}  SKIP [ \n\t\r]+  ILLEGAL .   (re.DOTALL), the keyword table, the operator table, and
   start_index = parent_token.start_index + match.start().  Executable definitions only.
   \w and \d are modelled on ASCII (non-ASCII letters and digits are outside the model); \s is str.isspace. *)
From LiquidVerif Require Import Prelude Lex.

Inductive ekind :=
| ERangeLit | EIdentIndex | EIdentString | EString | ERange | EFloat | EInteger | EDot | EWord
| EKeyword                      (* the token's kind IS its value: true false nil ... *)
| ELparen | ERparen | ELbracket | ERbracket | EColon | EComma | EDpipe | EPipe
| EEq | ENe | ELtGt | ELt | EGt | ELe | EGe | EAssign.

Record etoken := { e_kind : ekind; e_value : str; e_start : N }.

(* the token carried by the LiquidSyntaxError of the tokenizer: kind "illegal" or "OP" *)
Inductive eitem := ETok (t : etoken) | EErrIllegal (value : str) (start : N) | EErrOp (value : str) (start : N).

Definition is_digit (c : N) : bool := ((48 <=? c) && (c <=? 57))%N.
Definition is_quote (c : N) : bool := (N.eqb c 39 || N.eqb c 34)%N.
Definition is_eskip (c : N) : bool := (N.eqb c 32 || N.eqb c 10 || N.eqb c 9 || N.eqb c 13)%N.
Definition is_opchar (c : N) : bool := (N.eqb c 33 || N.eqb c 61 || N.eqb c 60 || N.eqb c 62)%N.
Definition is_wordish (c : N) : bool := is_word c || N.eqb c hy.

Definition c_lparen : N := 40.  Definition c_rparen : N := 41.
Definition c_lbrack : N := 91.  Definition c_rbrack : N := 93.
Definition c_dot : N := 46.     Definition c_colon : N := 58.
Definition c_comma : N := 44.   Definition c_pipe : N := 124.
Definition c_qmark : N := 63.

Definition hd_is (c : N) (s : str) : bool := match s with x :: _ => N.eqb x c | [] => false end.

(* (?=[^(]+?\.\.) after the first character of the look-ahead has been taken: ".." here, or a non-"(" and again *)
Fixpoint rl_search (s : str) : bool :=
  prefixb [c_dot; c_dot] s ||
  match s with
  | c :: t => negb (N.eqb c c_lparen) && rl_search t
  | [] => false
  end.

Definition rl_ahead (r : str) : bool :=
  match r with c :: t => negb (N.eqb c c_lparen) && rl_search t | [] => false end.

(* the closing part of IDENTSTRING at the current position:  q \s* ]  *)
Definition qclose_bracket (q : N) (x : str) : option (unit * nat) :=
  match x with
  | c :: x' => if N.eqb c q then
                 let k2 := ws_len x' in
                 if hd_is c_rbrack (skipn k2 x') then Some (tt, 1 + k2 + 1) else None
               else None
  | [] => None
  end.

Definition qclose (q : N) (x : str) : option (unit * nat) :=
  match x with c :: _ => if N.eqb c q then Some (tt, 1) else None | [] => None end.

Definition kw (l : list N) : str := l.
Definition keywords : list str :=
  [ [116;114;117;101]; [102;97;108;115;101]; [110;105;108]; [110;117;108;108]; [101;109;112;116;121]; [98;108;97;110;107];
    [97;110;100]; [111;114]; [99;111;110;116;97;105;110;115]; [110;111;116]; [105;110]; [111;102;102;115;101;116];
    [108;105;109;105;116]; [114;101;118;101;114;115;101;100]; [99;111;108;115]; [99;111;110;116;105;110;117;101];
    [119;105;116;104]; [102;111;114]; [97;115]; [105;102]; [101;108;115;101]; [114;101;113;117;105;114;101;100] ]%N.

Definition is_keyword (v : str) : bool := existsb (str_eqb v) keywords.

(* operators[value] for values made of ! = < > ; None = KeyError *)
Definition op_kind (v : str) : option ekind :=
  if str_eqb v [61; 61]%N then Some EEq else if str_eqb v [33; 61]%N then Some ENe
  else if str_eqb v [60; 62]%N then Some ELtGt else if str_eqb v [60]%N then Some ELt
  else if str_eqb v [62]%N then Some EGt else if str_eqb v [60; 61]%N then Some ELe
  else if str_eqb v [62; 61]%N then Some EGe else if str_eqb v [61]%N then Some EAssign else None.

(* one match at the current position: kind, offset and length of the token's value inside the match, length of
   the match *)
Inductive eres :=
| EM (k : ekind) (voff vlen tot : nat)
| ESkipM (tot : nat)
| EBadOp (tot : nat)
| EIllegalM.

Definition neg_len (s : str) : nat := if hd_is hy s then 1 else 0.

Definition m_identindex (r : str) : option (nat * nat * nat) :=      (* r = text after "[" *)
  let k := ws_len r in
  let r2 := skipn k r in
  let ng := neg_len r2 in
  let r3 := skipn ng r2 in
  let dl := span_len is_digit r3 in
  match dl with
  | O => None
  | _ => let r4 := skipn dl r3 in
         let k2 := ws_len r4 in
         if hd_is c_rbrack (skipn k2 r4) then Some (1 + k, ng + dl, 1 + k + (ng + dl) + k2 + 1) else None
  end.

Definition m_identstring (r : str) : option (nat * nat * nat) :=
  let k := ws_len r in
  match skipn k r with
  | q :: x => if is_quote q then
                match find_first (qclose_bracket q) x with
                | Some (j, _, n) => Some (1 + k + 1, j, 1 + k + 1 + n)
                | None => None
                end
              else None
  | [] => None
  end.

Definition m_number (s : str) : option (ekind * nat) :=               (* FLOAT, then INTEGER *)
  let ng := neg_len s in
  let r := skipn ng s in
  let dl := span_len is_digit r in
  match dl with
  | O => None
  | _ => let a := skipn dl r in
         if hd_is c_dot a && negb (hd_is c_dot (tl a)) then
           Some (EFloat, ng + dl + 1 + span_len is_digit (tl a))
         else match a with
              | c :: _ => if is_word c then None else Some (EInteger, ng + dl)
              | [] => Some (EInteger, ng + dl)
              end
  end.

Definition ematch (s : str) : eres :=
  match s with
  | [] => EIllegalM
  | c :: r =>
      if N.eqb c c_lparen && rl_ahead r then EM ERangeLit 0 1 1 else
      match (if N.eqb c c_lbrack then m_identindex r else None) with
      | Some (vo, vl, tot) => EM EIdentIndex vo vl tot
      | None =>
      match (if N.eqb c c_lbrack then m_identstring r else None) with
      | Some (vo, vl, tot) => EM EIdentString vo vl tot
      | None =>
      match (if is_quote c then find_first (qclose c) r else None) with
      | Some (j, _, n) => EM EString 1 j (1 + n)
      | None =>
      if prefixb [c_dot; c_dot] s then EM ERange 0 2 2 else
      match m_number s with
      | Some (k, n) => EM k 0 n n
      | None =>
      if N.eqb c c_dot then EM EDot 0 1 1 else
      if is_word c then
        let n := 1 + span_len is_wordish r in
        let n' := if hd_is c_qmark (skipn n s) then S n else n in
        EM (if is_keyword (firstn n' s) then EKeyword else EWord) 0 n' n'
      else if N.eqb c c_lparen then EM ELparen 0 1 1
      else if N.eqb c c_rparen then EM ERparen 0 1 1
      else if N.eqb c c_lbrack then EM ELbracket 0 1 1
      else if N.eqb c c_rbrack then EM ERbracket 0 1 1
      else if N.eqb c c_colon then EM EColon 0 1 1
      else if N.eqb c c_comma then EM EComma 0 1 1
      else if N.eqb c c_pipe then (if hd_is c_pipe r then EM EDpipe 0 2 2 else EM EPipe 0 1 1)
      else if is_opchar c then
        let n := match r with c2 :: _ => if is_opchar c2 then 2 else 1 | [] => 1 end in
        match op_kind (firstn n s) with Some k => EM k 0 n n | None => EBadOp n end
      else if is_eskip c then ESkipM (1 + span_len is_eskip r)
      else EIllegalM
      end end end end
  end.

(* finditer + the generator: tokens until the first error *)
Fixpoint ego (skip : nat) (p : N) (s : str) : list eitem :=
  match s with
  | [] => []
  | _ :: s' =>
      match skip with
      | S k => ego k (N.succ p) s'
      | O =>
          match ematch s with
          | EM k vo vl tot => ETok {| e_kind := k; e_value := sub s vo vl; e_start := p |} :: ego (pred tot) (N.succ p) s'
          | ESkipM tot => ego (pred tot) (N.succ p) s'
          | EBadOp tot => [EErrOp (firstn tot s) p]
          | EIllegalM => [EErrIllegal (firstn 1 s) p]
          end
      end
  end.

(* tokenize(source, parent_token): base = parent_token.start_index *)
Definition etokenize (base : N) (src : str) : list eitem := ego 0 base src.

(* where, relative to the token's start, its value sits in the source: strings after the quote, bracketed
   identifiers after "[", optional whitespace and (strings) the quote *)
Definition value_offset (k : ekind) (rest_after_first : str) : nat :=
  match k with
  | EString => 1
  | EIdentIndex => 1 + ws_len rest_after_first
  | EIdentString => 2 + ws_len rest_after_first
  | _ => 0
  end.

(* ---------------------------------------------------------------- observations for the correspondence run *)
Definition ekind_eqb (a b : ekind) : bool :=
  match a, b with
  | ERangeLit, ERangeLit | EIdentIndex, EIdentIndex | EIdentString, EIdentString | EString, EString | ERange, ERange
  | EFloat, EFloat | EInteger, EInteger | EDot, EDot | EWord, EWord | EKeyword, EKeyword | ELparen, ELparen
  | ERparen, ERparen | ELbracket, ELbracket | ERbracket, ERbracket | EColon, EColon | EComma, EComma | EDpipe, EDpipe
  | EPipe, EPipe | EEq, EEq | ENe, ENe | ELtGt, ELtGt | ELt, ELt | EGt, EGt | ELe, ELe | EGe, EGe | EAssign, EAssign => true
  | _, _ => false
  end.

Definition eitem_eqb (a b : eitem) : bool :=
  match a, b with
  | ETok x, ETok y => ekind_eqb (e_kind x) (e_kind y) && str_eqb (e_value x) (e_value y) && N.eqb (e_start x) (e_start y)
  | EErrIllegal v p, EErrIllegal w q | EErrOp v p, EErrOp w q => str_eqb v w && N.eqb p q
  | _, _ => false
  end.

Record ecase := { ec_base : N; ec_src : str }.
Definition run_etokens (c : ecase) : list eitem := etokenize (ec_base c) (ec_src c).
Definition eitems_eqb (a b : list eitem) : bool := list_eqb eitem_eqb a b.
