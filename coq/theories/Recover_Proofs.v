(* Proofs about Recover.v (the enlarged tag language): progress of the parser (fuel = number of tokens + 1, tokens inside
   liquid tags included, is never exhausted), totality of lax mode, warn mode = lax mode + one warning per suppressed error,
   and invariance of an error-free strict run. *)
From Coq Require Import List Bool Arith Lia.
From LiquidVerif Require Import Prelude Recover.
Import ListNotations.

Definition len (st : stream) : nat := tsize (toks st).

(* ------------------------------------------------------------------------------------------------ stream facts *)
Lemma tok_size_pos t : 1 <= tok_size t.
Proof. destruct t as [| | | | | |[l|]]; simpl; lia. Qed.

Lemma tsize_liquid l : tok_size (TLiquid (Some l)) = S (tsize l).
Proof. reflexivity. Qed.

Lemma len_adv st : len (adv st) <= len st.
Proof. unfold len, adv; simpl. destruct (toks st); simpl; lia. Qed.

Lemma len_adv_cons st t r : toks st = t :: r -> S (len (adv st)) <= len st.
Proof. unfold len, adv; simpl. intros ->. simpl. pose proof (tok_size_pos t). lia. Qed.

Lemma cur_is_tag_cons n st : cur_is_tag n st = true -> exists n' r, toks st = TTag n' :: r.
Proof. unfold cur_is_tag. destruct (toks st) as [|[] r]; try discriminate. eauto. Qed.

Lemma cur_is_expr_cons st : cur_is_expr st = true -> exists t r, toks st = t :: r.
Proof. unfold cur_is_expr. destruct (toks st) as [|t r]; try discriminate. eauto. Qed.

Lemma len_eat_to s ts : tsize (eat_to s ts) <= tsize ts.
Proof.
  induction ts as [|t r IH]; [simpl; lia|]. pose proof (tok_size_pos t).
  destruct t; cbn [eat_to]; try (cbn [tsize]; lia). destruct (tmem n s); cbn [tsize]; lia.
Qed.

Lemma len_eat_block s st : len (eat_block s st) <= len st.
Proof. unfold len, eat_block; simpl. apply len_eat_to. Qed.

Lemma len_skip_junk ts : tsize (skip_junk ts) <= tsize ts.
Proof.
  induction ts as [|t r IH]; [simpl; lia|]. pose proof (tok_size_pos t).
  destruct t; cbn [skip_junk]; try (cbn [tsize]; lia). destruct (smem _ _); cbn [tsize]; lia.
Qed.

Lemma len_doc_scan ts : tsize (snd (doc_scan ts)) <= tsize ts.
Proof.
  induction ts as [|t r IH]; [simpl; lia|]. pose proof (tok_size_pos t).
  destruct t; cbn [doc_scan]; try (cbn [tsize]; lia). destruct n; cbn [snd tsize]; lia.
Qed.

(* ------------------------------------------------------------------------------------------------ progress *)
(* a result is good for n: it is not fuel exhaustion and leaves at most n tokens *)
Definition good {A} (n : nat) (x : pres A) : Prop :=
  match x with POk _ st _ | PErr _ st _ => len st <= n | PFuel => False end.

Lemma good_mono {A} n n' (x : pres A) : n <= n' -> good n x -> good n' x.
Proof. destruct x; simpl; lia. Qed.

Lemma good_pbind {A B} n (x : pres A) (k : A -> stream -> log -> pres B) :
  good n x -> (forall a st l, len st <= n -> good n (k a st l)) -> good n (pbind x k).
Proof. destruct x; simpl; auto. Qed.

Lemma good_handled {B} n m e st l (k : log -> pres B) :
  len st <= n -> (forall l', good n (k l')) -> good n (handled m e st l k).
Proof. unfold handled, handle. destruct m; simpl; auto. Qed.

Lemma inner_len m eat st :
  match inner m eat st with
  | inl (_, st') => len st' <= len st /\ (eat = true -> S (len st') <= len st)
  | inr (_, st') => len st' <= len st
  end.
Proof.
  unfold inner. destruct (toks st) as [|t r] eqn:E; [lia|]. pose proof (len_adv st). pose proof (len_adv_cons st _ _ E).
  destruct t; try lia.
  - destruct (pexpr m q); destruct eat; try (split; [|intro]); try lia; try discriminate.
  - destruct eat; lia.
Qed.

Section Progress.
  Variable m : mode.
  Variable pb : list tname -> stream -> log -> pres block.
  Variable g : nat.
  Hypothesis Hpb : forall stops st l, S (len st) <= g -> good (len st) (pb stops st l).

  Lemma pb_good n stops st l : S (len st) <= g -> len st <= n -> good n (pb stops st l).
  Proof. intros. eapply good_mono; [|apply Hpb]; lia. Qed.

  Lemma elsifs_good : forall k endt st l, S (len st) <= k -> len st <= g -> good (len st) (p_elsifs m pb k endt st l).
  Proof.
    induction k as [|k IH]; intros endt st l Hk Hg; [lia|].
    simpl. destruct (cur_is_tag Nelsif st) eqn:Et; [|simpl; lia].
    destruct (cur_is_tag_cons _ _ Et) as (n' & r & Er). pose proof (len_adv_cons _ _ _ Er) as Ha.
    pose proof (inner_len m true (adv st)) as Hi. destruct (inner m true (adv st)) as [[c st']|[e st']].
    - destruct Hi as [Hi _]. apply (good_mono (len (adv st))); [lia|].
      apply good_pbind; [apply pb_good; lia|]. intros b st2 l2 H2.
      apply good_pbind.
      + eapply good_mono; [|apply IH]; lia.
      + intros oa st3 l3 H3. simpl. lia.
    - destruct (exn_eqb e ESyntax); [|simpl; lia].
      apply good_handled; [lia|]. intros l'. simpl. pose proof (len_eat_block [endt; Nelsif; Nelse] st'). lia.
  Qed.

  Lemma cases_good : forall k st l, S (len st) <= k -> len st <= g -> good (len st) (p_cases m pb k st l).
  Proof.
    induction k as [|k IH]; intros st l Hk Hg; [lia|].
    simpl. destruct (cur_is_tag Nendcase st) eqn:E1; [simpl; lia|].
    destruct (cur_is_tag Nelse st) eqn:E2.
    { destruct (cur_is_tag_cons _ _ E2) as (n' & r & Er). pose proof (len_adv_cons _ _ _ Er) as Ha.
      apply (good_mono (len (adv st))); [lia|].
      apply good_pbind; [apply pb_good; lia|]. intros b st2 l2 H2.
      apply good_pbind; [eapply good_mono; [|apply IH]; lia|]. intros; simpl; lia. }
    destruct (cur_is_tag Nwhen st) eqn:E3; [|simpl; lia].
    destruct (cur_is_tag_cons _ _ E3) as (n' & r & Er). pose proof (len_adv_cons _ _ _ Er) as Ha.
    assert (Hgen : good (len st) (match inner m true (adv st) with
                                  | inr (e, st') => PErr e st' l
                                  | inl (r0, st') => pbind (pb endwhen st' l) (fun b st2 l2 =>
                                      pbind (p_cases m pb k st2 l2) (fun c st3 l3 => POk (CWhen r0 b c) st3 l3)) end)).
    { pose proof (inner_len m true (adv st)) as Hi. destruct (inner m true (adv st)) as [[c st']|[e st']]; [|simpl; lia].
      destruct Hi as [Hi _]. apply (good_mono (len (adv st))); [lia|].
      apply good_pbind; [apply pb_good; lia|]. intros b st2 l2 H2.
      apply good_pbind; [eapply good_mono; [|apply IH]; lia|]. intros; simpl; lia. }
    change (tl (toks st)) with (toks (adv st)). destruct (toks (adv st)) as [|t2 r2] eqn:E4; try exact Hgen. destruct t2; try exact Hgen. destruct q; try exact Hgen.
    pose proof (len_adv_cons _ _ _ E4) as Ha2. cbv zeta.
    apply good_handled; [lia|]. intros l'. apply (good_mono (len (adv (adv st)))); [lia|].
    apply good_pbind; [apply pb_good; lia|]. intros b st2 l2 H2.
    apply good_pbind; [eapply good_mono; [|apply IH]; lia|]. intros; simpl; lia.
  Qed.

  (* the shapes shared by several tags *)
  Lemma inline_good mk st l t r : toks st = t :: r -> good (len st) (p_inline m mk st l).
  Proof.
    intros Er. pose proof (len_adv_cons _ _ _ Er). pose proof (inner_len m false (adv st)) as Hi. unfold p_inline.
    destruct (inner m false (adv st)) as [[c st2]|[e st2]]; simpl; [destruct Hi|]; lia.
  Qed.

  Lemma block1_good mk endt st l t r : toks st = t :: r -> len st <= g -> good (len st) (p_block1 m pb mk endt st l).
  Proof.
    intros Er Hg. pose proof (len_adv_cons _ _ _ Er) as Ha. pose proof (inner_len m true (adv st)) as Hi. unfold p_block1.
    destruct (inner m true (adv st)) as [[c st2]|[e st2]]; [|simpl; lia]. destruct Hi as [Hi _].
    apply (good_mono (len (adv st))); [lia|].
    apply good_pbind; [apply pb_good; lia|]. intros body st3 l3 H3. destruct (cur_is_tag endt st3); simpl; lia.
  Qed.

  (* every parse method, entered on a token, leaves at most the tokens it was given *)
  Lemma parse_of_good n st l t r : toks st = t :: r -> len st <= g -> good (len st) (parse_of m pb g n st l).
  Proof.
    intros Er Hg. pose proof (len_adv_cons _ _ _ Er) as Ha.
    pose proof (inner_len m true (adv st)) as Hi. pose proof (inner_len m false (adv st)) as Hi'.
    assert (Hill : good (len st) (p_illegal st l)).
    { unfold p_illegal. simpl. destruct (cur_is_expr (adv st)); lia. }
    assert (Hif : forall neg, good (len st) (p_if m pb g neg st l)).
    { intros neg. unfold p_if. destruct (inner m true (adv st)) as [[c st2]|[e st2]]; [|simpl; lia]. destruct Hi as [Hi _].
      apply (good_mono (len (adv st))); [lia|].
      apply good_pbind; [apply pb_good; lia|]. intros cns st3 l3 H3.
      apply good_pbind; [eapply good_mono; [|apply elsifs_good]; lia|]. intros [a|] st4 l4 H4; [|simpl; lia].
      apply good_pbind.
      + destruct (cur_is_tag Nelse st4) eqn:E; [|simpl; lia].
        destruct (cur_is_tag_cons _ _ E) as (n' & r' & Er'). pose proof (len_adv_cons _ _ _ Er') as Ha'.
        pose proof (len_adv (adv st4)). destruct (cur_is_expr (adv st4)); apply pb_good; lia.
      + intros d st5 l5 H5. cbv zeta. pose proof (len_eat_block [if neg then Nendunless else Nendif] st5).
        destruct (cur_is_tag _ (eat_block _ st5)); simpl; lia. }
    destruct n; cbn [parse_of]; try exact Hill; try apply Hif; try (eapply inline_good; eassumption);
      try (eapply block1_good; eassumption).
    - (* for *) unfold p_for. destruct (inner m true (adv st)) as [[c st2]|[e st2]]; [|simpl; lia]. destruct Hi as [Hi _].
      apply (good_mono (len (adv st))); [lia|].
      apply good_pbind; [apply pb_good; lia|]. intros body st3 l3 H3.
      apply good_pbind.
      + destruct (cur_is_tag Nelse st3) eqn:E; [|simpl; lia].
        destruct (cur_is_tag_cons _ _ E) as (n' & r' & Er'). pose proof (len_adv_cons _ _ _ Er') as Ha'. apply pb_good; lia.
      + intros d st4 l4 H4. destruct (cur_is_tag Nendfor st4); simpl; lia.
    - (* break *) unfold p_leaf. simpl. lia.
    - (* continue *) unfold p_leaf. simpl. lia.
    - (* case *) unfold p_case. destruct (inner m true (adv st)) as [[c st2]|[e st2]]; [|simpl; lia]. destruct Hi as [Hi _].
      pose proof (len_skip_junk (toks st2)) as Hj. fold (len st2) in Hj.
      apply (good_mono (len (adv st))); [lia|].
      apply good_pbind.
      + eapply good_mono; [|apply cases_good]; unfold len in *; simpl in *; lia.
      + intros; simpl; lia.
    - (* echo *) unfold p_echo. destruct (toks (adv st)); [simpl; lia|].
      destruct (inner m false (adv st)) as [[c st2]|[e st2]]; simpl; [destruct Hi'|]; lia.
    - (* liquid *) unfold p_liquid. destruct (toks (adv st)) as [|t2 r2] eqn:E2; [simpl; lia|].
      destruct t2 as [| |q| | | |oi]; try (simpl; lia). destruct oi as [il|]; [|simpl; lia].
      assert (Hin : S (tsize il) <= len (adv st)) by (unfold len; rewrite E2; cbn [tsize]; rewrite tsize_liquid; lia).
      pose proof (Hpb [] {| toks := il; depth := depth st |} l ltac:(unfold len; simpl; lia)) as Hb.
      destruct (pb [] {| toks := il; depth := depth st |} l); simpl in *; lia || contradiction.
    - (* comment *) unfold p_comment. cbv zeta. pose proof (len_eat_block [Nendcomment] (adv st)).
      destruct (cur_is_tag _ (eat_block _ (adv st))); simpl; lia.
    - (* doc *) unfold p_doc. cbv zeta. destruct (cur_is_expr (adv st)); [simpl; lia|].
      pose proof (len_doc_scan (toks (adv st))) as Hd. destruct (doc_scan (toks (adv st))) as [ok ts]. simpl in Hd.
      destruct ok; simpl; unfold len, adv in Ha |- *; simpl in Ha |- *; lia.
    - (* inline comment *) unfold p_hash. destruct (toks (adv st)) as [|t2 r2]; [simpl; lia|].
      destruct t2; try (simpl; lia). destruct (pexpr m q); simpl; lia.
    - (* ifchanged *) unfold p_ifchanged. apply (good_mono (len (adv st))); [lia|].
      apply good_pbind; [apply pb_good; lia|]. intros body st3 l3 H3. destruct (cur_is_tag Nendifchanged st3); simpl; lia.
    - (* block *) unfold p_blocktag. destruct (inner m true (adv st)) as [[c st2]|[e st2]]; [|simpl; lia]. destruct Hi as [Hi _].
      apply (good_mono (len (adv st))); [lia|].
      apply good_pbind; [apply pb_good; lia|]. intros body st3 l3 H3.
      destruct (cur_is_tag Nendblock st3); [|simpl; lia]. destruct (cur_is_expr (adv st3)); [|simpl; lia].
      pose proof (inner_len m false (adv st3)) as Hj. pose proof (len_adv st3).
      destruct (inner m false (adv st3)) as [[c' st4]|[e st4]]; simpl; [destruct Hj|]; lia.
    - (* translate *) unfold p_translate. cbv zeta. pose proof (inner_len m true (adv st)) as Hk.
      assert (Hargs : match (if cur_is_expr (adv st) then inner m true (adv st) else inl (RVal [] 0, adv st)) with
                      | inl (_, s2) | inr (_, s2) => len s2 <= len (adv st) end).
      { destruct (cur_is_expr (adv st)); [|lia]. destruct (inner m true (adv st)) as [[c s2]|[e s2]]; [destruct Hk|]; lia. }
      destruct (if cur_is_expr (adv st) then inner m true (adv st) else inl (RVal [] 0, adv st)) as [[c st2]|[e st2]]; [|simpl; lia].
      apply (good_mono (len (adv st))); [lia|].
      apply good_pbind; [apply pb_good; lia|]. intros sing st3 l3 H3. destruct (valid_msg sing); [|simpl; lia].
      apply good_pbind.
      + destruct (cur_is_tag Nplural st3) eqn:E; [|simpl; lia].
        destruct (cur_is_tag_cons _ _ E) as (n' & r' & Er'). pose proof (len_adv_cons _ _ _ Er') as Ha'. apply pb_good; lia.
      + intros plur st4 l4 H4. destruct (valid_msg plur); [|simpl; lia]. destruct (cur_is_tag Nendtranslate st4); simpl; lia.
  Qed.

  Lemma get_node_good n parse endt st l : good n (parse st l) -> good n (get_node m parse endt st l).
  Proof.
    unfold get_node. destruct (parse st l) as [a st' l'|e st' l'|]; simpl; auto. intros H.
    destruct (is_liquid e); [|exact H]. apply good_handled; auto. intros l2. simpl. destruct endt; auto. pose proof (len_eat_block [t] st'). lia.
  Qed.

  Lemma pnode_good st l t r : toks st = t :: r -> len st <= g -> good (len st) (pnode m pb g st l).
  Proof.
    intros Er Hg. pose proof (len_adv_cons _ _ _ Er) as Ha. unfold pnode. rewrite Er.
    assert (Hc : good (len st) (get_node m p_content None st l)).
    { apply get_node_good. unfold p_content. destruct (toks st) as [|[]]; simpl; lia. }
    destruct t; try exact Hc.
    - apply get_node_good. unfold p_output. pose proof (inner_len m false (adv st)) as Hi.
      destruct (inner m false (adv st)) as [[c st2]|[e st2]]; simpl; [destruct Hi|]; lia.
    - apply get_node_good. eapply parse_of_good; eauto.
    - apply get_node_good. unfold p_leaf. simpl. lia.
  Qed.
End Progress.

Lemma pblock_of_good lim loop stops st l :
  good (len st) (loop stops {| toks := toks st; depth := S (depth st) |} l) -> good (len st) (pblock_of lim loop stops st l).
Proof.
  intros H. unfold pblock_of. destruct (Nat.ltb lim (depth {| toks := toks st; depth := S (depth st) |})); [simpl; unfold len; simpl; lia|].
  apply good_pbind; auto.
Qed.

(* the loop of _parse / parse_block never runs out of fuel when given one unit more than there are tokens,
   and never returns with more tokens than it was given *)
Lemma ploop_good m lim : forall f stops st l, S (len st) <= f -> good (len st) (ploop m lim f stops st l).
Proof.
  induction f as [|f IH]; intros stops st l Hf; [lia|].
  simpl. destruct (toks st) as [|t r] eqn:Er; [simpl; lia|].
  destruct (is_stop stops t); [simpl; lia|].
  assert (Hlen : 1 <= len st) by (unfold len; rewrite Er; cbn [tsize]; pose proof (tok_size_pos t); lia).
  assert (Hpb : forall stops' st' l', S (len st') <= f -> good (len st') (pblock_of lim (ploop m lim f) stops' st' l')).
  { intros. apply pblock_of_good. apply (IH stops' {| toks := toks st'; depth := S (depth st') |} l'). exact H. }
  pose proof (pnode_good m _ f Hpb st l t r Er ltac:(lia)) as Hn.
  assert (Hadv : forall st', len st' <= len st -> S (len (adv st')) <= f /\ len (adv st') <= len st).
  { intros st' H'. pose proof (len_adv st'). destruct (toks st') as [|t' r'] eqn:E'.
    - unfold len, adv in *. rewrite E' in *. simpl in *. lia.
    - pose proof (len_adv_cons _ _ _ E'). lia. }
  destruct (pnode m (pblock_of lim (ploop m lim f)) f st l) as [n st' l'|e st' l'|]; simpl in Hn; [| |contradiction].
  - destruct (Hadv st' Hn). apply good_pbind.
    + eapply good_mono; [|apply IH]; lia.
    + intros; simpl; lia.
  - destruct (Hadv st' Hn). destruct (is_liquid e); [|simpl; lia].
    apply good_handled; [lia|]. intros l2. eapply good_mono; [|apply IH]; lia.
Qed.

Theorem parse_progress m lim f ts : S (tsize ts) <= f -> parse_fuel m lim f ts <> OutOfFuel.
Proof.
  intros Hf. unfold parse_fuel.
  pose proof (ploop_good m lim f [] {| toks := ts; depth := 0 |} log0 Hf) as H.
  destruct (ploop m lim f [] {| toks := ts; depth := 0 |} log0); simpl in H; try discriminate. contradiction.
Qed.


(* ------------------------------------------------------------------------------------------------ lax and warn never raise *)
Lemma get_node_noerr m parse endt st l : m <> Strict ->
  forall e st' l', get_node m parse endt st l = PErr e st' l' -> is_liquid e = false.
Proof.
  intros Hm e st' l'. unfold get_node. destruct (parse st l) as [a s1 l1|e1 s1 l1|]; try discriminate.
  destruct (is_liquid e1) eqn:El; [|intros H; inversion H; subst; exact El].
  unfold handled, handle. destruct m; try contradiction; discriminate.
Qed.

Lemma pnode_noerr m pb g st l : m <> Strict -> forall e st' l', pnode m pb g st l = PErr e st' l' -> is_liquid e = false.
Proof. intros Hm. unfold pnode. destruct (toks st) as [|[]]; apply get_node_noerr; auto. Qed.

(* in warn and lax mode the only exceptions that leave the parser are non-Liquid ones raised by an expression parser *)
Lemma ploop_noerr m lim : m <> Strict ->
  forall f stops st l e st' l', ploop m lim f stops st l = PErr e st' l' -> is_liquid e = false.
Proof.
  intros Hm. induction f as [|f IH]; intros stops st l e st' l'; [discriminate|].
  simpl. destruct (toks st) as [|t r]; [discriminate|]. destruct (is_stop stops t); [discriminate|].
  pose proof (pnode_noerr m (pblock_of lim (ploop m lim f)) f st l Hm) as Hn.
  destruct (pnode m (pblock_of lim (ploop m lim f)) f st l) as [n s1 l1|e1 s1 l1|]; [| |discriminate].
  - simpl. pose proof (IH stops (adv s1) l1) as H. destruct (ploop m lim f stops (adv s1) l1); simpl; try discriminate.
    intros E; inversion E; subst. eapply H. reflexivity.
  - rewrite (Hn _ _ _ eq_refl). intros E; inversion E; subst. eapply Hn. reflexivity.
Qed.

(* ------------------------------------------------------------------------------------------------ one simulation, two uses *)
(* Two runs of the parser on the same tokens, under modes m1 and m2, with logs related by lr.  flag = true is the use
   "m1 is strict mode and only its successful runs matter"; flag = false is the use "the two runs agree step by step". *)
Section Sim.
  Variables (m1 m2 : mode) (flag : bool) (lr : log -> log -> Prop).

  Definition G {A} (x y : pres A) : Prop :=
    match x with
    | POk a st l => exists l', y = POk a st l' /\ lr l l'
    | PErr e st l => if flag then True else exists l', y = PErr e st l' /\ lr l l'
    | PFuel => if flag then True else y = PFuel
    end.

  Lemma G_ok {A} (a : A) st l l' : lr l l' -> G (POk a st l) (POk a st l').
  Proof. simpl; eauto. Qed.

  Lemma G_err {A} e st l l' (y : pres A) : lr l l' -> (flag = false -> y = PErr e st l') -> G (PErr e st l) y.
  Proof. intros H Hy. unfold G. destruct flag; auto. exists l'; auto. Qed.

  Lemma G_pbind {A B} (x y : pres A) (k k' : A -> stream -> log -> pres B) :
    G x y -> (forall a st l l', lr l l' -> G (k a st l) (k' a st l')) -> G (pbind x k) (pbind y k').
  Proof.
    intros H Hk. destruct x as [a st l|e st l|]; simpl in H.
    - destruct H as (l' & -> & Hl). simpl. auto.
    - simpl. destruct flag eqn:F; [exact I|]. destruct H as (l' & -> & Hl). simpl. eauto.
    - simpl. destruct flag eqn:F; [exact I|]. subst y. reflexivity.
  Qed.

  Hypothesis H_flag : flag = true -> m1 = Strict.
  Hypothesis H_inner : forall eat st,
    match inner m1 eat st with inl x => inner m2 eat st = inl x | inr s => flag = false -> inner m2 eat st = inr s end.
  Hypothesis H_handled : forall B e st l l' (k k' : log -> pres B),
    lr l l' -> (forall l2 l2', lr l2 l2' -> G (k l2) (k' l2')) -> G (handled m1 e st l k) (handled m2 e st l' k').

  Lemma G_strict_handled {B} e st l (k : log -> pres B) (z : pres B) : flag = true -> G (handled m1 e st l k) z.
  Proof. intros F. rewrite (H_flag F). unfold handled, handle, G. rewrite F. exact I. Qed.

  Variables pb1 pb2 : list tname -> stream -> log -> pres block.
  Hypothesis Hpb : forall stops st l l', lr l l' -> G (pb1 stops st l) (pb2 stops st l').

  Ltac gerr := match goal with H : lr ?la ?lb |- G (PErr _ _ ?la) _ => apply G_err with (l' := lb); [exact H|] end.
  Ltac inner_cases eat st c st2 Hi :=
    pose proof (H_inner eat st) as Hi; destruct (inner m1 eat st) as [[c st2]|[e0 st2]]; [rewrite Hi|].

  (* the expression parser alone, read off H_inner on a one-token stream *)
  Lemma H_pexpr q : match pexpr m1 q with inr r => pexpr m2 q = inr r | inl e => flag = false -> pexpr m2 q = inl e end.
  Proof.
    pose proof (H_inner false {| toks := [TExpr q]; depth := 0 |}) as H. unfold inner in H. simpl in H.
    destruct (pexpr m1 q) as [e|r]; destruct (pexpr m2 q) as [e'|r']; try congruence.
    - intros F. specialize (H F). congruence.
    - intros F. specialize (H F). congruence.
  Qed.

  Lemma sim_elsifs : forall g endt st l l', lr l l' -> G (p_elsifs m1 pb1 g endt st l) (p_elsifs m2 pb2 g endt st l').
  Proof.
    induction g as [|g IH]; intros endt st l l' Hl; simpl.
    { destruct flag; auto. }
    destruct (cur_is_tag Nelsif st); [|apply G_ok; auto].
    inner_cases true (adv st) c st2 Hi.
    - apply G_pbind; [apply Hpb; auto|]. intros b s2 l2 l2' H2.
      apply G_pbind; [apply IH; auto|]. intros oa s3 l3 l3' H3. apply G_ok; auto.
    - case_eq flag; intros F.
      + destruct (exn_eqb e0 ESyntax); [apply G_strict_handled; auto|]. unfold G. rewrite F. exact I.
      + rewrite (Hi F). destruct (exn_eqb e0 ESyntax); [|gerr; auto]. apply H_handled; auto. intros. apply G_ok; auto.
  Qed.

  Lemma sim_cases : forall g st l l', lr l l' -> G (p_cases m1 pb1 g st l) (p_cases m2 pb2 g st l').
  Proof.
    induction g as [|g IH]; intros st l l' Hl; simpl.
    { destruct flag; auto. }
    destruct (cur_is_tag Nendcase st); [apply G_ok; auto|].
    destruct (cur_is_tag Nelse st).
    { apply G_pbind; [apply Hpb; auto|]. intros b s2 l2 l2' H2.
      apply G_pbind; [apply IH; auto|]. intros c s3 l3 l3' H3. apply G_ok; auto. }
    destruct (cur_is_tag Nwhen st); [|gerr; auto].
    assert (Hgen : G (match inner m1 true (adv st) with
                      | inr (e, st') => PErr e st' l
                      | inl (r0, st') => pbind (pb1 endwhen st' l) (fun b st2 l2 =>
                          pbind (p_cases m1 pb1 g st2 l2) (fun c st3 l3 => POk (CWhen r0 b c) st3 l3)) end)
                     (match inner m2 true (adv st) with
                      | inr (e, st') => PErr e st' l'
                      | inl (r0, st') => pbind (pb2 endwhen st' l') (fun b st2 l2 =>
                          pbind (p_cases m2 pb2 g st2 l2) (fun c st3 l3 => POk (CWhen r0 b c) st3 l3)) end)).
    { inner_cases true (adv st) c st2 Hi.
      - apply G_pbind; [apply Hpb; auto|]. intros b s2 l2 l2' H2.
        apply G_pbind; [apply IH; auto|]. intros c' s3 l3 l3' H3. apply G_ok; auto.
      - gerr. intros F. rewrite (Hi F). reflexivity. }
    change (tl (toks st)) with (toks (adv st)). destruct (toks (adv st)) as [|t2 r2]; try exact Hgen. destruct t2; try exact Hgen. destruct q; try exact Hgen.
    cbv zeta. apply H_handled; auto. intros l2 l2' H2.
    apply G_pbind; [apply Hpb; auto|]. intros b s2 l3 l3' H3.
    apply G_pbind; [apply IH; auto|]. intros c' s3 l4 l4' H4. apply G_ok; auto.
  Qed.

  Lemma sim_if g neg st l l' : lr l l' -> G (p_if m1 pb1 g neg st l) (p_if m2 pb2 g neg st l').
  Proof.
    intros Hl. unfold p_if. inner_cases true (adv st) c st2 Hi.
    - apply G_pbind; [apply Hpb; auto|]. intros cns s3 l3 l3' H3.
      apply G_pbind; [apply sim_elsifs; auto|]. intros [a|] s4 l4 l4' H4; [|apply G_ok; auto].
      apply G_pbind.
      + destruct (cur_is_tag Nelse s4); [apply Hpb; auto|apply G_ok; auto].
      + intros d s5 l5 l5' H5. cbv zeta. destruct (cur_is_tag _ (eat_block _ s5)); [apply G_ok; auto|gerr; auto].
    - gerr. intros F. rewrite (Hi F). reflexivity.
  Qed.

  Lemma sim_for st l l' : lr l l' -> G (p_for m1 pb1 st l) (p_for m2 pb2 st l').
  Proof.
    intros Hl. unfold p_for. inner_cases true (adv st) c st2 Hi.
    - apply G_pbind; [apply Hpb; auto|]. intros body s3 l3 l3' H3.
      apply G_pbind.
      + destruct (cur_is_tag Nelse s3); [apply Hpb; auto|apply G_ok; auto].
      + intros d s4 l4 l4' H4. destruct (cur_is_tag Nendfor s4); [apply G_ok; auto|gerr; auto].
    - gerr. intros F. rewrite (Hi F). reflexivity.
  Qed.

  Lemma sim_inline mk st l l' : lr l l' -> G (p_inline m1 mk st l) (p_inline m2 mk st l').
  Proof.
    intros Hl. unfold p_inline. inner_cases false (adv st) c st2 Hi; [apply G_ok; auto|].
    gerr. intros F. rewrite (Hi F). reflexivity.
  Qed.

  Lemma sim_block1 mk endt st l l' : lr l l' -> G (p_block1 m1 pb1 mk endt st l) (p_block1 m2 pb2 mk endt st l').
  Proof.
    intros Hl. unfold p_block1. inner_cases true (adv st) c st2 Hi.
    - apply G_pbind; [apply Hpb; auto|]. intros body s3 l3 l3' H3.
      destruct (cur_is_tag endt s3); [apply G_ok; auto|gerr; auto].
    - gerr. intros F. rewrite (Hi F). reflexivity.
  Qed.

  Lemma sim_blocktag st l l' : lr l l' -> G (p_blocktag m1 pb1 st l) (p_blocktag m2 pb2 st l').
  Proof.
    intros Hl. unfold p_blocktag. inner_cases true (adv st) c st2 Hi.
    - apply G_pbind; [apply Hpb; auto|]. intros body s3 l3 l3' H3.
      destruct (cur_is_tag Nendblock s3); [|gerr; auto]. destruct (cur_is_expr (adv s3)); [|apply G_ok; auto].
      inner_cases false (adv s3) c' st4 Hj; [apply G_ok; auto|]. gerr. intros F. rewrite (Hj F). reflexivity.
    - gerr. intros F. rewrite (Hi F). reflexivity.
  Qed.

  Lemma sim_ifchanged st l l' : lr l l' -> G (p_ifchanged pb1 st l) (p_ifchanged pb2 st l').
  Proof.
    intros Hl. unfold p_ifchanged. apply G_pbind; [apply Hpb; auto|]. intros body s3 l3 l3' H3.
    destruct (cur_is_tag Nendifchanged s3); [apply G_ok; auto|gerr; auto].
  Qed.

  Lemma sim_translate st l l' : lr l l' -> G (p_translate m1 pb1 st l) (p_translate m2 pb2 st l').
  Proof.
    intros Hl. unfold p_translate. cbv zeta.
    assert (Hrest : forall st2, G
      (pbind (pb1 [Nendtranslate; Nplural] st2 l) (fun sing st3 l3 =>
         if valid_msg sing then
           pbind (if cur_is_tag Nplural st3 then pb1 [Nendtranslate] (adv st3) l3 else POk BNil st3 l3) (fun plur st4 l4 =>
             if valid_msg plur then if cur_is_tag Nendtranslate st4 then POk (NTranslate sing plur) st4 l4 else PErr ESyntax st4 l4
             else PErr ESyntax st4 l4)
         else PErr ESyntax st3 l3))
      (pbind (pb2 [Nendtranslate; Nplural] st2 l') (fun sing st3 l3 =>
         if valid_msg sing then
           pbind (if cur_is_tag Nplural st3 then pb2 [Nendtranslate] (adv st3) l3 else POk BNil st3 l3) (fun plur st4 l4 =>
             if valid_msg plur then if cur_is_tag Nendtranslate st4 then POk (NTranslate sing plur) st4 l4 else PErr ESyntax st4 l4
             else PErr ESyntax st4 l4)
         else PErr ESyntax st3 l3))).
    { intros st2. apply G_pbind; [apply Hpb; auto|]. intros sing s3 l3 l3' H3. destruct (valid_msg sing); [|gerr; auto].
      apply G_pbind.
      - destruct (cur_is_tag Nplural s3); [apply Hpb; auto|apply G_ok; auto].
      - intros plur s4 l4 l4' H4. destruct (valid_msg plur); [|gerr; auto].
        destruct (cur_is_tag Nendtranslate s4); [apply G_ok; auto|gerr; auto]. }
    destruct (cur_is_expr (adv st)); [|apply Hrest].
    inner_cases true (adv st) c st2 Hi; [apply Hrest|]. gerr. intros F. rewrite (Hi F). reflexivity.
  Qed.

  Lemma sim_liquid st l l' : lr l l' -> G (p_liquid pb1 st l) (p_liquid pb2 st l').
  Proof.
    intros Hl. unfold p_liquid. destruct (toks (adv st)) as [|t2 r2]; [apply G_ok; auto|].
    destruct t2 as [| |q| | | |oi]; try (apply G_ok; auto); [gerr; auto|]. destruct oi as [il|]; [|gerr; auto].
    pose proof (Hpb [] {| toks := il; depth := depth st |} l l' Hl) as H.
    destruct (pb1 [] {| toks := il; depth := depth st |} l) as [b s1 l1|e s1 l1|]; simpl in H.
    - destruct H as (l1' & -> & H1). apply G_ok; auto.
    - case_eq flag; intros F; rewrite F in H.
      + unfold G. rewrite F. exact I.
      + destruct H as (l1' & -> & H1). gerr; auto.
    - case_eq flag; intros F; rewrite F in H; unfold G; rewrite F; auto. rewrite H. reflexivity.
  Qed.

  Lemma sim_hash st l l' : lr l l' -> G (p_hash m1 st l) (p_hash m2 st l').
  Proof.
    intros Hl. unfold p_hash. destruct (toks (adv st)) as [|t2 r2]; [apply G_ok; auto|].
    destruct t2; try (apply G_ok; auto). pose proof (H_pexpr q) as Hq.
    destruct (pexpr m1 q) as [e|r]; [|rewrite Hq; apply G_ok; auto].
    gerr. intros F. rewrite (Hq F). reflexivity.
  Qed.

  Lemma sim_case g st l l' : lr l l' -> G (p_case m1 pb1 g st l) (p_case m2 pb2 g st l').
  Proof.
    intros Hl. unfold p_case. inner_cases true (adv st) c st2 Hi.
    - apply G_pbind; [apply sim_cases; auto|]. intros bs s4 l4 l4' H4. apply G_ok; auto.
    - gerr. intros F. rewrite (Hi F). reflexivity.
  Qed.

  Lemma sim_parse_of g n st l l' : lr l l' -> G (parse_of m1 pb1 g n st l) (parse_of m2 pb2 g n st l').
  Proof.
    intros Hl.
    assert (Hill : G (p_illegal st l) (p_illegal st l')) by (unfold p_illegal; gerr; auto).
    destruct n; cbn [parse_of]; try exact Hill; try (apply sim_if; auto); try (apply sim_inline; auto); try (apply sim_block1; auto).
    - apply sim_for; auto.
    - unfold p_leaf. apply G_ok; auto.
    - unfold p_leaf. apply G_ok; auto.
    - apply sim_case; auto.
    - unfold p_echo. destruct (toks (adv st)); [apply G_ok; auto|].
      inner_cases false (adv st) c st2 Hi; [apply G_ok; auto|]. gerr. intros F. rewrite (Hi F). reflexivity.
    - apply sim_liquid; auto.
    - unfold p_comment. cbv zeta. destruct (cur_is_tag _ (eat_block _ (adv st))); [apply G_ok; auto|gerr; auto].
    - unfold p_doc. cbv zeta. destruct (cur_is_expr (adv st)); [gerr; auto|].
      destruct (doc_scan (toks (adv st))) as [ok ts]. destruct ok; [apply G_ok; auto|gerr; auto].
    - apply sim_hash; auto.
    - apply sim_ifchanged; auto.
    - apply sim_blocktag; auto.
    - apply sim_translate; auto.
  Qed.

  Lemma sim_get_node parse1 parse2 endt st l l' :
    lr l l' -> G (parse1 st l) (parse2 st l') -> G (get_node m1 parse1 endt st l) (get_node m2 parse2 endt st l').
  Proof.
    intros Hl H. unfold get_node. destruct (parse1 st l) as [a s1 l1|e s1 l1|]; simpl in H.
    - destruct H as (l1' & -> & H1). apply G_ok; auto.
    - case_eq flag; intros F.
      + destruct (is_liquid e); [apply G_strict_handled; auto|]. unfold G. rewrite F. exact I.
      + rewrite F in H. destruct H as (l1' & -> & H1). destruct (is_liquid e); [|gerr; auto].
        apply H_handled; auto. intros. apply G_ok; auto.
    - simpl. case_eq flag; intros F; rewrite F in H; auto. rewrite H. reflexivity.
  Qed.

  Lemma sim_pnode g st l l' : lr l l' -> G (pnode m1 pb1 g st l) (pnode m2 pb2 g st l').
  Proof.
    intros Hl. unfold pnode.
    assert (Hc : G (get_node m1 p_content None st l) (get_node m2 p_content None st l')).
    { apply sim_get_node; auto. unfold p_content. destruct (toks st) as [|[]]; try (gerr; auto). apply G_ok; auto. }
    destruct (toks st) as [|[]]; try exact Hc.
    - apply sim_get_node; auto. unfold p_output. inner_cases false (adv st) c st2 Hi; [apply G_ok; auto|].
      gerr. intros F. rewrite (Hi F). reflexivity.
    - apply sim_get_node; auto. apply sim_parse_of; auto.
    - apply sim_get_node; auto. unfold p_leaf. apply G_ok; auto.
  Qed.
End Sim.

Section SimLoop.
  Variables (m1 m2 : mode) (flag : bool) (lr : log -> log -> Prop) (lim : nat).
  Hypothesis H_flag : flag = true -> m1 = Strict.
  Hypothesis H_inner : forall eat st,
    match inner m1 eat st with inl x => inner m2 eat st = inl x | inr s => flag = false -> inner m2 eat st = inr s end.
  Hypothesis H_handled : forall B e st l l' (k k' : log -> pres B),
    lr l l' -> (forall l2 l2', lr l2 l2' -> G flag lr (k l2) (k' l2')) -> G flag lr (handled m1 e st l k) (handled m2 e st l' k').

  Lemma sim_pblock_of loop1 loop2 :
    (forall stops st l l', lr l l' -> G flag lr (loop1 stops st l) (loop2 stops st l')) ->
    forall stops st l l', lr l l' -> G flag lr (pblock_of lim loop1 stops st l) (pblock_of lim loop2 stops st l').
  Proof.
    intros H stops st l l' Hl. unfold pblock_of. destruct (Nat.ltb lim _).
    - apply G_err with (l' := l'); auto.
    - apply G_pbind; auto. intros. apply G_ok; auto.
  Qed.

  Lemma sim_ploop : forall f stops st l l', lr l l' -> G flag lr (ploop m1 lim f stops st l) (ploop m2 lim f stops st l').
  Proof.
    induction f as [|f IH]; intros stops st l l' Hl; simpl.
    { destruct flag; auto. }
    destruct (toks st) as [|t r]; [apply G_ok; auto|].
    destruct (is_stop stops t); [apply G_ok; auto|].
    pose proof (sim_pnode m1 m2 flag lr H_flag H_inner H_handled _ _ (sim_pblock_of _ _ IH) f st l l' Hl) as Hn.
    destruct (pnode m1 (pblock_of lim (ploop m1 lim f)) f st l) as [n s1 l1|e s1 l1|]; simpl in Hn.
    - destruct Hn as (l1' & -> & H1). apply G_pbind; [apply IH; auto|]. intros. apply G_ok; auto.
    - destruct (Sumbool.sumbool_of_bool flag) as [F|F].
      + destruct (is_liquid e); [apply G_strict_handled with (m1 := m1); auto|]. unfold G. rewrite F. exact I.
      + rewrite F in Hn. destruct Hn as (l1' & -> & H1). destruct (is_liquid e); [|apply G_err with (l' := l1'); auto].
        apply H_handled; auto.
    - destruct (Sumbool.sumbool_of_bool flag) as [F|F]; rewrite F in Hn; [simpl; rewrite F; exact I|]. rewrite Hn. simpl. rewrite F. reflexivity.
  Qed.
End SimLoop.

(* ---- use 1: warn mode against lax mode ---- *)
Definition lrel (lw ll : log) : Prop := suppressed lw = suppressed ll /\ emitted lw = suppressed lw /\ emitted ll = [].

Lemma inner_warn_lax eat st : inner Warn eat st = inner Lax eat st.
Proof. unfold inner. destruct (toks st) as [|[| |[]| | | |]]; reflexivity. Qed.

Lemma handled_warn_lax B e st l l' (k k' : log -> pres B) :
  lrel l l' -> (forall l2 l2', lrel l2 l2' -> G false lrel (k l2) (k' l2')) -> G false lrel (handled Warn e st l k) (handled Lax e st l' k').
Proof.
  intros (H1 & H2 & H3) Hk. unfold handled, handle. apply Hk. unfold lrel; simpl. rewrite H1, H2, H3, H1. auto.
Qed.

Lemma ploop_warn_lax lim f stops st l l' :
  lrel l l' -> G false lrel (ploop Warn lim f stops st l) (ploop Lax lim f stops st l').
Proof.
  apply sim_ploop.
  - discriminate.
  - intros eat s. rewrite inner_warn_lax. destruct (inner Lax eat s) as [x|s']; auto.
  - apply handled_warn_lax.
Qed.

(* ---- use 2: a successful strict run against any mode ---- *)
Definition lfix (l0 l0' l l' : log) : Prop := l = l0 /\ l' = l0'.

Lemma inner_strict m eat st x : inner Strict eat st = inl x -> inner m eat st = inl x.
Proof.
  unfold inner. destruct (toks st) as [|[| |q| | | |]]; try discriminate.
  destruct q; simpl; try discriminate; destruct m; auto.
Qed.

Lemma ploop_strict m lim l0 l0' f stops st :
  G true (lfix l0 l0') (ploop Strict lim f stops st l0) (ploop m lim f stops st l0').
Proof.
  apply sim_ploop.
  - reflexivity.
  - intros eat s. destruct (inner Strict eat s) as [x|s'] eqn:E; [apply inner_strict; auto|discriminate].
  - intros. unfold handled, handle. simpl. exact I.
  - split; reflexivity.
Qed.


(* ------------------------------------------------------------------------------------------------ parsing: the three statements *)
Lemma ploop_top_ok m lim ts : m <> Strict ->
  (exists b st l, ploop m lim (S (tsize ts)) [] {| toks := ts; depth := 0 |} log0 = POk b st l) \/
  (exists e st l, ploop m lim (S (tsize ts)) [] {| toks := ts; depth := 0 |} log0 = PErr e st l /\ is_liquid e = false).
Proof.
  intros Hm. pose proof (ploop_good m lim (S (tsize ts)) [] {| toks := ts; depth := 0 |} log0 ltac:(unfold len; simpl; lia)) as Hg.
  pose proof (ploop_noerr m lim Hm (S (tsize ts)) [] {| toks := ts; depth := 0 |} log0) as He.
  destruct (ploop m lim (S (tsize ts)) [] {| toks := ts; depth := 0 |} log0) as [b st l|e st l|]; simpl in Hg.
  - left. eauto.
  - right. exists e, st, l. split; [reflexivity|]. eapply He. reflexivity.
  - contradiction.
Qed.

Lemma lrel0 : lrel log0 log0.
Proof. unfold lrel, log0; simpl; auto. Qed.

Lemma lrel_warn lw ll : lrel lw ll -> lw = {| emitted := suppressed ll; suppressed := suppressed ll |}.
Proof. destruct lw as [e s]. unfold lrel; simpl. intros (-> & -> & _). reflexivity. Qed.

(* warn mode against lax mode: the same tree and one warning per suppressed error -- or the same non-Liquid exception, raised by
   an expression parser, leaves both (those are outside this property, see C02) *)
Theorem warn_parse_is_lax_parse lim ts :
  (exists b l, parse Lax lim ts = Ok (b, l) /\ emitted l = [] /\
               parse Warn lim ts = Ok (b, {| emitted := suppressed l; suppressed := suppressed l |})) \/
  (exists e, parse Lax lim ts = Err e /\ parse Warn lim ts = Err e /\ is_liquid e = false).
Proof.
  unfold parse, parse_fuel.
  pose proof (ploop_warn_lax lim (S (tsize ts)) [] {| toks := ts; depth := 0 |} log0 log0 lrel0) as H.
  destruct (ploop_top_ok Warn lim ts ltac:(discriminate)) as [(b & st & lw & Hw)|(e & st & lw & Hw & He)];
    remember (S (tsize ts)) as f eqn:Ef; clear Ef; rewrite Hw in H; unfold G in H; destruct H as (ll & Hl & Hr); rewrite Hw, Hl.
  - left. exists b, ll. split; [reflexivity|]. split; [apply Hr|]. rewrite (lrel_warn _ _ Hr). reflexivity.
  - right. exists e. auto.
Qed.

Theorem lax_parse_total lim ts :
  (exists b l, parse Lax lim ts = Ok (b, l) /\ emitted l = []) \/ (exists e, parse Lax lim ts = Err e /\ is_liquid e = false).
Proof.
  destruct (warn_parse_is_lax_parse lim ts) as [(b & l & H1 & H2 & _)|(e & H1 & _ & H3)]; [left|right]; eauto.
Qed.

Theorem strict_parse_invariant lim ts b l :
  parse Strict lim ts = Ok (b, l) -> l = log0 /\ forall m, parse m lim ts = Ok (b, log0).
Proof.
  unfold parse, parse_fuel. remember (S (tsize ts)) as f eqn:Ef. clear Ef. intros H.
  destruct (ploop Strict lim f [] {| toks := ts; depth := 0 |} log0) as [b' st l'|e st l'|] eqn:E; try discriminate.
  inversion H; subst b' l'; clear H.
  assert (Hall : forall m, exists l2, ploop m lim f [] {| toks := ts; depth := 0 |} log0 = POk b st l2 /\ lfix log0 log0 l l2).
  { intros m. pose proof (ploop_strict m lim log0 log0 f [] {| toks := ts; depth := 0 |}) as H.
    rewrite E in H. unfold G in H. exact H. }
  destruct (Hall Strict) as (l2 & _ & -> & _). split; [reflexivity|].
  intros m. destruct (Hall m) as (l3 & -> & _ & ->). reflexivity.
Qed.

(* ------------------------------------------------------------------------------------------------ rendering *)
Local Opaque call_at.

Lemma render_top_warn_lax ib : forall b s out lw ll, lrel lw ll ->
  match render_top ib Warn b s out lw, render_top ib Lax b s out ll with
  | Ok (t, l1), Ok (t', l2) => t = t' /\ lrel l1 l2
  | Err e, Err e' => e = e' /\ is_liquid e = false
  | _, _ => False
  end.
Proof.
  induction b as [|n b IH]; intros s out lw ll Hl; simpl; [auto|].
  destruct (rnode (call_at ib call_depth) ib false n s) as [[t c] o].
  assert (Hstep : forall e, lrel {| emitted := emitted lw ++ [e]; suppressed := suppressed lw ++ [e] |}
                                 {| emitted := emitted ll; suppressed := suppressed ll ++ [e] |}).
  { intros e. destruct Hl as (H1 & H2 & H3). unfold lrel; simpl. rewrite H1, H2, H3, H1. auto. }
  destruct o as [|e|i|]; simpl.
  - apply IH; auto.
  - destruct (is_liquid e) eqn:El; simpl; [apply IH; auto|auto].
  - apply IH; auto.
  - auto.
Qed.

Lemma render_top_strict ib : forall b s out l0 t l,
  render_top ib Strict b s out l0 = Ok (t, l) -> l = l0 /\ forall m l0', render_top ib m b s out l0' = Ok (t, l0').
Proof.
  induction b as [|n b IH]; intros s out l0 t l; simpl.
  - intros H; inversion H; subst. split; auto.
  - destruct (rnode (call_at ib call_depth) ib false n s) as [[t1 c] o]. destruct o as [|e|i|]; simpl.
    + intros H. destruct (IH _ _ _ _ _ H) as (-> & Hm). split; auto.
    + destruct (is_liquid e); discriminate.
    + discriminate.
    + intros H; inversion H; subst. split; auto.
Qed.

Theorem warn_render_is_lax_render b :
  (exists t l, render Lax b = Ok (t, l) /\ emitted l = [] /\
               render Warn b = Ok (t, {| emitted := suppressed l; suppressed := suppressed l |})) \/
  (exists e, render Lax b = Err e /\ render Warn b = Err e /\ is_liquid e = false).
Proof.
  unfold render. pose proof (render_top_warn_lax (inheritance_bad b) b rst0 [] log0 log0 lrel0) as H.
  destruct (render_top (inheritance_bad b) Warn b rst0 [] log0) as [[t l1]|e|]; destruct (render_top (inheritance_bad b) Lax b rst0 [] log0) as [[t' l2]|e'|]; try contradiction.
  - left. destruct H as (-> & Hr). exists t', l2. split; [reflexivity|]. split; [apply Hr|]. rewrite (lrel_warn _ _ Hr). reflexivity.
  - right. destruct H as (-> & Hl). eauto.
Qed.

Theorem lax_render_total b :
  (exists t l, render Lax b = Ok (t, l) /\ emitted l = []) \/ (exists e, render Lax b = Err e /\ is_liquid e = false).
Proof.
  destruct (warn_render_is_lax_render b) as [(t & l & H1 & H2 & _)|(e & H1 & _ & H3)]; [left|right]; eauto.
Qed.

Theorem strict_render_invariant b t l : render Strict b = Ok (t, l) -> l = log0 /\ forall m, render m b = Ok (t, log0).
Proof. unfold render. intros H. destruct (render_top_strict _ _ _ _ _ _ _ H) as (-> & Hm). split; auto. Qed.

(* ------------------------------------------------------------------------------------------------ the whole run *)
Definition mk_case (m : mode) (lim : nat) (ts : list tok) : rcase := {| rc_mode := m; rc_limit := lim; rc_toks := ts |}.

Theorem run_strict_invariant lim ts t n :
  run_recover (mk_case Strict lim ts) = OOut t n -> n = 0 /\ forall m, run_recover (mk_case m lim ts) = OOut t 0.
Proof.
  unfold run_recover, mk_case; simpl.
  destruct (parse Strict lim ts) as [[b l1]|e|] eqn:Ep; try discriminate.
  destruct (render Strict b) as [[t' l2]|e|] eqn:Er; try discriminate.
  intros H; inversion H; subst t' n; clear H.
  destruct (strict_parse_invariant _ _ _ _ Ep) as (-> & Hp). destruct (strict_render_invariant _ _ _ Er) as (-> & Hr).
  split; [reflexivity|]. intros m. rewrite Hp, Hr. reflexivity.
Qed.

Theorem run_lax_never_raises_liquid lim ts :
  match run_recover (mk_case Lax lim ts) with
  | OOut _ n => n = 0
  | OParseErr e | ORenderErr e => is_liquid e = false
  | OFuel => False
  end.
Proof.
  unfold run_recover, mk_case; simpl.
  destruct (lax_parse_total lim ts) as [(b & l & -> & Hl)|(e & -> & He)]; [|exact He].
  destruct (lax_render_total b) as [(t & l2 & -> & Hl2)|(e & -> & He)]; [rewrite Hl, Hl2; reflexivity|exact He].
Qed.

(* warn mode: same text as lax mode, and as many warnings as lax mode suppressed errors *)
Theorem run_warn_is_lax lim ts :
  match parse Lax lim ts with
  | Ok (b, l1) =>
      match render Lax b with
      | Ok (t, l2) => run_recover (mk_case Lax lim ts) = OOut t 0 /\
                      run_recover (mk_case Warn lim ts) = OOut t (List.length (suppressed l1) + List.length (suppressed l2))
      | Err e => run_recover (mk_case Lax lim ts) = ORenderErr e /\ run_recover (mk_case Warn lim ts) = ORenderErr e /\ is_liquid e = false
      | OutOfFuel => False
      end
  | Err e => run_recover (mk_case Lax lim ts) = OParseErr e /\ run_recover (mk_case Warn lim ts) = OParseErr e /\ is_liquid e = false
  | OutOfFuel => False
  end.
Proof.
  unfold run_recover, mk_case; simpl.
  destruct (warn_parse_is_lax_parse lim ts) as [(b & l1 & Hp & He & Hw)|(e & Hp & Hw & He)]; rewrite Hp, Hw; [|auto].
  destruct (warn_render_is_lax_render b) as [(t & l2 & -> & He2 & ->)|(e & -> & -> & Hl)]; simpl.
  - rewrite He, He2. auto.
  - auto.
Qed.

(* ------------------------------------------------------------------------------------------------ the two repaired defects, as they were *)
(* a when list whose second alternative is rejected only in strict mode: before the repair strict mode parsed, silently, to a
   shorter list -- here one that does not match -- while lax mode kept the matching alternative *)
Theorem when_list_old_refuted :
  let rs := RVal [] 0 in let rl := RVal [] 1 in
  let ts := fun m => [TTag Ncase; TExpr (XOk (RVal [] 1)); TTag Nwhen; TExpr (XOk (when_value_old m rs rl)); TContent [104%N]; TTag Nendcase] in
  run_recover (mk_case Strict 30 (ts Strict)) = OOut [] 0 /\ run_recover (mk_case Lax 30 (ts Lax)) = OOut [104%N] 0.
Proof. vm_compute. split; reflexivity. Qed.

(* an expression nested so deeply that parsing it overflows the stack: Tag.get_node did not catch the RecursionError, which left
   from_string in every mode; reported as ContextDepthError it is handled like any other error of that node *)
Theorem deep_nesting_old_refuted :
  parse Lax 30 [TOutput; TExpr (XBad ERecursionError)] = Err ERecursionError /\
  parse Lax 30 [TOutput; TExpr (XBad EContextDepth)] = Ok (BCons NIllegal BNil, {| emitted := []; suppressed := [EContextDepth] |}).
Proof. vm_compute. split; reflexivity. Qed.
