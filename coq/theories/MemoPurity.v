(* C17 -- process-level memo tables (functools.lru_cache) in front of a function, the Python key
   equivalence under which they are looked up, the date filter before and after the repair, the
   process model (implicit environment, lexer, parser, date-string parser tables) and the effect
   table of the array filters over a heap of list objects.  Executable definitions only.
   (Memo.v is the C11 model of the lexer/parser tables; this file is independent of it.) *)
From Coq Require Import String Ascii.
From LiquidVerif Require Import Prelude.

Definition mlit (x : string) : str := map N_of_ascii (list_ascii_of_string x).

(* ------------------------------------------------------------------------------------------ *)
(* 1. A memo table with capacity and least-recently-used eviction (functools.lru_cache).        *)
(*    Most recently used entry first.  The stored key is the key of the FIRST call (a hit does  *)
(*    not replace it), a raising call stores nothing, capacity 0 stores nothing.                *)
(* ------------------------------------------------------------------------------------------ *)
Section Memo.
  Context {K V : Type}.
  Variable keq : K -> K -> bool.     (* query key against stored key: Python hash-and-== *)
  Variable f : K -> res V.           (* the decorated function *)
  Variable cap : nat.                (* maxsize *)

  Definition tbl := list (K * V).

  Fixpoint take_hit (k : K) (t : tbl) : option ((K * V) * tbl) :=
    match t with
    | [] => None
    | (k0, v) :: t' =>
        if keq k k0 then Some ((k0, v), t')
        else match take_hit k t' with
             | Some (e, r) => Some (e, (k0, v) :: r)
             | None => None
             end
    end.

  Definition memo_call (t : tbl) (k : K) : res V * tbl :=
    match take_hit k t with
    | Some ((k0, v), r) => (Ok v, (k0, v) :: r)
    | None =>
        match f k with
        | Ok v => (Ok v, firstn cap ((k, v) :: t))
        | Err e => (Err e, t)
        | OutOfFuel => (OutOfFuel, t)
        end
    end.

  Fixpoint memo_state (t : tbl) (hist : list K) : tbl :=
    match hist with
    | [] => t
    | k :: r => memo_state (snd (memo_call t k)) r
    end.

  Fixpoint memo_run (t : tbl) (ks : list K) : list (res V) :=
    match ks with
    | [] => []
    | k :: r => let '(o, t') := memo_call t k in o :: memo_run t' r
    end.
End Memo.

(* ------------------------------------------------------------------------------------------ *)
(* 2. Python values that reach a memo key, and the equalities on them.                          *)
(* ------------------------------------------------------------------------------------------ *)
Inductive pv :=
| PNone
| PBool (b : bool)
| PInt (z : Z)
| PFloat (twice : Z)                  (* the float twice/2: integral and half values (exact in binary) *)
| PDec (z : Z)                        (* decimal.Decimal(z) *)
| PStr (s : str)
| PMarkup (s : str)                   (* markupsafe.Markup, a str subclass *)
| PDt (utc_minutes : Z) (off_minutes : Z).   (* aware datetime: instant and zone offset *)

Definition num_twice (p : pv) : option Z :=
  match p with
  | PBool b => Some (if b then 2 else 0)%Z
  | PInt z => Some (2 * z)%Z
  | PFloat t => Some t
  | PDec z => Some (2 * z)%Z
  | _ => None
  end.

Definition text_of (p : pv) : option str :=
  match p with PStr s | PMarkup s => Some s | _ => None end.

(* Python == restricted to pairs with equal hashes (what a dict / lru_cache lookup uses) *)
Definition py_eq (a b : pv) : bool :=
  match num_twice a, num_twice b with
  | Some x, Some y => Z.eqb x y
  | None, None =>
      match a, b with
      | PNone, PNone => true
      | PDt i _, PDt j _ => Z.eqb i j
      | _, _ => match text_of a, text_of b with
                | Some s, Some t => str_eqb s t
                | _, _ => false
                end
      end
  | _, _ => false
  end.

(* same type and same value *)
Definition py_same (a b : pv) : bool :=
  match a, b with
  | PNone, PNone => true
  | PBool x, PBool y => Bool.eqb x y
  | PInt x, PInt y | PFloat x, PFloat y | PDec x, PDec y => Z.eqb x y
  | PStr s, PStr t | PMarkup s, PMarkup t => str_eqb s t
  | PDt i o, PDt j p => Z.eqb i j && Z.eqb o p
  | _, _ => false
  end.

(* the key equality of lru_cache(typed=True): == and the same type *)
Definition same_type (a b : pv) : bool :=
  match a, b with
  | PNone, PNone | PBool _, PBool _ | PInt _, PInt _ | PFloat _, PFloat _ | PDec _, PDec _
  | PStr _, PStr _ | PMarkup _, PMarkup _ | PDt _ _, PDt _ _ => true
  | _, _ => false
  end.
Definition py_eq_typed (a b : pv) : bool := py_eq a b && same_type a b.

Definition pvs_eq (a b : list pv) : bool := list_eqb py_eq a b.
Definition pvs_same (a b : list pv) : bool := list_eqb py_same a b.

(* ------------------------------------------------------------------------------------------ *)
(* 3. The date filter.  Its uncached behaviour is a table measured in a FRESH process.          *)
(* ------------------------------------------------------------------------------------------ *)
Definition dkey := (pv * pv * N)%type.          (* left value, format, environment identity *)

Definition dkey_py_eq (a b : dkey) : bool :=
  let '(d1, f1, e1) := a in let '(d2, f2, e2) := b in py_eq d1 d2 && py_eq f1 f2 && N.eqb e1 e2.
Definition dkey_typed_eq (a b : dkey) : bool :=
  let '(d1, f1, e1) := a in let '(d2, f2, e2) := b in py_eq_typed d1 d2 && py_eq_typed f1 f2 && N.eqb e1 e2.
Definition dkey_same (a b : dkey) : bool :=
  let '(d1, f1, e1) := a in let '(d2, f2, e2) := b in py_same d1 d2 && py_same f1 f2 && N.eqb e1 e2.

Definition dtab := list (dkey * res str).
Fixpoint dlook (t : dtab) (k : dkey) : res str :=
  match t with
  | [] => OutOfFuel            (* not measured: never a normal-looking value *)
  | (k0, v) :: r => if dkey_same k k0 then v else dlook r k
  end.

Definition date_cap : nat := 10.

(* before the repair: lru_cache(maxsize=10) around the whole filter *)
Definition date_old_call (ft : dtab) := memo_call dkey_py_eq (dlook ft) date_cap.
Definition date_old_run (ft : dtab) (ks : list dkey) : list (res str) :=
  memo_run dkey_py_eq (dlook ft) date_cap [] ks.

(* after the repair: only the parsing of a date string is memoised, keyed by its text and the day *)
Definition is_digit (c : N) : bool := (48 <=? c)%N && (c <=? 57)%N.
Definition all_digits (s : str) : bool := match s with [] => false | _ => forallb is_digit s end.
Definition is_special (s : str) : bool :=
  str_eqb s (mlit "now") || str_eqb s (mlit "today") || all_digits s.

Definition pkey := (str * Z)%type.               (* text, day number *)
Definition pkey_eqb (a b : pkey) : bool := str_eqb (fst a) (fst b) && Z.eqb (snd a) (snd b).
(* the parsed datetime is determined by the text and the day: it is represented by the text *)
Definition parse_abs (k : pkey) : res str := Ok (fst k).
Definition with_text (p : pv) (s : str) : pv :=
  match p with PStr _ => PStr s | PMarkup _ => PMarkup s | _ => p end.

Definition ptbl := @tbl pkey str.

Definition date_new_call (ft : dtab) (t : ptbl) (day : Z) (k : dkey) : res str * ptbl :=
  let '(dat, fmt, env) := k in
  match text_of dat with
  | Some s =>
      if is_special s then (dlook ft k, t)
      else
        let '(p, t') := memo_call pkey_eqb parse_abs date_cap t (s, day) in
        match p with
        | Ok s' => (dlook ft (with_text dat s', fmt, env), t')
        | Err e => (Err e, t')
        | OutOfFuel => (OutOfFuel, t')
        end
  | None => (dlook ft k, t)
  end.

Fixpoint date_new_state (ft : dtab) (t : ptbl) (hist : list (Z * dkey)) : ptbl :=
  match hist with
  | [] => t
  | (day, k) :: r => date_new_state ft (snd (date_new_call ft t day k)) r
  end.

(* ------------------------------------------------------------------------------------------ *)
(* 4. The process: a render job consults the implicit-environment table (liquid.Template), the  *)
(*    lexer table (six delimiter strings), the parser table (environment identity) and, through *)
(*    the date filter, the date-string table.  Its output is the FRESH-process output of the    *)
(*    job in which every memoised argument is replaced by what the table handed back.           *)
(* ------------------------------------------------------------------------------------------ *)
Record job := {
  j_implicit : bool;                 (* built through liquid.Template(...) rather than Environment(...) *)
  j_env : N;                         (* identity of the explicit Environment (0 when implicit) *)
  j_delims : list pv;                (* the six delimiter strings *)
  j_flags : list pv;                 (* extra, tolerance, undefined, strict_filters, autoescape, template_comments *)
  j_date : option (pv * pv);         (* left value and format of the date filter call, if any *)
  j_day : Z;
  j_rest : N                         (* the template text and the other data, exactly *)
}.

Definition opt_same (a b : option (pv * pv)) : bool :=
  match a, b with
  | None, None => true
  | Some (x, y), Some (u, v) => py_same x u && py_same y v
  | _, _ => false
  end.

Definition job_same (a b : job) : bool :=
  Bool.eqb (j_implicit a) (j_implicit b) && N.eqb (j_env a) (j_env b) &&
  pvs_same (j_delims a) (j_delims b) && pvs_same (j_flags a) (j_flags b) &&
  opt_same (j_date a) (j_date b) && Z.eqb (j_day a) (j_day b) && N.eqb (j_rest a) (j_rest b).

(* jobs that differ only in environment arguments that compare equal in Python *)
Definition job_keq (a b : job) : bool :=
  Bool.eqb (j_implicit a) (j_implicit b) && N.eqb (j_env a) (j_env b) &&
  pvs_eq (j_delims a) (j_delims b) && pvs_eq (j_flags a) (j_flags b) &&
  opt_same (j_date a) (j_date b) && Z.eqb (j_day a) (j_day b) && N.eqb (j_rest a) (j_rest b).

Definition jtab := list (job * res str).
Fixpoint jlook (t : jtab) (j : job) : res str :=
  match t with
  | [] => OutOfFuel
  | (j0, v) :: r => if job_same j j0 then v else jlook r j
  end.

Definition cfg := (list pv * list pv)%type.      (* delimiters, flags *)
Definition cfg_py_eq (a b : cfg) : bool := pvs_eq (fst a) (fst b) && pvs_eq (snd a) (snd b).

Record proc := {
  p_impl : @tbl cfg cfg;             (* get_implicit_environment, maxsize 10: the environment built for the stored key *)
  p_lex : @tbl (list pv) (list pv);  (* get_lexer, maxsize 128: the tokenizer compiled for the stored delimiters *)
  p_parser : @tbl N N;               (* get_parser, maxsize 128: the parser bound to the stored environment *)
  p_parse : ptbl                     (* _parse_date_string, maxsize 10 *)
}.

Definition proc0 : proc := {| p_impl := []; p_lex := []; p_parser := []; p_parse := [] |}.

Definition impl_cap : nat := 10.
Definition lex_cap : nat := 128.

Definition ok_or {A} (r : res A) (d : A) : A := match r with Ok a => a | _ => d end.

Definition step (ft : jtab) (p : proc) (j : job) : res str * proc :=
  (* 1. the environment *)
  let '(c, ti) :=
    if j_implicit j then
      let '(r, ti) := memo_call cfg_py_eq (fun c => Ok c) impl_cap (p_impl p) (j_delims j, j_flags j) in
      (ok_or r (j_delims j, j_flags j), ti)
    else ((j_delims j, j_flags j), p_impl p) in
  (* 2. its tokenizer and parser *)
  let '(rl, tl) := memo_call pvs_eq (fun d => Ok d) lex_cap (p_lex p) (fst c) in
  let d := ok_or rl (fst c) in
  let '(rp, tp) := memo_call N.eqb (fun e => Ok e) lex_cap (p_parser p) (j_env j) in
  let e := ok_or rp (j_env j) in
  (* 3. the date filter: the parse step *)
  let '(dt, tq) :=
    match j_date j with
    | Some (dat, fmt) =>
        match text_of dat with
        | Some s =>
            if is_special s then (Some (dat, fmt), p_parse p)
            else let '(r, tq) := memo_call pkey_eqb parse_abs date_cap (p_parse p) (s, j_day j) in
                 (Some (with_text dat (ok_or r s), fmt), tq)
        | None => (Some (dat, fmt), p_parse p)
        end
    | None => (None, p_parse p)
    end in
  (jlook ft {| j_implicit := j_implicit j; j_env := e; j_delims := d; j_flags := snd c;
               j_date := dt; j_day := j_day j; j_rest := j_rest j |},
   {| p_impl := ti; p_lex := tl; p_parser := tp; p_parse := tq |}).

Fixpoint proc_state (ft : jtab) (p : proc) (hist : list job) : proc :=
  match hist with
  | [] => p
  | j :: r => proc_state ft (snd (step ft p j)) r
  end.

Fixpoint proc_run (ft : jtab) (p : proc) (js : list job) : list (res str) :=
  match js with
  | [] => []
  | j :: r => let '(o, p') := step ft p j in o :: proc_run ft p' r
  end.

(* correspondence entry points *)
Record pcase := { pc_fresh : jtab; pc_jobs : list job }.
Definition run_proc (c : pcase) : list (res str) := proc_run (pc_fresh c) proc0 (pc_jobs c).

Record dcase := { dc_fresh : dtab; dc_calls : list dkey }.
Definition run_date_old (c : dcase) : list (res str) := date_old_run (dc_fresh c) (dc_calls c).

Definition res_str_eqb (a b : res str) : bool :=
  match a, b with
  | Ok x, Ok y => str_eqb x y
  | Err e, Err g => exn_eqb e g
  | _, _ => false
  end.
Definition obs_eqb (a b : list (res str)) : bool := list_eqb res_str_eqb a b.

(* ------------------------------------------------------------------------------------------ *)
(* 5. Effect table of the array filters.  Gallina has no aliasing, so list objects live in a   *)
(*    heap (address = position); a filter receives values that may be references and returns a  *)
(*    value and a heap.  Which filters hand back an alias and which allocate is read off the    *)
(*    code; the theorem is that none of them writes to an existing object.                      *)
(* ------------------------------------------------------------------------------------------ *)
Inductive cell := CNum (z : Z) | CNil | CRef (a : nat).
Definition heap := list (list cell).

Inductive value := VNum (z : Z) | VNil | VUndef | VList (a : nat).

Inductive fop :=
| FDefault | FFirst | FLast | FConcat | FReverse | FSort | FCompact | FUniq | FSize | FJoin.

Definition cells (h : heap) (a : nat) : list cell := nth a h [].
Definition alloc (h : heap) (l : list cell) : heap * value := (h ++ [l], VList (length h)).
Definition cell_value (c : cell) : value :=
  match c with CNum z => VNum z | CNil => VNil | CRef a => VList a end.

Definition cell_eqb (a b : cell) : bool :=
  match a, b with
  | CNum x, CNum y => Z.eqb x y
  | CNil, CNil => true
  | CRef x, CRef y => Nat.eqb x y
  | _, _ => false
  end.

(* flatten (liquid/filter.py): nested lists are spliced in, to five levels; always a new list *)
Fixpoint flatten_cells (level : nat) (h : heap) (l : list cell) : list cell :=
  match level with
  | O => l
  | S lv => flat_map (fun c => match c with CRef a => flatten_cells lv h (cells h a) | _ => [c] end) l
  end.

Fixpoint insert_cell (c : cell) (l : list cell) : list cell :=
  match l with
  | [] => [c]
  | d :: r =>
      match c, d with
      | CNum x, CNum y => if Z.leb x y then c :: l else d :: insert_cell c r
      | _, _ => c :: l
      end
  end.
Definition sort_cells (l : list cell) : list cell := fold_right insert_cell [] l.

Fixpoint uniq_cells (seen l : list cell) : list cell :=
  match l with
  | [] => []
  | c :: r => if existsb (cell_eqb c) seen then uniq_cells seen r else c :: uniq_cells (c :: seen) r
  end.

Definition is_cnil (c : cell) : bool := match c with CNil => true | _ => false end.

(* the left value as the sequence_filter decorator hands it to the filter body: a flattened copy *)
Definition seq_input (h : heap) (v : value) : list cell :=
  match v with
  | VList a => flatten_cells 5 h (cells h a)
  | VNum z => [CNum z]
  | VNil => [CNil]
  | VUndef => []
  end.

Definition apply_filter (h : heap) (op : fop) (left arg : value) : heap * value :=
  match op with
  | FDefault =>                                  (* returns the left OBJECT, or the argument OBJECT *)
      match left with
      | VNil | VUndef => (h, arg)
      | VList a => match cells h a with [] => (h, arg) | _ => (h, left) end
      | _ => (h, left)
      end
  | FFirst => match left with                      (* an element of the input, not a copy *)
              | VList a => match cells h a with c :: _ => (h, cell_value c) | [] => (h, VNil) end
              | _ => (h, VNil)
              end
  | FLast => match left with
             | VList a => match rev (cells h a) with c :: _ => (h, cell_value c) | [] => (h, VNil) end
             | _ => (h, VNil)
             end
  | FConcat =>
      match arg with
      | VList b =>
          match left with
          | VUndef => (h, arg)                     (* the argument OBJECT itself *)
          | _ => alloc h (seq_input h left ++ cells h b)
          end
      | _ => (h, VUndef)                           (* FilterArgumentError: no value *)
      end
  | FReverse => alloc h (rev (seq_input h left))
  | FSort => alloc h (sort_cells (seq_input h left))
  | FCompact => alloc h (filter (fun c => negb (is_cnil c)) (seq_input h left))
  | FUniq => alloc h (uniq_cells [] (seq_input h left))
  | FSize => (h, VNum (Z.of_nat (match left with VList a => length (cells h a) | _ => 0 end)))
  | FJoin => (h, VNum 0)                           (* a new string *)
  end.

(* a chain of filters: the value flows left to right, references are shared *)
Definition chain (h : heap) (left : value) (fs : list (fop * value)) : heap * value :=
  fold_left (fun hv fa => apply_filter (fst hv) (fst fa) (snd hv) (snd fa)) fs (h, left).

(* what the implementation-side identity probe observes *)
Inductive alias_class := AInput | AArg | AElement | AFresh | AScalar.
Definition alias_class_eqb (a b : alias_class) : bool :=
  match a, b with
  | AInput, AInput | AArg, AArg | AElement, AElement | AFresh, AFresh | AScalar, AScalar => true
  | _, _ => false
  end.

Definition classify (h : heap) (left arg : value) (r : heap * value) : alias_class :=
  match snd r with
  | VList a =>
      if Nat.leb (length h) a then AFresh
      else match left with
           | VList l => if Nat.eqb a l then AInput
                        else match arg with VList g => if Nat.eqb a g then AArg else AElement | _ => AElement end
           | _ => match arg with VList g => if Nat.eqb a g then AArg else AElement | _ => AElement end
           end
  | _ => AScalar
  end.

Record ecase := { ec_heap : heap; ec_op : fop; ec_left : value; ec_arg : value }.
Definition run_effect (c : ecase) : alias_class :=
  classify (ec_heap c) (ec_left c) (ec_arg c) (apply_filter (ec_heap c) (ec_op c) (ec_left c) (ec_arg c)).
