(* C01 -- the hand-written synchronous / asynchronous copies of the include, render and call tags, each
   transcribed as a sequence of primitive render-context operations over a small state.  Three things are
   recorded: an EVALUATION LOG (which variable was looked up, and whether a local namespace, the globals
   or nothing answered), a TRACE of context operations with their arguments (extend / bind / loop-limit
   checks / loop_iterations / copy with its flags / render_with_context with its flags) and the OUTPUT.
   Executable definitions only.  `*_seeded` are the two divergences once introduced on purpose. *)
From Coq Require Import String Ascii.
From LiquidVerif Require Import Prelude PyPrims MacroArgs.

(* ------------------------------------------------------------------------------------------ values *)
Inductive v := VS (z : Z) | VL (l : list Z) | VU | VF (index : nat).     (* scalar, array, undefined, forloop drop *)
Definition ns := list (str * v).

Inductive where_ := WLocal | WGlobal | WUndef.
Inductive ex := ELit (x : v) | EVar (n : str).

Inductive tev :=
| TLoad (n : str)
| TExtend (keys : list str) | TPop
| TBind (k : str) (x : v)
| TLimit (len : nat)                               (* raise_for_loop_limit *)
| TIterEnter (len : nat) | TIterExit               (* with context.loop_iterations(len) *)
| TCopy (disabled carry block_scope with_template : bool) (keys : list str)
| TRender (partial block_scope : bool)
| TForloop (k : str) (len : nat).

Inductive oev := OV (x : v) | OCount (n : nat) | ODots (n : nat) | OIdx (n : nat).

(* a partial template / macro body: what it prints and which context features it exercises *)
Inductive pnode :=
| PPrint (n : str)          (* {{ n }} *)
| PFor (len : nat)          (* a for loop of len iterations printing a dot each: counts towards the loop limit *)
| PIncr                     (* {% increment cnt %}: shows whether the context is shared or a copy *)
| PInclude                  (* an include tag: disabled in render and call contexts *)
| PBreak                    (* {% break %}: an interrupt, a syntax error under block scope *)
| PIndex.                   (* {{ forloop.index }} *)
Definition body := list pnode.

Record ctx := {
  c_scope : list ns;        (* pushed namespaces, innermost first (locals are not modelled: no assign in the bodies) *)
  c_globals : ns;           (* base globals: what a copy still sees *)
  c_carry : nat;            (* loop_iteration_carry *)
  c_loops : list nat;       (* lengths on the loop stack *)
  c_no_include : bool;      (* include in disabled_tags *)
  c_counter : nat;          (* the counter cnt *)
  c_copy_depth : nat
}.

Record env := {
  e_loop_limit : option nat;
  e_depth_limit : nat;
  e_templates : list (str * body);
  e_macros : list (str * (list (str * option ex) * body))
}.

Record st := { s_log : list (str * where_); s_trace : list tev; s_out : list oev }.
Definition st0 : st := {| s_log := []; s_trace := []; s_out := [] |}.
Definition log1 (s : st) (e : str * where_) : st := {| s_log := s_log s ++ [e]; s_trace := s_trace s; s_out := s_out s |}.
Definition tr1 (s : st) (e : tev) : st := {| s_log := s_log s; s_trace := s_trace s ++ [e]; s_out := s_out s |}.
Definition out1 (s : st) (e : oev) : st := {| s_log := s_log s; s_trace := s_trace s; s_out := s_out s ++ [e] |}.

(* the state survives an exception: the log is observed even then *)
Definition M (A : Type) := st -> res A * st.
Definition ret {A} (a : A) : M A := fun s => (Ok a, s).
Definition fail {A} (e : exn) : M A := fun s => (Err e, s).
Definition mbind {A B} (m : M A) (f : A -> M B) : M B :=
  fun s => match m s with (Ok a, s') => f a s' | (Err e, s') => (Err e, s') | (OutOfFuel, s') => (OutOfFuel, s') end.
Notation "'doM' x <- m ; k" := (mbind m (fun x => k)) (at level 200, x pattern, m at level 100, k at level 200).
Definition logM (e : str * where_) : M unit := fun s => (Ok tt, log1 s e).
Definition trM (e : tev) : M unit := fun s => (Ok tt, tr1 s e).
Definition outM (e : oev) : M unit := fun s => (Ok tt, out1 s e).

Fixpoint scope_lookup (n : str) (sc : list ns) : option v :=
  match sc with
  | [] => None
  | m :: r => match alookup n m with Some x => Some x | None => scope_lookup n r end
  end.

Definition resolve (c : ctx) (n : str) : M v :=
  match scope_lookup n (c_scope c) with
  | Some x => doM _ <- logM (n, WLocal); ret x
  | None => match alookup n (c_globals c) with
            | Some x => doM _ <- logM (n, WGlobal); ret x
            | None => doM _ <- logM (n, WUndef); ret VU
            end
  end.

Definition eval (c : ctx) (e : ex) : M v :=
  match e with ELit x => ret x | EVar n => resolve c n end.

Fixpoint eval_args (c : ctx) (args : list (str * ex)) : M ns :=
  match args with
  | [] => ret []
  | (k, e) :: r => doM x <- eval c e; doM rest <- eval_args c r; ret ((k, x) :: rest)
  end.

(* dict semantics: a later duplicate key overwrites in place *)
Definition ns_set (k : str) (x : v) (m : ns) : ns := dict_set k x m.
Definition mk_ns (l : ns) : ns := fold_left (fun acc kx => ns_set (fst kx) (snd kx) acc) l [].

Definition prod (l : list nat) : nat := fold_right Nat.mul 1 l.

Definition over_limit (e : env) (c : ctx) (len : nat) : bool :=
  match e_loop_limit e with
  | Some lim => Nat.ltb lim (prod (c_loops c) * (len * c_carry c))
  | None => false
  end.

Definition check_limit (e : env) (c : ctx) (len : nat) : M unit :=
  doM _ <- trM (TLimit len);
  if over_limit e c len then fail ELoopLimit else ret tt.

(* RenderContext.extend: scope.size() counts locals, globals, builtins and counters too *)
Definition extend (e : env) (c : ctx) (m : ns) : M ctx :=
  if Nat.ltb (e_depth_limit e) (4 + length (c_scope c)) then fail EContextDepth
  else doM _ <- trM (TExtend (map fst m));
       ret {| c_scope := m :: c_scope c; c_globals := c_globals c; c_carry := c_carry c; c_loops := c_loops c;
              c_no_include := c_no_include c; c_counter := c_counter c; c_copy_depth := c_copy_depth c |}.

Definition with_scope (c : ctx) (sc : list ns) : ctx :=
  {| c_scope := sc; c_globals := c_globals c; c_carry := c_carry c; c_loops := c_loops c;
     c_no_include := c_no_include c; c_counter := c_counter c; c_copy_depth := c_copy_depth c |}.
Definition with_carry (c : ctx) (k : nat) : ctx :=
  {| c_scope := c_scope c; c_globals := c_globals c; c_carry := k; c_loops := c_loops c;
     c_no_include := c_no_include c; c_counter := c_counter c; c_copy_depth := c_copy_depth c |}.
Definition with_counter (c : ctx) (k : nat) : ctx :=
  {| c_scope := c_scope c; c_globals := c_globals c; c_carry := c_carry c; c_loops := c_loops c;
     c_no_include := c_no_include c; c_counter := k; c_copy_depth := c_copy_depth c |}.
Definition set_top (c : ctx) (k : str) (x : v) : ctx :=
  match c_scope c with
  | m :: r => with_scope c (ns_set k x m :: r)
  | [] => c
  end.

(* RenderContext.copy: fresh locals / counters / loop stack; the namespace in front of the base globals *)
Definition copy (e : env) (c : ctx) (m : ns) (disabled carry block_scope with_template : bool) : M ctx :=
  if Nat.ltb (e_depth_limit e) (c_copy_depth c) then fail EContextDepth
  else doM _ <- trM (TCopy disabled carry block_scope with_template (map fst m));
       ret {| c_scope := if block_scope then m :: c_scope c else [m]; c_globals := c_globals c;
              c_carry := if carry then prod (c_loops c) * c_carry c else 1; c_loops := [];
              c_no_include := disabled; c_counter := 0; c_copy_depth := S (c_copy_depth c) |}.

(* outcome of rendering a body: the context afterwards (counters) and whether a break escaped *)
Fixpoint render_nodes (e : env) (c : ctx) (block_scope : bool) (b : body) : M (ctx * bool) :=
  match b with
  | [] => ret (c, false)
  | PPrint n :: r => doM x <- resolve c n; doM _ <- outM (OV x); render_nodes e c block_scope r
  | PFor len :: r => doM _ <- check_limit e c len; doM _ <- outM (ODots len); render_nodes e c block_scope r
  | PIncr :: r => doM _ <- outM (OCount (c_counter c)); render_nodes e (with_counter c (S (c_counter c))) block_scope r
  | PInclude :: r => if c_no_include c then fail EDisabledTag else render_nodes e c block_scope r
  | PBreak :: r => if block_scope then fail ESyntax else ret (c, true)
  | PIndex :: r =>
      doM x <- resolve c (lit "forloop");
      doM _ <- outM (match x with VF i => OIdx i | y => OV y end);
      render_nodes e c block_scope r
  end.

(* BoundTemplate.render_with_context(partial=True): one more namespace, then the nodes *)
Definition render_partial (e : env) (c : ctx) (block_scope : bool) (b : body) : M (ctx * bool) :=
  doM _ <- trM (TRender true block_scope);
  doM c1 <- extend e c [(lit "partial", VS 1)];
  doM r <- render_nodes e c1 block_scope b;
  doM _ <- trM TPop;
  ret (with_scope (fst r) (c_scope c), snd r).

Definition load (e : env) (n : str) : M body :=
  doM _ <- trM (TLoad n);
  match alookup n (e_templates e) with Some b => ret b | None => fail ENotFound end.

(* an escaped break: consumed by an enclosing for loop of the caller, a syntax error at the top level *)
Definition finish_interrupt (c : ctx) (interrupted : bool) : M unit :=
  if interrupted then (match c_loops c with [] => fail ESyntax | _ => ret tt end) else ret tt.

(* ------------------------------------------------------------------------------------------ include *)
Record include_node := { in_name : ex; in_tname : str;        (* the name expression and the text it evaluates to *)
                         in_var : option ex; in_alias : option str; in_args : list (str * ex) }.

Fixpoint include_items (e : env) (c : ctx) (key : str) (items : list Z) (b : body) : M (ctx * bool) :=
  match items with
  | [] => ret (c, false)
  | z :: r =>
      doM _ <- trM (TBind key (VS z));
      doM cr <- render_partial e (set_top c key (VS z)) false b;
      if snd cr then ret cr else include_items e (fst cr) key r b
  end.

Definition include_sync (e : env) (c : ctx) (n : include_node) : M unit :=
  doM _ <- eval c (in_name n);
  doM b <- load e (in_tname n);
  doM m <- eval_args c (in_args n);
  doM c1 <- extend e c (mk_ns m);
  doM r <-
    (match in_var n with
     | Some ve =>
         doM x <- eval c1 ve;                          (* evaluated with the keyword arguments in scope *)
         let key := match in_alias n with Some a => a | None => in_tname n end in
         match x with
         | VL items =>
             doM _ <- check_limit e c1 (length items);
             doM _ <- trM (TIterEnter (length items));
             doM cr <- include_items e (with_carry c1 (c_carry c1 * length items)) key items b;
             doM _ <- trM TIterExit;
             ret cr
         | y =>
             doM _ <- trM (TBind key y);
             render_partial e (set_top c1 key y) false b
         end
     | None => render_partial e c1 false b
     end);
  doM _ <- trM TPop;
  finish_interrupt c (snd r).

Definition include_async (e : env) (c : ctx) (n : include_node) : M unit :=
  doM _ <- eval c (in_name n);
  doM b <- load e (in_tname n);
  doM m <- eval_args c (in_args n);
  doM c1 <- extend e c (mk_ns m);
  doM r <-
    (match in_var n with
     | Some ve =>
         doM x <- eval c1 ve;
         let key := match in_alias n with Some a => a | None => in_tname n end in
         match x with
         | VL items =>
             doM _ <- check_limit e c1 (length items);
             doM _ <- trM (TIterEnter (length items));
             doM cr <- include_items e (with_carry c1 (c_carry c1 * length items)) key items b;
             doM _ <- trM TIterExit;
             ret cr
         | y =>
             doM _ <- trM (TBind key y);
             render_partial e (set_top c1 key y) false b
         end
     | None => render_partial e c1 false b
     end);
  doM _ <- trM TPop;
  finish_interrupt c (snd r).

(* the seeded divergence: the bound variable evaluated BEFORE the keyword arguments are pushed *)
Definition include_async_seeded (e : env) (c : ctx) (n : include_node) : M unit :=
  doM _ <- eval c (in_name n);
  doM b <- load e (in_tname n);
  doM m <- eval_args c (in_args n);
  doM xo <- (match in_var n with Some ve => doM x <- eval c ve; ret (Some x) | None => ret None end);
  doM c1 <- extend e c (mk_ns m);
  doM r <-
    (match xo with
     | Some x =>
         let key := match in_alias n with Some a => a | None => in_tname n end in
         match x with
         | VL items =>
             doM _ <- check_limit e c1 (length items);
             doM _ <- trM (TIterEnter (length items));
             doM cr <- include_items e (with_carry c1 (c_carry c1 * length items)) key items b;
             doM _ <- trM TIterExit;
             ret cr
         | y =>
             doM _ <- trM (TBind key y);
             render_partial e (set_top c1 key y) false b
         end
     | None => render_partial e c1 false b
     end);
  doM _ <- trM TPop;
  finish_interrupt c (snd r).

(* ------------------------------------------------------------------------------------------ render *)
Record render_node := { rn_tname : str; rn_var : option ex; rn_loop : bool; rn_alias : option str;
                        rn_args : list (str * ex) }.

Fixpoint render_items (e : env) (c : ctx) (m : ns) (key : str) (i : nat) (items : list Z) (b : body) : M unit :=
  match items with
  | [] => ret tt
  | z :: r =>
      let m' := ns_set key (VS z) (ns_set (lit "forloop") (VF (S i)) m) in
      doM _ <- trM (TBind key (VS z));
      doM ci <- copy e c m' true true false true;         (* a new isolated context for each item *)
      doM _ <- render_partial e ci true b;
      render_items e c m' key (S i) r b
  end.

Definition render_sync (e : env) (c : ctx) (n : render_node) : M unit :=
  doM b <- load e (rn_tname n);
  doM m0 <- eval_args c (rn_args n);
  let m := mk_ns m0 in
  doM cx <- copy e c m true true false true;
  match rn_var n with
  | Some ve =>
      doM x <- eval c ve;                                (* evaluated in the CALLER's context: arguments not in scope *)
      let key := match rn_alias n with Some a => a | None => rn_tname n end in
      match rn_loop n, x with
      | true, VL items =>
          doM _ <- check_limit e cx (length items);
          doM _ <- trM (TForloop key (length items));
          let m1 := ns_set key VU (ns_set (lit "forloop") (VF 0) m) in
          doM _ <- trM (TIterEnter (length items));
          doM _ <- render_items e (with_carry c (c_carry c * length items)) m1 key 0 items b;
          trM TIterExit
      | _, y =>
          doM _ <- trM (TBind key y);
          doM _ <- render_partial e (with_scope cx [ns_set key y m]) true b;
          ret tt
      end
  | None => doM _ <- render_partial e cx true b; ret tt
  end.

Definition render_async (e : env) (c : ctx) (n : render_node) : M unit :=
  doM b <- load e (rn_tname n);
  doM m0 <- eval_args c (rn_args n);
  let m := mk_ns m0 in
  doM cx <- copy e c m true true false true;
  match rn_var n with
  | Some ve =>
      doM x <- eval c ve;
      let key := match rn_alias n with Some a => a | None => rn_tname n end in
      match rn_loop n, x with
      | true, VL items =>
          doM _ <- check_limit e cx (length items);
          doM _ <- trM (TForloop key (length items));
          let m1 := ns_set key VU (ns_set (lit "forloop") (VF 0) m) in
          doM _ <- trM (TIterEnter (length items));
          doM _ <- render_items e (with_carry c (c_carry c * length items)) m1 key 0 items b;
          trM TIterExit
      | _, y =>
          doM _ <- trM (TBind key y);
          doM _ <- render_partial e (with_scope cx [ns_set key y m]) true b;
          ret tt
      end
  | None => doM _ <- render_partial e cx true b; ret tt
  end.

(* ------------------------------------------------------------------------------------------ call *)
Record call_node := { cn_name : str; cn_pos : list ex; cn_kws : list (str * ex) }.

Fixpoint eval_list (c : ctx) (l : list ex) : M (list v) :=
  match l with [] => ret [] | x :: r => doM a <- eval c x; doM rest <- eval_list c r; ret (a :: rest) end.

Fixpoint eval_params (c : ctx) (l : list (str * option ex)) : M ns :=
  match l with
  | [] => ret []
  | (k, None) :: r => doM rest <- eval_params c r; ret ((k, VU) :: rest)
  | (k, Some x) :: r => doM a <- eval c x; doM rest <- eval_params c r; ret ((k, a) :: rest)
  end.

(* the macro body is rendered as a block in the copied context: no extra namespace, no block scope *)
Definition call_with (carry_flag : bool) (e : env) (c : ctx) (n : call_node) : M unit :=
  match alookup (cn_name n) (e_macros e) with
  | None => ret tt                                        (* undefined macro: writes the undefined, nothing under the default type *)
  | Some (params, b) =>
      let bd := bind params (cn_pos n) (cn_kws n) in
      doM _ <- eval_list c (b_excess bd);                 (* args: excess positional first *)
      doM _ <- eval_args c (b_kwexcess bd);               (* kwargs: then excess keywords *)
      doM m <- eval_params c (b_args bd);                 (* then the parameters, in declaration order *)
      doM cx <- copy e c (mk_ns m) true carry_flag false false;
      doM _ <- render_nodes e cx false b;
      ret tt
  end.

Definition call_sync := call_with true.
Definition call_async (e : env) (c : ctx) (n : call_node) : M unit :=
  match alookup (cn_name n) (e_macros e) with
  | None => ret tt
  | Some (params, b) =>
      let bd := bind params (cn_pos n) (cn_kws n) in
      doM _ <- eval_list c (b_excess bd);
      doM _ <- eval_args c (b_kwexcess bd);
      doM m <- eval_params c (b_args bd);
      doM cx <- copy e c (mk_ns m) true true false false;
      doM _ <- render_nodes e cx false b;
      ret tt
  end.
(* the seeded divergence: carry_loop_iterations=True dropped from the asynchronous copy *)
Definition call_async_seeded := call_with false.

(* ------------------------------------------------------------------------------------------ correspondence *)
(* what the run observes: global lookups (hit or miss, in order), the output, and how the render ended *)
Definition seen (l : list (str * where_)) : list (str * bool) :=
  flat_map (fun nw => match snd nw with WLocal => [] | WGlobal => [(fst nw, true)] | WUndef => [(fst nw, false)] end) l.

Record obs := { o_seen : list (str * bool); o_out : list oev; o_end : option exn }.
Definition observe {A} (r : res A * st) : obs :=
  {| o_seen := seen (s_log (snd r)); o_out := s_out (snd r);
     o_end := match fst r with Ok _ => None | Err x => Some x | OutOfFuel => Some ERecursionError end |}.

Record tcase := { tc_limit : option nat; tc_depth : nat; tc_loops : list nat; tc_globals : ns;
                  tc_templates : list (str * body); tc_macros : list (str * (list (str * option ex) * body)) }.
Definition tc_env (k : tcase) : env :=
  {| e_loop_limit := tc_limit k; e_depth_limit := tc_depth k; e_templates := tc_templates k; e_macros := tc_macros k |}.
(* the tag sits inside len(tc_loops) for loops of the caller; the top-level template has pushed its own namespace *)
Definition tc_ctx (k : tcase) : ctx :=
  {| c_scope := map (fun _ => [(lit "forloop", VF 1)]) (tc_loops k) ++ [[(lit "partial", VS 0)]]; c_globals := tc_globals k; c_carry := 1; c_loops := tc_loops k;
     c_no_include := false; c_counter := 0; c_copy_depth := 0 |}.

Definition run_include (kn : tcase * include_node) : obs * obs :=
  (observe (include_sync (tc_env (fst kn)) (tc_ctx (fst kn)) (snd kn) st0),
   observe (include_async (tc_env (fst kn)) (tc_ctx (fst kn)) (snd kn) st0)).
Definition run_render (kn : tcase * render_node) : obs * obs :=
  (observe (render_sync (tc_env (fst kn)) (tc_ctx (fst kn)) (snd kn) st0),
   observe (render_async (tc_env (fst kn)) (tc_ctx (fst kn)) (snd kn) st0)).
Definition run_call (kn : tcase * call_node) : obs * obs :=
  (observe (call_sync (tc_env (fst kn)) (tc_ctx (fst kn)) (snd kn) st0),
   observe (call_async (tc_env (fst kn)) (tc_ctx (fst kn)) (snd kn) st0)).

Definition v_eqb (a b : v) : bool :=
  match a, b with
  | VS x, VS y => Z.eqb x y
  | VL x, VL y => list_eqb Z.eqb x y
  | VU, VU => true
  | VF x, VF y => Nat.eqb x y
  | _, _ => false
  end.
Definition oev_eqb (a b : oev) : bool :=
  match a, b with
  | OV x, OV y => v_eqb x y
  | OCount x, OCount y | ODots x, ODots y | OIdx x, OIdx y => Nat.eqb x y
  | _, _ => false
  end.
Definition seen_eqb (a b : str * bool) : bool := str_eqb (fst a) (fst b) && Bool.eqb (snd a) (snd b).
Definition obs_eqb (a b : obs) : bool :=
  list_eqb seen_eqb (o_seen a) (o_seen b) && option_eqb exn_eqb (o_end a) (o_end b) &&
  (match o_end a with Some _ => true | None => list_eqb oev_eqb (o_out a) (o_out b) end).
Definition obs2_eqb (a b : obs * obs) : bool := obs_eqb (fst a) (fst b) && obs_eqb (snd a) (snd b).
