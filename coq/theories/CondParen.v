(* Conditions with EXPLICIT parentheses: the concrete syntax of a condition as a tree in which every pair of
   parentheses is a node.  [toks] is the (decision-free) concrete syntax, [erase] the tree the parser builds.
   [wg] says parentheses are present wherever the grouping rules need them; any serialiser whose output is
   well grouped and erases to the original tree round-trips (CondParen_Proofs.v), however many redundant
   parentheses it adds.  [pq2]/[print2] model BooleanExpression.__str__ and the comparison __str__ methods of
   /repo (after the fix: a logical left operand of and/or and every compound comparison operand is parenthesised;
   the pre-existing -- redundant -- parentheses around `or` under `and` and around and/or under `not` are kept).
   [print_old] (CondPrint.v) is the serialiser before the fix.  Executable definitions only. *)
From LiquidVerif Require Import Prelude PyPrims Cond CondPrint.

Inductive pexpr :=
| PLit (v : val) | PVar (x : str)
| PNot (a : pexpr) | PAnd (a b : pexpr) | POr (a b : pexpr) | PCmp (op : cmpop) (a b : pexpr)
| PParen (a : pexpr).

Fixpoint erase (q : pexpr) : bexpr :=
  match q with
  | PLit v => BLit v | PVar x => BVar x
  | PNot a => BNot (erase a)
  | PAnd a b => BAnd (erase a) (erase b)
  | POr a b => BOr (erase a) (erase b)
  | PCmp op a b => BCmp op (erase a) (erase b)
  | PParen a => erase a
  end.

Fixpoint toks (q : pexpr) : list tok :=
  match q with
  | PLit v => [TLit v] | PVar x => [TVar x]
  | PNot a => TNot :: toks a
  | PAnd a b => toks a ++ TAnd :: toks b
  | POr a b => toks a ++ TOr :: toks b
  | PCmp op a b => toks a ++ TOp op :: toks b
  | PParen a => TLParen :: toks a ++ [TRParen]
  end.

Definition patomic (q : pexpr) : bool := match q with PLit _ | PVar _ | PParen _ => true | _ => false end.
Definition pleft_ok (q : pexpr) : bool := match q with PLit _ | PVar _ | PParen _ | PCmp _ _ _ => true | _ => false end.

(* well grouped: the left operand of and/or is an atom, a parenthesised group or a comparison; both operands of a
   comparison are atoms or parenthesised groups.  (Right operands of and/or and the operand of not may be anything.) *)
Fixpoint wg (q : pexpr) : bool :=
  match q with
  | PLit _ | PVar _ => true
  | PNot a => wg a
  | PAnd a b | POr a b => pleft_ok a && wg a && wg b
  | PCmp _ a b => patomic a && patomic b && wg a && wg b
  | PParen a => wg a
  end.

(* ---- BooleanExpression.__str__ of /repo (repaired) ---- *)
Definition pwrap (b : bool) (q : pexpr) : pexpr := if b then PParen q else q.
Definition compound (e : bexpr) : bool := match e with BLit _ | BVar _ => false | _ => true end.

Fixpoint pq2 (parent : nat) (left : bool) (e : bexpr) : pexpr :=
  match e with
  | BLit v => PLit v
  | BVar x => PVar x
  | BNot a => pwrap left (PNot (pq2 7 false a))
  | BAnd a b => pwrap (Nat.ltb 4 parent || left) (PAnd (pq2 4 true a) (pq2 4 false b))
  | BOr a b => pwrap (Nat.ltb 3 parent || left) (POr (pq2 3 true a) (pq2 3 false b))
  | BCmp op a b => PCmp op (pwrap (compound a) (pq2 0 false a)) (pwrap (compound b) (pq2 0 false b))
  end.

Definition print2 (e : bexpr) : list tok := toks (pq2 0 false e).

(* the minimal-parentheses printer of CondPrint.v as a pexpr builder *)
Fixpoint pq (c : pctx) (e : bexpr) : pexpr :=
  pwrap (wraps c e)
    (match e with
     | BLit v => PLit v | BVar x => PVar x
     | BNot a => PNot (pq CRight a)
     | BAnd a b => PAnd (pq CLeft a) (pq CRight b)
     | BOr a b => POr (pq CLeft a) (pq CRight b)
     | BCmp op a b => PCmp op (pq COperand a) (pq COperand b)
     end).

(* ---- correspondence: str() of a parsed condition, as a token list ---- *)
Definition run_print2 (c : pcase) : option (list tok) :=
  match parse flags_on (pc_toks c) with Ok e => Some (print2 e) | _ => None end.
(* ... and what parsing that text again and serialising once more gives *)
Definition run_reprint2 (c : pcase) : option (list tok) :=
  match parse flags_on (pc_toks c) with
  | Ok e => match parse flags_on (print2 e) with Ok e' => Some (print2 e') | _ => None end
  | _ => None
  end.
