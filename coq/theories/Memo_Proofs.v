(* Memo_Proofs.v — memoisation transparency: a cache all of whose entries satisfy  value = f key, looked up with a
   key equality that decides Leibniz equality of ALL inputs of f, is unobservable; lifted to the three memo tables
   and to histories of environment creations, registrations and parses. *)
From Coq Require Import ZArith NArith List Bool Lia.
From LiquidVerif Require Import Prelude Lex Memo.
Import ListNotations.

Section CacheFacts.
  Context {K V : Type}.
  Variable keqb : K -> K -> bool.
  Hypothesis keqb_eq : forall a b, keqb a b = true <-> a = b.
  Variable P : K * V -> Prop.

  Lemma clookup_in k (c : @cache K V) v : clookup keqb k c = Some v -> In (k, v) c.
  Proof.
    induction c as [|[k' v'] c IH]; simpl; [discriminate|].
    destruct (keqb k k') eqn:E.
    - intros H. inversion H; subst. apply keqb_eq in E. subst. left; reflexivity.
    - intros H. right. auto.
  Qed.

  Lemma Forall_cremove k (c : @cache K V) : Forall P c -> Forall P (cremove keqb k c).
  Proof.
    induction c as [|[k' v'] c IH]; simpl; auto. intros H. inversion H; subst.
    destruct (keqb k k'); auto.
  Qed.

  Lemma Forall_firstn {A} (Q : A -> Prop) n (l : list A) : Forall Q l -> Forall Q (firstn n l).
  Proof. revert l; induction n; intros l H; simpl; auto. destruct l; auto. inversion H; subst. constructor; auto. Qed.
End CacheFacts.

Section Transparent.
  Context {K V : Type}.
  Variable keqb : K -> K -> bool.
  Hypothesis keqb_eq : forall a b, keqb a b = true <-> a = b.
  Variable f : K -> V.

  Definition sound (c : @cache K V) : Prop := Forall (fun kv => snd kv = f (fst kv)) c.

  (* the generic lemma: whatever the table holds, a memoised call returns f k, and the table stays sound *)
  Lemma memo_transparent n c k : sound c -> fst (cached keqb n f c k) = f k /\ sound (snd (cached keqb n f c k)).
  Proof.
    intros Hs. unfold cached. destruct (clookup keqb k c) as [v|] eqn:E.
    - apply (clookup_in keqb keqb_eq) in E. unfold sound in Hs. rewrite Forall_forall in Hs.
      pose proof (Hs _ E) as Hv. simpl in Hv. simpl. split; auto.
      constructor; auto. apply Forall_cremove. apply Forall_forall. exact Hs.
    - simpl. split; auto. destruct n; simpl; [constructor|]. constructor; auto. apply Forall_firstn. exact Hs.
  Qed.
End Transparent.

(* ---------------------------------------------------------------- key equalities decide equality of ALL inputs *)
Lemma delims_eqb_eq a b : delims_eqb a b = true <-> a = b.
Proof.
  unfold delims_eqb. rewrite !andb_true_iff, !str_eqb_eq. destruct a, b; simpl. split.
  - intros (((((-> & ->) & ->) & ->) & ->) & ->). reflexivity.
  - intros H. inversion H; subst. repeat split.
Qed.

Lemma cfg_eqb_eq a b : cfg_eqb a b = true <-> a = b.
Proof.
  unfold cfg_eqb. rewrite !andb_true_iff, delims_eqb_eq, eqb_true_iff, N.eqb_eq. destruct a, b; simpl. split.
  - intros ((-> & ->) & ->). reflexivity.
  - intros H. inversion H; subst. repeat split.
Qed.

Lemma nat_eqb_eq a b : Nat.eqb a b = true <-> a = b.
Proof. apply Nat.eqb_eq. Qed.

(* ---------------------------------------------------------------- the process state *)
Record inv (s : pstate) : Prop := {
  inv_lexers : sound compile_lexer (ps_lexers s);
  inv_parsers : sound (fun i : nat => i) (ps_parsers s);
  inv_implicit : Forall (fun kv => exists ed, nth_error (ps_envs s) (snd kv) = Some ed /\ ed_cfg ed = fst kv) (ps_implicit s)
}.

Lemma inv0 : inv ps0.
Proof. constructor; constructor. Qed.

Definition bad_env : presult := (Err EOtherForeign, None).

Lemma do_parse_correct s e src : inv s ->
  fst (do_parse s e src) = match nth_error (ps_envs s) e with Some ed => fresh_parse ed src | None => bad_env end
  /\ inv (snd (do_parse s e src)) /\ ps_envs (snd (do_parse s e src)) = ps_envs s.
Proof.
  intros [I1 I2 I3]. unfold do_parse. destruct (nth_error (ps_envs s) e) as [ed|] eqn:E.
  - destruct (memo_transparent Nat.eqb nat_eqb_eq (fun i => i) 128 (ps_parsers s) e I2) as [P1 P2].
    destruct (memo_transparent delims_eqb delims_eqb_eq compile_lexer 128 (ps_lexers s) (eff_delims (ed_cfg ed)) I1) as [L1 L2].
    destruct (cached Nat.eqb 128 (fun i => i) (ps_parsers s) e) as [p parsers'].
    destruct (cached delims_eqb 128 compile_lexer (ps_lexers s) (eff_delims (ed_cfg ed))) as [lx lexers'].
    simpl in *. subst p lx. rewrite E. repeat split; auto.
  - simpl. repeat split; auto.
Qed.

(* what each operation must return, as a function of the environment objects alone (no memo table occurs here) *)
Definition op_ok (s : pstate) (o : op) (r : option presult) : Prop :=
  match o with
  | Parse e src =>
      r = Some (match nth_error (ps_envs s) e with Some ed => fresh_parse ed src | None => bad_env end)
  | Implicit c _ _ src => exists ed, r = Some (fresh_parse ed src) /\ ed_cfg ed = c
  | _ => r = None
  end.

Lemma nth_error_set_nth {A} (f : A -> A) n (l : list A) i :
  nth_error (set_nth n f l) i = if Nat.eqb i n then option_map f (nth_error l i) else nth_error l i.
Proof.
  revert n i; induction l as [|x l IH]; intros n i; simpl.
  - destruct (Nat.eqb i n); destruct i; destruct n; reflexivity.
  - destruct n, i; simpl; auto.
Qed.

Lemma implicit_inv_mono (envs envs' : list envdata) (c : @cache cfg nat) :
  (forall i ed, nth_error envs i = Some ed -> exists ed', nth_error envs' i = Some ed' /\ ed_cfg ed' = ed_cfg ed) ->
  Forall (fun kv => exists ed, nth_error envs (snd kv) = Some ed /\ ed_cfg ed = fst kv) c ->
  Forall (fun kv => exists ed, nth_error envs' (snd kv) = Some ed /\ ed_cfg ed = fst kv) c.
Proof.
  intros H. apply Forall_impl. intros [k v] (ed & E & Hc). simpl in *.
  destruct (H _ _ E) as (ed' & E' & Hc'). exists ed'. split; auto. congruence.
Qed.

Lemma step_correct s o : inv s -> op_ok s o (fst (step_op s o)) /\ inv (snd (step_op s o)).
Proof.
  intros I. pose proof I as [I1 I2 I3]. destruct o as [c tags filters|e t|e f|e src|c tags filters src]; cbn [step_op fst snd].
  - split; [reflexivity|]. constructor; simpl; auto.
    eapply implicit_inv_mono; [|exact I3]. intros i ed E. exists ed. split; auto.
    rewrite nth_error_app1; auto. apply nth_error_Some. congruence.
  - split; [reflexivity|]. constructor; simpl; auto.
    eapply implicit_inv_mono; [|exact I3]. intros i ed E. rewrite nth_error_set_nth, E.
    destruct (Nat.eqb i e); simpl; eauto.
  - split; [reflexivity|]. constructor; simpl; auto.
    eapply implicit_inv_mono; [|exact I3]. intros i ed E. rewrite nth_error_set_nth, E.
    destruct (Nat.eqb i e); simpl; eauto.
  - destruct (do_parse_correct s e src I) as (R & I' & _).
    destruct (do_parse s e src) as [r s']. simpl in *. subst r. split; auto.
  - destruct (clookup cfg_eqb c (ps_implicit s)) as [e|] eqn:E.
    + cbv zeta. apply (clookup_in cfg_eqb cfg_eqb_eq) in E.
      pose proof I3 as I3'. rewrite Forall_forall in I3'. destruct (I3' _ E) as (ed & Hed & Hc). simpl in *.
      set (s1 := {| ps_envs := ps_envs s; ps_lexers := ps_lexers s; ps_parsers := ps_parsers s;
                    ps_implicit := (c, e) :: cremove cfg_eqb c (ps_implicit s) |}).
      assert (I1' : inv s1).
      { constructor; simpl; auto. constructor; [simpl; eauto|]. apply Forall_cremove. exact I3. }
      destruct (do_parse_correct s1 e src I1') as (R & I' & _).
      destruct (do_parse s1 e src) as [r s']. simpl in *. subst r. rewrite Hed. split; eauto.
    + cbv zeta. set (ed := {| ed_cfg := c; ed_tags := tags; ed_filters := filters |}).
      set (s1 := {| ps_envs := ps_envs s ++ [ed]; ps_lexers := ps_lexers s; ps_parsers := ps_parsers s;
                    ps_implicit := firstn 10 ((c, length (ps_envs s)) :: ps_implicit s) |}).
      assert (Hnew : nth_error (ps_envs s ++ [ed]) (length (ps_envs s)) = Some ed).
      { rewrite nth_error_app2 by lia. rewrite Nat.sub_diag. reflexivity. }
      assert (I1' : inv s1).
      { constructor; [exact I1 | exact I2 | ]. unfold s1. cbn [ps_implicit ps_envs]. apply Forall_firstn. constructor; [cbn [fst snd]; eauto|].
        eapply implicit_inv_mono; [|exact I3]. intros i ed0 E0. exists ed0. split; auto.
        rewrite nth_error_app1; auto. apply nth_error_Some. congruence. }
      destruct (do_parse_correct s1 (length (ps_envs s)) src I1') as (R & I' & _).
      change (ps_envs s1) with (ps_envs s ++ [ed]) in R. rewrite Hnew in R.
      destruct (do_parse s1 (length (ps_envs s)) src) as [r s']. cbn [fst snd] in *. subst r. split; [exists ed; split; reflexivity | exact I'].
Qed.

Fixpoint results_ok (s : pstate) (ops : list op) (rs : list (option presult)) : Prop :=
  match ops, rs with
  | [], [] => True
  | o :: ops', r :: rs' => op_ok s o r /\ results_ok (snd (step_op s o)) ops' rs'
  | _, _ => False
  end.

(* C11 part 2: along every history every parse returns what a parse with fresh (empty) memo tables returns for
   the environment's own configuration, tags and filters *)
Theorem env_independence : forall ops s, inv s -> results_ok s ops (fst (run_ops s ops)).
Proof.
  induction ops as [|o ops IH]; intros s I; simpl; auto.
  destruct (step_correct s o I) as [H1 H2].
  destruct (step_op s o) as [x s1] eqn:E. simpl in *.
  specialize (IH s1 H2). destruct (run_ops s1 ops) as [xs s2]. simpl in *. split; auto.
Qed.

Corollary env_independence_from_start : forall ops, results_ok ps0 ops (fst (run_ops ps0 ops)).
Proof. intros. apply env_independence, inv0. Qed.

(* the memo tables are unobservable: emptying them changes no result *)
Theorem caches_unobservable : forall s e src, inv s -> fst (do_parse s e src) = fst (do_parse (forget s) e src).
Proof.
  intros s e src I.
  assert (I' : inv (forget s)) by (destruct I; constructor; simpl; auto; constructor).
  destruct (do_parse_correct s e src I) as (R & _). destruct (do_parse_correct (forget s) e src I') as (R' & _).
  rewrite R, R'. reflexivity.
Qed.
