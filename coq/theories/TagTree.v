(* Tag-level structure of templates: the token stream the template lexer hands to the parser (text, output
   statements, tags with their expression text, raw / comment bodies), the generic block parser
   (Parser.parse_block: parse nodes until one of a set of stop tags; a block tag parses its body, then its
   sections -- else / elsif / when -- then expects its end tag), and the serialiser of the resulting tree back
   to tokens (the structure of every Node.__str__).  Expression text is an opaque payload here; conditions,
   string literals and paths have their own models (Cond.v, CondParen.v, StrLit.v).
   Executable definitions only. *)
From LiquidVerif Require Import Prelude.

Inductive ttok :=
| KText (s : str)                 (* template text *)
| KRaw (s : str)                  (* {% raw %}s{% endraw %} *)
| KComment (s : str)              (* {% comment %}s{% endcomment %} *)
| KOut (e : str)                  (* {{ e }} *)
| KTag (name e : str).            (* {% name e %} *)

Inductive node :=
| NText (s : str) | NRaw (s : str) | NComment (s : str) | NOut (e : str)
| NInline (name e : str)                                   (* assign echo cycle increment include render liquid # ... *)
| NBlock (name e : str) (body : list node) (secs : list (str * str * list node)).
                                                           (* if/unless (elsif, else) case (when, else) for (else) tablerow capture ifchanged *)

Inductive tagkind := TBlock (sections : list str) | TInline | TNone.

Definition endname (n : str) : str := [101; 110; 100]%N ++ n.     (* "end" ++ n *)

Fixpoint mem (x : str) (l : list str) : bool :=
  match l with [] => false | y :: l' => str_eqb x y || mem x l' end.

(* ---- serialiser ---- *)
Fixpoint print_node (n : node) : list ttok :=
  match n with
  | NText s => [KText s]
  | NRaw s => [KRaw s]
  | NComment s => [KComment s]
  | NOut e => [KOut e]
  | NInline name e => [KTag name e]
  | NBlock name e body secs =>
      KTag name e ::
      (fix pl (ns : list node) : list ttok := match ns with [] => [] | m :: ns' => print_node m ++ pl ns' end) body ++
      (fix ps (ss : list (str * str * list node)) : list ttok :=
         match ss with
         | [] => []
         | (sn, se, sb) :: ss' =>
             KTag sn se ::
             (fix pl (ns : list node) : list ttok := match ns with [] => [] | m :: ns' => print_node m ++ pl ns' end) sb
             ++ ps ss'
         end) secs ++
      [KTag (endname name) []]
  end.

Fixpoint print_nodes (ns : list node) : list ttok :=
  match ns with [] => [] | m :: ns' => print_node m ++ print_nodes ns' end.

Fixpoint print_secs (ss : list (str * str * list node)) : list ttok :=
  match ss with
  | [] => []
  | (sn, se, sb) :: ss' => KTag sn se :: print_nodes sb ++ print_secs ss'
  end.

(* ---- parser ---- *)
Section Parser.
  Variable kind_of : str -> tagkind.       (* the environment's tag register *)

  (* the sections of a block: while the next tag is one of the block's section names, parse that section's body *)
  Fixpoint psections (rec : list ttok -> res (list node * list ttok)) (secs : list str) (g : nat) (ts : list ttok)
    {struct g} : res (list (str * str * list node) * list ttok) :=
    match g with
    | O => OutOfFuel
    | S g' =>
        match ts with
        | KTag sn se :: r' =>
            if mem sn secs then
              do sb <- rec r';
              do more <- psections rec secs g' (snd sb);
              Ok ((sn, se, fst sb) :: fst more, snd more)
            else Ok ([], ts)
        | _ => Ok ([], ts)
        end
    end.

  (* parse nodes until a tag whose name is in [stops] (left in the stream) or the end of the stream *)
  Fixpoint parse_until (fuel : nat) (stops : list str) (ts : list ttok) {struct fuel} : res (list node * list ttok) :=
    match fuel with
    | O => OutOfFuel
    | S f =>
        match ts with
        | [] => Ok ([], [])
        | KText s :: r => do x <- parse_until f stops r; Ok (NText s :: fst x, snd x)
        | KRaw s :: r => do x <- parse_until f stops r; Ok (NRaw s :: fst x, snd x)
        | KComment s :: r => do x <- parse_until f stops r; Ok (NComment s :: fst x, snd x)
        | KOut e :: r => do x <- parse_until f stops r; Ok (NOut e :: fst x, snd x)
        | KTag n e :: r =>
            if mem n stops then Ok ([], ts)
            else match kind_of n with
                 | TNone => Err ESyntax                       (* unexpected tag *)
                 | TInline => do x <- parse_until f stops r; Ok (NInline n e :: fst x, snd x)
                 | TBlock secs =>
                     let inner := endname n :: secs in
                     do b <- parse_until f inner r;
                     do s <- psections (parse_until f inner) secs f (snd b);
                     match snd s with
                     | KTag en _ :: r'' =>
                         if str_eqb en (endname n) then
                           do x <- parse_until f stops r''; Ok (NBlock n e (fst b) (fst s) :: fst x, snd x)
                         else Err ESyntax
                     | _ => Err ESyntax                       (* expected the end tag, found end of input *)
                     end
                 end
        end
    end.

  (* a tree is well formed for the register: inline nodes carry inline tags, block nodes block tags with their own sections *)
  Fixpoint wf (n : node) : bool :=
    match n with
    | NInline name _ => match kind_of name with TInline => true | _ => false end
    | NBlock name _ body secs =>
        match kind_of name with
        | TBlock ss =>
            (fix wl (ns : list node) : bool := match ns with [] => true | m :: r => wf m && wl r end) body &&
            (fix ws (l : list (str * str * list node)) : bool :=
               match l with
               | [] => true
               | (sn, _, sb) :: r =>
                   mem sn ss &&
                   (fix wl (ns : list node) : bool := match ns with [] => true | m :: r => wf m && wl r end) sb && ws r
               end) secs
        | _ => false
        end
    | _ => true
    end.
  Fixpoint wf_nodes (ns : list node) : bool := match ns with [] => true | m :: r => wf m && wf_nodes r end.
  Fixpoint wf_secs (ss : list str) (l : list (str * str * list node)) : bool :=
    match l with [] => true | (sn, _, sb) :: r => mem sn ss && wf_nodes sb && wf_secs ss r end.

  Definition parse_template (ts : list ttok) : res (list node) :=
    do x <- parse_until (S (length ts)) [] ts;
    match snd x with [] => Ok (fst x) | _ => Err ESyntax end.
End Parser.

(* ---- the standard tag register (liquid/builtin/__init__.py) ---- *)
From Coq Require Import String Ascii.
Definition slit (x : string) : str := map N_of_ascii (list_ascii_of_string x).

Definition std_blocks : list (str * list str) :=
  [ (slit "if", [slit "elsif"; slit "else"]); (slit "unless", [slit "elsif"; slit "else"]);
    (slit "case", [slit "when"; slit "else"]); (slit "for", [slit "else"]);
    (slit "tablerow", []); (slit "capture", []); (slit "ifchanged", []) ].
Definition std_inlines : list str :=
  [ slit "assign"; slit "echo"; slit "cycle"; slit "increment"; slit "decrement"; slit "include"; slit "render";
    slit "liquid"; slit "break"; slit "continue"; slit "#" ].

Definition std_kind (n : str) : tagkind :=
  match alookup n std_blocks with
  | Some secs => TBlock secs
  | None => if mem n std_inlines then TInline else TNone
  end.

(* correspondence: str() of a parsed template, as tag-level tokens *)
Record tcase := { tc_nodes : list node }.
Definition run_treparse (c : tcase) : option (list ttok) :=
  match parse_template std_kind (print_nodes (tc_nodes c)) with Ok ns => Some (print_nodes ns) | _ => None end.

Definition ttok_eqb (a b : ttok) : bool :=
  match a, b with
  | KText x, KText y | KRaw x, KRaw y | KComment x, KComment y | KOut x, KOut y => str_eqb x y
  | KTag n e, KTag n' e' => str_eqb n n' && str_eqb e e'
  | _, _ => false
  end.

(* (is the tree well formed for the standard register -- the hypothesis of the round-trip theorem --, its serialisation) *)
Definition run_tprint (c : tcase) : bool * list ttok := (wf_nodes std_kind (tc_nodes c), print_nodes (tc_nodes c)).
Definition tprint_eqb (a : bool * list ttok) (b : list ttok) : bool := fst a && list_eqb ttok_eqb (snd a) b.
