(* String literals.  Liquid string literals have no escape sequences: the expression lexer's rule is
   QUOTE (.*?) SAME-QUOTE with DOTALL, i.e. at a quote character the value is everything up to the next occurrence of the SAME
   quote character.  [quote_string] is liquid.builtin.expressions.path.quote_string (StringLiteral.__str__ and quoted path
   segments, after the fix); [repr_old] is Python's repr() restricted to the characters that matter (what __str__ used
   before the fix).  Executable definitions only. *)
From LiquidVerif Require Import Prelude.

Definition SQ : N := 39%N.   (* single quote *)
Definition DQ : N := 34%N.   (* double quote *)
Definition BS : N := 92%N.   (* \ *)
Definition NL : N := 10%N.

Definition has (c : N) (s : str) : bool := existsb (N.eqb c) s.

Definition quote_string (s : str) : str :=
  let q := if has SQ s then DQ else SQ in q :: s ++ [q].

Fixpoint until (q : N) (s : str) : option (str * str) :=
  match s with
  | [] => None
  | c :: r => if N.eqb c q then Some ([], r)
              else match until q r with Some (b, t) => Some (c :: b, t) | None => None end
  end.

(* the STRING rule at the start of [s]: value and remaining input *)
Definition scan_string (s : str) : option (str * str) :=
  match s with
  | c :: r => if N.eqb c SQ || N.eqb c DQ then until c r else None
  | [] => None
  end.

(* repr(): single quotes unless the string has a single and no double quote; backslash, newline and the chosen quote escaped *)
Definition repr_old (s : str) : str :=
  let q := if has SQ s && negb (has DQ s) then DQ else SQ in
  q :: flat_map (fun c => if N.eqb c BS then [BS; BS] else if N.eqb c NL then [BS; 110%N]
                          else if N.eqb c q then [BS; q] else [c]) s ++ [q].

Record slcase := { sl_value : str }.
Definition run_quote (c : slcase) : str := quote_string (sl_value c).
Definition run_requote (c : slcase) : option str :=
  match scan_string (quote_string (sl_value c)) with Some (v, []) => Some (quote_string v) | _ => None end.
