(* C01 -- proofs about PairAnalyze.v: the synchronous walk over generators and the asynchronous walk over awaited lists
   append the same entries in the same order, load the same templates in the same order (failed loads included) and end
   the same way; neither loads anything when include_partials is false; each goes through its own API only; and a copy
   that awaits the children of a partial before looking it up in `seen` is told apart. *)
From Coq Require Import String ZArith List Bool Lia.
From LiquidVerif Require Import Prelude PairAnalyze.
Import ListNotations.
Local Open Scope list_scope.

Definition wtr {A} (r : wout A * wstate * list wev) : list wev := snd r.

Definition WRel {A} (m1 m2 : W A) : Prop := forall st, werase_run (m1 st) = werase_run (m2 st).

Lemma werase_app a b : werase (a ++ b) = werase a ++ werase b.
Proof. apply map_app. Qed.

Lemma WRel_refl {A} (m : W A) : WRel m m.
Proof. intro st. reflexivity. Qed.

Lemma WRel_bind {A B} (m1 m2 : W A) (f1 f2 : A -> W B) :
  WRel m1 m2 -> (forall a, WRel (f1 a) (f2 a)) -> WRel (wbind m1 f1) (wbind m2 f2).
Proof.
  intros Hm Hf st. unfold wbind. specialize (Hm st).
  destruct (m1 st) as [[o1 s1] t1]. destruct (m2 st) as [[o2 s2] t2].
  cbn [werase_run] in Hm. inversion Hm; subst.
  destruct o2 as [a|e|]; cbn [werase_run]; try congruence.
  specialize (Hf a s2). destruct (f1 a s2) as [[r1 s1'] t1']. destruct (f2 a s2) as [[r2 s2'] t2'].
  cbn [werase_run] in *. inversion Hf; subst. rewrite !werase_app. congruence.
Qed.

Lemma WRel_ext_l {A} (m1 m1' m2 : W A) : (forall st, m1 st = m1' st) -> WRel m1' m2 -> WRel m1 m2.
Proof. intros E H st. rewrite E. apply H. Qed.

Lemma wbind_assoc {A B C} (m : W A) (f : A -> W B) (g : B -> W C) st :
  wbind (wbind m f) g st = wbind m (fun a => wbind (f a) g) st.
Proof.
  unfold wbind. destruct (m st) as [[o s1] t1]. destruct o as [a|e|]; try reflexivity.
  destruct (f a s1) as [[o2 s2] t2]. destruct o2 as [b|e|]; try reflexivity.
  destruct (g b s2) as [[o3 s3] t3]. rewrite app_assoc. reflexivity.
Qed.

Lemma wbind_ret_l {A B} (a : A) (f : A -> W B) st : wbind (wret a) f st = f a st.
Proof. unfold wbind, wret. destruct (f a st) as [[o s] t]. reflexivity. Qed.

Lemma wbind_ext {A B} (m : W A) (f g : A -> W B) st : (forall a st', f a st' = g a st') -> wbind m f st = wbind m g st.
Proof. intro H. unfold wbind. destruct (m st) as [[o s1] t1]. destruct o; try reflexivity. rewrite H. reflexivity. Qed.

Lemma for_list_rel {A} (f1 f2 : A -> W unit) l : (forall a, WRel (f1 a) (f2 a)) -> WRel (for_list f1 l) (for_list f2 l).
Proof.
  intro H. induction l as [|a r IH]; cbn [for_list]; [apply WRel_refl|]. apply WRel_bind; [apply H|]. intro. exact IH.
Qed.

Section Agree.
  Variable w : aworld.
  (* the loader does not tell the APIs apart: true of the built-in loaders (PairLoad: get_source_async_eq) *)
  Hypothesis Hld : forall n, aw_ld w AAsync n = aw_ld w ASync n.

  Lemma aload_rel name : WRel (aload w ASync name) (aload w AAsync name).
  Proof. intro st. unfold aload. rewrite Hld. destruct (aw_ld w ASync name); reflexivity. Qed.

  (* creating the iterable and taking its items, against awaiting children_async *)
  Lemma children_rel ip inst n :
    WRel (doW g <- children_sync ip inst n; gen_items w inst g) (children_async w ip inst n).
  Proof.
    destruct n as [i vs|i x|i x b|i nm b|i nm b|i name args|i name args|i sn args|i name];
      cbn [children_sync children_async]; try apply WRel_refl.
    - (* include *) apply WRel_ext_l with (m1' := gen_items w inst (if ip then GLoad name else GNodes [])).
      + intro st. apply wbind_ret_l.
      + destruct ip; cbn [gen_items]; [apply aload_rel|apply WRel_refl].
    - (* render *) apply WRel_ext_l with (m1' := gen_items w inst (if ip then GLoad name else GNodes [])).
      + intro st. apply wbind_ret_l.
      + destruct ip; cbn [gen_items]; [apply aload_rel|apply WRel_refl].
    - (* extends *) apply WRel_ext_l with (m1' := gen_items w inst (if ip then GLoad name else GNodes [])).
      + intro st. apply wbind_ret_l.
      + destruct ip; cbn [gen_items]; [apply aload_rel|apply WRel_refl].
  Qed.

  (* the loop over a generator against the loop over the awaited list *)
  Lemma loop_rel ip inst n (b1 b2 : N -> anode -> W unit) (k : unit -> W unit) :
    (forall i a, WRel (b1 i a) (b2 i a)) ->
    WRel (doW g <- children_sync ip inst n; doW _ <- for_gen w inst g b1; k tt)
         (doW l <- children_async w ip inst n; doW _ <- for_list (b2 (snd l)) (fst l); k tt).
  Proof.
    intro H.
    apply WRel_ext_l with
      (m1' := doW l <- (doW g <- children_sync ip inst n; gen_items w inst g); doW _ <- for_list (b1 (snd l)) (fst l); k tt).
    - intro st. rewrite (wbind_assoc (children_sync ip inst n) (gen_items w inst) _ st).
      apply wbind_ext. intros g st'. unfold for_gen. apply wbind_assoc.
    - apply WRel_bind; [apply children_rel|]. intro l. apply WRel_bind; [|intro; apply WRel_refl].
      apply for_list_rel. intro a. apply H.
  Qed.

  Lemma visit_rel : forall fuel ip jg tn inst n, WRel (visit_sync fuel w ip jg tn inst n) (visit_async fuel w ip jg tn inst n).
  Proof.
    induction fuel as [|f IH]; intros ip jg tn inst n; cbn [visit_sync visit_async]; [apply WRel_refl|].
    apply WRel_bind; [apply WRel_refl|]. intro.
    apply WRel_bind; [apply WRel_refl|]. intro.
    apply WRel_bind; [apply WRel_refl|]. intro.
    apply WRel_bind; [apply WRel_refl|]. intro.
    destruct (node_partial n) as [p|].
    - apply WRel_bind.
      + destruct (is_empty (p_name p)); [|apply WRel_refl].
        apply WRel_ext_l with
          (m1' := doW snippet <- (doW g <- children_sync ip inst n; gen_items w inst g); wret (first_sid w snippet)).
        * intro st. rewrite (wbind_assoc (children_sync ip inst n) (gen_items w inst) _ st). reflexivity.
        * apply WRel_bind; [apply children_rel|]. intro. apply WRel_refl.
      + intro sname. apply WRel_bind; [apply WRel_refl|]. intro st.
        destruct (existsb _ _); [apply WRel_refl|].
        apply WRel_bind; [apply WRel_refl|]. intro.
        apply WRel_bind; [apply WRel_refl|]. intro.
        apply (loop_rel ip inst n _ _ (fun _ => wmod (set_scope (fun sc => if p_isolated p then ws_scope st else tl sc)))).
        intros ? ?. apply IH.
    - apply WRel_bind; [apply WRel_refl|]. intro.
      apply (loop_rel ip inst n _ _ (fun _ => wmod (set_scope (@tl _)))).
      intros ? ?. apply IH.
  Qed.

  (* BoundTemplate.analyze_async against analyze: for every template, include_partials flag and state of the walk the
     same entries are appended to tags / variables / globals / locals in the same order, the same templates are loaded
     in the same order -- a template that is not found ends both walks at the same point with TemplateNotFoundError --
     and the same static-context bindings and `seen` map are left behind. *)
  Theorem analyze_async_eq fuel ip name t st :
    werase_run (analyze_async fuel w ip name t st) = werase_run (analyze_sync fuel w ip name t st).
  Proof.
    symmetry. revert st. change (WRel (analyze_sync fuel w ip name t) (analyze_async fuel w ip name t)).
    unfold analyze_sync, analyze_async. apply for_list_rel. intro a. apply visit_rel.
  Qed.
End Agree.

(* ------------------------------------------------------------------------ what every event of a walk satisfies *)
Definition WAll {A} (Q : wev -> Prop) (m : W A) : Prop := forall st, Forall Q (wtr (m st)).

Lemma WAll_bind {A B} (Q : wev -> Prop) (m : W A) (f : A -> W B) : WAll Q m -> (forall a, WAll Q (f a)) -> WAll Q (wbind m f).
Proof.
  intros Hm Hf st. unfold wbind. specialize (Hm st). destruct (m st) as [[o s1] t1]. cbn [wtr snd] in Hm.
  destruct o as [a|e|]; cbn [wtr snd]; try assumption.
  specialize (Hf a s1). destruct (f a s1) as [[r s2] t2]. cbn [wtr snd] in *. apply Forall_app. split; assumption.
Qed.
Lemma WAll_ret {A} (Q : wev -> Prop) (a : A) : WAll Q (wret a).  Proof. intro st. constructor. Qed.
Lemma WAll_fail {A} (Q : wev -> Prop) e : WAll Q (@wfail A e).  Proof. intro st. constructor. Qed.
Lemma WAll_fuel {A} (Q : wev -> Prop) : WAll Q (@wfuel A).  Proof. intro st. constructor. Qed.
Lemma WAll_get (Q : wev -> Prop) : WAll Q wget.  Proof. intro st. constructor. Qed.
Lemma WAll_put (Q : wev -> Prop) s : WAll Q (wput s).  Proof. intro st. constructor. Qed.
Lemma WAll_mod (Q : wev -> Prop) f : WAll Q (wmod f).  Proof. intro st. constructor. Qed.
Lemma WAll_emit (Q : wev -> Prop) e : Q e -> WAll Q (wemit e).  Proof. intros H st. repeat constructor. exact H. Qed.
Lemma WAll_for {A} (Q : wev -> Prop) (f : A -> W unit) l : (forall a, WAll Q (f a)) -> WAll Q (for_list f l).
Proof. intro H. induction l; cbn [for_list]; [apply WAll_ret|]. apply WAll_bind; [apply H|]. intro. assumption. Qed.

Ltac wleaf := first [ apply WAll_ret | apply WAll_fail | apply WAll_fuel | apply WAll_get | apply WAll_put | apply WAll_mod ].

Definition not_load (e : wev) : Prop := match e with WLoad _ _ _ => False | _ => True end.

Section Events.
  Variable w : aworld.
  Variable Q : wev -> Prop.
  Hypothesis Qnl : forall e, not_load e -> Q e.

  Lemma record_var_all jg tn id x : WAll Q (record_var jg tn id x).
  Proof.
    unfold record_var. apply WAll_bind.
    - destruct jg; [wleaf|]. apply WAll_emit. apply Qnl. exact I.
    - intro. apply WAll_bind; [wleaf|]. intro st. destruct (sc_mem _ _); [wleaf|]. apply WAll_emit. apply Qnl. exact I.
  Qed.
  Lemma record_local_all tn id x : WAll Q (record_local tn id x).
  Proof. unfold record_local. apply WAll_bind; [wleaf|]. intro. apply WAll_emit. apply Qnl. exact I. Qed.

  Lemma aload_all m name : (forall f, Q (WLoad m name f)) -> WAll Q (aload w m name).
  Proof.
    intro H. unfold aload. destruct (aw_ld w m name).
    - apply WAll_bind; [apply WAll_emit; apply H|]. intro. apply WAll_bind; [wleaf|]. intro. apply WAll_bind; [wleaf|]. intro. wleaf.
    - apply WAll_bind; [apply WAll_emit; apply H|]. intro. wleaf.
  Qed.
  Lemma resolve_all s : WAll Q (resolve_snippet s).
  Proof. unfold resolve_snippet. apply WAll_bind; [wleaf|]. intro. wleaf. Qed.

  Lemma children_sync_all ip inst n : WAll Q (children_sync ip inst n).
  Proof. destruct n; cbn [children_sync]; try wleaf; try (apply WAll_bind; [unfold assign_snippet; wleaf|]; intro; wleaf). Qed.

  (* what children_sync returns: a generator that will load only when include_partials *)
  Definition ok_gen (ip : bool) (g : gen) : Prop := match g with GLoad _ => ip = true | _ => True end.

  Lemma children_sync_post ip inst n st g s1 t1 : children_sync ip inst n st = (WVal g, s1, t1) -> ok_gen ip g.
  Proof.
    destruct n; cbn [children_sync]; unfold wbind, assign_snippet, wmod, wret; intro E; inversion E; subst; cbn; auto;
      destruct ip; cbn; auto.
  Qed.

  Lemma gen_items_all ip inst g :
    (ip = true -> forall name f, Q (WLoad ASync name f)) -> ok_gen ip g -> WAll Q (gen_items w inst g).
  Proof.
    intros H Hg. destruct g; cbn [gen_items]; [wleaf| |apply resolve_all]. apply aload_all. apply H. exact Hg.
  Qed.

  Lemma WAll_bind_post {A B} (m : W A) (f : A -> W B) (R : A -> Prop) :
    WAll Q m -> (forall st a s1 t1, m st = (WVal a, s1, t1) -> R a) -> (forall a, R a -> WAll Q (f a)) -> WAll Q (wbind m f).
  Proof.
    intros Hm Hp Hf st. unfold wbind. specialize (Hm st). specialize (Hp st). destruct (m st) as [[o s1] t1]. cbn [wtr snd] in Hm.
    destruct o as [a|e|]; cbn [wtr snd]; try assumption.
    specialize (Hf a (Hp a s1 t1 eq_refl) s1). destruct (f a s1) as [[r s2] t2]. cbn [wtr snd] in *. apply Forall_app. split; assumption.
  Qed.

  Lemma children_async_all ip inst n :
    (ip = true -> forall name f, Q (WLoad AAsync name f)) -> WAll Q (children_async w ip inst n).
  Proof.
    intros H.
    destruct n; cbn [children_async]; try apply resolve_all;
      try (destruct ip; [apply aload_all; apply H; reflexivity|wleaf]);
      (* Node.children_async: the iterable of children() never loads for these nodes *)
      (apply WAll_bind_post with (R := fun g => exists l, g = GNodes l);
       [apply children_sync_all
       |cbn [children_sync]; unfold wbind, assign_snippet, wmod, wret; intros ? ? ? ? E; inversion E; eauto
       |intros g [l ->]; cbn [gen_items]; wleaf]).
  Qed.

  Section Walks.
    Variable ip : bool.
    Hypothesis Qs : ip = true -> forall name f, Q (WLoad ASync name f).

    Lemma visit_sync_all : forall fuel jg tn inst n, WAll Q (visit_sync fuel w ip jg tn inst n).
    Proof.
      induction fuel as [|f IH]; intros jg tn inst n; cbn [visit_sync]; [wleaf|].
      apply WAll_bind; [destruct (_ && _); wleaf|]. intro.
      apply WAll_bind; [destruct jg; [wleaf|apply WAll_emit; apply Qnl; exact I]|]. intro.
      apply WAll_bind; [apply WAll_for; intro; apply record_var_all|]. intro.
      apply WAll_bind; [apply WAll_for; intro; apply record_local_all|]. intro.
      assert (L : forall (body : N -> anode -> W unit) (k : W unit), (forall i a, WAll Q (body i a)) -> WAll Q k ->
                  WAll Q (doW g <- children_sync ip inst n; doW _ <- for_gen w inst g body; k)).
      { intros body k Hb Hk.
        apply WAll_bind_post with (R := ok_gen ip);
          [apply children_sync_all|intros ? ? ? ? E; exact (children_sync_post _ _ _ _ _ _ _ E)|].
        intros g Hg. apply WAll_bind; [|intro; exact Hk]. unfold for_gen.
        apply WAll_bind; [apply (gen_items_all ip); assumption|]. intro l. apply WAll_for. intro. apply Hb. }
      destruct (node_partial n) as [p|].
      - apply WAll_bind.
        + destruct (is_empty (p_name p)); [|wleaf].
          apply WAll_bind_post with (R := ok_gen ip);
            [apply children_sync_all|intros ? ? ? ? E; exact (children_sync_post _ _ _ _ _ _ _ E)|].
          intros g Hg. apply WAll_bind; [apply (gen_items_all ip); assumption|]. intro. wleaf.
        + intro sn. apply WAll_bind; [wleaf|]. intro st. destruct (existsb _ _); [wleaf|].
          apply WAll_bind; [wleaf|]. intro. apply WAll_bind; [wleaf|]. intro.
          apply L; [intros; apply IH|wleaf].
      - apply WAll_bind; [wleaf|]. intro. apply L; [intros; apply IH|wleaf].
    Qed.
  End Walks.

  Section WalksA.
    Variable ip : bool.
    Hypothesis Qa : ip = true -> forall name f, Q (WLoad AAsync name f).

    Lemma visit_async_all : forall fuel jg tn inst n, WAll Q (visit_async fuel w ip jg tn inst n).
    Proof.
      induction fuel as [|f IH]; intros jg tn inst n; cbn [visit_async]; [wleaf|].
      apply WAll_bind; [destruct (_ && _); wleaf|]. intro.
      apply WAll_bind; [destruct jg; [wleaf|apply WAll_emit; apply Qnl; exact I]|]. intro.
      apply WAll_bind; [apply WAll_for; intro; apply record_var_all|]. intro.
      apply WAll_bind; [apply WAll_for; intro; apply record_local_all|]. intro.
      destruct (node_partial n) as [p|].
      - apply WAll_bind.
        + destruct (is_empty (p_name p)); [|wleaf].
          apply WAll_bind; [apply children_async_all; assumption|]. intro. wleaf.
        + intro sn. apply WAll_bind; [wleaf|]. intro st. destruct (existsb _ _); [wleaf|].
          apply WAll_bind; [wleaf|]. intro. apply WAll_bind; [wleaf|]. intro.
          apply WAll_bind; [apply children_async_all; assumption|]. intro l.
          apply WAll_bind; [apply WAll_for; intro; apply IH|]. intro. wleaf.
      - apply WAll_bind; [wleaf|]. intro.
        apply WAll_bind; [apply children_async_all; assumption|]. intro l.
        apply WAll_bind; [apply WAll_for; intro; apply IH|]. intro. wleaf.
    Qed.
  End WalksA.
End Events.

(* include_partials=False: neither walk loads a template -- inline snippets are still visited *)
Theorem no_partials_no_loads fuel w name t st :
  Forall not_load (wtr (analyze_sync fuel w false name t st)) /\ Forall not_load (wtr (analyze_async fuel w false name t st)).
Proof.
  split.
  - unfold analyze_sync. apply WAll_for. intro. apply visit_sync_all; [auto|discriminate].
  - unfold analyze_async. apply WAll_for. intro. apply visit_async_all; [auto|discriminate].
Qed.

(* each walk reaches the loader through its own API only, whatever it visits *)
Definition loads_through (m : amode) (e : wev) : Prop := match e with WLoad m' _ _ => m' = m | _ => True end.
Theorem walk_modes fuel w ip name t st :
  Forall (loads_through ASync) (wtr (analyze_sync fuel w ip name t st)) /\
  Forall (loads_through AAsync) (wtr (analyze_async fuel w ip name t st)).
Proof.
  split.
  - unfold analyze_sync. apply WAll_for. intro. apply visit_sync_all; [intros [] H; try exact I; destruct H|reflexivity].
  - unfold analyze_async. apply WAll_for. intro. apply visit_async_all; [intros [] H; try exact I; destruct H|reflexivity].
Qed.

(* ------------------------------------------------------------------------------------------ witnesses *)
(* {% include 'p' %}{% include 'p' %} : the second include is found in `seen` with the same key and names in scope *)
Definition wit_root : list anode := [AInclude 1 (alit "p") []; AInclude 2 (alit "p") []].
Definition wit_aw : aworld := {| aw_ld := fun _ n => alookup n [(alit "p", [AProbe 3 [alit "g"]])]; aw_addr := by_position |}.
Definition analyze_eager (fuel : nat) (w : aworld) (ip : bool) (name : str) (t : list anode) : W unit :=
  for_list (visit_async_eager fuel w ip false name 0) t.

(* the walks load p once; a copy that awaits the children before the lookup in `seen` loads it twice *)
Theorem eager_children_refuted :
  ao_loads (aobserve (analyze_async 10 wit_aw true (alit "root") wit_root ws0)) = [(AAsync, alit "p", true)] /\
  ao_loads (aobserve (analyze_sync 10 wit_aw true (alit "root") wit_root ws0)) = [(ASync, alit "p", true)] /\
  werase_run (analyze_eager 10 wit_aw true (alit "root") wit_root ws0) <>
  werase_run (analyze_sync 10 wit_aw true (alit "root") wit_root ws0).
Proof. split; [|split]; vm_compute; try reflexivity. discriminate. Qed.

(* a template that is not found ends both walks at the same point: what came before is reported by both *)
Example not_found_example :
  let t := [AProbe 1 [alit "g"]; AInclude 2 (alit "nosuch") []; AProbe 3 [alit "g"]] in
  aobserve (analyze_sync 10 wit_aw true (alit "root") t ws0) =
    {| ao_vars := [(alit "g", [(alit "root", 1%N)])]; ao_globals := [(alit "g", [(alit "root", 1%N)])]; ao_locals := [];
       ao_tags := [(TgEcho, [(alit "root", 1%N)]); (TgInclude, [(alit "root", 2%N)])];
       ao_loads := [(ASync, alit "nosuch", false)]; ao_end := Some ENotFound |}.
Proof. vm_compute. reflexivity. Qed.

(* ---- the code as found: a snippet identified by the address of a node object ----
   root: {% render 'p' %}{% render 'p', a: 1 %}{% render 'p', b: 1 %}    p: {% snippet s %}{% echo g %}{% endsnippet %}{% render s %}
   p is loaded three times (different keys), each load parses new nodes.  An allocator that never reuses an address sees
   three different snippets and visits each in full; one that gives the third parse the addresses of the first (dead by
   then) recognises the snippet as seen and skips it.  Both are legal behaviours of CPython, and the allocation pattern of
   analyze() differs from that of analyze_async(): the two report different results for one template. *)
Definition old_p : list anode := [ASnippet 10 (alit "s") [AProbe 11 [alit "g"]]; ARenderSnippet 12 (alit "s") []].
Definition old_root : list anode := [ARender 1 (alit "p") []; ARender 2 (alit "p") [alit "a"]; ARender 3 (alit "p") [alit "b"]].
Definition old_world (addr : N -> N -> N) : aworld := {| aw_ld := fun _ n => alookup n [(alit "p", old_p)]; aw_addr := addr |}.
Definition addr_fresh : N -> N -> N := fun load id => (1000 * load + id)%N.
Definition addr_reused : N -> N -> N := fun load id => if N.eqb load 3 then (1000 + id)%N else (1000 * load + id)%N.

Theorem snippet_identity_by_address_refuted :
  ao_globals (aobserve (analyze_sync 10 (old_world addr_reused) true (alit "root") old_root ws0)) <>
  ao_globals (aobserve (analyze_async 10 (old_world addr_fresh) true (alit "root") old_root ws0)) /\
  ao_globals (aobserve (analyze_sync 10 (old_world addr_reused) true (alit "root") old_root ws0)) <>
  ao_globals (aobserve (analyze_sync 10 (old_world addr_fresh) true (alit "root") old_root ws0)).
Proof. split; vm_compute; discriminate. Qed.

(* the repaired identity: position in the source, whatever the load *)
Example snippet_identity_by_position :
  ao_globals (aobserve (analyze_sync 10 (old_world by_position) true (alit "root") old_root ws0)) =
    [(alit "g", [(alit "p", 11%N)])] /\
  aobserve (analyze_async 10 (old_world by_position) true (alit "root") old_root ws0) =
  let o := aobserve (analyze_sync 10 (old_world by_position) true (alit "root") old_root ws0) in
  {| ao_vars := ao_vars o; ao_globals := ao_globals o; ao_locals := ao_locals o; ao_tags := ao_tags o;
     ao_loads := map (fun x => (AAsync, snd (fst x), snd x)) (ao_loads o); ao_end := ao_end o |}.
Proof. split; vm_compute; reflexivity. Qed.
