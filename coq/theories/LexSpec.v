(* LexSpec.v — the declarative side of C10/C11: a template as a list of (text, markup) pairs plus a final text,
   its concrete syntax under given delimiters, the documented rendering, and the well-formedness side conditions
   (no_collision).  Written independently of the scanner in Lex.v; definitions only. *)
From LiquidVerif Require Import Prelude Lex.

Inductive markup :=
| MkOut (l : bool) (w1 : str) (q : N) (e : str) (w2 : str) (r : bool)          (* ss[-] w1 q e q w2 [-]se *)
| MkEcho (l : bool) (w1 w2 : str) (q : N) (e : str) (w3 : str) (r : bool)      (* ts[-] w1 echo w2 q e q w3 [-]te *)
| MkInline (l : bool) (w1 w2 : str) (body : str) (w3 : str) (r : bool)         (* ts[-] w1 # w2 body w3 [-]te *)
| MkRaw (l1 : bool) (w1 w2 : str) (r1 : bool) (body : str) (l2 : bool) (w3 w4 : str) (r2 : bool)
| MkDoc (l1 : bool) (w1 w2 : str) (r1 : bool) (body : str) (l2 : bool) (w3 w4 : str) (r2 : bool)
| MkComment (l1 : bool) (w1 w2 : str) (r1 : bool) (body : str) (l2 : bool) (w3 w4 : str) (r2 : bool)
| MkShort (l : bool) (body : str) (r : bool).                                   (* cs[-]body[-]ce *)

Definition hyp (b : bool) : str := if b then [hy] else [].

(* ts[-] w1 word w2 [-]te *)
Definition wtag (d : delims) (l : bool) (w1 word w2 : str) (r : bool) : str :=
  d_ts d ++ hyp l ++ w1 ++ word ++ w2 ++ hyp r ++ d_te d.

Definition msrc (d : delims) (m : markup) : str :=
  match m with
  | MkOut l w1 q e w2 r => d_ss d ++ hyp l ++ w1 ++ (q :: e ++ [q]) ++ w2 ++ hyp r ++ d_se d
  | MkEcho l w1 w2 q e w3 r => d_ts d ++ hyp l ++ w1 ++ w_echo ++ w2 ++ (q :: e ++ [q]) ++ w3 ++ hyp r ++ d_te d
  | MkInline l w1 w2 body w3 r => d_ts d ++ hyp l ++ w1 ++ w_hash ++ w2 ++ body ++ w3 ++ hyp r ++ d_te d
  | MkRaw l1 w1 w2 r1 body l2 w3 w4 r2 => wtag d l1 w1 w_raw w2 r1 ++ body ++ wtag d l2 w3 w_endraw w4 r2
  | MkDoc l1 w1 w2 r1 body l2 w3 w4 r2 => wtag d l1 w1 w_doc w2 r1 ++ body ++ wtag d l2 w3 w_enddoc w4 r2
  | MkComment l1 w1 w2 r1 body l2 w3 w4 r2 => wtag d l1 w1 w_comment w2 r1 ++ body ++ wtag d l2 w3 w_endcomment w4 r2
  | MkShort l body r => d_cs d ++ hyp l ++ body ++ hyp r ++ d_ce d
  end.

Definition template : Type := list (str * markup) * str.

Fixpoint build_segs (d : delims) (segs : list (str * markup)) : str :=
  match segs with
  | [] => []
  | (t, m) :: r => t ++ msrc d m ++ build_segs d r
  end.

Definition build (d : delims) (tp : template) : str := build_segs d (fst tp) ++ snd tp.

(* the marker on the markup's opening delimiter / on its (last) closing delimiter *)
Definition opens (m : markup) : bool :=
  match m with
  | MkOut l _ _ _ _ _ | MkEcho l _ _ _ _ _ _ | MkInline l _ _ _ _ _ | MkShort l _ _ => l
  | MkRaw l1 _ _ _ _ _ _ _ _ | MkDoc l1 _ _ _ _ _ _ _ _ | MkComment l1 _ _ _ _ _ _ _ _ => l1
  end.

Definition closes (m : markup) : bool :=
  match m with
  | MkOut _ _ _ _ _ r | MkEcho _ _ _ _ _ _ r | MkInline _ _ _ _ _ r | MkShort _ _ r => r
  | MkRaw _ _ _ _ _ _ _ _ r2 | MkDoc _ _ _ _ _ _ _ _ r2 | MkComment _ _ _ _ _ _ _ _ r2 => r2
  end.

(* what the markup itself writes *)
Definition mout (m : markup) : str :=
  match m with
  | MkOut _ _ _ e _ _ | MkEcho _ _ _ _ e _ _ => e
  | MkRaw _ _ _ _ body _ _ _ _ => body
  | MkInline _ _ _ _ _ _ | MkDoc _ _ _ _ _ _ _ _ _ | MkComment _ _ _ _ _ _ _ _ _ | MkShort _ _ _ => []
  end.

Definition strip_text (left right : bool) (t : str) : str :=
  let t1 := if left then lstrip_s t else t in
  if right then rstrip_s t1 else t1.

(* The documented rendering.  [prev] = the closing delimiter before this text carries a hyphen. *)
Fixpoint spec_from (prev : bool) (segs : list (str * markup)) (tail : str) : str :=
  match segs with
  | [] => strip_text prev false tail
  | (t, m) :: r => strip_text prev (opens m) t ++ mout m ++ spec_from (closes m) r tail
  end.

Definition spec_render (tp : template) : str := spec_from false (fst tp) (snd tp).

(* ---------------------------------------------------------------- side conditions *)
Definition hd0 (s : str) : N := match s with c :: _ => c | [] => 0%N end.
Definition all_space (w : str) : bool := forallb is_space w.
Definition clash (a b : str) : bool := prefixb a b || prefixb b a.

(* the delimiters can be told apart and do not begin with a space, a hyphen or (closing tag delimiter) a word
   character; shorthand comments may be disabled (both strings empty) *)
Definition d_ok (d : delims) : bool :=
  nonempty (d_ts d) && nonempty (d_te d) && nonempty (d_ss d) && nonempty (d_se d)
  && (nonempty (d_cs d) && nonempty (d_ce d) || negb (nonempty (d_cs d)))
  && negb (clash (d_ts d) (d_ss d))
  && (negb (nonempty (d_cs d)) || negb (clash (d_cs d) (d_ts d)) && negb (clash (d_cs d) (d_ss d)))
  && negb (is_space (hd0 (d_te d))) && negb (N.eqb (hd0 (d_te d)) hy) && negb (is_word (hd0 (d_te d)))
  && negb (is_space (hd0 (d_se d))) && negb (N.eqb (hd0 (d_se d)) hy)
  && negb (N.eqb (hd0 (d_ce d)) hy).

(* a character that cannot begin an opening delimiter *)
Definition plain_char (d : delims) (c : N) : bool :=
  negb (N.eqb c (hd0 (d_ts d))) && negb (N.eqb c (hd0 (d_ss d)))
  && negb (nonempty (d_cs d) && N.eqb c (hd0 (d_cs d))).

Definition plain (d : delims) (t : str) : bool := forallb (plain_char d) t.

Definition last0 (s : str) : N := last s 0%N.

(* an expression-like body in front of a closing delimiter e: none of its characters is e's first character, it
   does not begin or end with whitespace and does not end with a hyphen (a final hyphen would BE the marker) *)
Definition tight (e : str) (x : str) : bool :=
  forallb (fun c => negb (N.eqb c (hd0 e))) x
  && match x with
     | [] => true
     | c :: _ => negb (is_space c) && negb (is_space (last0 x)) && negb (N.eqb (last0 x) hy)
     end.

Definition quote_ok (q : N) : bool := N.eqb q squote || N.eqb q dquote.
Definition lit_ok (q : N) (e : str) : bool :=
  forallb (fun c => negb (N.eqb c q) && negb (N.eqb c backslash)) e.

Definition wf_markup (d : delims) (m : markup) : bool :=
  match m with
  | MkOut l w1 q e w2 r =>
      all_space w1 && all_space w2 && quote_ok q && lit_ok q e && tight (d_se d) (q :: e ++ [q])
  | MkEcho l w1 w2 q e w3 r =>
      all_space w1 && all_space w2 && all_space w3 && quote_ok q && lit_ok q e && tight (d_te d) (q :: e ++ [q])
  | MkInline l w1 w2 body w3 r =>
      all_space w1 && all_space w2 && all_space w3 && tight (d_te d) body
      && forallb (fun c => negb (N.eqb c nl)) body
      && (nonempty body || negb (nonempty w3))     (* with an empty body all the padding is w2 *)
  | MkRaw l1 w1 w2 r1 body l2 w3 w4 r2 | MkDoc l1 w1 w2 r1 body l2 w3 w4 r2 =>
      all_space w1 && all_space w2 && all_space w3 && all_space w4
      && forallb (fun c => negb (N.eqb c (hd0 (d_ts d)))) body
  | MkComment l1 w1 w2 r1 body l2 w3 w4 r2 =>
      all_space w1 && all_space w2 && all_space w3 && all_space w4 && plain d body
  | MkShort l body r =>
      nonempty (d_cs d)
      && forallb (fun c => negb (N.eqb c (hd0 (d_ce d)))) body
      && match body with
         | [] => negb l && negb r
         | c :: _ => negb (N.eqb c hy) && negb (N.eqb (last0 body) hy)
         end
  end.

Definition wf_segs (d : delims) (segs : list (str * markup)) : bool :=
  forallb (fun tm => plain d (fst tm) && wf_markup d (snd tm)) segs.

(* no_collision: delimiters distinguishable; texts and bodies over characters that cannot start markup *)
Definition no_collision (d : delims) (tp : template) : bool :=
  d_ok d && wf_segs d (fst tp) && plain d (snd tp).
