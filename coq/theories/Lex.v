(* Lex.v — char-level model of the template lexer (liquid/lex.py: compile_liquid_rules, _tokenize_template),
   parametric in the six delimiter strings, plus a renderer for the literal fragment (text, raw, comments, doc,
   inline comments, output/echo of string literals) and the line/column computation of liquid/span.py and
   liquid/exceptions.py.  Executable definitions only; the proofs are in Lex_*Proofs.v.

   What the regular expressions compute is written here as explicit scanners (DESIGN.md Appendix A):
     close e      =  \s*(-?)e                    at the current position
     find_first f =  least j such that f matches at j      (what a lazy  .*?  followed by f computes)
     wordtag w    =  ts-?\s*w\s*(-?)te
   Offsets are positions relative to the start of the match (nat: sources are short); token start offsets are N.

   The model follows the REPAIRED code (fix patches C10-raw-endraw-marker, C10-final-newline,
   C11-unclosed-markup-custom-delimiters).  The behaviour of the unrepaired code is kept under the switches of [quirks] (used only by the *_old definitions). *)
From LiquidVerif Require Import Prelude.

Record delims := { d_ts : str; d_te : str; d_ss : str; d_se : str; d_cs : str; d_ce : str }.

Record quirks := { q_raw_open : bool;    (* old: after a raw block, lstrip comes from the OPENING raw tag's marker *)
                   q_dollar : bool;      (* old: content look-ahead `$` also matches just before a final newline *)
                   q_brace : bool }.     (* old: unclosed markup is recognised by the literal "{{" / "{%" whatever the
                                            delimiters are (fix C11-unclosed-markup-custom-delimiters) *)
Definition fixed : quirks := {| q_raw_open := false; q_dollar := false; q_brace := false |}.
Definition old_code : quirks := {| q_raw_open := true; q_dollar := true; q_brace := true |}.

(* ---------------------------------------------------------------- characters *)
Definition hy : N := 45.       (* '-' *)
Definition nl : N := 10.
Definition hash : N := 35.     (* '#' *)

(* str.isspace / \s *)
Definition is_space (c : N) : bool :=
  ((9 <=? c) && (c <=? 13) || (28 <=? c) && (c <=? 32) || (c =? 133) || (c =? 160) || (c =? 5760)
   || (8192 <=? c) && (c <=? 8202) || (c =? 8232) || (c =? 8233) || (c =? 8239) || (c =? 8287) || (c =? 12288))%N.

(* \w restricted to ASCII (non-ASCII alphanumerics are outside the model) *)
Definition is_word (c : N) : bool :=
  ((48 <=? c) && (c <=? 57) || (65 <=? c) && (c <=? 90) || (97 <=? c) && (c <=? 122) || (c =? 95))%N.

Definition w_raw : str := [114; 97; 119]%N.
Definition w_endraw : str := [101; 110; 100; 114; 97; 119]%N.
Definition w_doc : str := [100; 111; 99]%N.
Definition w_enddoc : str := [101; 110; 100; 100; 111; 99]%N.
Definition w_comment : str := [99; 111; 109; 109; 101; 110; 116]%N.
Definition w_endcomment : str := [101; 110; 100; 99; 111; 109; 109; 101; 110; 116]%N.
Definition w_echo : str := [101; 99; 104; 111]%N.
Definition w_liquid : str := [108; 105; 113; 117; 105; 100]%N.
Definition w_hash : str := [hash].

(* ---------------------------------------------------------------- string primitives *)
Fixpoint prefixb (pre s : str) : bool :=
  match pre with
  | [] => true
  | a :: pre' => match s with c :: s' => N.eqb a c && prefixb pre' s' | [] => false end
  end.

Fixpoint ws_len (s : str) : nat :=
  match s with c :: s' => if is_space c then S (ws_len s') else O | [] => O end.

Fixpoint word_len (s : str) : nat :=
  match s with c :: s' => if is_word c then S (word_len s') else O | [] => O end.

Definition sub (s : str) (off len : nat) : str := firstn len (skipn off s).

Definition lstrip_s (s : str) : str := skipn (ws_len s) s.
Definition rstrip_s (s : str) : str := rev (lstrip_s (rev s)).

Definition nonempty (s : str) : bool := match s with [] => false | _ => true end.

(* ---------------------------------------------------------------- regex fragments *)
(*  \s*(-?)e  : Some (hyphen, consumed) *)
Definition close (e s : str) : option (bool * nat) :=
  let k := ws_len s in
  let r := skipn k s in
  if prefixb (hy :: e) r then Some (true, k + 1 + length e)
  else if prefixb e r then Some (false, k + length e)
  else None.

(*  (-?)e  without leading whitespace (shorthand comment end) *)
Definition cclose (e s : str) : option (bool * nat) :=
  if prefixb (hy :: e) s then Some (true, 1 + length e)
  else if prefixb e s then Some (false, length e)
  else None.

(* least j such that f matches at j: Some (j, result, j + consumed) *)
Fixpoint find_first {A} (f : str -> option (A * nat)) (s : str) : option (nat * A * nat) :=
  match f s with
  | Some (a, n) => Some (O, a, n)
  | None =>
      match s with
      | [] => None
      | _ :: s' => match find_first f s' with Some (j, a, n) => Some (S j, a, S n) | None => None end
      end
  end.

(* the greedy optional hyphen: first with it (if there is one), then without *)
Definition with_hyphen {A} (s : str) (k : nat) (f : nat -> option A) : option A :=
  match skipn k s with
  | c :: _ => if N.eqb c hy then match f (S k) with Some r => Some r | None => f k end else f k
  | [] => f k
  end.

(*  \s*w\s*(-?)te  starting at offset k of s: Some (hyphen, offset of the end) *)
Definition wordtag_at (te w s : str) (k : nat) : option (bool * nat) :=
  let k2 := k + ws_len (skipn k s) in
  if prefixb w (skipn k2 s) then
    let k3 := k2 + length w in
    match close te (skipn k3 s) with Some (h, n) => Some (h, k3 + n) | None => None end
  else None.

(*  ts-?\s*w\s*(-?)te  *)
Definition wordtag (d : delims) (w s : str) : option (bool * nat) :=
  if prefixb (d_ts d) s then with_hyphen s (length (d_ts d)) (wordtag_at (d_te d) w s) else None.

(* RAW / DOC:  Some (opening marker, closing marker, body offset, body length, total) *)
Definition block (d : delims) (w endw s : str) : option (bool * bool * nat * nat * nat) :=
  match wordtag d w s with
  | None => None
  | Some (h1, n1) =>
      match find_first (wordtag d endw) (skipn n1 s) with
      | None => None
      | Some (j, h2, n) => Some (h1, h2, n1, j, n1 + n)
      end
  end.

(* COMMENT (shorthand):  Some (body offset, body length, marker, total) *)
Definition m_comment (d : delims) (s : str) : option (nat * nat * bool * nat) :=
  if nonempty (d_cs d) && prefixb (d_cs d) s then
    let k := length (d_cs d) in
    match find_first (cclose (d_ce d)) (skipn k s) with
    | Some (j, h, n) => Some (k, j, h, k + n)
    | None => None
    end
  else None.

(* OUTPUT:  Some (stmt offset, stmt length, marker, total) *)
Definition m_output (d : delims) (s : str) : option (nat * nat * bool * nat) :=
  if prefixb (d_ss d) s then
    with_hyphen s (length (d_ss d)) (fun k =>
      let k2 := k + ws_len (skipn k s) in
      match find_first (close (d_se d)) (skipn k2 s) with
      | Some (j, h, n) => Some (k2, j, h, k2 + n)
      | None => None
      end)
  else None.

Definition name_len (s : str) : nat :=
  match s with c :: _ => if N.eqb c hash then 1 else word_len s | [] => O end.

(* TAG:  Some (name offset, name length, expr offset, expr length, marker, total) *)
Definition m_tag (d : delims) (s : str) : option (nat * nat * nat * nat * bool * nat) :=
  if prefixb (d_ts d) s then
    with_hyphen s (length (d_ts d)) (fun k =>
      let k2 := k + ws_len (skipn k s) in
      let nlen := name_len (skipn k2 s) in
      let k3 := k2 + nlen in
      let k4 := k3 + ws_len (skipn k3 s) in
      match find_first (close (d_te d)) (skipn k4 s) with
      | Some (j, h, n) => Some (k2, nlen, k4, j, h, k4 + n)
      | None => None
      end)
  else None.

Definition hyphen_next (s : str) : bool := match s with c :: _ => N.eqb c hy | [] => false end.

(* the look-ahead of the content rule: does an opening delimiter start here, and is it followed by '-' *)
Definition delim_at (d : delims) (s : str) : option bool :=
  if prefixb (d_ts d) s then Some (hyphen_next (skipn (length (d_ts d)) s))
  else if prefixb (d_ss d) s then Some (hyphen_next (skipn (length (d_ss d)) s))
  else if nonempty (d_cs d) && prefixb (d_cs d) s then Some (hyphen_next (skipn (length (d_cs d)) s))
  else None.

(* CONTENT  .+?(?=((ts|ss|cs)(-?))|END) : s is the text after the first character; (extra length, rstrip) *)
Fixpoint content_from (d : delims) (dollar : bool) (s : str) : nat * bool :=
  match delim_at d s with
  | Some h => (O, h)
  | None =>
      match s with
      | [] => (O, false)
      | c :: s' =>
          if dollar && N.eqb c nl && negb (nonempty s') then (O, false)
          else let '(n, h) := content_from d dollar s' in (S n, h)
      end
  end.

Inductive mres :=
| MRaw (h1 h2 : bool) (boff blen tot : nat)
| MDoc (h1 h2 : bool) (boff blen tot : nat)
| MComment (boff blen : nat) (h : bool) (tot : nat)
| MOutput (eoff elen : nat) (h : bool) (tot : nat)
| MTag (noff nlen eoff elen : nat) (h : bool) (tot : nat)
| MContent (tot : nat) (rstrip : bool).

Definition m_total (m : mres) : nat :=
  match m with
  | MRaw _ _ _ _ t | MDoc _ _ _ _ t | MComment _ _ _ t | MOutput _ _ _ t | MTag _ _ _ _ _ t | MContent t _ => t
  end.

(* the ordered alternation at one position (s non-empty) *)
Definition match_at (d : delims) (q : quirks) (s : str) : mres :=
  match block d w_raw w_endraw s with
  | Some (h1, h2, bo, bl, t) => MRaw h1 h2 bo bl t
  | None =>
  match block d w_doc w_enddoc s with
  | Some (h1, h2, bo, bl, t) => MDoc h1 h2 bo bl t
  | None =>
  match m_comment d s with
  | Some (bo, bl, h, t) => MComment bo bl h t
  | None =>
  match m_output d s with
  | Some (eo, el, h, t) => MOutput eo el h t
  | None =>
  match m_tag d s with
  | Some (no, nl_, eo, el, h, t) => MTag no nl_ eo el h t
  | None =>
      let '(n, h) := content_from d (q_dollar q) (tl s) in MContent (S n) h
  end end end end end.

(* ---------------------------------------------------------------- tokens and the generator's state *)
Inductive kind := KContent | KOutput | KExpr | KTag | KShort (* "COMMENT" *) | KComment (* "comment" *) | KDoc.

Record token := { t_kind : kind; t_value : str; t_start : N }.

Inductive item := Tok (t : token) | LexErr (start : N).

Record lstate := { ls_lstrip : bool; ls_depth : nat; ls_cidx : N; ls_ctext : str }.
Definition ls0 : lstate := {| ls_lstrip := false; ls_depth := O; ls_cidx := 0%N; ls_ctext := [] |}.

Definition off (p : N) (k : nat) : N := (p + N.of_nat k)%N.

Definition lbrace : N := 123.
(* the test of the content branch for unclosed markup: content that begins with an opening delimiter *)
Definition starts_markup (d : delims) (q : quirks) (v : str) : bool :=
  if q_brace q then prefixb [lbrace; lbrace] v || prefixb [lbrace; 37%N] v
  else prefixb (d_ss d) v || prefixb (d_ts d) v.

(* one loop iteration of _tokenize_template on the match found at absolute position p (s = source from p) *)
Definition step (d : delims) (q : quirks) (p : N) (s : str) (st : lstate) : list item * lstate * nat :=
  let m := match_at d q s in
  let tot := m_total m in
  let value := firstn tot s in
  let append := {| ls_lstrip := ls_lstrip st; ls_depth := ls_depth st; ls_cidx := ls_cidx st;
                   ls_ctext := ls_ctext st ++ value |} in
  match ls_depth st with
  | S dep =>
      match m with
      | MTag no nlen _ _ h _ =>
          let name := sub s no nlen in
          if str_eqb name w_endcomment then
            match dep with
            | O => ([Tok {| t_kind := KComment; t_value := ls_ctext st; t_start := ls_cidx st |};
                     Tok {| t_kind := KTag; t_value := name; t_start := off p no |}],
                    {| ls_lstrip := h; ls_depth := O; ls_cidx := 0%N; ls_ctext := [] |}, tot)
            | S _ => ([], {| ls_lstrip := ls_lstrip st; ls_depth := dep; ls_cidx := ls_cidx st;
                             ls_ctext := ls_ctext st ++ value |}, tot)
            end
          else if str_eqb name w_comment then
            ([], {| ls_lstrip := ls_lstrip st; ls_depth := S (S dep); ls_cidx := ls_cidx st;
                    ls_ctext := ls_ctext st ++ value |}, tot)
          else ([], append, tot)
      | _ => ([], append, tot)
      end
  | O =>
      match m with
      | MOutput eo el h _ =>
          ([Tok {| t_kind := KOutput; t_value := value; t_start := p |};
            Tok {| t_kind := KExpr; t_value := sub s eo el; t_start := off p eo |}],
           {| ls_lstrip := h; ls_depth := O; ls_cidx := ls_cidx st; ls_ctext := ls_ctext st |}, tot)
      | MTag no nlen eo el h _ =>
          let name := sub s no nlen in
          let iscomment := str_eqb name w_comment in
          (Tok {| t_kind := KTag; t_value := name; t_start := off p no |}
             :: match el with
                | O => []
                | _ => [Tok {| t_kind := KExpr; t_value := sub s eo el; t_start := off p eo |}]
                end,
           {| ls_lstrip := h; ls_depth := if iscomment then 1 else O;
              ls_cidx := if iscomment then off p tot else ls_cidx st; ls_ctext := ls_ctext st |}, tot)
      | MComment bo bl h _ =>
          ([Tok {| t_kind := KShort; t_value := sub s bo bl; t_start := p |}],
           {| ls_lstrip := h; ls_depth := O; ls_cidx := ls_cidx st; ls_ctext := ls_ctext st |}, tot)
      | MRaw h1 h2 bo bl _ =>
          ([Tok {| t_kind := KContent; t_value := sub s bo bl; t_start := p |}],
           {| ls_lstrip := if q_raw_open q then h1 else h2; ls_depth := O; ls_cidx := ls_cidx st;
              ls_ctext := ls_ctext st |}, tot)
      | MDoc _ h2 bo bl _ =>
          ([Tok {| t_kind := KDoc; t_value := sub s bo bl; t_start := p |}],
           {| ls_lstrip := h2; ls_depth := O; ls_cidx := ls_cidx st; ls_ctext := ls_ctext st |}, tot)
      | MContent _ rstrip =>
          let v1 := if ls_lstrip st then lstrip_s value else value in
          let v2 := if rstrip then rstrip_s v1 else v1 in
          (match v2 with
           | [] => []
           | _ => if starts_markup d q v2 then [LexErr p]
                  else [Tok {| t_kind := KContent; t_value := v2; t_start := p |}]
           end, st, tot)
      end
  end.

(* finditer: a match starts wherever the previous one ended; [skip] characters of the current match remain *)
Fixpoint go (d : delims) (q : quirks) (skip : nat) (p : N) (s : str) (st : lstate) : list item :=
  match s with
  | [] => []
  | _ :: s' =>
      match skip with
      | S k => go d q k (N.succ p) s' st
      | O => let '(out, st', tot) := step d q p s st in out ++ go d q (pred tot) (N.succ p) s' st'
      end
  end.

Definition scan (d : delims) (q : quirks) (src : str) : list item := go d q O 0%N src ls0.

Fixpoint items_result (l : list item) : res (list token) :=
  match l with
  | [] => Ok []
  | LexErr _ :: _ => Err ESyntax
  | Tok t :: r => match items_result r with Ok ts => Ok (t :: ts) | e => e end
  end.

(* list(env.tokenizer()(src)): the token list, or the LiquidSyntaxError of the content branch *)
Definition tokenize_q (d : delims) (q : quirks) (src : str) : res (list token) := items_result (scan d q src).
Definition tokenize (d : delims) (src : str) : res (list token) := tokenize_q d fixed src.
Definition tokenize_old (d : delims) (src : str) : res (list token) := tokenize_q d old_code src.

Definition default_delims : delims :=
  {| d_ts := [123; 37]%N; d_te := [37; 125]%N; d_ss := [123; 123]%N; d_se := [125; 125]%N;
     d_cs := [123; 35]%N; d_ce := [35; 125]%N |}.

(* ---------------------------------------------------------------- the {% liquid %} line scanner
   LIQUID_EXPR  [ \t]*(?P<name>#|\w+)[ \t]*(?P<expr>.*?)[ \t\r]*?(\n+|$)   |  SKIP [\r\n]+  |  ILLEGAL .
   (with template comments enabled the name alternative is  (\w+|<comment_start minus "{">) ).
   `$` here also matches before a final newline, which makes no difference: (\n+) is tried first. *)
Definition is_blank (c : N) : bool := (N.eqb c 32 || N.eqb c 9)%N.
Definition is_blank_cr (c : N) : bool := (N.eqb c 32 || N.eqb c 9 || N.eqb c 13)%N.
Fixpoint span_len (f : N -> bool) (s : str) : nat :=
  match s with c :: s' => if f c then S (span_len f s') else O | [] => O end.

(* [ \t\r]*?(\n+|$) at the current position: Some consumed *)
Definition line_end (s : str) : option nat :=
  let k := span_len is_blank_cr s in
  (* lazy [ \t\r]*? : the first position within the blank run from which \n+ or end-of-input follows;
     only the end of the run can be followed by \n or the end (a \r inside the run is itself in the class) *)
  match skipn k s with
  | [] => Some k
  | c :: r => if N.eqb c nl then Some (k + S (span_len (N.eqb nl) r)) else None
  end.

Definition line_end' (s : str) : option (unit * nat) := match line_end s with Some n => Some (tt, n) | None => None end.

(* the name alternative.  Repaired order (fix C11-liquid-comment-marker-order): the comment marker first, then \w+;
   the unrepaired order  (\w+|marker)  let a marker that begins with a word character be shadowed by \w+ *)
Definition liquid_name_len (marker : str) (s : str) : nat :=
  if nonempty marker && prefixb marker s then length marker else word_len s.
Definition liquid_name_len_old (marker : str) (s : str) : nat :=
  match word_len s with
  | O => if nonempty marker && prefixb marker s then length marker else O
  | n => n
  end.

Inductive lres := LExpr (noff nlen eoff elen tot : nat) | LSkip (tot : nat) | LIllegal.

Definition is_crlf (c : N) : bool := (N.eqb c 13 || N.eqb c nl)%N.

Definition liquid_match (marker : str) (s : str) : lres :=
  let k1 := span_len is_blank s in
  let nlen := liquid_name_len marker (skipn k1 s) in
  let try_skip := match span_len is_crlf s with O => LIllegal | n => LSkip n end in
  match nlen with
  | O => try_skip
  | _ =>
      let k2 := k1 + nlen in
      let k3 := k2 + span_len is_blank (skipn k2 s) in
      match find_first line_end' (skipn k3 s) with
      | Some (j, _, n) => LExpr k1 nlen k3 j (k3 + n)
      | None => try_skip
      end
  end.

(* tokens of one liquid tag's expression, offsets relative to the absolute position [base] of the expression *)
Fixpoint liquid_go (marker : str) (drop : bool) (skip : nat) (p : N) (s : str) : list item :=
  match s with
  | [] => []
  | _ :: s' =>
      match skip with
      | S k => liquid_go marker drop k (N.succ p) s'
      | O =>
          match liquid_match marker s with
          | LExpr no nlen eo el tot =>
              let name := sub s no nlen in
              (if drop && str_eqb name marker then []
               else Tok {| t_kind := KTag; t_value := name; t_start := off p no |}
                    :: match el with
                       | O => []
                       | _ => [Tok {| t_kind := KExpr; t_value := sub s eo el; t_start := off p eo |}]
                       end)
              ++ liquid_go marker drop (pred tot) (N.succ p) s'
          | LSkip tot => liquid_go marker drop (pred tot) (N.succ p) s'
          | LIllegal => [LexErr p]
          end
      end
  end.

(* env.comment_start_string.replace("{", "") *)
Definition liquid_marker (d : delims) : str := filter (fun c => negb (N.eqb c lbrace)) (d_cs d).
Definition liquid_default_marker : str := w_hash.
(* when template comments are off the rule's name alternative is  #|\w+  : same scanner with marker "#",
   except that a '#' line is then NOT dropped by the tokenizer (comment_start_string is "") *)
Definition liquid_tokens (d : delims) (base : N) (expr : str) : res (list token) :=
  match liquid_marker d with
  | [] =>
      (* no marker (template comments off, or a comment delimiter made of '{' only): the name alternative is
         #|\w+ and nothing is dropped *)
      items_result (liquid_go w_hash false O base expr)
  | m => items_result (liquid_go m true O base expr)
  end.

(* ---------------------------------------------------------------- rendering the literal fragment *)
Inductive robs := ROut (s : str) | RErr (e : exn) | RUnsupported.

Definition rprepend (a : str) (r : robs) : robs := match r with ROut s => ROut (a ++ s) | x => x end.

Definition squote : N := 39.
Definition dquote : N := 34.
Definition backslash : N := 92.

(* 'abc' or "abc" without quotes or backslashes inside *)
Definition str_lit (e : str) : option str :=
  match e with
  | q :: r =>
      if N.eqb q squote || N.eqb q dquote then
        match rev r with
        | q' :: body_rev =>
            if N.eqb q' q && forallb (fun c => negb (N.eqb c q) && negb (N.eqb c backslash)) body_rev
            then Some (rev body_rev) else None
        | [] => None
        end
      else None
  | [] => None
  end.

Definition is_tag (t : token) (name : str) : bool :=
  match t_kind t with KTag => str_eqb (t_value t) name | _ => false end.

(* RE_INVALID_INLINE_COMMENT  \n\s*[^#\s] *)
Fixpoint invalid_inline (s : str) : bool :=
  match s with
  | [] => false
  | c :: r =>
      (N.eqb c nl && match skipn (ws_len r) r with
                     | c' :: _ => negb (N.eqb c' hash)
                     | [] => false
                     end)
      || invalid_inline r
  end.

Inductive pstate := PTop | PComment | PDoc.

(* Parser._parse + render for streams made of content, shorthand/block comments, doc, inline comments,
   output/echo of string literals; anything else is a syntax error (unknown/stray tags) or outside the fragment *)
Fixpoint render_toks (ps : pstate) (ts : list token) : robs :=
  match ts with
  | [] => match ps with PTop => ROut [] | _ => RErr ESyntax end
  | t :: rest =>
      match ps with
      | PComment => if is_tag t w_endcomment then render_toks PTop rest else render_toks PComment rest
      | PDoc =>
          if is_tag t w_doc then RErr ESyntax
          else if is_tag t w_enddoc then render_toks PTop rest
          else render_toks PDoc rest
      | PTop =>
          match t_kind t with
          | KContent => rprepend (t_value t) (render_toks PTop rest)
          | KShort | KDoc => render_toks PTop rest
          | KComment | KExpr => RErr ESyntax
          | KOutput =>
              match rest with
              | e :: rest' =>
                  match t_kind e with
                  | KExpr => match str_lit (t_value e) with
                             | Some v => rprepend v (render_toks PTop rest')
                             | None => RUnsupported
                             end
                  | _ => RErr ESyntax
                  end
              | [] => RErr ESyntax
              end
          | KTag =>
              let name := t_value t in
              if str_eqb name w_hash then
                match rest with
                | e :: rest' =>
                    match t_kind e with
                    | KExpr => if invalid_inline (t_value e) then RErr ESyntax else render_toks PTop rest'
                    | _ => render_toks PTop rest
                    end
                | [] => ROut []
                end
              else if str_eqb name w_comment then render_toks PComment rest
              else if str_eqb name w_doc then
                match rest with
                | e :: _ => match t_kind e with KExpr => RErr ESyntax | _ => render_toks PDoc rest end
                | [] => RErr ESyntax
                end
              else if str_eqb name w_echo then
                match rest with
                | e :: rest' =>
                    match t_kind e with
                    | KExpr => match str_lit (t_value e) with
                               | Some v => rprepend v (render_toks PTop rest')
                               | None => RUnsupported
                               end
                    | _ => RUnsupported
                    end
                | [] => RUnsupported
                end
              else if str_eqb name w_raw || str_eqb name w_endraw || str_eqb name w_enddoc
                      || str_eqb name w_endcomment || str_eqb name [120%N] || negb (nonempty name)
              then RErr ESyntax      (* unregistered / stray tag names: "unexpected tag", "missing tag name" *)
              else RUnsupported
          end
      end
  end.

Definition render_res (r : res (list token)) : robs :=
  match r with
  | Ok ts => render_toks PTop ts
  | Err e => RErr e
  | OutOfFuel => RUnsupported
  end.

Definition render_src (d : delims) (src : str) : robs := render_res (tokenize d src).
Definition render_src_old (d : delims) (src : str) : robs := render_res (tokenize_old d src).

(* ---------------------------------------------------------------- line / column (span.py, exceptions.py)
   str.splitlines(keepends=True) boundaries: \n \r \r\n \v \f \x1c \x1d \x1e \x85     *)
Definition is_linebreak (c : N) : bool :=
  ((10 <=? c) && (c <=? 13) || (28 <=? c) && (c <=? 30) || (c =? 133) || (c =? 8232) || (c =? 8233))%N.

(* lengths of the lines of splitlines(keepends=True) *)
Fixpoint line_lens (cur : N) (s : str) : list N :=
  match s with
  | [] => if N.eqb cur 0 then [] else [cur]
  | c :: r =>
      if is_linebreak c then
        match r with
        | c2 :: r2 => if N.eqb c 13 && N.eqb c2 10 then N.succ (N.succ cur) :: line_lens 0 r2
                      else N.succ cur :: line_lens 0 r
        | [] => [N.succ cur]
        end
      else line_lens (N.succ cur) r
  end.

(* the loop of Span.line_col / LiquidError._error_context: None = ValueError("index is out of bounds") *)
Fixpoint find_line (lens : list N) (index cum : N) (lineno : N) : option (N * N) :=
  match lens with
  | [] => None
  | l :: r =>
      let cum' := (cum + l)%N in
      if (index <? cum')%N then Some (lineno, (index - cum)%N) else find_line r index cum' (N.succ lineno)
  end.

Definition line_col (src : str) (index : N) : option (N * N) := find_line (line_lens 0 src) index 0 1.

(* ---------------------------------------------------------------- observations for the correspondence run *)
Definition kind_eqb (a b : kind) : bool :=
  match a, b with
  | KContent, KContent | KOutput, KOutput | KExpr, KExpr | KTag, KTag | KShort, KShort | KComment, KComment
  | KDoc, KDoc => true
  | _, _ => false
  end.

Definition token_eqb (a b : token) : bool :=
  kind_eqb (t_kind a) (t_kind b) && str_eqb (t_value a) (t_value b) && N.eqb (t_start a) (t_start b).

Definition tokres_eqb (a b : res (list token)) : bool :=
  match a, b with
  | Ok x, Ok y => list_eqb token_eqb x y
  | Err e, Err f => exn_eqb e f
  | _, _ => false
  end.

Definition robs_eqb (a b : robs) : bool :=
  match a, b with
  | ROut x, ROut y => str_eqb x y
  | RErr e, RErr f => exn_eqb e f
  | _, _ => false
  end.

Record lexcase := { lc_d : delims; lc_old : bool; lc_src : str }.
Definition run_tokens (c : lexcase) : res (list token) :=
  tokenize_q (lc_d c) (if lc_old c then old_code else fixed) (lc_src c).
Definition run_render (c : lexcase) : robs :=
  render_res (run_tokens c).

Record lccase := { lcc_src : str; lcc_index : N }.
Definition run_line_col (c : lccase) : option (N * N) := line_col (lcc_src c) (lcc_index c).
Definition lc_eqb (a b : option (N * N)) : bool :=
  option_eqb (fun x y => N.eqb (fst x) (fst y) && N.eqb (snd x) (snd y)) a b.

(* tokens and rendering in one evaluation; the expected rendering is None when the engine's token stream is
   outside the literal fragment (then only the token stream is compared) *)
Definition run_lex (c : lexcase) : res (list token) * robs := let t := run_tokens c in (t, render_res t).
Definition lexobs_eqb (m : res (list token) * robs) (e : res (list token) * option robs) : bool :=
  tokres_eqb (fst m) (fst e) && match snd e with None => true | Some r => robs_eqb (snd m) r end.

(* ---------------------------------------------------------------- C20: (tag name, index) pairs as template.analyze().tags
   reports them for the main template: every tag token that becomes a node (not end*/else/elsif/when), including
   the inner tags of a liquid tag, whose offsets are relative to the liquid tag's expression token *)
Definition w_else : str := [101; 108; 115; 101]%N.
Definition w_elsif : str := [101; 108; 115; 105; 102]%N.
Definition w_when : str := [119; 104; 101; 110]%N.
Definition reported_tag (name : str) : bool :=
  negb (prefixb [101; 110; 100]%N name) && negb (str_eqb name w_else || str_eqb name w_elsif || str_eqb name w_when).

Fixpoint tags_of (ts : list token) : list (str * N) :=
  match ts with
  | [] => []
  | t :: r => match t_kind t with
              | KTag => if reported_tag (t_value t) then (t_value t, t_start t) :: tags_of r else tags_of r
              | _ => tags_of r
              end
  end.

Fixpoint tag_spans (d : delims) (ts : list token) : res (list (str * N)) :=
  match ts with
  | [] => Ok []
  | t :: rest =>
      match t_kind t with
      | KTag =>
          if str_eqb (t_value t) w_liquid then
            match rest with
            | e :: rest' =>
                match t_kind e with
                | KExpr =>
                    match liquid_tokens d (t_start e) (t_value e) with
                    | Ok inner =>
                        match tag_spans d rest' with
                        | Ok r => Ok ((w_liquid, t_start t) :: tags_of inner ++ r)
                        | x => x
                        end
                    | Err x => Err x
                    | OutOfFuel => OutOfFuel
                    end
                | _ => match tag_spans d rest with Ok r => Ok ((w_liquid, t_start t) :: r) | x => x end
                end
            | [] => Ok [(w_liquid, t_start t)]
            end
          else
            match tag_spans d rest with
            | Ok r => Ok (if reported_tag (t_value t) then (t_value t, t_start t) :: r else r)
            | x => x
            end
      | _ => tag_spans d rest
      end
  end.

Definition run_tag_spans (c : lexcase) : res (list (str * N)) :=
  match run_tokens c with Ok ts => tag_spans (lc_d c) ts | Err e => Err e | OutOfFuel => OutOfFuel end.
