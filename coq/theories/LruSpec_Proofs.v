(* LruSpec_Proofs.v -- C24 deepening: the OrderedDict machine refines the abstract bounded LRU map; what is and is not
   a use; construction; snapshot listings of the thread-safe class. *)
From LiquidVerif Require Import Prelude Lru Lru_Proofs LruSpec.
From Coq Require Import Sorted.

(* ------------------------------------------------------------------ lookups in a list with one entry per key *)
Lemma keys_cons k v t l : map fst (erase_items ((k, v, t) :: l)) = k :: map fst (erase_items l).
Proof. reflexivity. Qed.

Lemma glookup_notin k l : ~ In k (map fst (erase_items l)) -> glookup k l = None.
Proof.
  induction l as [|[[k2 v2] t2] l IH]; simpl; [reflexivity|]. intro H.
  destruct (N.eqb_spec k k2) as [->|Hn]; [exfalso; apply H; left; reflexivity|]. apply IH. intro Hin. apply H. right. exact Hin.
Qed.

Lemma glookup_some_in k l x : glookup k l = Some x -> In k (map fst (erase_items l)).
Proof.
  induction l as [|[[k2 v2] t2] l IH]; simpl; [discriminate|].
  destruct (N.eqb_spec k k2) as [->|Hn]; [left; reflexivity|]. intro H. right. exact (IH H).
Qed.

Lemma glookup_in k v t l : NoDup (map fst (erase_items l)) -> (In (k, v, t) l <-> glookup k l = Some (v, t)).
Proof.
  induction l as [|[[k2 v2] t2] l IH]; simpl; [intros _; split; [tauto|discriminate]|].
  intro Hnd. inversion Hnd as [|? ? Hnin Hnd']; subst. destruct (N.eqb_spec k k2) as [->|Hn].
  - split.
    + intros [E|Hin]; [inversion E; reflexivity|]. exfalso. apply Hnin.
      change k2 with (fst (fst (k2, v, t))). unfold erase_items. rewrite map_map. apply in_map with (f := fun x => fst (fst x)). exact Hin.
    + intro E. inversion E; subst. left. reflexivity.
  - rewrite <- (IH Hnd'). split; [intros [E|Hin]; [inversion E; congruence|exact Hin]|intro Hin; right; exact Hin].
Qed.

Lemma glookup_gremove k k' l : glookup k' (gremove k l) = if N.eqb k' k then None else glookup k' l.
Proof.
  destruct (N.eqb_spec k' k) as [->|Hn]; [apply glookup_gremove_same|apply glookup_gremove_other, Hn].
Qed.

Lemma glookup_tl k0 v0 t0 rest k :
  NoDup (map fst (erase_items ((k0, v0, t0) :: rest))) ->
  glookup k rest = if N.eqb k k0 then None else glookup k ((k0, v0, t0) :: rest).
Proof.
  intro Hnd. inversion Hnd as [|? ? Hnin _]; subst. simpl.
  destruct (N.eqb_spec k k0) as [->|Hn]; [apply glookup_notin, Hnin|reflexivity].
Qed.

(* ------------------------------------------------------------------ size, least recently used entry, listing *)
Lemma card_of g : NoDup (map fst (erase_items (gitems g))) -> card (amap_of g) (length (gitems g)).
Proof.
  intro Hnd. exists (map fst (erase_items (gitems g))). split; [exact Hnd|]. split.
  - unfold erase_items. rewrite !map_length. reflexivity.
  - intro k. unfold amap_of. split.
    + intro Hin. destruct (glookup k (gitems g)) eqn:E; [discriminate|].
      exfalso. revert Hin. clear -E. induction (gitems g) as [|[[k2 v2] t2] l IH]; simpl in *; [tauto|].
      destruct (N.eqb_spec k k2) as [->|Hn]; [discriminate|]. intros [H|H]; [congruence|exact (IH E H)].
    + intro H. destruct (glookup k (gitems g)) eqn:E; [|congruence]. eapply glookup_some_in, E.
Qed.

Lemma sorted_head_lt t0 ts t : StronglySorted lt (t0 :: ts) -> In t ts -> t0 < t.
Proof. intros H Hin. inversion H as [|? ? _ Hall]; subst. rewrite Forall_forall in Hall. apply Hall, Hin. Qed.

Lemma oldest_of g k0 v0 t0 rest :
  RInv g -> gitems g = (k0, v0, t0) :: rest -> oldest (amap_of g) k0.
Proof.
  intros (Hnd & Hs & _ & _ & _) E. exists v0, t0. unfold amap_of. rewrite E in *. split; [simpl; rewrite N.eqb_refl; reflexivity|].
  intros k' v' t' Hne Hk'. apply (glookup_in k' v' t' _ Hnd) in Hk'. destruct Hk' as [Heq|Hin]; [inversion Heq; congruence|].
  simpl in Hs. eapply sorted_head_lt; [exact Hs|]. change t' with (snd (k', v', t')). apply in_map, Hin.
Qed.

Lemma sorted_rev {A} (R : A -> A -> Prop) l : StronglySorted (fun a b => R b a) l -> StronglySorted R (rev l).
Proof.
  induction 1 as [|a l Hs IH Hall]; simpl; [constructor|].
  assert (G : forall l1 x, StronglySorted R l1 -> Forall (fun y => R y x) l1 -> StronglySorted R (l1 ++ [x])).
  { clear. induction l1 as [|y l1 IH]; simpl; intros x Hs Hall; [repeat constructor|].
    inversion Hs; subst. inversion Hall; subst. constructor; [apply IH; assumption|].
    apply Forall_app. split; [assumption|repeat constructor; assumption]. }
  apply G; [exact IH|]. apply Forall_rev. exact Hall.
Qed.

Lemma sorted_weaken {A} (R R' : A -> A -> Prop) l :
  StronglySorted R l -> (forall a b, In a l -> In b l -> R a b -> R' a b) -> StronglySorted R' l.
Proof.
  induction 1 as [|a l Hs IH Hall]; intro Hw; constructor.
  - apply IH. intros x y Hx Hy. apply Hw; right; assumption.
  - rewrite Forall_forall in Hall |- *. intros b Hb. apply Hw; [left; reflexivity|right; exact Hb|apply Hall, Hb].
Qed.

Lemma listing_of g : RInv g -> listing (amap_of g) (rev (erase_items (gitems g))).
Proof.
  intros (Hnd & Hs & _ & _ & _). unfold listing, amap_of. repeat split.
  - rewrite map_rev. apply NoDup_rev, Hnd.
  - intro H. apply in_rev in H. unfold erase_items in H. apply in_map_iff in H. destruct H as [[[k2 v2] t2] [E Hin]].
    simpl in E. inversion E; subst. exists t2. apply (glookup_in k v t2 _ Hnd), Hin.
  - intros [t H]. apply in_rev. rewrite rev_involutive. apply (glookup_in k v t _ Hnd) in H.
    unfold erase_items. change (k, v) with (fst (k, v, t)). apply in_map, H.
  - apply sorted_rev. revert Hnd Hs. generalize (gitems g) as l. clear g.
    induction l as [|[[k v] t] l IH]; intros Hnd Hs; simpl; [constructor|].
    inversion Hnd as [|? ? Hnin Hnd']; subst. simpl in Hs. inversion Hs as [|? ? Hs' Hall]; subst.
    constructor.
    + assert (IH' := IH Hnd' Hs'). clear IH.
      (* entries of the tail are looked up in the longer list: same answers, since k is not among them *)
      eapply sorted_weaken; [exact IH'|]. intros a b Ha Hb (ta & tb & Ea & Eb & Hlt).
      assert (Hk : forall x, In x (erase_items l) -> fst x <> k).
      { intros x Hx E. subst. apply Hnin. apply in_map, Hx. }
      exists ta, tb. simpl. destruct (N.eqb_spec (fst b) k) as [E|_]; [exfalso; exact (Hk _ Hb E)|].
      destruct (N.eqb_spec (fst a) k) as [E|_]; [exfalso; exact (Hk _ Ha E)|]. auto.
    + rewrite Forall_forall. intros [k2 v2] Hin. unfold erase_items in Hin. apply in_map_iff in Hin.
      destruct Hin as [[[k3 v3] t3] [E Hin]]. simpl in E. inversion E; subst.
      exists t3, t. simpl. rewrite N.eqb_refl.
      assert (Hne : k2 <> k).
      { intro; subst. apply Hnin. unfold erase_items. rewrite map_map. change k with (fst (fst (k, v2, t3))).
        apply in_map with (f := fun z => fst (fst z)), Hin. }
      destruct (N.eqb_spec k2 k); [congruence|]. repeat split.
      * apply (glookup_in k2 v2 t3 _ Hnd'), Hin.
      * rewrite Forall_forall in Hall. apply Hall. change t3 with (snd (k2, v2, t3)). apply in_map, Hin.
Qed.

(* ------------------------------------------------------------------ the refinement *)
Lemma same_refl m : same m m.
Proof. intro k. reflexivity. Qed.

Lemma touch_ok l k v c : same (touch (fun x => glookup x l) k v c) (fun x => glookup x (gremove k l ++ [(k, v, c)])).
Proof.
  intro k'. rewrite glookup_snoc, glookup_gremove. unfold touch.
  destruct (N.eqb k' k); [reflexivity|]. destruct (glookup k' l); reflexivity.
Qed.

Lemma rinv_split g : RInv g <-> wf (erase g) /\ GInv g.
Proof.
  unfold RInv, wf, GInv, times, erase. simpl. rewrite erase_length. tauto.
Qed.

Theorem gstep_rinv g o : RInv g -> RInv (fst (gstep g o)).
Proof.
  rewrite !rinv_split. intros [Hw Hg]. split; [|apply gstep_inv, Hg].
  destruct (gstep_erase g o) as [-> _]. apply step_wf, Hw.
Qed.

Theorem reachable_rinv n ops : 1 <= n -> RInv (gfinal (gempty n) ops).
Proof.
  intro Hn. unfold gfinal. assert (H : RInv (gempty n)).
  { unfold RInv, gempty. simpl. repeat split; try constructor; lia. }
  revert H. generalize (gempty n). induction ops as [|o ops IH]; simpl; intros g H; [exact H|].
  apply IH, gstep_rinv, H.
Qed.

(* C24: every operation of the OrderedDict machine is the corresponding operation of the abstract bounded LRU map
   (at the same capacity and clock), with the same result; every operation advances the clock by one *)
Theorem gstep_refines g o : RInv g ->
  lru_step (gcap g) (amap_of g) (clock g) o (amap_of (fst (gstep g o))) (snd (gstep g o)) /\
  clock (fst (gstep g o)) = S (clock g) /\ gcap (fst (gstep g o)) = gcap g.
Proof.
  intros HR. pose proof HR as (Hnd & Hs & Hf & Hcap & Hlen).
  split; [|destruct o; simpl; repeat match goal with |- context [match ?x with _ => _ end] => destruct x end; split; reflexivity].
  destruct o; simpl.
  - (* Get *) destruct (glookup k (gitems g)) as [[v t]|] eqn:E; simpl.
    + eapply L_get_hit; [exact E|apply touch_ok].
    + apply L_get_miss; [exact E|apply same_refl].
  - (* GetD *) destruct (glookup k (gitems g)) as [[v t]|] eqn:E; simpl.
    + eapply L_getd_hit; [exact E|apply touch_ok].
    + apply L_getd_miss; [exact E|apply same_refl].
  - (* GetN *) destruct (glookup k (gitems g)) as [[v t]|] eqn:E; simpl.
    + eapply L_getn_hit; [exact E|apply touch_ok].
    + apply L_getn_miss; [exact E|apply same_refl].
  - (* Set *) destruct (glookup k (gitems g)) as [[v0 t]|] eqn:E; simpl.
    + eapply L_set_hit; [exact E|apply touch_ok].
    + destruct (Nat.leb (gcap g) (length (gitems g))) eqn:Efull; simpl.
      * apply Nat.leb_le in Efull. destruct (gitems g) as [|[[k0 v0] t0] rest] eqn:Ei; [simpl in Efull; lia|].
        eapply (L_set_evict _ _ _ k v (length (gitems g)) k0).
        -- unfold amap_of. rewrite Ei. exact E.
        -- apply card_of. rewrite Ei. exact Hnd.
        -- rewrite Ei. exact Efull.
        -- eapply oldest_of; [exact HR|exact Ei].
        -- intro k'. unfold amap_of, touch, drop. simpl gitems. simpl tl. rewrite Ei, glookup_snoc, (glookup_tl k0 v0 t0 rest k' Hnd).
           destruct (N.eqb_spec k' k) as [->|Hk].
           ++ rewrite E. destruct (N.eqb k k0); reflexivity.
           ++ destruct (N.eqb k' k0); [reflexivity|]. destruct (glookup k' ((k0, v0, t0) :: rest)); reflexivity.
      * apply Nat.leb_gt in Efull. eapply (L_set_room _ _ _ k v (length (gitems g))).
        -- exact E.
        -- apply card_of, Hnd.
        -- exact Efull.
        -- intro k'. unfold amap_of, touch. simpl gitems. rewrite glookup_snoc.
           destruct (N.eqb_spec k' k) as [->|Hk]; [rewrite E; reflexivity|]. destruct (glookup k' (gitems g)); reflexivity.
  - (* Del *) destruct (glookup k (gitems g)) as [[v t]|] eqn:E; simpl.
    + apply L_del_hit; [unfold amap_of; rewrite E; discriminate|].
      intro k'. unfold amap_of, drop. simpl gitems. apply glookup_gremove.
    + apply L_del_miss; [exact E|apply same_refl].
  - (* Contains *) apply L_contains. apply same_refl.
  - (* Len *) apply L_len; [apply same_refl|apply card_of, Hnd].
  - (* Keys *) rewrite <- map_rev. apply L_keys; [apply same_refl|apply listing_of, HR].
  - (* Values *) rewrite <- map_rev. apply L_values; [apply same_refl|apply listing_of, HR].
  - (* Items *) apply L_items; [apply same_refl|apply listing_of, HR].
  - (* Iter *) rewrite <- map_rev. apply L_iter; [apply same_refl|apply listing_of, HR].
Qed.

(* ... in particular after any history from a freshly made cache *)
Corollary reachable_refines n ops o : 1 <= n ->
  let g := gfinal (gempty n) ops in
  lru_step n (amap_of g) (clock g) o (amap_of (fst (gstep g o))) (snd (gstep g o)).
Proof.
  intros Hn g. pose proof (reachable_rinv n ops Hn) as HR. fold g in HR.
  assert (Hc : gcap g = n).
  { unfold g, gfinal. assert (G : forall ops g0, gcap (fold_left (fun g1 o1 => fst (gstep g1 o1)) ops g0) = gcap g0).
    { clear. induction ops as [|o1 ops IH]; simpl; intro g0; [reflexivity|]. rewrite IH.
      destruct o1; simpl; repeat match goal with |- context [match ?x with _ => _ end] => destruct x end; reflexivity. }
    apply G. }
  rewrite <- Hc. apply gstep_refines, HR.
Qed.

(* ------------------------------------------------------------------ construction *)
(* LRUCache(capacity) raises ValueError exactly for a capacity below 1 (zero, negative); otherwise the cache is empty,
   has that capacity, and satisfies the invariant *)
Theorem make_spec n :
  (make n = None <-> (n < 1)%Z) /\
  (forall c, make n = Some c -> items c = [] /\ Z.of_nat (cap c) = n /\ wf c).
Proof.
  unfold make. destruct (Z.ltb_spec n 1) as [Hlt|Hge]; split.
  - split; [intros _; exact Hlt|reflexivity].
  - intros c H; discriminate.
  - split; [discriminate|intro; lia].
  - intros c H. inversion H; subst. simpl. split; [reflexivity|]. split; [lia|]. repeat split; simpl; [lia|constructor|lia].
Qed.

(* ------------------------------------------------------------------ what is NOT a use *)
(* membership tests, len and the four listings change nothing at all: no entry moves, no last-use time changes *)
Theorem readonly_no_use g c o : readonly o = true ->
  gitems (fst (gstep g o)) = gitems g /\ fst (step c o) = c.
Proof. destruct o; simpl; try discriminate; intros _; split; reflexivity. Qed.

(* ... neither does a lookup or a deletion of a key that is not cached *)
Theorem miss_no_use g k : glookup k (gitems g) = None ->
  gitems (fst (gstep g (Get k))) = gitems g /\ (forall d, gitems (fst (gstep g (GetD k d))) = gitems g) /\
  gitems (fst (gstep g (GetN k))) = gitems g /\ gitems (fst (gstep g (Del k))) = gitems g.
Proof. intro E. simpl. rewrite E. simpl. repeat split. Qed.

(* ------------------------------------------------------------------ what IS a use *)
Lemma erase_rev_snoc l k v t : rev (erase_items (l ++ [(k, v, t)])) = (k, v) :: rev (erase_items l).
Proof. rewrite erase_app, rev_app_distr. reflexivity. Qed.

(* a successful lookup (c[k], c.get(k, d), c.get(k)) makes k the FIRST entry of every listing; the other entries keep
   their relative order; nothing is evicted *)
Theorem lookup_moves_to_front g k v t o :
  glookup k (gitems g) = Some (v, t) -> (o = Get k \/ (exists d, o = GetD k d) \/ o = GetN k) ->
  snd (gstep g o) = OVal v /\
  snd (gstep (fst (gstep g o)) Items) = OItems ((k, v) :: rev (erase_items (gremove k (gitems g)))).
Proof.
  intros E [->|[[d ->]| ->]]; simpl; rewrite E; simpl; rewrite erase_rev_snoc; split; reflexivity.
Qed.

(* storing to a key that is already cached replaces its value, moves it to the front and evicts nothing *)
Theorem store_existing_moves_to_front g k v v0 t :
  glookup k (gitems g) = Some (v0, t) ->
  snd (gstep (fst (gstep g (Set_ k v))) Items) = OItems ((k, v) :: rev (erase_items (gremove k (gitems g)))) /\
  forall k', k' <> k -> glookup k' (gitems (fst (gstep g (Set_ k v)))) = glookup k' (gitems g).
Proof.
  intro E. simpl. rewrite E. simpl. rewrite erase_rev_snoc. split; [reflexivity|].
  intros k' Hne. rewrite glookup_snoc, glookup_gremove_other by exact Hne.
  destruct (glookup k' (gitems g)); [reflexivity|]. destruct (N.eqb_spec k' k); [congruence|reflexivity].
Qed.

(* len is the number of entries, iteration is keys() *)
Theorem len_and_iter c : snd (step c Len) = OLen (length (items c)) /\ snd (step c Iter) = snd (step c Keys).
Proof. split; reflexivity. Qed.

(* c.get(k) without a default: the most recently stored value, else None -- and it is a use like c[k] *)
Theorem getn_returns_latest n ops k :
  let g := gfinal (gempty n) ops in
  match glookup k (gitems g) with
  | Some (v, t) => snd (gstep g (GetN k)) = OVal v /\ last_stored (rev ops) k = Some v /\
                   fst (gstep g (GetN k)) = fst (gstep g (Get k))
  | None => snd (gstep g (GetN k)) = ONone /\ fst (gstep g (GetN k)) = fst (gstep g (Get k))
  end.
Proof.
  intro g. pose proof (get_returns_latest n ops k) as H. fold g in H. simpl in H |- *.
  destruct (glookup k (gitems g)) as [[v t]|]; simpl.
  - destruct H as (_ & _ & Hs & _). repeat split; assumption.
  - split; reflexivity.
Qed.

(* ------------------------------------------------------------------ thread-safe class: a listing is a snapshot *)
(* once a thread has begun a listing, what it is handed -- however the schedule interleaves stores, deletions and lookups
   of other threads, or its own -- is exactly the items as they were when the listing method ran, most recent first *)
Lemma snapshot_yields_gen tid : forall acts s rest,
  iter_lookup tid (titers s) = Some (ISnap rest) -> no_begin tid acts = true ->
  yields_of tid acts (trun Snapshot s acts) = firstn (nexts tid acts) rest.
Proof.
  induction acts as [|a acts IH]; intros s rest Hit Hnb; [reflexivity|].
  simpl trun. destruct (tstep Snapshot s a) as [s' r] eqn:Est. destruct a as [t o|t|t]; simpl in Est, Hnb |- *.
  - destruct (step (tc s) o) as [c' r0]. inversion Est; subst. apply IH; [exact Hit|exact Hnb].
  - apply andb_prop in Hnb. destruct Hnb as [Hne Hnb]. apply Bool.negb_true_iff, Nat.eqb_neq in Hne.
    inversion Est; subst. apply IH; [|exact Hnb]. simpl. rewrite iter_lookup_set_other by (intro; subst; congruence). exact Hit.
  - destruct (Nat.eqb_spec t tid) as [->|Hne].
    + rewrite Hit in Est. destruct rest as [|kv rest'].
      * inversion Est; subst. simpl. rewrite (IH _ [] Hit Hnb). destruct (nexts tid acts); reflexivity.
      * inversion Est; subst. simpl. f_equal. apply IH; [|exact Hnb]. simpl. apply iter_lookup_set_same.
    + assert (Hit' : iter_lookup tid (titers s') = Some (ISnap rest)).
      { destruct (iter_lookup t (titers s)) as [[[|kv r1]|ver n0]|]; try (inversion Est; subst; exact Hit).
        - inversion Est; subst. simpl. rewrite iter_lookup_set_other by (intro; subst; congruence). exact Hit.
        - destruct (negb (ver =? tver s)); [inversion Est; subst; exact Hit|].
          destruct (nth_error (rev (items (tc s))) n0); inversion Est; subst; [|exact Hit].
          simpl. rewrite iter_lookup_set_other by (intro; subst; congruence). exact Hit. }
      destruct r; apply IH; assumption.
Qed.

Theorem snapshot_listing_is_snapshot tid s acts :
  no_begin tid acts = true ->
  yields_of tid (ListBegin tid :: acts) (trun Snapshot s (ListBegin tid :: acts)) =
  firstn (nexts tid acts) (rev (items (tc s))).
Proof.
  intro Hnb. simpl. apply snapshot_yields_gen; [|exact Hnb]. simpl. apply iter_lookup_set_same.
Qed.

(* every public method of the thread-safe class -- all eleven, c.get(k) without a default included -- is one atomic
   section: a call is ONE step of the plain cache on the current contents, returns that step's result and touches no
   iterator *)
Theorem call_is_atomic m s tid o :
  tc (fst (tstep m s (Call tid o))) = fst (step (tc s) o) /\
  snd (tstep m s (Call tid o)) = TOut (snd (step (tc s) o)) /\
  titers (fst (tstep m s (Call tid o))) = titers s.
Proof. simpl. destruct (step (tc s) o); repeat split. Qed.
