(* TagWalk.v -- C21 deepening.  Environment.analyze_tags_from_string at the level of the REAL token kinds the template
   lexer hands it (liquid/lex.py), the source constructs that produce them, and the bridge to the block parser of
   TagTree.v.  Executable definitions only.

     tokens = list(env.tokenizer()(source));  TagAnalysis walks them and looks at token.kind == TOKEN_TAG only.

   What the lexer does with the constructs of a template (whatever the whitespace control and the delimiters):
     text                         one CONTENT token (none when stripped to nothing)
     {{ e }}                      OUTPUT, EXPRESSION
     {% name e %}                 TAG name [, EXPRESSION when e is not empty]
     {% raw %} .. {% endraw %}    one CONTENT token: no tag inside is a token
     {% doc %} .. {% enddoc %}    one DOC token
     {% comment %} .. {% endcomment %}   TAG comment, ONE COMMENT token for the whole (possibly nested) body, TAG endcomment
     {% comment %} .. <end of source>    TAG comment and nothing more: the rest of the source is swallowed
     {% # text %}                 TAG # , EXPRESSION
     {% liquid l1 \n l2 .. %}     TAG liquid, ONE EXPRESSION holding all lines: the tags written on the lines are not tokens *)
From Coq Require Import String Ascii.
From LiquidVerif Require Import Prelude TagAudit.
From LiquidVerif Require TagTree.

Inductive tok := TTag (name : str) | TExpr | TContent | TOutput | TComment | TDoc.

Definition tag_name (t : tok) : list str := match t with TTag n => [n] | _ => [] end.
Definition names_of (l : list tok) : list str := flat_map tag_name l.

(* TagAnalysis._audit_tags over real tokens: `if token.kind != TOKEN_TAG: continue` *)
Definition analyze (e : tagenv) (l : list tok) : res report := audit e (names_of l).

Definition s_comment : str := lit "comment".
Definition s_endcomment : str := lit "endcomment".
Definition s_liquid : str := lit "liquid".
Definition s_hash : str := [35%N].

(* ---- source constructs ---- *)
Inductive item :=
| IText                                   (* non-empty template text *)
| IOut                                    (* {{ e }} *)
| ITag (name : str) (has_expr : bool)     (* {% name e %}: any tag written at template level (known or not, end tags too) *)
| IRaw (body : list item)                 (* whatever is written between raw and endraw *)
| IDoc (body : list item)
| IComment (body : list item)             (* a closed comment block; nested comment blocks are part of the body *)
| ICommentOpen                            (* a comment tag that is never closed: the rest of the source belongs to it *)
| IHash                                   (* {% # text %} *)
| ILiquid (lines : list (str * bool)).    (* {% liquid ... %}: the (tag name, has expression) of every line *)

Fixpoint lex_items (l : list item) : list tok :=
  match l with
  | [] => []
  | IText :: r => TContent :: lex_items r
  | IOut :: r => TOutput :: TExpr :: lex_items r
  | ITag n he :: r => TTag n :: (if he then [TExpr] else []) ++ lex_items r
  | IRaw _ :: r => TContent :: lex_items r
  | IDoc _ :: r => TDoc :: lex_items r
  | IComment _ :: r => TTag s_comment :: TComment :: TTag s_endcomment :: lex_items r
  | ICommentOpen :: _ => [TTag s_comment]
  | IHash :: r => TTag s_hash :: TExpr :: lex_items r
  | ILiquid lines :: r => TTag s_liquid :: (match lines with [] => [] | _ => [TExpr] end) ++ lex_items r
  end.

(* the names the analysis gets to see, written directly *)
Fixpoint item_names (l : list item) : list str :=
  match l with
  | [] => []
  | ITag n _ :: r => n :: item_names r
  | IComment _ :: r => s_comment :: s_endcomment :: item_names r
  | ICommentOpen :: _ => [s_comment]
  | IHash :: r => s_hash :: item_names r
  | ILiquid _ :: r => s_liquid :: item_names r
  | _ :: r => item_names r
  end.

Definition analyze_items (e : tagenv) (l : list item) : res report := analyze e (lex_items l).

(* ---- the parser's view of the same source: the tokens of TagTree.v (payloads are irrelevant here) ---- *)
Fixpoint ttoks_of (l : list item) : list TagTree.ttok :=
  match l with
  | [] => []
  | IText :: r => TagTree.KText [] :: ttoks_of r
  | IOut :: r => TagTree.KOut [] :: ttoks_of r
  | ITag n _ :: r => TagTree.KTag n [] :: ttoks_of r
  | IRaw _ :: r => TagTree.KRaw [] :: ttoks_of r
  | IDoc _ :: r => TagTree.KText [] :: ttoks_of r          (* a doc block renders nothing and holds no node *)
  | IComment _ :: r => TagTree.KComment [] :: ttoks_of r
  | ICommentOpen :: _ => [TagTree.KTag s_comment []]        (* never parses: the comment tag finds no endcomment *)
  | IHash :: r => TagTree.KTag s_hash [] :: ttoks_of r
  | ILiquid _ :: r => TagTree.KTag s_liquid [] :: ttoks_of r
  end.

(* the tag names behind a TagTree token stream, as the analysis sees the same source *)
Definition tnames1 (t : TagTree.ttok) : list str :=
  match t with
  | TagTree.KTag n _ => [n]
  | TagTree.KComment _ => [s_comment; s_endcomment]
  | _ => []
  end.
Definition tnames (l : list TagTree.ttok) : list str := flat_map tnames1 l.

(* a tag register for the parser of TagTree.v: block tags with their section tags, inline tags *)
Definition kind_from (pb : list (str * list str)) (pi : list str) (n : str) : TagTree.tagkind :=
  match alookup n pb with
  | Some secs => TagTree.TBlock secs
  | None => if TagTree.mem n pi then TagTree.TInline else TagTree.TNone
  end.

(* liquid.extra: macro, block, with have no section tags, translate has plural; call and extends are inline *)
Definition ext_blocks : list (str * list str) :=
  TagTree.std_blocks ++ [ (lit "macro", []); (lit "block", []); (lit "with", []); (lit "translate", [lit "plural"]);
                          (lit "snippet", []) ].
Definition ext_inlines : list str := TagTree.std_inlines ++ [lit "call"; lit "extends"].

(* ---- what the analysis reports for a source the parser accepts: the break / continue tags not enclosed by a block
        that lists them (a for block) -- the parser accepts those anywhere ---- *)
Fixpoint stray_interrupts (e : tagenv) (toks : list str) (stack : list str) : list str :=
  match toks with
  | [] => []
  | t :: rest =>
      if mem t (block_names e) then stray_interrupts e rest (t :: stack)
      else if mem t (registered_ends e) then stray_interrupts e rest (tl stack)
      else if is_loop_interrupt t then
        (if existsb (fun b => mem b stack) (enclosing e t) then [] else [t]) ++ stray_interrupts e rest stack
      else stray_interrupts e rest stack
  end.

(* the grammar of TagAudit.wellnested_from with break / continue allowed anywhere *)
Fixpoint wn2_from (e : tagenv) (toks : list str) (stack : list str) : bool :=
  match toks with
  | [] => match stack with [] => true | _ => false end
  | t :: rest =>
      if mem t (block_names e) then wn2_from e rest (t :: stack)
      else if mem t (registered_ends e) then
        match stack with
        | top :: stack' =>
            match end_of (blocks e) top with
            | Some en => if str_eqb en t then wn2_from e rest stack' else false
            | None => false
            end
        | [] => false
        end
      else if is_loop_interrupt t then wn2_from e rest stack
      else if mem t (inlines e) then wn2_from e rest stack
      else match stack with
           | top :: _ => if mem top (enclosing e t) then wn2_from e rest stack else false
           | [] => false
           end
  end.

(* the parser's register agrees with the environment's tables (a computable check, evaluated on the live tables) *)
Definition consistentb (e : tagenv) (pb : list (str * list str)) (pi : list str) : bool :=
  wf_envb e
  && forallb (fun bs => mem (fst bs) (block_names e)
                        && forallb (fun s => mem (fst bs) (enclosing e s)
                                             && negb (mem s (block_names e)) && negb (mem s (registered_ends e))
                                             && negb (is_loop_interrupt s) && negb (mem s (inlines e))) (snd bs)) pb
  && forallb (fun n => mem n (inlines e) && negb (mem n (block_names e))) pi
  && mem s_comment (block_names e)
  && match end_of (blocks e) s_comment with Some en => str_eqb en s_endcomment | None => false end
  && match enclosing e s_break with [] => false | _ => true end
  && match enclosing e s_continue with [] => false | _ => true end.

(* ---- cases the harness runs ---- *)
Record icase := { i_env : tagenv; i_items : list item }.
Definition run_items (c : icase) : res report := analyze_items (i_env c) (i_items c).
Definition run_lex (c : icase) : list tok := lex_items (i_items c).

Definition tok_eqb (a b : tok) : bool :=
  match a, b with
  | TTag x, TTag y => str_eqb x y
  | TExpr, TExpr | TContent, TContent | TOutput, TOutput | TComment, TComment | TDoc, TDoc => true
  | _, _ => false
  end.

(* does the TagTree parser accept the source (standard or extra register)? *)
Definition run_parses (extra : bool) (c : icase) : bool :=
  match TagTree.parse_template (if extra then kind_from ext_blocks ext_inlines else TagTree.std_kind) (ttoks_of (i_items c)) with
  | Ok _ => true | _ => false
  end.

(* ---- the tables of the shipped environments, as the harness reads them from the live register on every run
        (Environment() and Environment() + liquid.extra.add_tags + SnippetTag) ---- *)
Definition shipped_inner : list (str * list str) :=
  [ (lit "case", [lit "when"; lit "else"]); (lit "for", [lit "break"; lit "continue"; lit "else"]);
    (lit "if", [lit "else"; lit "elsif"]); (lit "translate", [lit "plural"]); (lit "unless", [lit "else"; lit "elsif"]) ].

Definition default_env : tagenv :=
  {| blocks := [ (lit "capture", lit "endcapture"); (lit "case", lit "endcase"); (lit "comment", lit "endcomment");
                 (lit "doc", lit "enddoc"); (lit "for", lit "endfor"); (lit "if", lit "endif");
                 (lit "ifchanged", lit "endifchanged"); (lit "tablerow", lit "endtablerow"); (lit "unless", lit "endunless") ];
     inlines := [ s_hash; lit "assign"; lit "break"; lit "content"; lit "continue"; lit "cycle"; lit "decrement"; lit "echo";
                  lit "illegal"; lit "include"; lit "increment"; lit "liquid"; lit "output"; lit "render" ];
     inner := shipped_inner |}.

Definition extra_env : tagenv :=
  {| blocks := [ (lit "block", []); (lit "capture", lit "endcapture"); (lit "case", lit "endcase"); (lit "comment", lit "endcomment");
                 (lit "doc", lit "enddoc"); (lit "for", lit "endfor"); (lit "if", lit "endif");
                 (lit "ifchanged", lit "endifchanged"); (lit "macro", []); (lit "snippet", lit "endsnippet");
                 (lit "tablerow", lit "endtablerow"); (lit "translate", lit "endtranslate"); (lit "unless", lit "endunless");
                 (lit "with", lit "endwith") ];
     inlines := [ s_hash; lit "assign"; lit "break"; lit "call"; lit "content"; lit "continue"; lit "cycle"; lit "decrement";
                  lit "echo"; lit "extends"; lit "illegal"; lit "include"; lit "increment"; lit "liquid"; lit "output"; lit "render" ];
     inner := shipped_inner |}.

Definition ext_kind : str -> TagTree.tagkind := kind_from ext_blocks ext_inlines.

(* tokens and report of one source, compared in one go *)
Definition run_both (c : icase) : list tok * res report := (run_lex c, run_items c).
Definition both_match (m : list tok * res report) (o : list tok * obs) : bool :=
  list_eqb tok_eqb (fst m) (fst o) && obs_match (snd m) (snd o).
