(* C02 -- exception flow through the conversion helpers, filter decorators and tag handlers.
   A value-CLASS model: a value is described only as far as the outcome (ok / which exception class) of the
   Python primitives applied to it depends on it.  Integer payloads are unbounded Z.
   Executable definitions only; proofs are in ExnFlow_Proofs.v.

   The record [fixes] says which of the proposed repairs are applied; [all_fixed] is the tree the check runs
   against, a cleared flag gives the behaviour before that repair (the *_old behaviour), used for the
   refutation witnesses. *)
From Coq Require Import ZArith List Bool.
From LiquidVerif Require Import Prelude.
Local Open Scope Z_scope.

(* ------------------------------------------------------------------ value classes *)
(* floats: zero; finite non-zero with int(x) = t; nan; +inf; -inf *)
Inductive fcl := FZero | FFin (t : Z) | FNan | FPInf | FNInf.

(* numeric reading of a string *)
Inductive scl :=
| SInt (z : Z)      (* int(s) = z, and len(s) <= MAX_STR_INT *)
| SFloat (f : fcl)  (* int(s) raises ValueError; float(s) is of class f; Decimal(s) accepts *)
| SLong             (* len(s) > MAX_STR_INT (4300) *)
| SOther (id : N).  (* int(s), float(s), Decimal(s) all reject s; id names the text (hash keys) *)

Inductive value :=
| VNone | VUndef | VBool (b : bool) | VInt (z : Z) | VFloat (f : fcl)
| VStr (s : scl) (len : Z)
| VList (items : list value)
| VDict (keys : list N) (vals : list value)   (* string keys (atoms), insertion order *)
| VRange (lo : Z) (len : nat).                (* range(lo, lo+len); literals are clamped to +-1024 *)

(* sys.get_int_max_str_digits() = 4300: str(z) raises ValueError iff z has more than 4300 digits *)
Definition huge_bound : Z := Eval vm_compute in (10 ^ 4300).
Definition huge (z : Z) : bool := huge_bound <=? Z.abs z.
(* float(z) raises OverflowError iff |z| >= 2^1024 (up to rounding at the boundary) *)
Definition float_bound : Z := Eval vm_compute in (2 ^ 1024).
Definition too_big_for_float (z : Z) : bool := float_bound <=? Z.abs z.
(* json: a string repeat count must fit a C ssize_t, whatever its sign *)
Definition ssize_bound : Z := Eval vm_compute in (2 ^ 63).

(* str(v), repr(v), an f-string of v raise ValueError: v contains an int beyond the digit limit *)
Fixpoint str_fails (v : value) : bool :=
  match v with
  | VInt z => huge z
  | VList l => existsb str_fails l
  | VDict _ vs => existsb str_fails vs
  | VRange lo n => huge lo || huge (lo + Z.of_nat n)      (* range(lo, lo+n) *)
  | _ => false
  end.

(* the guard of the partial theorem: an int beyond the digit limit occurs in v (for a range: as start, stop or stop-1;
   for a text: as its integer reading, which the length bound of the class SInt excludes) *)
Fixpoint has_huge (v : value) : bool :=
  match v with
  | VInt z => huge z
  | VStr (SInt z) _ => huge z          (* a text of at most 4300 characters cannot read as such an int *)
  | VList l => existsb has_huge l
  | VDict _ vs => existsb has_huge vs
  | VRange lo n => huge lo || huge (lo + Z.of_nat n) || huge (lo + Z.of_nat n - 1)
  | _ => false
  end.

Definition some_str : value := VStr (SOther 0) 1.     (* a result that is some text *)
Definition some_float : value := VFloat (FFin 1).     (* a result that is some float; only has_huge is observed of results *)

(* ------------------------------------------------------------------ which repairs are applied *)
Record fixes := {
  fx_to_int : bool;    (* to_int: OverflowError (infinity) -> ValueError *)
  fx_math : bool;      (* math_filter: ValueError / ArithmeticError -> FilterArgumentError *)
  fx_decimal : bool;   (* decimal_arg and sum: decimal.InvalidOperation handled *)
  fx_range : bool;     (* range literal: TypeError bound -> 0 *)
  fx_cols : bool;      (* tablerow cols: TypeError -> 0 *)
  fx_count : bool;     (* translate count: TypeError -> 1 *)
  fx_contains : bool;  (* contains: unhashable right operand -> false *)
  fx_root : bool;      (* get_async: non-string root segment -> undefined *)
  fx_lookup : bool;    (* compact/uniq with a property: missing property is nil *)
  fx_index : bool;     (* index filter: undefined left -> nil *)
  fx_codecs : bool;    (* base64/url codecs: UnicodeError, ValueError -> FilterError *)
  fx_json : bool       (* json: OverflowError -> FilterArgumentError *)
}.
Definition all_fixed : fixes :=
  {| fx_to_int := true; fx_math := true; fx_decimal := true; fx_range := true; fx_cols := true; fx_count := true;
     fx_contains := true; fx_root := true; fx_lookup := true; fx_index := true; fx_codecs := true; fx_json := true |}.
Definition none_fixed : fixes :=
  {| fx_to_int := false; fx_math := false; fx_decimal := false; fx_range := false; fx_cols := false; fx_count := false;
     fx_contains := false; fx_root := false; fx_lookup := false; fx_index := false; fx_codecs := false; fx_json := false |}.

(* every repair but the k-th *)
Definition all_but (k : nat) : fixes :=
  let f (i : nat) := negb (Nat.eqb k i) in
  {| fx_to_int := f 0%nat; fx_math := f 1%nat; fx_decimal := f 2%nat; fx_range := f 3%nat; fx_cols := f 4%nat; fx_count := f 5%nat;
     fx_contains := f 6%nat; fx_root := f 7%nat; fx_lookup := f 8%nat; fx_index := f 9%nat; fx_codecs := f 10%nat; fx_json := f 11%nat |}.

(* outcomes of primitives that the value class does not determine; supplied per case by the harness, which
   measures them on CPython; every theorem quantifies over them *)
Inductive b64cl := B64Ok | B64Binascii | B64NonUtf8 | B64NonAscii.
Record prims := {
  p_b64 : b64cl;            (* base64.b64decode(text).decode() *)
  p_b64url : b64cl;         (* base64.urlsafe_b64decode(text).decode() *)
  p_enc_ok : bool;          (* text.encode() succeeds (no lone surrogate) *)
  p_mod_impossible : bool   (* Decimal % Decimal signals DivisionImpossible (quotient longer than the precision) *)
}.

(* ------------------------------------------------------------------ CPython primitives (tables checked on every run) *)
Definition b2z (b : bool) : Z := if b then 1 else 0.

(* int(v) *)
Definition py_int (v : value) : res Z :=
  match v with
  | VNone | VList _ | VDict _ _ | VRange _ _ => Err ETypeError
  | VUndef => Ok 0                      (* Undefined.__int__ *)
  | VBool b => Ok (b2z b)
  | VInt z => Ok z
  | VFloat FZero => Ok 0
  | VFloat (FFin t) => Ok t
  | VFloat FNan => Err EValueError
  | VFloat _ => Err EOverflowError
  | VStr (SInt z) _ => Ok z
  | VStr _ _ => Err EValueError
  end.

Definition float_of_Z (z : Z) : fcl :=
  if z =? 0 then FZero else if too_big_for_float z then (if 0 <? z then FPInf else FNInf) else FFin z.

(* float(s) for a string *)
Definition py_float_str (s : scl) : res fcl :=
  match s with
  | SInt z => Ok (float_of_Z z)
  | SFloat f => Ok f
  | SLong => Ok FPInf
  | SOther _ => Err EValueError
  end.

(* math.ceil / math.floor / round(x) of a float; the integer result is not tracked beyond its class *)
Definition py_float_to_int (f : fcl) : res Z :=
  match f with
  | FZero => Ok 0 | FFin t => Ok t
  | FNan => Err EValueError
  | _ => Err EOverflowError
  end.

(* Decimal classes *)
Inductive dcl := DBad | DZero | DFin | DNan | DPInf | DNInf.
Definition dec_of_float (f : fcl) : dcl :=
  match f with FZero => DZero | FFin _ => DFin | FNan => DNan | FPInf => DPInf | FNInf => DNInf end.
Definition dec_is_inf (d : dcl) := match d with DPInf | DNInf => true | _ => false end.
Definition dec_is_nan (d : dcl) := match d with DNan => true | _ => false end.
Definition dec_neg (d : dcl) := match d with DPInf => DNInf | DNInf => DPInf | x => x end.

(* a + b on Decimals; DBad stands for Decimal(text) itself signalling ConversionSyntax *)
Definition dec_add (a b : dcl) : res dcl :=
  match a, b with
  | DBad, _ | _, DBad => Err EArithmeticError
  | DNan, _ | _, DNan => Ok DNan
  | DPInf, DNInf | DNInf, DPInf => Err EArithmeticError
  | DPInf, _ | _, DPInf => Ok DPInf
  | DNInf, _ | _, DNInf => Ok DNInf
  | _, _ => Ok DFin
  end.
Definition dec_sub (a b : dcl) : res dcl := dec_add a (dec_neg b).
Definition dec_mul (a b : dcl) : res dcl :=
  match a, b with
  | DBad, _ | _, DBad => Err EArithmeticError
  | DNan, _ | _, DNan => Ok DNan
  | DZero, (DPInf | DNInf) | (DPInf | DNInf), DZero => Err EArithmeticError
  | (DPInf | DNInf), _ | _, (DPInf | DNInf) => Ok DPInf
  | _, _ => Ok DFin
  end.
(* a / b (fix c04eaed: divided_by divides Decimals); DFin / DZero signals DivisionByZero, which is also a ZeroDivisionError *)
Definition dec_div (a b : dcl) : res dcl :=
  match a, b with
  | DBad, _ | _, DBad => Err EArithmeticError
  | DNan, _ | _, DNan => Ok DNan
  | (DPInf | DNInf), (DPInf | DNInf) => Err EArithmeticError
  | (DPInf | DNInf), _ => Ok DPInf
  | _, DZero => Err EArithmeticError                       (* 0/0: InvalidOperation; x/0: DivisionByZero *)
  | _, (DPInf | DNInf) => Ok DZero
  | DZero, _ => Ok DZero
  | _, _ => Ok DFin
  end.
Definition dec_div_by_zero (a b : dcl) : bool := match a, b with DFin, DZero => true | _, _ => false end.
Definition dec_mod (imp : bool) (a b : dcl) : res dcl :=
  match a, b with
  | DBad, _ | _, DBad => Err EArithmeticError
  | DNan, _ | _, DNan => Ok DNan
  | (DPInf | DNInf), _ => Err EArithmeticError
  | _, DZero => Err EArithmeticError
  | _, (DPInf | DNInf) => Ok DFin
  | _, _ => if imp then Err EArithmeticError else Ok DFin
  end.

(* obj[key] *)
Definition is_hashable (k : value) : bool := match k with VList _ | VDict _ _ => false | _ => true end.
Definition int_key (k : value) : option Z := match k with VInt z => Some z | VBool b => Some (b2z b) | _ => None end.

Fixpoint dict_get (id : N) (ks : list N) (vs : list value) : option value :=
  match ks, vs with
  | k :: ks', v :: vs' => if N.eqb id k then Some v else dict_get id ks' vs'
  | _, _ => None
  end.

Definition index_list {A} (l : list A) (z : Z) : option A :=
  let n := Z.of_nat (length l) in
  let i := if z <? 0 then z + n else z in
  if (i <? 0) || (n <=? i) then None else nth_error l (Z.to_nat i).

Definition in_bounds (n z : Z) : bool :=
  let i := if z <? 0 then z + n else z in negb ((i <? 0) || (n <=? i)).

Definition py_getitem (o k : value) : res value :=
  match o with
  | VDict ks vs =>
      if negb (is_hashable k) then Err ETypeError
      else match k with
           | VStr (SOther id) _ => match dict_get id ks vs with Some v => Ok v | None => Err EKeyError end
           | _ => Err EKeyError
           end
  | VList l =>
      match int_key k with
      | Some z => match index_list l z with Some v => Ok v | None => Err EIndexError end
      | None => Err ETypeError
      end
  | VStr _ len =>
      match int_key k with
      | Some z => if in_bounds len z then Ok some_str else Err EIndexError
      | None => Err ETypeError
      end
  | VRange lo len =>
      match int_key k with
      | Some z => if in_bounds (Z.of_nat len) z then Ok (VInt lo) else Err EIndexError
      | None => Err ETypeError
      end
  | VUndef => Ok VUndef                 (* Undefined.__getitem__ returns the undefined *)
  | _ => Err ETypeError                 (* None, bool, int, float are not subscriptable *)
  end.

(* str(v), soft_str(v), f-strings: only the digit limit can fail *)
Definition py_str (v : value) : res unit := if str_fails v then Err EValueError else Ok tt.

(* ------------------------------------------------------------------ liquid/limits.py, liquid/filter.py *)
(* LiquidValueError is a LiquidSyntaxError *)
Definition to_int (fx : fixes) (v : value) : res Z :=
  match v with
  | VStr SLong _ => Err ESyntax
  | _ => match py_int v with
         | Err EOverflowError => if fx_to_int fx then Err EValueError else Err EOverflowError
         | r => r
         end
  end.

Definition int_arg (fx : fixes) (v : value) (default : option Z) : res Z :=
  match to_int fx v with
  | Err EValueError => match default with Some d => Ok d | None => Err EFilterArg end
  | r => r
  end.

Inductive num := NB (b : bool) | NI (z : Z) | NF (f : fcl).

Definition num_arg (fx : fixes) (v : value) (default : option num) : res num :=
  match v with
  | VBool b => Ok (NI (b2z b))          (* a boolean counts as 0 / 1 (fix 2158e91; before: passed through as NB b) *)
  | VInt z => Ok (NI z)
  | VFloat f => Ok (NF f)
  | VStr s _ =>
      match to_int fx v with
      | Ok z => Ok (NI z)
      | Err EValueError =>
          match py_float_str s with
          | Ok f => Ok (NF f)
          | Err EValueError => match default with Some d => Ok d | None => Err EFilterArg end
          | Err e => Err e
          | OutOfFuel => OutOfFuel
          end
      | Err e => Err e
      | OutOfFuel => OutOfFuel
      end
  | _ => match default with Some d => Ok d | None => Err EFilterArg end
  end.

Definition value_of_num (n : num) : value := match n with NB b => VBool b | NI z => VInt z | NF f => VFloat f end.
Definition intlike (n : num) : option Z := match n with NB b => Some (b2z b) | NI z => Some z | NF _ => None end.
Definition dec_of_num (n : num) : dcl :=
  match n with NB _ => DBad | NI z => if z =? 0 then DZero else DFin | NF f => dec_of_float f end.
Definition num_is_zero (n : num) : bool :=
  match n with NB b => negb b | NI z => z =? 0 | NF FZero => true | NF _ => false end.
Definition num_too_big (n : num) : bool := match n with NI z => too_big_for_float z | _ => false end.

(* ordering used by min / max; exact on ints, on floats it uses int(x), which is exact whenever one side is far away *)
Inductive ext := XNan | XNegInf | XFin (z : Z) | XPosInf.
Definition ext_of (n : num) : ext :=
  match n with
  | NB b => XFin (b2z b) | NI z => XFin z
  | NF FZero => XFin 0 | NF (FFin t) => XFin t | NF FNan => XNan | NF FPInf => XPosInf | NF FNInf => XNegInf
  end.
Definition ext_lt (a b : ext) : bool :=
  match a, b with
  | XNan, _ | _, XNan => false
  | XNegInf, XNegInf => false | XNegInf, _ => true | _, XNegInf => false
  | XPosInf, _ => false | _, XPosInf => true
  | XFin x, XFin y => x <? y
  end.

(* decimal_arg(val, 0) as used by sum *)
Inductive dnum := DI (z : Z) | DD (d : dcl).
Definition decimal_arg0 (fx : fixes) (v : value) : res dnum :=
  match v with
  | VBool b => Ok (DI (b2z b))
  | VInt z => Ok (DI z)
  | VFloat f => Ok (DD (dec_of_float f))
  | VStr s _ =>
      match to_int fx v with
      | Ok z => Ok (DI z)
      | Err EValueError =>
          match s with
          | SFloat f => Ok (DD (dec_of_float f))
          | SInt z => Ok (DI z)
          | SLong => Err ESyntax
          | SOther _ => if fx_decimal fx then Ok (DI 0) else Err EArithmeticError   (* decimal.InvalidOperation *)
          end
      | Err e => Err e
      | OutOfFuel => OutOfFuel
      end
  | _ => Ok (DI 0)
  end.

(* ------------------------------------------------------------------ decorators: handler structure *)
(* which foreign classes an except clause of the decorator converts to FilterArgumentError *)
Definition convert {A} (catch : exn -> bool) (to : exn) (r : res A) : res A :=
  match r with Err e => if catch e then Err to else Err e | r => r end.

Definition is_type_error (e : exn) : bool := match e with ETypeError => true | _ => false end.
Definition is_math_error (fx : fixes) (e : exn) : bool :=
  match e with
  | ETypeError => true
  | EValueError | EOverflowError | EArithmeticError => fx_math fx
  | _ => false
  end.

(* @liquid_filter, and the except clause shared by string_filter, array_filter, sequence_filter *)
Definition liquid_filter {A} (r : res A) : res A := convert is_type_error EFilterArg r.

(* @string_filter: None -> empty text, other non-strings -> str(val) *)
Definition string_filter {A} (v : value) (body : res A) : res A :=
  match v with
  | VNone | VStr _ _ => liquid_filter body
  | _ => do _ <- py_str v; liquid_filter body
  end.

(* @math_filter *)
Definition math_filter (fx : fixes) (v : value) (body : num -> res value) : res value :=
  do n <- num_arg fx v (Some (NI 0));
  convert (is_math_error fx) EFilterArg (body n).

(* @sequence_filter: flatten(val) for lists (5 levels), a one-element list for hashes, strings and scalars *)
Fixpoint flatten (level : nat) : list value -> list value :=
  fix go (l : list value) : list value :=
    match l with
    | [] => []
    | x :: r =>
        match level, x with
        | S lv, VList inner => flatten lv inner ++ go r
        | _, _ => x :: go r
        end
    end.

Fixpoint range_items (lo : Z) (n : nat) : list value :=
  match n with O => [] | S k => VInt lo :: range_items (lo + 1) k end.

Definition coerce_seq (v : value) : list value :=
  match v with
  | VList l => flatten 5 l
  | VUndef => []
  | VRange lo n => range_items lo n
  | _ => [v]
  end.

(* Filter.evaluate: TypeError -> LiquidTypeError *)
Definition filter_evaluate {A} (r : res A) : res A := convert is_type_error EType r.

(* ------------------------------------------------------------------ filter bodies *)
Definition arity_error {A} : res A := Err ETypeError.    (* wrong number of arguments *)

Definition num_min_max (is_max : bool) (n o : num) : value :=
  (* min(num, other): other if other < num else num; max: other if other > num else num *)
  let pick := if is_max then ext_lt (ext_of n) (ext_of o) else ext_lt (ext_of o) (ext_of n) in
  value_of_num (if pick then o else n).

(* Decimal(str(num)): the text conversion comes first *)
Definition num_str (n : num) : res unit := py_str (value_of_num n).

Definition decimal_binop (op : dcl -> dcl -> res dcl) (intop : Z -> Z -> Z) (n o : num) : res value :=
  match intlike n, intlike o with
  | Some x, Some y => Ok (VInt (intop x y))
  | _, _ => do _ <- num_str n; do _ <- num_str o; do _ <- op (dec_of_num n) (dec_of_num o); Ok some_float
  end.

Definition divided_by (n o : num) : res value :=
  match intlike n, intlike o with
  | Some x, Some y => if y =? 0 then Err EFilterArg (* ZeroDivisionError, caught in the filter *) else Ok (VInt (x / y))
  | _, _ =>
      do _ <- num_str n; do _ <- num_str o;
      if dec_div_by_zero (dec_of_num n) (dec_of_num o) then Err EFilterArg      (* except ZeroDivisionError in the filter *)
      else do _ <- dec_div (dec_of_num n) (dec_of_num o); Ok some_float
  end.

Definition modulo (imp : bool) (n o : num) : res value :=
  match intlike n, intlike o with
  | Some x, Some y => if y =? 0 then Err EFilterArg else Ok (VInt (x mod y))
  | _, _ => do _ <- num_str n; do _ <- num_str o; do _ <- dec_mod imp (dec_of_num n) (dec_of_num o); Ok some_float
  end.

Definition round0 (n : num) : res value :=
  match n with
  | NF f => do z <- py_float_to_int f; Ok (VInt z)
  | _ => Ok (value_of_num n)
  end.

Definition round_nd (fx : fixes) (n : num) (a : value) : res value :=
  match num_arg fx a None with
  | Err EFilterArg => round0 n          (* probably a string that is not a number *)
  | Err e => Err e
  | OutOfFuel => OutOfFuel
  | Ok nd =>
      do d <- (match nd with NF f => py_float_to_int f | NB b => Ok (b2z b) | NI z => Ok z end);
      if d <? 0 then Ok (VInt 0)
      else if d =? 0 then round0 n
      else Ok (match n with NF _ => some_float | _ => value_of_num n end)
  end.

Definition round_filter (fx : fixes) (n : num) (args : list value) : res value :=
  match args with
  | [] => round0 n
  | [VUndef] => round0 n
  | [a] => round_nd fx n a
  | _ => arity_error
  end.

Definition with_other (fx : fixes) (args : list value) (k : num -> res value) : res value :=
  match args with
  | [a] => do o <- num_arg fx a (Some (NI 0)); k o
  | _ => arity_error
  end.

(* truncate / truncatewords: num through to_int, end through str() *)
Definition truncate_num (fx : fixes) (a : option value) : res Z :=
  match a with
  | None => Ok 0
  | Some VUndef => Err EFilterArg
  | Some x => match to_int fx x with Err EValueError => Err EFilterArg | r => r end
  end.

Definition truncate_go (fx : fixes) (a b : option value) : res value :=
  do _ <- truncate_num fx a;
  do _ <- (match b with None => Ok tt | Some e => py_str e end);
  Ok some_str.

Definition truncate (fx : fixes) (args : list value) : res value :=
  match args with
  | [] => truncate_go fx None None
  | [a] => truncate_go fx (Some a) None
  | [a; b] => truncate_go fx (Some a) (Some b)
  | _ => arity_error
  end.

(* slice: _slice_arg rejects floats, converts ValueError and TypeError *)
Definition slice_arg (fx : fixes) (a : value) : res Z :=
  match a with
  | VFloat _ => Err EFilterArg
  | _ => match to_int fx a with
         | Err EValueError | Err ETypeError => Err EFilterArg
         | r => r
         end
  end.

(* Python slicing l[start:stop] (never raises) *)
Definition norm_idx (n i : Z) : Z := if i <? 0 then Z.max 0 (i + n) else Z.min i n.
Definition py_slice {A} (l : list A) (start : Z) (stop : option Z) : list A :=
  let n := Z.of_nat (length l) in
  let s := norm_idx n start in
  let e := match stop with None => n | Some e => norm_idx n e end in
  firstn (Z.to_nat (e - s)) (skipn (Z.to_nat s) l).

Definition clamp64 (z : Z) : Z := Z.max (- ssize_bound) (Z.min z (ssize_bound - 1)).

Definition slice_len (fx : fixes) (len : option value) : res Z :=
  match len with None | Some VUndef => Ok 1 | Some l => slice_arg fx l end.

Definition slice_cut (v : value) (s n : Z) : value :=
  let s := clamp64 s in
  let e := s + clamp64 n in
  let stop := if (s <? 0) && (0 <=? e) then None else Some e in
  match v with
  | VList l => VList (py_slice l s stop)
  | VRange lo k => VList (py_slice (range_items lo k) s stop)
  | _ => some_str
  end.

Definition slice_args (fx : fixes) (v start : value) (len : option value) : res value :=
  do s <- slice_arg fx start; do n <- slice_len fx len; Ok (slice_cut v s n).

Definition slice_go (fx : fixes) (v start : value) (len : option value) : res value :=
  do _ <- (match v with VList _ | VRange _ _ | VStr _ _ => Ok tt | _ => py_str v end);
  match start with
  | VUndef => Err EFilterArg
  | _ => slice_args fx v start len
  end.

Definition slice (fx : fixes) (v : value) (args : list value) : res value :=
  match args with
  | [a] => slice_go fx v a None
  | [a; b] => slice_go fx v a (Some b)
  | _ => arity_error
  end.

Definition b64_decode (fx : fixes) (c : b64cl) : res value :=
  match c with
  | B64Ok => Ok some_str
  | B64Binascii => Err ELiquid                                   (* FilterError *)
  | B64NonUtf8 => if fx_codecs fx then Err ELiquid else Err EUnicodeError
  | B64NonAscii => if fx_codecs fx then Err ELiquid else Err EValueError
  end.

Fixpoint all_str (l : list value) : res unit :=
  match l with
  | [] => Ok tt
  | x :: r => do _ <- py_str x; all_str r
  end.

(* sum over decimal_arg(item, 0), left to right as sum() does *)
Definition dnum_add (fx : fixes) (acc x : dnum) : res dnum :=
  match acc, x with
  | DI a, DI b => Ok (DI (a + b))
  | DI a, DD d => do r <- dec_add (if a =? 0 then DZero else DFin) d; Ok (DD r)
  | DD d, DI b => do r <- dec_add d (if b =? 0 then DZero else DFin); Ok (DD r)
  | DD d, DD e => do r <- dec_add d e; Ok (DD r)
  end.

Fixpoint sum_items (fx : fixes) (acc : dnum) (l : list value) : res dnum :=
  match l with
  | [] => Ok acc
  | x :: r => do d <- decimal_arg0 fx x; do acc' <- dnum_add fx acc d; sum_items fx acc' r
  end.

Definition sum_filter (fx : fixes) (v : value) : res value :=
  match sum_items fx (DI 0) (coerce_seq v) with
  | Ok (DI z) => Ok (VInt z)
  | Ok (DD _) => Ok some_float
  | Err EArithmeticError => if fx_decimal fx then Err EFilterArg else Err EArithmeticError
  | Err e => Err e
  | OutOfFuel => OutOfFuel
  end.

(* item[key] inside compact / uniq: a missing property is nil after the repair *)
Definition lookup_prop (fx : fixes) (itm key : value) : res value :=
  match py_getitem itm key with
  | Err EKeyError => if fx_lookup fx then Ok VNone else Err EKeyError
  | Err EIndexError => if fx_lookup fx then Ok VNone else Err EIndexError
  | r => r
  end.

Definition is_none (v : value) : bool := match v with VNone => true | _ => false end.

Fixpoint compact_key (fx : fixes) (key : value) (l : list value) : res (list value) :=
  match l with
  | [] => Ok []
  | x :: r =>
      do p <- lookup_prop fx x key;
      do rest <- compact_key fx key r;
      Ok (if is_none p then rest else x :: rest)
  end.

(* uniq with a property: KeyError was already handled before the repair, IndexError was not *)
Definition uniq_prop (fx : fixes) (itm key : value) : res value :=
  match py_getitem itm key with
  | Err EKeyError => Ok VNone
  | Err EIndexError => if fx_lookup fx then Ok VNone else Err EIndexError
  | r => r
  end.

(* a TypeError of the lookup becomes FilterArgumentError; its message is an f-string of the key and the item *)
Fixpoint uniq_key (fx : fixes) (key : value) (l : list value) : res unit :=
  match l with
  | [] => Ok tt
  | x :: r =>
      match uniq_prop fx x key with
      | Err ETypeError => do _ <- py_str key; do _ <- py_str x; Err EFilterArg
      | Err e => Err e
      | OutOfFuel => OutOfFuel
      | Ok _ => uniq_key fx key r
      end
  end.

Definition is_array_like (v : value) : bool :=
  match v with VList _ | VUndef | VRange _ _ => true | _ => false end.

Definition falsy_or_empty (v : value) : bool :=
  match v with
  | VNone | VUndef | VBool false | VList [] | VDict [] _ => true
  | VStr _ len => len =? 0
  | _ => false
  end.

(* json.dumps walks the value in order: undefined and ranges are not serialisable (TypeError), a huge int hits the digit limit *)
Fixpoint json_walk (v : value) : res unit :=
  match v with
  | VUndef | VRange _ _ => Err ETypeError
  | VInt z => if huge z then Err EValueError else Ok tt
  | VList l => (fix go (l : list value) : res unit :=
                  match l with [] => Ok tt | x :: r => do _ <- json_walk x; go r end) l
  | VDict _ vs => (fix go (l : list value) : res unit :=
                  match l with [] => Ok tt | x :: r => do _ <- json_walk x; go r end) vs
  | _ => Ok tt
  end.

Definition py_truthy (v : value) : bool :=   (* Python truthiness, as used by the json filter for its indent *)
  match v with
  | VNone | VUndef | VBool false | VList [] | VDict [] _ | VFloat FZero | VRange _ O => false
  | VInt z => negb (z =? 0)
  | VStr _ len => negb (len =? 0)
  | _ => true
  end.

Definition json_indent (fx : fixes) (indent : option value) : res (option Z) :=
  match indent with
  | None => Ok None
  | Some a => if py_truthy a then do z <- int_arg fx a None; Ok (Some z) else Ok None
  end.

(* the indent text is built before the value is walked *)
Definition json_encode (fx : fixes) (v : value) (n : option Z) : res value :=
  do _ <- (match n with
           | Some z => if (ssize_bound <=? z) || (z <? - ssize_bound) then (if fx_json fx then Err EFilterArg else Err EOverflowError) else Ok tt
           | None => Ok tt
           end);
  do _ <- json_walk v; Ok some_str.

Definition json_go (fx : fixes) (v : value) (indent : option value) : res value :=
  do n <- json_indent fx indent;
  match v with
  | VStr _ _ => Ok some_str            (* a string is encoded without setting up the indenting encoder *)
  | _ => json_encode fx v n
  end.

Definition json_filter (fx : fixes) (v : value) (args : list value) : res value :=
  match args with
  | [] => json_go fx v None
  | [a] => json_go fx v (Some a)
  | _ => arity_error
  end.

(* liquid truthiness *)
Definition liquid_truthy (v : value) : bool :=
  match v with VNone | VUndef | VBool false => false | _ => true end.

(* map: _getitem(item, key, default=_NULL) with a text key; the way it ends for one item *)
Definition map_item (key itm : value) : res (option value) :=    (* None: FilterItemTypeError, the filter gives nil *)
  match itm with
  | VNone => Ok None
  | VBool _ | VInt _ | VFloat _ => Err ETypeError               (* no __getitem__: the TypeError is re-raised *)
  | _ => match py_getitem itm key with
         | Ok x => Ok (Some x)
         | Err _ => Ok (Some VNone)                              (* missing, or a text item: the key or null *)
         | OutOfFuel => OutOfFuel
         end
  end.

Fixpoint map_items (key : value) (l : list value) : res (option (list value)) :=
  match l with
  | [] => Ok (Some [])
  | x :: r =>
      do y <- map_item key x;
      match y with
      | None => Ok None
      | Some y' => do rest <- map_items key r;
                   Ok (match rest with Some l' => Some (y' :: l') | None => None end)
      end
  end.

(* ------------------------------------------------------------------ sites *)
Inductive site :=
(* math filters *)
| SAbs | SAtMost | SAtLeast | SCeil | SFloor | SRound | SPlus | SMinus | STimes | SDividedBy | SModulo
(* string filters whose body only stringifies its n arguments: upcase downcase capitalize strip lstrip rstrip squish escape
   escape_once url_decode strip_html strip_newlines newline_to_br safe escapejs script_tag stylesheet_tag (n=0);
   append prepend remove remove_first split (n=1); replace replace_first (n=1 or 2) *)
| SStrTotal (lo hi : nat)
| SRemoveLast        (* remove_last: the ValueError handler around rpartition also swallows a failing soft_str(arg) *)
| SEncode            (* url_encode base64_encode base64_url_safe_encode *)
| SB64Decode | SB64UrlDecode
| STruncate          (* truncate truncatewords *)
| SSlice
(* array filters *)
| SJoin | SFirst | SLast | SSize | SSum | SCompact | SUniq | SIndex | SConcat
(* misc *)
| SDefault | SJson | SNgettext
| SReverse           (* reverse: a total sequence filter *)
| SSortNatural       (* sort_natural without a property: the key is str(item).lower() *)
| SMap               (* map: item[str(key)] for every item *)
| SGettext (lo hi : nat)   (* gettext (0 0), t (0 1), pgettext (1 1): the message and the context go through to_liquid_string *)
(* expressions and tags *)
| SOutput            (* output statement, echo, assign-then-output, capture *)
| SRangeLit          (* (v..a) *)
| SFor               (* for x in v limit: a offset: b *)
| STablerow          (* tablerow x in v cols: a limit: b *)
| SContains          (* if v contains a *)
| SRootBracket       (* a path whose root segment is the value of v in brackets *)
| STranslateCount    (* translate count: v *)
| SOutAll            (* the value and every argument reach the output in turn: ifchanged, with, cycle, include / render
                        with keyword arguments or with-binding *)
| STernary.          (* {{ v if a else b }} *)

Definition nth_len_ok (lo hi : nat) (args : list value) : bool :=
  (Nat.leb lo (length args)) && (Nat.leb (length args) hi).

(* the value an expression or a filter application produces, or the exception it raises,
   before Filter.evaluate, the output statement and the per-node handler *)
Definition eval_filter (fx : fixes) (p : prims) (s : site) (v : value) (args : list value) : res value :=
  match s with
  | SAbs => math_filter fx v (fun n => match args with [] => Ok (match intlike n with Some z => VInt (Z.abs z) | None => some_float end) | _ => arity_error end)
  | SAtMost => math_filter fx v (fun n => with_other fx args (fun o => Ok (num_min_max false n o)))
  | SAtLeast => math_filter fx v (fun n => with_other fx args (fun o => Ok (num_min_max true n o)))
  | SCeil | SFloor => math_filter fx v (fun n => match args with [] => round0 n | _ => arity_error end)
  | SRound => math_filter fx v (fun n => round_filter fx n args)
  | SPlus => math_filter fx v (fun n => with_other fx args (fun o => decimal_binop dec_add Z.add n o))
  | SMinus => math_filter fx v (fun n => with_other fx args (fun o => decimal_binop dec_sub Z.sub n o))
  | STimes => math_filter fx v (fun n => with_other fx args (fun o => decimal_binop dec_mul Z.mul n o))
  | SDividedBy => math_filter fx v (fun n => with_other fx args (fun o => divided_by n o))
  | SModulo => math_filter fx v (fun n => with_other fx args (fun o => modulo (p_mod_impossible p) n o))
  | SStrTotal lo hi =>
      string_filter v (if nth_len_ok lo hi args then do _ <- all_str args; Ok some_str else arity_error)
  | SRemoveLast => string_filter v (match args with [_] => Ok some_str | _ => arity_error end)
  | SEncode =>
      string_filter v (match args with
                       | [] => if p_enc_ok p then Ok some_str else if fx_codecs fx then Err ELiquid else Err EUnicodeError
                       | _ => arity_error end)
  | SB64Decode => string_filter v (match args with [] => b64_decode fx (p_b64 p) | _ => arity_error end)
  | SB64UrlDecode => string_filter v (match args with [] => b64_decode fx (p_b64url p) | _ => arity_error end)
  | STruncate => string_filter v (truncate fx args)
  | SSlice => liquid_filter (slice fx v args)
  | SJoin =>
      liquid_filter (match args with
                     | [] => do _ <- all_str (coerce_seq v); Ok some_str
                     | [sep] => do _ <- py_str sep; do _ <- all_str (coerce_seq v); Ok some_str
                     | _ => arity_error end)
  | SFirst =>
      liquid_filter (match args with
                     | [] => Ok (match v with
                                 | VList (x :: _) => x
                                 | VDict (k :: _) (x :: _) => VList [VStr (SOther k) 1; x]
                                 | VRange lo (S _) => VInt lo
                                 | VUndef => VUndef
                                 | _ => VNone end)
                     | _ => arity_error end)
  | SLast =>
      liquid_filter (match args with
                     | [] => Ok (match v with
                                 | VList l => match index_list l (-1) with Some x => x | None => VNone end
                                 | VRange lo (S n) => VInt (lo + Z.of_nat n)
                                 | VUndef => VUndef
                                 | _ => VNone end)
                     | _ => arity_error end)
  | SSize => liquid_filter (match args with [] => Ok (VInt 0) | _ => arity_error end)
  | SSum => liquid_filter (match args with [] => sum_filter fx v | _ => arity_error end)
  | SCompact =>
      liquid_filter (match args with
                     | [] | [VNone] => Ok (VList (filter (fun x => negb (is_none x)) (coerce_seq v)))
                     | [key] => match compact_key fx key (coerce_seq v) with
                                | Err ETypeError => do _ <- py_str key; Err EFilterArg    (* the message is an f-string of the key *)
                                | Err e => Err e
                                | OutOfFuel => OutOfFuel
                                | Ok l => Ok (VList l)
                                end
                     | _ => arity_error end)
  | SUniq =>
      liquid_filter (match args with
                     | [] | [VNone] => Ok (VList (coerce_seq v))
                     | [key] => do _ <- uniq_key fx key (coerce_seq v); Ok (VList (coerce_seq v))
                     | _ => arity_error end)
  | SIndex =>
      if is_array_like v
      then liquid_filter (match args with
                          | [_] => match v with
                                   | VUndef => if fx_index fx then Ok VNone else Err EOtherForeign   (* AttributeError *)
                                   | _ => Ok (VInt 0)
                                   end
                          | _ => arity_error end)
      else Err ELiquid                                               (* FilterValueError *)
  | SConcat =>
      liquid_filter (match args with
                     | [VList l] => Ok (match v with VUndef => VList l | _ => VList (coerce_seq v ++ l) end)
                     | [_] => Err EFilterArg
                     | _ => arity_error end)
  | SDefault =>
      liquid_filter (match args with
                     | [] => Ok (if falsy_or_empty v then some_str else v)
                     | [d] => Ok (if falsy_or_empty v then d else v)
                     | _ => arity_error end)
  | SJson => liquid_filter (json_filter fx v args)
  | SNgettext =>
      (* class-based filter without a decorator: its TypeError reaches Filter.evaluate *)
      match args with
      | [plural; count] =>
          do _ <- py_str v; do _ <- py_str plural;
          do _ <- int_arg fx count (Some 1);
          Ok some_str
      | _ => arity_error
      end
  | SReverse => liquid_filter (match args with [] => Ok (VList (rev (coerce_seq v))) | _ => arity_error end)
  | SSortNatural =>
      liquid_filter (match args with
                     | [] => do _ <- all_str (coerce_seq v); Ok (VList (coerce_seq v))
                     | [key] =>
                         if py_truthy key then
                           (* the sort key is str(_getitem(item, str(key), MAX_CH)).lower() *)
                           do _ <- py_str key;
                           match map_items (match key with VStr _ _ => key | _ => some_str end) (coerce_seq v) with
                           | Err e => Err e                                   (* TypeError: converted by the decorator *)
                           | OutOfFuel => OutOfFuel
                           | Ok None => Ok VNone
                           | Ok (Some keys) => do _ <- all_str keys; Ok (VList (coerce_seq v))
                           end
                         else do _ <- all_str (coerce_seq v); Ok (VList (coerce_seq v))
                     | _ => arity_error end)
  | SMap =>
      liquid_filter (match args with
                     | [key] =>
                         (* str(key) is evaluated for each item: never for an empty sequence *)
                         do _ <- (match coerce_seq v with [] => Ok tt | _ => py_str key end);
                         match map_items (match key with VStr _ _ => key | _ => some_str end) (coerce_seq v) with
                         | Err ETypeError => Err ELiquid                       (* FilterError *)
                         | Err e => Err e
                         | OutOfFuel => OutOfFuel
                         | Ok (Some l) => Ok (VList l)
                         | Ok None => Ok VNone
                         end
                     | _ => arity_error end)
  | SGettext lo hi =>
      if nth_len_ok lo hi args then
        match args with
        | [c] => do _ <- py_str v; do _ <- (match c with VNone => Ok tt | _ => py_str c end); Ok some_str
        | _ => do _ <- py_str v; Ok some_str
        end
      else arity_error
  | _ => Ok VNone
  end.

Definition to_int_or (fx : fixes) (catch_type : bool) (v : value) (d : Z) : res Z :=
  match to_int fx v with
  | Err EValueError => Ok d
  | Err ETypeError => if catch_type then Ok d else Err ETypeError
  | r => r
  end.

(* LoopExpression._to_int: ValueError and TypeError -> LiquidTypeError *)
Definition loop_int (fx : fixes) (v : value) : res Z :=
  match to_int fx v with
  | Err EValueError | Err ETypeError => Err EType
  | r => r
  end.

Definition opt_loop_int (fx : fixes) (o : option value) : res unit :=
  match o with None => Ok tt | Some x => do _ <- loop_int fx x; Ok tt end.

(* to_liquid_string: str() of the value; a range prints its start and stop-1 *)
Definition to_liquid_string (v : value) : res unit :=
  match v with
  | VRange lo n => if huge lo || huge (lo + Z.of_nat n - 1) then Err EValueError else Ok tt
  | _ => py_str v
  end.

Fixpoint all_out (l : list value) : res unit :=
  match l with [] => Ok tt | x :: r => do _ <- to_liquid_string x; all_out r end.

(* async_ only matters for SRootBracket *)
Definition eval_site (fx : fixes) (p : prims) (async_ : bool) (s : site) (v : value) (args : list value) : res value :=
  match s with
  | SOutput => Ok v
  | SRangeLit =>
      match args with
      | [a] => do _ <- to_int_or fx (fx_range fx) v 0; do _ <- to_int_or fx (fx_range fx) a 0; Ok (VRange 0 0)
      | _ => Ok VNone
      end
  | SFor =>
      match args with
      | [] => Ok some_str
      | [a] => do _ <- loop_int fx a; Ok some_str
      | a :: b :: _ => do _ <- loop_int fx a; do _ <- loop_int fx b; Ok some_str
      end
  | STablerow =>
      (* the loop expression (limit) is evaluated first, then cols *)
      match args with
      | [] => Ok some_str
      | [a] => do _ <- to_int_or fx (fx_cols fx) a 0; Ok some_str
      | a :: b :: _ => do _ <- loop_int fx b; do _ <- to_int_or fx (fx_cols fx) a 0; Ok some_str
      end
  | SContains =>
      match args with
      | [a] =>
          if negb (liquid_truthy v) || negb (liquid_truthy a) then Ok VNone
          else match v with
               | VStr _ _ => do _ <- py_str a; Ok VNone
               | VList _ | VRange _ _ => Ok VNone
               | VDict _ _ => if is_hashable a then Ok VNone else if fx_contains fx then Ok VNone else Err ETypeError
               | _ => Err EType
               end
      | _ => Ok VNone
      end
  | SRootBracket =>
      match v with
      | VStr _ _ => Ok VUndef
      | _ => if async_ && negb (fx_root fx) then Err EAssertionError
             else do _ <- py_str v; Ok VUndef      (* the hint text is an f-string of the root *)
      end
  | STranslateCount => do _ <- to_int_or fx (fx_count fx) v 1; Ok some_str
  | SOutAll => do _ <- to_liquid_string v; do _ <- all_out args; Ok some_str
  | STernary =>
      match args with
      | [a; b] => Ok (if liquid_truthy a then v else b)
      | _ => Ok VNone
      end
  | _ => filter_evaluate (eval_filter fx p s v args)
  end.

(* ------------------------------------------------------------------ output statement and the per-node handler *)
Inductive tol := Strict | Warn | Lax.

(* render_with_context: except LiquidError -> env.error (raise in STRICT, warn or ignore otherwise); anything else propagates *)
Definition node_handler {A} (t : tol) (r : res A) : res unit :=
  match r with
  | Ok _ => Ok tt
  | Err e => if is_liquid e then (match t with Strict => Err e | _ => Ok tt end) else Err e
  | OutOfFuel => OutOfFuel
  end.

Definition render_site (fx : fixes) (p : prims) (t : tol) (async_ : bool) (s : site) (v : value) (args : list value) : res unit :=
  node_handler t (do r <- eval_site fx p async_ s v args; to_liquid_string r).

(* Environment.from_string: syntax / inheritance errors are re-raised, every other Exception becomes LiquidError *)
Definition from_string_handler (e : exn) : exn :=
  match e with
  | ESyntax | EInherit | ERequiredBlock | EContextDepth => e
  | _ => ELiquid
  end.

(* ------------------------------------------------------------------ observation and the case record *)
Inductive obs := OOk | OLiquid | OForeign (e : exn) | OFuel.

Definition observe (r : res unit) : obs :=
  match r with
  | Ok _ => OOk
  | Err e => if is_liquid e then OLiquid else OForeign e
  | OutOfFuel => OFuel
  end.

Definition obs_eqb (a b : obs) : bool :=
  match a, b with
  | OOk, OOk | OLiquid, OLiquid | OFuel, OFuel => true
  | OForeign x, OForeign y => exn_eqb x y
  | _, _ => false
  end.

Record ecase := { c_site : site; c_tol : tol; c_async : bool; c_prims : prims; c_v : value; c_args : list value }.

Definition run_exn (c : ecase) : obs :=
  observe (render_site all_fixed (c_prims c) (c_tol c) (c_async c) (c_site c) (c_v c) (c_args c)).
Definition run_exn_old (c : ecase) : obs :=
  observe (render_site none_fixed (c_prims c) (c_tol c) (c_async c) (c_site c) (c_v c) (c_args c)).

Definition all_modes : list (tol * bool) :=
  [(Strict, false); (Strict, true); (Warn, false); (Warn, true); (Lax, false); (Lax, true)].

(* the six observations of one case: every tolerance mode, sync and async *)
Definition run_exn_all (c : ecase) : list obs :=
  map (fun ta => observe (render_site all_fixed (c_prims c) (fst ta) (snd ta) (c_site c) (c_v c) (c_args c))) all_modes.

(* the same six observations with the expression evaluated once (async only matters for SRootBracket); equal to run_exn_all
   (ExnFlow_Proofs.run_exn_all_fast_eq); the correspondence run uses this one: arithmetic on 5000-digit integers is slow *)
Definition run_exn_all_fast (c : ecase) : list obs :=
  let rs := eval_site all_fixed (c_prims c) false (c_site c) (c_v c) (c_args c) in
  let ra := match c_site c with SRootBracket => eval_site all_fixed (c_prims c) true (c_site c) (c_v c) (c_args c) | _ => rs end in
  let fs := do r <- rs; to_liquid_string r in
  let fa := match c_site c with SRootBracket => do r <- ra; to_liquid_string r | _ => fs end in
  map (fun ta : tol * bool => observe (node_handler (fst ta) (if snd ta then fa else fs))) all_modes.

(* primitive tables as observations, for the check against CPython *)
Inductive pcase :=
| PInt (v : value) | PFloatStr (s : scl) | PFloatToInt (f : fcl) | PStr (v : value)
| PDecAdd (a b : dcl) | PDecSub (a b : dcl) | PDecMul (a b : dcl) | PDecDiv (a b : dcl) | PDecMod (imp : bool) (a b : dcl)
| PDecOfNum (n : num) | PGetItem (o k : value) | PFloatOfInt (z : Z) | PJson (v : value).

Definition dcl_is_bad (d : dcl) := match d with DBad => true | _ => false end.

Definition run_prim (c : pcase) : obs :=
  let ob {A} (r : res A) := observe (do _ <- r; Ok tt) in
  match c with
  | PInt v => ob (py_int v)
  | PFloatStr s => ob (py_float_str s)
  | PFloatToInt f => ob (py_float_to_int f)
  | PStr v => ob (py_str v)
  | PDecAdd a b => ob (dec_add a b)
  | PDecSub a b => ob (dec_sub a b)
  | PDecMul a b => ob (dec_mul a b)
  | PDecDiv a b => ob (dec_div a b)
  | PDecMod i a b => ob (dec_mod i a b)
  | PDecOfNum n => if dcl_is_bad (dec_of_num n) then OForeign EArithmeticError else OOk
  | PGetItem o k => ob (py_getitem o k)
  | PFloatOfInt z => if too_big_for_float z then OForeign EOverflowError else OOk
  | PJson v => ob (json_walk v)
  end.
