(* C01 -- proofs about PairLoad.v, and the theorem about histories of requests against ONE caching loader that mix
   get_template and get_template_async (over the model of the caching mixin, CachingLoader.v of C23). *)
From Coq Require Import String ZArith List Bool Lia.
From LiquidVerif Require Import Prelude Lru PairLoad.
From LiquidVerif Require CachingLoader CachingLoader_Proofs.
Import ListNotations.
Local Open Scope list_scope.

(* ------------------------------------------------------------------------ the copies of get_source *)
(* every loader tree (choice loaders nested to any depth), every name *)
Theorem get_source_async_eq : forall l name, get_source_async l name = get_source_sync l name.
Proof.
  (* the two recursive definitions have the same body: the copies are the same text up to the awaits *)
  intros l name. reflexivity.
Qed.

Theorem load_async_eq e l name g : load_async e l name g = load_sync e l name g.
Proof. unfold load_async, load_sync. rewrite get_source_async_eq. reflexivity. Qed.

(* Environment.get_template_async returns the template get_template returns -- name, path, source, globals, matter --
   or fails with the same error, for every environment, loader tree, name and globals argument *)
Theorem get_template_async_eq e name g : get_template_async e name g = get_template_sync e name g.
Proof. unfold get_template_async, get_template_sync. apply load_async_eq. Qed.

Theorem analyze_tags_async_eq e name : analyze_tags_async e name = analyze_tags_sync e name.
Proof. unfold analyze_tags_async, analyze_tags_sync. rewrite get_source_async_eq. reflexivity. Qed.

(* a copy of the ChoiceLoader loop that does not go on after the first loader is told apart *)
Theorem choice_first_only_refuted :
  exists ls name, choice_first_only get_source_async ls name <> get_source_sync (LChoice ls) name.
Proof.
  exists [LDict []; LDict [(llit "p", 1%N)]], (llit "p"). vm_compute. discriminate.
Qed.

(* ------------------------------------------------------------------------ what both copies hand to from_string *)
Lemma alookup_dset x k (v : N) d :
  alookup x (dset k v d) = if str_eqb x k then Some v else alookup x d.
Proof.
  induction d as [|[k' v'] r IH]; cbn [dset alookup].
  - destruct (str_eqb x k); reflexivity.
  - destruct (str_eqb_spec k k') as [->|Hn]; cbn [alookup].
    + destruct (str_eqb x k'); reflexivity.
    + rewrite IH. destruct (str_eqb_spec x k') as [->|Hx].
      * destruct (str_eqb_spec k' k) as [->|_]; [congruence|reflexivity].
      * reflexivity.
Qed.

Lemma alookup_app {V} x (a b : list (str * V)) :
  alookup x (a ++ b) = match alookup x a with Some v => Some v | None => alookup x b end.
Proof. induction a as [|[k v] r IH]; cbn; [reflexivity|]. destruct (str_eqb x k); [reflexivity|exact IH]. Qed.

(* {**a, **b}: a key of b answers with its LAST entry in b, any other key with a *)
Lemma alookup_dmerge x b : forall a,
  alookup x (dmerge a b) = match alookup x (rev b) with Some v => Some v | None => alookup x a end.
Proof.
  unfold dmerge. induction b as [|[k v] r IH]; intro a; cbn [fold_left rev fst snd]; [reflexivity|].
  rewrite IH, alookup_app, alookup_dset. cbn [alookup].
  destruct (alookup x (rev r)); [reflexivity|]. destruct (str_eqb x k); reflexivity.
Qed.

(* Environment.make_globals: the globals argument wins over the environment's globals *)
Theorem make_globals_lookup e g x :
  alookup x (make_globals e g) =
  match g with
  | Some d => match alookup x (rev d) with Some v => Some v | None => alookup x (e_globals e) end
  | None => alookup x (e_globals e)
  end.
Proof.
  destruct g as [[|kv r]|]; cbn [make_globals]; try reflexivity. apply alookup_dmerge.
Qed.

(* what a variable resolves to when a loaded template is rendered: render arguments, then the source's front matter,
   then the template's globals -- the same record through both APIs by get_template_async_eq *)
Theorem resolve_order t args x :
  resolve t args x = match alookup x args with
                     | Some v => Some v
                     | None => match alookup x (t_matter t) with Some v => Some v | None => alookup x (t_globals t) end
                     end.
Proof. reflexivity. Qed.

(* the name of a loaded template is the last component of its path, whichever API loaded it *)
Theorem loaded_name e name g t :
  get_template_async e name g = Ok t -> t_name t = basename (t_path t).
Proof.
  unfold get_template_async, load_async. destruct (get_source_async (e_loader e) name) as [s|x|]; cbn [bind]; try discriminate.
  unfold from_string. destruct (existsb _ _); [discriminate|]. intro H. inversion H. reflexivity.
Qed.

(* ------------------------------------------------------------------------ one caching loader, both APIs mixed *)
Module CL := CachingLoader.
Module CLP := CachingLoader_Proofs.

(* the same request made through the synchronous API *)
Definition sync_get (g : CL.get) : CL.get :=
  {| CL.g_mode := CL.Sync; CL.g_name := CL.g_name g; CL.g_kw := CL.g_kw g; CL.g_ctx := CL.g_ctx g;
     CL.g_globals := CL.g_globals g |}.
Definition sync_req (r : CL.request) : CL.request :=
  match r with CL.Get g => CL.Get (sync_get g) | r => r end.

Section Mix.
  Variable c : CL.config.
  (* get_source_async hands out a plain callable as the up-to-date check (true of every built-in loader since the
     repair of FileSystemLoader.get_source_async) *)
  Hypothesis Haw : CL.awaitable_uptodate c = false.

  Definition plain_heap (s : CL.state) : Prop := Forall (fun it => CL.t_awaitable (snd it) = false) (CL.st_heap s).

  Lemma base_load_mode st m name kw ctx gl :
    CL.base_load CL.fixed c st m name kw ctx gl = CL.base_load CL.fixed c st CL.Sync name kw ctx gl.
  Proof. unfold CL.base_load. destruct (CL.slookup _ st); [|reflexivity]. destruct m; cbn; rewrite ?Haw; reflexivity. Qed.

  Lemma base_load_plain st m name kw ctx gl t :
    CL.base_load CL.fixed c st m name kw ctx gl = Ok t -> CL.t_awaitable t = false.
  Proof.
    unfold CL.base_load. destruct (CL.slookup _ st); [|discriminate]. intro H. inversion H. destruct m; cbn; auto.
  Qed.

  Lemma check_cache_async_plain s key gl load :
    plain_heap s -> (forall t, load tt = Ok t -> CL.t_awaitable t = false) ->
    plain_heap (fst (CL.check_cache_async CL.fixed c s key gl load)).
  Proof.
    intros Hp Hl. unfold CL.check_cache_async.
    destruct (Lru.do_get (CL.st_cache s) (CL.enc key)) as [cache1 [id|]].
    - destruct (CL.hget id (CL.st_heap s)) as [cached|] eqn:Hg; [|exact Hp].
      assert (Hc : CL.t_awaitable cached = false).
      { apply CLP.hget_In in Hg. unfold plain_heap in Hp. rewrite Forall_forall in Hp. apply (Hp _ Hg). }
      destruct (if CL.auto_reload c then CL.up_to_date c (CL.st_store s) cached else Ok true) as [[|]|e|]; cbn [fst].
      + cbn [CL.fixed CL.v_hit_mutates]. destruct (CL.same_globals _ _); cbn [fst]; constructor; auto.
      + destruct (load tt) as [t|e|] eqn:El; cbn [fst]; try exact Hp. constructor; [apply Hl; reflexivity|exact Hp].
      + exact Hp.
      + exact Hp.
    - destruct (load tt) as [t|e|] eqn:El; cbn [fst]; try exact Hp. constructor; [apply Hl; reflexivity|exact Hp].
  Qed.

  (* one request: the asynchronous API does what the synchronous one does, and leaves a heap of the same kind *)
  Lemma step_sync s r :
    plain_heap s ->
    CL.step CL.fixed c s r = CL.step CL.fixed c s (sync_req r) /\ plain_heap (fst (CL.step CL.fixed c s r)).
  Proof.
    intro Hp. destruct r as [g|name ns|name ns]; cbn [sync_req CL.step]; [|split; [reflexivity|exact Hp] ..].
    assert (E : CL.mixin_load_async CL.fixed c s g = CL.mixin_load CL.fixed c s g).
    { unfold CL.mixin_load_async, CL.mixin_load. cbn [CL.fixed CL.v_async_swap].
      rewrite CLP.check_cache_sync_async.
      - apply CLP.cca_ext. apply base_load_mode.
      - intros cache1 id t _ Hg. apply CLP.hget_In in Hg. unfold plain_heap in Hp. rewrite Forall_forall in Hp.
        apply (Hp _ Hg). }
    assert (Hpa : plain_heap (fst (CL.mixin_load_async CL.fixed c s g))).
    { unfold CL.mixin_load_async. cbn [CL.fixed CL.v_async_swap]. apply check_cache_async_plain; [exact Hp|].
      intros t Ht. eapply base_load_plain; exact Ht. }
    cbn [sync_get CL.g_mode]. destruct (CL.g_mode g).
    - split; [reflexivity|]. rewrite <- E. exact Hpa.
    - split; [exact E|exact Hpa].
  Qed.

  Lemma run_sync rs : forall s, plain_heap s -> CL.run CL.fixed c s rs = CL.run CL.fixed c s (map sync_req rs).
  Proof.
    induction rs as [|r rs IH]; intros s Hp; [reflexivity|]. cbn [map CL.run].
    destruct (step_sync s r Hp) as [E Hp']. rewrite <- E.
    destruct (CL.step CL.fixed c s r) as [s' o]. cbn [fst] in Hp'. rewrite (IH s' Hp'). reflexivity.
  Qed.

  (* Two histories of requests against one caching loader -- loads, edits and deletions of sources in between -- that
     differ only in WHICH API each load goes through return the same sequence of templates and errors: cache hits,
     misses, reloads after an edit, evictions and copies bound to other globals do not depend on which API filled or
     read the cache. *)
  Theorem api_mix_irrelevant st rs rs' :
    map sync_req rs = map sync_req rs' ->
    CL.run CL.fixed c (CL.init c st) rs = CL.run CL.fixed c (CL.init c st) rs'.
  Proof.
    intro E. rewrite (run_sync rs), (run_sync rs'), E; [reflexivity| |]; constructor.
  Qed.
End Mix.

(* without the hypothesis (FileSystemLoader.get_source_async as found: an awaitable up-to-date check): a template cached
   through get_template_async makes the next get_template fail, where two synchronous calls succeed *)
Definition mix_cfg : CL.config :=
  {| CL.nk := []; CL.auto_reload := true; CL.capacity := 10; CL.aware := false; CL.detects := true;
     CL.awaitable_uptodate := true; CL.missing_raises := false; CL.env_g := 0%N |}.
Definition mix_get (m : CL.mode) : CL.request :=
  CL.Get {| CL.g_mode := m; CL.g_name := llit "a"; CL.g_kw := None; CL.g_ctx := None; CL.g_globals := 0%N |}.
Definition mix_store : CL.store := [((llit "a", None), (1%N, true))].

Definition mix_run (a b : CL.mode) : list CL.response :=
  CL.run CL.fixed mix_cfg (CL.init mix_cfg mix_store) [mix_get a; mix_get b].

Theorem api_mix_awaitable_refuted :
  mix_run CL.Async CL.Sync <> mix_run CL.Sync CL.Sync /\
  nth_error (mix_run CL.Async CL.Sync) 1 = Some (CL.RE ELiquid).
Proof. split; [vm_compute; discriminate | vm_compute; reflexivity]. Qed.
