(* Limits_Sim_Proofs.v — part 2: (a) a completed run under a loop limit L has a static largest product <= L;
   (b) the two-run simulation: under pointwise larger limits a run that completes completes identically, a run
   that fails either fails identically or fails with the error class of a limit that was made larger. *)
From Coq Require Import ZArith NArith List Bool Lia ZifyBool.
From LiquidVerif Require Import Prelude PyPrims Limits Limits_Proofs.
Import ListNotations.
Local Open Scope Z_scope.

Ltac step H :=
  let s1 := fresh "s" in let H1 := fresh "H" in
  apply seq_ok in H; destruct H as (s1 & H1 & H).
Ltac gstep H :=
  let s1 := fresh "s" in let H1 := fresh "G" in
  apply seq_ok in H; destruct H as (s1 & H1 & H); apply guard_ok in H1; destruct H1 as [H1 ->].

Ltac nstep H :=
  let s1 := fresh "s" in let H1 := fresh "Nn" in
  apply seq_ok in H; destruct H as (s1 & H1 & H); apply nest_guard_ok in H1; destruct H1 as [H1 ->].
Ltac ndstep H :=
  let s1 := fresh "s" in let H1 := fresh "Nd" in
  apply seq_ok in H; destruct H as (s1 & H1 & H); apply nestd_guard_ok in H1; destruct H1 as [H1 ->].

(* ------------------------------------------------------------------ (a) static largest product (STRICT) *)
Lemma maxprodS_eq tp sup nd :
  maxprodS tp sup nd =
  match nd with
  | Text _ | Echo _ | Assign _ _ | SuperU => 0
  | Capture _ b | IfChanged b | Include b => maxprodS_list tp sup b
  | Render b | Call b | BlockD b => maxprodS_list tp false b
  | Block b => maxprodS_list tp true b
  | Super b => if sup then maxprodS_list tp true b else 0
  | For n b | Tablerow n b | IncludeArr n b => if (n =? 0)%N then 0 else N.max (tp * n) (maxprodS_list (tp * n) sup b)
  | RenderFor n b => if (n =? 0)%N then 0 else N.max (tp * n) (maxprodS_list (tp * n) false b)
  end%N.
Proof.
  assert (E : forall tp sup l, (fix mx (tp : N) (sup : bool) (l : list node) : N :=
               match l with [] => 0%N | x :: r => N.max (maxprodS tp sup x) (mx tp sup r) end) tp sup l = maxprodS_list tp sup l).
  { intros tp0 sup0 l; induction l as [|x r IH]; simpl; [reflexivity|]. rewrite IH. reflexivity. }
  destruct nd; simpl; rewrite ?E; reflexivity.
Qed.

(* is a block object with a parent block in scope? *)
Definition supflag (f : frame) : bool := match f_sup f with SupNone => false | _ => true end.
(* frames that differ in what they remember of the block's buffer only *)
Definition fz (f f' : frame) : Prop :=
  f_loops f' = f_loops f /\ f_carry f' = f_carry f /\ f_sup f' = f_sup f /\ f_tp f' = f_tp f.
Lemma fz_refl f : fz f f.
Proof. repeat split. Qed.
Lemma fz_freeze f b : fz f (f_freeze f b).
Proof. repeat split. Qed.
Lemma fz_trans f g h : fz f g -> fz g h -> fz f h.
Proof. intros (A1 & A2 & A3 & A4) (B1 & B2 & B3 & B4). repeat split; congruence. Qed.
Lemma linv_fz L f f' : fz f f' -> linv L f -> linv L f'.
Proof.
  intros (A1 & A2 & A3 & A4) (Hb & Ht & Hs). unfold linv, sup_ok, bk in *. rewrite A1, A2, A3, A4.
  split; [exact Hb|]. split; [exact Ht|exact Hs].
Qed.
Lemma supflag_fz f f' : fz f f' -> supflag f' = supflag f.
Proof. intros (_ & _ & A3 & _). unfold supflag. rewrite A3. reflexivity. Qed.

Section Static.
  Variables (v : variant) (lim : limits) (L : N).
  Hypothesis Hv : is_repaired v.
  Hypothesis HL : l_loop lim = Some L.

  Definition ran (m : M) : Prop := exists s0 s1, m s0 = LOk s1.

  Lemma block_ran body f s s' :
    block v Strict lim body f s = LOk s' -> exists f', fz f f' /\ ran (exec_list v Strict lim body f').
  Proof.
    unfold block. destruct (blank_list body); intro H.
    - apply in_null_ok in H. destruct H as (s1 & H1 & _). exists (f_freeze f (s_buf s)). split; [apply fz_freeze|].
      exists (set_buf s BNull), s1. exact H1.
    - exists f. split; [apply fz_refl|]. exists s, s'. exact H.
  Qed.

  Lemma to_nat_S n : (n =? 0)%N = false -> exists m, N.to_nat n = S m.
  Proof. intro H. destruct (N.to_nat n) eqn:E; [lia|eauto]. Qed.

  Definition okP (nd : node) : Prop :=
    forall f s s', linv L f -> exec v Strict lim nd f s = LOk s' -> (maxprodS (f_tp f) (supflag f) nd <= L)%N.
  Definition okQ (l : list node) : Prop :=
    forall f, linv L f -> ran (exec_list v Strict lim l f) -> (maxprodS_list (f_tp f) (supflag f) l <= L)%N.

  Lemma use_block b : okQ b -> forall f s s' tp sup, linv L f -> f_tp f = tp -> supflag f = sup ->
    block v Strict lim b f s = LOk s' -> (maxprodS_list tp sup b <= L)%N.
  Proof.
    intros IH f s s' tp sup HI <- <- H. apply block_ran in H. destruct H as (f' & Hz & Hr).
    specialize (IH f' (linv_fz L f f' Hz HI) Hr). rewrite (supflag_fz f f' Hz) in IH.
    destruct Hz as (_ & _ & _ & A4). rewrite A4 in IH. exact IH.
  Qed.

  Lemma use_partial b : okQ b -> forall f s s' tp sup, linv L f -> f_tp f = tp -> supflag f = sup ->
    partial v Strict lim b f s = LOk s' -> (maxprodS_list tp sup b <= L)%N.
  Proof.
    intros IH f s s' tp sup HI <- <- H. unfold partial in H. gstep H. rewrite run_nodes_strict in H.
    apply (IH (f_ext f) (linv_ext L f HI)). exists s, s'. exact H.
  Qed.

  Theorem exec_maxprod : forall nd, okP nd.
  Proof.
    apply (node_ind' okP okQ); unfold okP.
    - intros t f s s' _ _. rewrite maxprodS_eq. lia.
    - intros x f s s' _ _. rewrite maxprodS_eq. lia.
    - intros x t f s s' _ _. rewrite maxprodS_eq. lia.
    - (* Capture *) intros x b IH f s s' HI H. rewrite maxprodS_eq. rewrite exec_eq in H.
      apply in_child_ok in H. destruct H as (s1 & H1 & _).
      apply (use_block b IH (f_freeze f (s_buf s)) _ _ _ _ (linv_freeze L f _ HI) eq_refl eq_refl H1).
    - (* IfChanged *) intros b IH f s s' HI H. rewrite maxprodS_eq. rewrite exec_eq in H.
      apply in_child_ok in H. destruct H as (s1 & H1 & _).
      apply (use_block b IH (f_freeze f (s_buf s)) _ _ _ _ (linv_freeze L f _ HI) eq_refl eq_refl H1).
    - (* For *) intros n b IH f s s' HI H. rewrite maxprodS_eq. rewrite exec_eq in H.
      destruct (n =? 0)%N eqn:En; [lia|]. gstep H. gstep H.
      destruct (to_nat_S n En) as [m Em]. rewrite Em in H. apply iter_first in H. destruct H as (s1 & H).
      pose proof (linv_for v lim L Hv HL f n HI En G) as HI'.
      pose proof (use_block b IH _ _ _ (f_tp f * n)%N (supflag f) HI' eq_refl eq_refl H) as IHb.
      destruct HI' as (_ & Ht & _). cbn [f_tp f_for] in Ht. lia.
    - (* Tablerow *) intros n b IH f s s' HI H. rewrite maxprodS_eq. rewrite exec_eq in H.
      destruct (n =? 0)%N eqn:En; [lia|]. gstep H. step H. gstep H. step H.
      destruct (to_nat_S n En) as [m Em]. rewrite Em in H1. apply iter_first in H1. destruct H1 as (s3 & H1).
      step H1. step H1.
      pose proof (linv_scale v lim L Hv HL (f_ext f) n (linv_ext L f HI) En G) as HI'.
      pose proof (use_block b IH _ _ _ (f_tp f * n)%N (supflag f) HI' eq_refl eq_refl H3) as IHb.
      destruct HI' as (_ & Ht & _). cbn [f_tp f_scale f_ext] in Ht. lia.
    - (* Include *) intros b IH f s s' HI H. rewrite maxprodS_eq. rewrite exec_eq in H.
      gstep H. nstep H. gstep H. apply (use_partial b IH (f_ext f) _ _ _ _ (linv_ext L f HI) eq_refl eq_refl H).
    - (* IncludeArr *) intros n b IH f s s' HI H. rewrite maxprodS_eq. rewrite exec_eq in H.
      destruct (n =? 0)%N eqn:En; [lia|]. gstep H. nstep H. gstep H. gstep H.
      destruct (to_nat_S n En) as [m Em]. rewrite Em in H. apply iter_first in H. destruct H as (s1 & H).
      pose proof (linv_scale v lim L Hv HL (f_ext f) n (linv_ext L f HI) En G1) as HI'.
      pose proof (use_partial b IH _ _ _ (f_tp f * n)%N (supflag f) HI' eq_refl eq_refl H) as IHb.
      destruct HI' as (_ & Ht & _). cbn [f_tp f_scale f_ext] in Ht. lia.
    - (* Render *) intros b IH f s s' HI H. rewrite maxprodS_eq. rewrite exec_eq in H.
      nstep H. gstep H. apply in_ctx_ok in H. destruct H as (s1 & H & _).
      apply (use_partial b IH (f_copy f) _ _ _ _ (linv_copy L f HI) eq_refl eq_refl H).
    - (* RenderFor *) intros n b IH f s s' HI H. rewrite maxprodS_eq. rewrite exec_eq in H.
      destruct (n =? 0)%N eqn:En; [lia|]. nstep H. gstep H. gstep H.
      destruct (to_nat_S n En) as [m Em]. rewrite Em in H.
      pose proof (linv_scale v lim L Hv HL _ n (linv_copy L f HI) En G0) as HI'.
      assert (IHb : (maxprodS_list (f_tp f * n) false b <= L)%N).
      { destruct (v_item v).
        - apply iter_first in H. destruct H as (s3 & H). apply in_ctx_ok in H. destruct H as (s4 & H & _).
          apply (use_partial b IH _ _ _ _ _ HI' eq_refl eq_refl H).
        - apply in_ctx_ok in H. destruct H as (s1 & H & _). apply iter_first in H. destruct H as (s3 & H).
          apply (use_partial b IH _ _ _ _ _ HI' eq_refl eq_refl H). }
      destruct HI' as (_ & Ht & _). cbn [f_tp f_scale f_copy] in Ht. lia.
    - (* Call *) intros b IH f s s' HI H. rewrite maxprodS_eq. rewrite exec_eq in H.
      gstep H. apply in_ctx_ok in H. destruct H as (s1 & H & _).
      apply (use_block b IH (f_call f) _ _ _ _ (linv_call L f HI) eq_refl eq_refl H).
    - (* Block *) intros b IH f s s' HI H. rewrite maxprodS_eq. rewrite exec_eq in H.
      gstep H. gstep H. apply in_blk_ok in H. destruct H as (s1 & H & _).
      apply (use_block b IH (f_blk f) _ _ _ _ (linv_blk L f HI) eq_refl eq_refl H).
    - (* BlockD *) intros b IH f s s' HI H. rewrite maxprodS_eq. rewrite exec_eq in H.
      gstep H. gstep H.
      apply (use_block b IH (f_sup_set (f_ext f) SupNone) _ _ _ _ (linv_sup_set L _ _ (linv_ext L f HI) (or_introl eq_refl)) eq_refl eq_refl H).
    - (* Super *) intros b IH f s s' HI H. rewrite maxprodS_eq. rewrite exec_eq in H. unfold supflag.
      destruct (f_sup f) as [| |bf] eqn:Es; [lia| |].
      + unfold in_sup in H. apply in_childb_ok in H. destruct H as (s1 & H & _). gstep H.
        apply (use_block b IH (f_sup_set (f_ext f) SupHere) _ _ _ _ (linv_sup_set L _ _ (linv_ext L f HI) (or_intror eq_refl)) eq_refl eq_refl H).
      + unfold in_sup in H. apply in_childb_ok in H. destruct H as (s1 & H & _).
        apply in_base_ok in H. destruct H as (cb & s2 & _ & H & _). gstep H.
        apply (use_block b IH (f_ext (f_base v bf f)) _ _ _ _ (linv_ext L _ (linv_base v L Hv f bf HI Es)) eq_refl eq_refl H).
    - (* SuperU *) intros f s s' _ _. rewrite maxprodS_eq. lia.
    - (* nil *) intros f _ _. simpl. lia.
    - (* cons *) intros x r IHx IHr f HI (s0 & s1 & H). rewrite exec_list_cons in H. step H.
      simpl. specialize (IHx f s0 s HI H0). specialize (IHr f HI (ex_intro _ s (ex_intro _ s1 H))). lia.
  Qed.

  Lemma exec_list_maxprod : forall l, okQ l.
  Proof.
    induction l as [|x r IH]; intros f HI (s0 & s1 & H); simpl; [lia|].
    rewrite exec_list_cons in H. step H.
    pose proof (exec_maxprod x f s0 s HI H0). specialize (IH f HI (ex_intro _ s (ex_intro _ s1 H))). lia.
  Qed.

  Lemma linv_frame0 : (1 <= L)%N -> linv L frame0.
  Proof. intro H1. split; [reflexivity|]. split; [simpl; lia|exact Logic.I]. Qed.

  (* a completed render has no reached nest whose lengths multiply to more than the limit *)
  Theorem run_maxprod chain main glob sizes s :
    (1 <= L)%N -> run_prog v Strict lim chain main glob sizes = LOk s -> (maxprod_list 1 main <= L)%N.
  Proof.
    intros H1 H. unfold run_prog in H. destruct chain as [|d0 loaded].
    - destruct (nest_guard Strict lim main (st0 glob sizes)) as [s1|e s1|]; try discriminate.
      apply (use_partial main (exec_list_maxprod main) frame0 _ _ _ _ (linv_frame0 H1) eq_refl eq_refl H).
    - destruct (nestd_guard Strict (d0 >? l_nest lim) (st0 glob sizes)) as [s1|e s1|]; try discriminate.
      gstep H. rewrite handle_out_strict in H. ndstep H.
      apply (use_partial main (exec_list_maxprod main) (f_ext frame0) _ _ _ _ (linv_ext L _ (linv_frame0 H1)) eq_refl eq_refl H).
  Qed.
End Static.

(* ------------------------------------------------------------------ (b) simulation *)
Definition opt_le {A} (le : A -> A -> Prop) (a b : option A) : Prop :=
  match a, b with
  | _, None => True
  | Some x, Some y => le x y
  | None, Some _ => False
  end.

(* pointwise order on configurations; None (not configured) is the top element *)
Definition lim_le (a b : limits) : Prop :=
  opt_le N.le (l_loop a) (l_loop b) /\ opt_le Z.le (l_out a) (l_out b) /\ opt_le Z.le (l_ns a) (l_ns b) /\
  l_depth a <= l_depth b /\ l_nest a <= l_nest b.

(* the error class belongs to a limit on which the two configurations differ *)
Definition blame (a b : limits) (e : lexn) : Prop :=
  match e with
  | XLoop => l_loop a <> l_loop b
  | XOutput => l_out a <> l_out b
  | XNamespace => l_ns a <> l_ns b
  | XDepth => l_depth a <> l_depth b
  | XNesting => l_nest a <> l_nest b
  | XDisabled => False
  end.

Lemma blame_is_limit a b e : blame a b e -> is_limit e = true.
Proof. destruct e; simpl; intro H; try reflexivity. destruct H. Qed.

Section Sim.
  Variables (v : variant) (a b : limits).
  Hypothesis Hv : is_repaired v.
  Hypothesis Hle : lim_le a b.

  Definition le_run (m m' : M) : Prop :=
    forall s, match m s with
              | LOk s' => m' s = LOk s'
              | LErr e s' => m' s = LErr e s' \/ blame a b e
              | LFuel => m' s = LFuel
              end.

  Lemma le_ret : le_run ret ret.
  Proof. intro s. reflexivity. Qed.

  Lemma le_seq m1 m1' m2 m2' : le_run m1 m1' -> le_run m2 m2' -> le_run (seq m1 m2) (seq m1' m2').
  Proof.
    intros H1 H2 s. unfold seq. specialize (H1 s). destruct (m1 s) as [s1|e s1|].
    - rewrite H1. apply H2.
    - destruct H1 as [H1|H1]; [rewrite H1; left; reflexivity|right; exact H1].
    - rewrite H1. reflexivity.
  Qed.

  Lemma le_guard g g' e : (g' = true -> g = true) -> (g = true -> g' = false -> blame a b e) -> le_run (guard g e) (guard g' e).
  Proof.
    intros Hm Hb s. unfold guard. destruct g, g'; simpl; auto.
    specialize (Hm eq_refl). discriminate.
  Qed.

  Lemma le_guard_same g e : le_run (guard g e) (guard g e).
  Proof. apply le_guard; [auto|congruence]. Qed.

  Lemma le_iter body body' : (forall k, le_run (body k) (body' k)) -> forall n k, le_run (iter k n body) (iter k n body').
  Proof. intros Hb. induction n as [|n IH]; intro k; simpl; [apply le_ret|]. apply le_seq; auto. Qed.

  Lemma le_in_null m m' : le_run m m' -> le_run (in_null m) (in_null m').
  Proof.
    intros H s. unfold in_null. specialize (H (set_buf s BNull)). destruct (m _) as [s1|e s1|].
    - rewrite H. reflexivity.
    - destruct H as [H|H]; [rewrite H; left; reflexivity|right; exact H].
    - rewrite H. reflexivity.
  Qed.

  Lemma le_in_childb_at cb m m' k k' s : le_run m m' -> (forall val, le_run (k val) (k' val)) ->
    match in_childb cb m k s with
    | LOk s' => in_childb cb m' k' s = LOk s'
    | LErr e s' => in_childb cb m' k' s = LErr e s' \/ blame a b e
    | LFuel => in_childb cb m' k' s = LFuel
    end.
  Proof.
    intros H Hk. unfold in_childb. specialize (H (set_buf s cb)). destruct (m _) as [s1|e s1|].
    - rewrite H. apply Hk.
    - destruct H as [H|H]; [rewrite H; left; reflexivity|right; exact H].
    - rewrite H. reflexivity.
  Qed.

  Lemma le_in_child m m' k k' : le_run m m' -> (forall val, le_run (k val) (k' val)) -> le_run (in_child m k) (in_child m' k').
  Proof. intros H Hk s. unfold in_child. apply le_in_childb_at; assumption. Qed.

  Lemma le_in_ctx m m' : le_run m m' -> le_run (in_ctx m) (in_ctx m').
  Proof.
    intros H s. unfold in_ctx. specialize (H (set_cx s (cx_copy (s_cx s)))). destruct (m _) as [s1|e s1|].
    - rewrite H. reflexivity.
    - destruct H as [H|H]; [rewrite H; left; reflexivity|right; exact H].
    - rewrite H. reflexivity.
  Qed.

  Lemma le_in_blk m m' : le_run m m' -> le_run (in_blk m) (in_blk m').
  Proof.
    intros H s. unfold in_blk. specialize (H (set_cx s (cx_blk (s_cx s)))). destruct (m _) as [s1|e s1|].
    - rewrite H. destruct (leave_blk s1); reflexivity.
    - destruct H as [H|H]; [rewrite H; left; reflexivity|right; exact H].
    - rewrite H. reflexivity.
  Qed.

  Lemma le_in_base m m' : le_run m m' -> le_run (in_base v m) (in_base v m').
  Proof.
    intros H s. unfold in_base. destruct (cx_base v (s_cx s)) as [cb|]; [|reflexivity].
    specialize (H (set_cx s cb)). destruct (m _) as [s1|e s1|].
    - rewrite H. reflexivity.
    - destruct H as [H|H]; [rewrite H; left; reflexivity|right; exact H].
    - rewrite H. reflexivity.
  Qed.

  Lemma le_fun (F F' : st -> M) : (forall s0, le_run (F s0) (F' s0)) -> le_run (fun s => F s s) (fun s => F' s s).
  Proof. intros H s. apply (H s s). Qed.

  Lemma le_write t : le_run (m_write a t) (m_write b t).
  Proof.
    intro s. unfold m_write, buf_write. destruct t as [|c t]; [reflexivity|].
    destruct (s_buf s) as [|base size rt]; [reflexivity|].
    destruct Hle as (_ & Ho & _). unfold opt_le in Ho.
    destruct (l_out a) as [La|] eqn:Ea, (l_out b) as [Lb|] eqn:Eb; try contradiction; simpl.
    - destruct (_ >? La - base) eqn:E1, (_ >? Lb - base) eqn:E2; simpl; auto; try lia.
      right. rewrite Ea, Eb. intro Heq. inversion Heq. lia.
    - destruct (_ >? La - base) eqn:E1; simpl; auto. right. rewrite Ea, Eb. discriminate.
    - reflexivity.
  Qed.

  Lemma le_in_sup f m m' : le_run m m' -> le_run (in_sup a f m) (in_sup b f m').
  Proof. intros H s. unfold in_sup. apply le_in_childb_at; [exact H|intro val; apply le_write]. Qed.

  Lemma le_assign x val : le_run (m_assign v a x val) (m_assign v b x val).
  Proof.
    intro s. unfold m_assign. destruct (s_sizes s) as [|z rest]; [reflexivity|].
    rewrite !(ns_limit_repaired v _ Hv).
    destruct Hle as (_ & _ & Hn & _). unfold opt_le in Hn.
    destruct (l_ns a) as [La|] eqn:Ea, (l_ns b) as [Lb|] eqn:Eb; try contradiction; simpl.
    - destruct (_ >? La) eqn:E1, (_ >? Lb) eqn:E2; simpl; auto; try lia.
      right. rewrite Ea, Eb. intro Heq. inversion Heq. lia.
    - destruct (_ >? La) eqn:E1; simpl; auto. right. rewrite Ea, Eb. discriminate.
    - reflexivity.
  Qed.

  Lemma le_ifchanged val : le_run (m_ifchanged a val) (m_ifchanged b val).
  Proof.
    intro s. unfold m_ifchanged. destruct (str_eqb val (s_ifch s)); [reflexivity|]. apply le_write.
  Qed.

  Lemma le_loop_guard f n : le_run (guard (loop_exceeded v a f n) XLoop) (guard (loop_exceeded v b f n) XLoop).
  Proof.
    unfold loop_exceeded. rewrite !(loop_limit_repaired v _ Hv).
    destruct Hle as (Hl & _). unfold opt_le in Hl.
    destruct (l_loop a) as [La|] eqn:Ea, (l_loop b) as [Lb|] eqn:Eb; try contradiction.
    - apply le_guard; [lia|]. intros H1 H2. simpl. rewrite Ea, Eb. intro Heq. inversion Heq. lia.
    - apply le_guard; [discriminate|]. intros H1 H2. simpl. rewrite Ea, Eb. discriminate.
    - apply le_guard_same.
  Qed.

  Lemma le_depth_guard f : le_run (guard (depth_exceeded a f) XDepth) (guard (depth_exceeded b f) XDepth).
  Proof.
    unfold depth_exceeded. destruct Hle as (_ & _ & _ & Hd & _).
    apply le_guard; [lia|]. intros H1 H2. simpl. lia.
  Qed.

  Lemma le_copy_guard f : le_run (guard (copy_exceeded a f) XDepth) (guard (copy_exceeded b f) XDepth).
  Proof.
    unfold copy_exceeded. destruct Hle as (_ & _ & _ & Hd & _).
    apply le_guard; [lia|]. intros H1 H2. simpl. lia.
  Qed.

  Lemma le_nestd_guard d d' : (d' = true -> d = true) -> (d = true -> d' = false -> l_nest a <> l_nest b) ->
    le_run (nestd_guard Strict d) (nestd_guard Strict d').
  Proof.
    intros Hm Hb s. unfold nestd_guard. simpl. destruct d, d'; simpl; auto. specialize (Hm eq_refl). discriminate.
  Qed.

  Lemma le_nest_guard body : le_run (nest_guard Strict a body) (nest_guard Strict b body).
  Proof.
    unfold nest_guard, nest_exceeded. destruct Hle as (_ & _ & _ & _ & Hn). apply le_nestd_guard; lia.
  Qed.

  Lemma le_chain_guard loaded : le_run (nestd_guard Strict (chain_too_deep a loaded)) (nestd_guard Strict (chain_too_deep b loaded)).
  Proof.
    destruct Hle as (_ & _ & _ & _ & Hn).
    assert (Hmono : chain_too_deep b loaded = true -> chain_too_deep a loaded = true).
    { unfold chain_too_deep. rewrite !existsb_exists. intros (d & Hi & Hd). exists d. split; [exact Hi|lia]. }
    apply le_nestd_guard; [exact Hmono|].
    intros H1 H2 Heq. unfold chain_too_deep in *. rewrite Heq in H1. congruence.
  Qed.

  Definition simP (nd : node) : Prop := forall f, le_run (exec v Strict a nd f) (exec v Strict b nd f).
  Definition simQ (l : list node) : Prop := forall f, le_run (exec_list v Strict a l f) (exec_list v Strict b l f).

  Lemma sim_block body : simQ body -> forall f, le_run (block v Strict a body f) (block v Strict b body f).
  Proof.
    intros H f. unfold block. destruct (blank_list body); [|apply H].
    apply (le_fun (fun s0 => in_null (exec_list v Strict a body (f_freeze f (s_buf s0))))
                  (fun s0 => in_null (exec_list v Strict b body (f_freeze f (s_buf s0))))).
    intro s0. apply le_in_null. apply H.
  Qed.

  Lemma sim_partial body : simQ body -> forall f, le_run (partial v Strict a body f) (partial v Strict b body f).
  Proof.
    intros H f. unfold partial. apply le_seq; [apply le_depth_guard|].
    intro s. rewrite !run_nodes_strict. apply H.
  Qed.

  Theorem sim_exec : forall nd, simP nd.
  Proof.
    apply (node_ind' simP simQ); unfold simP.
    - intros t f. rewrite !exec_eq. apply le_seq; [intro s; reflexivity|apply le_write].
    - intros x f. rewrite !exec_eq. apply (le_fun (fun s0 => m_write a (lookup x s0)) (fun s0 => m_write b (lookup x s0))).
      intro s0. apply le_write.
    - intros x t f. rewrite !exec_eq. apply le_assign.
    - intros x body IH f. rewrite !exec_eq.
      apply (le_fun (fun s0 => in_child (block v Strict a body (f_freeze f (s_buf s0))) (fun val => m_assign v a x val))
                    (fun s0 => in_child (block v Strict b body (f_freeze f (s_buf s0))) (fun val => m_assign v b x val))).
      intro s0. apply le_in_child; [apply sim_block; exact IH|intro val; apply le_assign].
    - intros body IH f. rewrite !exec_eq.
      apply (le_fun (fun s0 => in_child (block v Strict a body (f_freeze f (s_buf s0))) (m_ifchanged a))
                    (fun s0 => in_child (block v Strict b body (f_freeze f (s_buf s0))) (m_ifchanged b))).
      intro s0. apply le_in_child; [apply sim_block; exact IH|intro val; apply le_ifchanged].
    - intros n body IH f. rewrite !exec_eq. destruct (n =? 0)%N; [apply le_ret|].
      apply le_seq; [apply le_loop_guard|]. apply le_seq; [apply le_depth_guard|].
      apply le_iter. intro k. apply sim_block; exact IH.
    - intros n body IH f. rewrite !exec_eq.
      apply le_seq; [apply le_loop_guard|]. apply le_seq; [apply le_write|]. apply le_seq; [apply le_depth_guard|].
      apply le_seq; [|apply le_write]. apply le_iter. intro k.
      apply le_seq; [apply le_write|]. apply le_seq; [apply sim_block; exact IH|apply le_write].
    - intros body IH f. rewrite !exec_eq.
      apply le_seq; [apply le_guard_same|]. apply le_seq; [apply le_nest_guard|]. apply le_seq; [apply le_depth_guard|].
      apply sim_partial; exact IH.
    - intros n body IH f. rewrite !exec_eq.
      apply le_seq; [apply le_guard_same|]. apply le_seq; [apply le_nest_guard|]. apply le_seq; [apply le_depth_guard|].
      apply le_seq; [apply le_loop_guard|]. apply le_iter. intro k. apply sim_partial; exact IH.
    - intros body IH f. rewrite !exec_eq.
      apply le_seq; [apply le_nest_guard|]. apply le_seq; [apply le_copy_guard|].
      apply le_in_ctx. apply sim_partial; exact IH.
    - intros n body IH f. rewrite !exec_eq.
      apply le_seq; [apply le_nest_guard|]. apply le_seq; [apply le_copy_guard|]. apply le_seq; [apply le_loop_guard|].
      destruct (v_item v).
      + apply le_iter. intro k. apply le_in_ctx. apply sim_partial; exact IH.
      + apply le_in_ctx. apply le_iter. intro k. apply sim_partial; exact IH.
    - intros body IH f. rewrite !exec_eq.
      apply le_seq; [apply le_copy_guard|]. apply le_in_ctx. apply sim_block; exact IH.
    - (* Block *) intros body IH f. rewrite !exec_eq.
      apply le_seq; [apply le_guard_same|]. apply le_seq; [apply le_copy_guard|]. apply le_in_blk. apply sim_block; exact IH.
    - (* BlockD *) intros body IH f. rewrite !exec_eq.
      apply le_seq; [apply le_guard_same|]. apply le_seq; [apply le_depth_guard|]. apply sim_block; exact IH.
    - (* Super *) intros body IH f. rewrite !exec_eq. destruct (f_sup f) as [| |bf].
      + apply le_ret.
      + apply le_in_sup. apply le_seq; [apply le_depth_guard|]. apply sim_block; exact IH.
      + apply le_in_sup. apply le_in_base. apply le_seq; [apply le_depth_guard|]. apply sim_block; exact IH.
    - (* SuperU *) intro f. rewrite !exec_eq. apply le_ret.
    - intro f. apply le_ret.
    - intros x r IHx IHr f. rewrite !exec_list_cons. apply le_seq; [apply IHx|apply IHr].
  Qed.

  Lemma sim_exec_list : forall l, simQ l.
  Proof.
    induction l as [|x r IH]; intro f; [apply le_ret|].
    rewrite !exec_list_cons. apply le_seq; [apply sim_exec|apply IH].
  Qed.

  Lemma le_handle_out m m' : le_run m m' -> le_run (handle_out Strict m) (handle_out Strict m').
  Proof. intros H s. rewrite !handle_out_strict. apply H. Qed.

  (* whole render, including the parse-time nesting checks *)
  Theorem sim_run chain main glob sizes :
    match run_prog v Strict a chain main glob sizes with
    | LOk s => run_prog v Strict b chain main glob sizes = LOk s
    | LErr e s => run_prog v Strict b chain main glob sizes = LErr e s \/ blame a b e
    | LFuel => run_prog v Strict b chain main glob sizes = LFuel
    end.
  Proof.
    unfold run_prog. destruct chain as [|d0 loaded].
    - pose proof (le_nest_guard main (st0 glob sizes)) as Hg.
      destruct (nest_guard Strict a main (st0 glob sizes)) as [s1|e s1|].
      + rewrite Hg. apply (sim_partial main (sim_exec_list main) frame0 s1).
      + destruct Hg as [Hg|Hg]; [rewrite Hg; left; reflexivity|right; exact Hg].
      + rewrite Hg. reflexivity.
    - assert (Hg : le_run (nestd_guard Strict (d0 >? l_nest a)) (nestd_guard Strict (d0 >? l_nest b))).
      { destruct Hle as (_ & _ & _ & _ & Hn). apply le_nestd_guard; lia. }
      specialize (Hg (st0 glob sizes)).
      destruct (nestd_guard Strict (d0 >? l_nest a) (st0 glob sizes)) as [s1|e s1|].
      + rewrite Hg. clear Hg. revert s1. apply le_seq; [apply le_depth_guard|]. apply le_handle_out.
        apply le_seq; [apply le_chain_guard|]. apply sim_partial. apply sim_exec_list.
      + destruct Hg as [Hg|Hg]; [rewrite Hg; left; reflexivity|right; exact Hg].
      + rewrite Hg. reflexivity.
  Qed.
End Sim.

(* ------------------------------------------------------------------ consequences *)
Definition opt_join {A} (mx : A -> A -> A) (x y : option A) : option A :=
  match x, y with Some p, Some q => Some (mx p q) | _, _ => None end.

Definition lim_join (a b : limits) : limits :=
  {| l_loop := opt_join N.max (l_loop a) (l_loop b); l_out := opt_join Z.max (l_out a) (l_out b);
     l_ns := opt_join Z.max (l_ns a) (l_ns b); l_depth := Z.max (l_depth a) (l_depth b); l_nest := Z.max (l_nest a) (l_nest b) |}.

Lemma lim_le_join_l a b : lim_le a (lim_join a b).
Proof.
  unfold lim_le, lim_join, opt_le, opt_join; simpl.
  destruct (l_loop a), (l_loop b), (l_out a), (l_out b), (l_ns a), (l_ns b); repeat split; auto; lia.
Qed.

Lemma lim_le_join_r a b : lim_le b (lim_join a b).
Proof.
  unfold lim_le, lim_join, opt_le, opt_join; simpl.
  destruct (l_loop a), (l_loop b), (l_out a), (l_out b), (l_ns a), (l_ns b); repeat split; auto; lia.
Qed.

Lemma lim_le_refl a : lim_le a a.
Proof. unfold lim_le, opt_le. destruct (l_loop a), (l_out a), (l_ns a); repeat split; auto; lia. Qed.

Section Consequences.
  Variable v : variant.
  Hypothesis Hv : is_repaired v.

(* monotone: success carries over, with the identical final state (hence output), to any pointwise larger limits *)
Theorem run_monotone a b chain main glob sizes s :
  lim_le a b -> run_prog v Strict a chain main glob sizes = LOk s -> run_prog v Strict b chain main glob sizes = LOk s.
Proof. intros Hle H. pose proof (sim_run v a b Hv Hle chain main glob sizes) as S. rewrite H in S. exact S. Qed.

(* abort only: ANY two configurations under which the render completes give the same final state *)
Theorem run_abort_only a b chain main glob sizes s s' :
  run_prog v Strict a chain main glob sizes = LOk s -> run_prog v Strict b chain main glob sizes = LOk s' -> s = s'.
Proof.
  intros Ha Hb.
  apply (run_monotone a (lim_join a b) chain main glob sizes s (lim_le_join_l a b)) in Ha.
  apply (run_monotone b (lim_join a b) chain main glob sizes s' (lim_le_join_r a b)) in Hb.
  congruence.
Qed.

(* an error under limits a, when the render completes under limits b, is a resource-limit class *)
Theorem run_error_class a b chain main glob sizes e se s :
  run_prog v Strict a chain main glob sizes = LErr e se -> run_prog v Strict b chain main glob sizes = LOk s -> is_limit e = true.
Proof.
  intros Ha Hb.
  apply (run_monotone b (lim_join a b) chain main glob sizes s (lim_le_join_r a b)) in Hb.
  pose proof (sim_run v a (lim_join a b) Hv (lim_le_join_l a b) chain main glob sizes) as S. rewrite Ha in S.
  destruct S as [S|S]; [congruence|]. eapply blame_is_limit; exact S.
Qed.

(* ... and, for comparable limits, it is the class of a limit that was actually made larger *)
Theorem run_error_blame a b chain main glob sizes e se s :
  lim_le a b -> run_prog v Strict a chain main glob sizes = LErr e se -> run_prog v Strict b chain main glob sizes = LOk s -> blame a b e.
Proof.
  intros Hle Ha Hb. pose proof (sim_run v a b Hv Hle chain main glob sizes) as S. rewrite Ha in S.
  destruct S as [S|S]; [congruence|exact S].
Qed.

Definition with_loop (a : limits) (x : option N) : limits :=
  {| l_loop := x; l_out := l_out a; l_ns := l_ns a; l_depth := l_depth a; l_nest := l_nest a |}.
Definition with_out (a : limits) (x : option Z) : limits :=
  {| l_loop := l_loop a; l_out := x; l_ns := l_ns a; l_depth := l_depth a; l_nest := l_nest a |}.

Lemma lim_le_with_loop a : lim_le a (with_loop a None).
Proof. unfold lim_le, with_loop, opt_le; simpl. destruct (l_loop a), (l_out a), (l_ns a); repeat split; auto; lia. Qed.
Lemma lim_le_with_out a : lim_le a (with_out a None).
Proof. unfold lim_le, with_out, opt_le; simpl. destruct (l_loop a), (l_out a), (l_ns a); repeat split; auto; lia. Qed.

(* C06 raises: if, the loop limit apart, the render completes, and some reached nest multiplies to more than L,
   the render under the loop limit L raises LoopIterationLimitError *)
Theorem run_loop_raises a L chain main glob sizes s :
  l_loop a = Some L -> (1 <= L)%N ->
  run_prog v Strict (with_loop a None) chain main glob sizes = LOk s ->
  (L < maxprod_list 1 main)%N ->
  exists se, run_prog v Strict a chain main glob sizes = LErr XLoop se.
Proof.
  intros HL H1 Hu Hgt.
  pose proof (sim_run v a (with_loop a None) Hv (lim_le_with_loop a) chain main glob sizes) as S.
  destruct (run_prog v Strict a chain main glob sizes) as [s'|e se|] eqn:E.
  - exfalso. apply (run_maxprod v a L Hv HL chain main glob sizes s' H1) in E. lia.
  - destruct S as [S|S]; [congruence|]. exists se. destruct e; simpl in S; try reflexivity; try (exfalso; apply S; reflexivity); try destruct S.
  - congruence.
Qed.

(* C07 raises: if, the output limit apart, the render completes with more than L bytes, the render under the
   output limit L raises OutputStreamLimitError *)
Theorem run_out_raises a L chain main glob sizes s :
  l_out a = Some L -> 0 <= L ->
  run_prog v Strict (with_out a None) chain main glob sizes = LOk s ->
  L < utf8_bytes (buf_text (s_buf s)) ->
  exists se, run_prog v Strict a chain main glob sizes = LErr XOutput se.
Proof.
  intros HL H0 Hu Hgt.
  pose proof (sim_run v a (with_out a None) Hv (lim_le_with_out a) chain main glob sizes) as S.
  destruct (run_prog v Strict a chain main glob sizes) as [s'|e se|] eqn:E.
  - assert (s' = s) by congruence. subst s'.
    exfalso. pose proof (run_out_bound v Strict a chain main glob sizes s L HL H0 E). lia.
  - destruct S as [S|S]; [congruence|]. exists se. destruct e; simpl in S; try reflexivity; try (exfalso; apply S; reflexivity); try destruct S.
  - congruence.
Qed.
End Consequences.

(* ------------------------------------------------------------------ (c) no false alarms of the loop limit *)
(* if no reached nest multiplies to more than L, the loop limit L changes nothing at all: the run is the run
   without a loop limit (same result, same error, same fuel exhaustion) *)
Section NoFalseAlarm.
  Variables (v : variant) (md : mode) (a : limits) (L : N).
  Hypothesis Hv : is_repaired v.
  Hypothesis HL : l_loop a = Some L.
  Let b := with_loop a None.

  Definition same (m m' : M) : Prop := forall s, m s = m' s.

  Lemma same_seq m1 m1' m2 m2' : same m1 m1' -> same m2 m2' -> same (seq m1 m2) (seq m1' m2').
  Proof. intros H1 H2 s. unfold seq. rewrite H1. destruct (m1' s); auto. Qed.
  Lemma same_iter body body' : (forall k, same (body k) (body' k)) -> forall n k, same (iter k n body) (iter k n body').
  Proof. intros Hb. induction n as [|n IH]; intro k; simpl; [intro s; reflexivity|]. apply same_seq; auto. Qed.
  Lemma same_in_null m m' : same m m' -> same (in_null m) (in_null m').
  Proof. intros H s. unfold in_null. rewrite H. reflexivity. Qed.
  Lemma same_in_childb_at cb m m' k s : same m m' -> in_childb cb m k s = in_childb cb m' k s.
  Proof. intros H. unfold in_childb. rewrite H. reflexivity. Qed.
  Lemma same_in_child m m' k : same m m' -> same (in_child m k) (in_child m' k).
  Proof. intros H s. unfold in_child. apply same_in_childb_at. exact H. Qed.
  Lemma same_in_ctx m m' : same m m' -> same (in_ctx m) (in_ctx m').
  Proof. intros H s. unfold in_ctx. rewrite H. reflexivity. Qed.
  Lemma same_in_blk m m' : same m m' -> same (in_blk m) (in_blk m').
  Proof. intros H s. unfold in_blk. rewrite H. reflexivity. Qed.
  Lemma same_in_base m m' : same m m' -> same (in_base v m) (in_base v m').
  Proof. intros H s. unfold in_base. destruct (cx_base v (s_cx s)); [|reflexivity]. rewrite H. reflexivity. Qed.
  Lemma same_refl m : same m m.
  Proof. intro s. reflexivity. Qed.
  Lemma same_handle m m' : same m m' -> same (handle md m) (handle md m').
  Proof. intros H s. unfold handle. rewrite H. reflexivity. Qed.
  Lemma same_handle_out m m' : same m m' -> same (handle_out md m) (handle_out md m').
  Proof. intros H s. unfold handle_out. rewrite H. reflexivity. Qed.
  Lemma same_fun (F F' : st -> M) : (forall s0, same (F s0) (F' s0)) -> same (fun s => F s s) (fun s => F' s s).
  Proof. intros H s. apply (H s s). Qed.
  Lemma same_in_sup f m m' : same m m' -> same (in_sup a f m) (in_sup b f m').
  Proof. intros H s. unfold in_sup. apply (same_in_childb_at _ m m' (m_write a) s H). Qed.

  Lemma loop_guard_passes f n : linv L f -> (f_tp f * n <= L)%N -> loop_exceeded v a f n = false.
  Proof.
    intros (Hb & _) Hn. unfold loop_exceeded. rewrite (loop_limit_repaired v a Hv), HL.
    replace (n * f_carry f)%N with (f_carry f * n)%N by lia. rewrite fold_mul_scale. fold (bk f). rewrite Hb. lia.
  Qed.
  Lemma loop_guard_off f n : loop_exceeded v b f n = false.
  Proof. unfold loop_exceeded. rewrite (loop_limit_repaired v b Hv). reflexivity. Qed.

  Lemma same_loop_guard f n : linv L f -> (f_tp f * n <= L)%N ->
    same (guard (loop_exceeded v a f n) XLoop) (guard (loop_exceeded v b f n) XLoop).
  Proof. intros HI Hn s. rewrite (loop_guard_passes f n HI Hn), loop_guard_off. reflexivity. Qed.

  Definition nfP (nd : node) : Prop :=
    forall f, linv L f -> (maxprodS (f_tp f) (supflag f) nd <= L)%N -> same (exec v md a nd f) (exec v md b nd f).
  Definition nfQ (l : list node) : Prop :=
    forall f, linv L f -> (maxprodS_list (f_tp f) (supflag f) l <= L)%N ->
    same (exec_list v md a l f) (exec_list v md b l f) /\ same (run_nodes v md a l f) (run_nodes v md b l f).

  Lemma nf_block body : nfQ body -> forall f tp sup, linv L f -> f_tp f = tp -> supflag f = sup ->
    (maxprodS_list tp sup body <= L)%N -> same (block v md a body f) (block v md b body f).
  Proof.
    intros H f tp sup HI <- <- Hm. unfold block. destruct (blank_list body); [|apply H; auto].
    apply (same_fun (fun s0 => in_null (exec_list v md a body (f_freeze f (s_buf s0))))
                    (fun s0 => in_null (exec_list v md b body (f_freeze f (s_buf s0))))).
    intro s0. apply same_in_null. apply H; [apply linv_freeze; exact HI|exact Hm].
  Qed.

  Lemma nf_partial body : nfQ body -> forall f tp sup, linv L f -> f_tp f = tp -> supflag f = sup ->
    (maxprodS_list tp sup body <= L)%N -> same (partial v md a body f) (partial v md b body f).
  Proof.
    intros H f tp sup HI <- <- Hm. unfold partial. apply same_seq; [apply same_refl|]. apply H; [apply linv_ext; exact HI|exact Hm].
  Qed.

  Theorem nf_exec : forall nd, nfP nd.
  Proof.
    apply (node_ind' nfP nfQ); unfold nfP.
    - intros t f _ _. rewrite !exec_eq. apply same_refl.
    - intros x f _ _. rewrite !exec_eq. apply same_refl.
    - intros x t f _ _. rewrite !exec_eq. apply same_refl.
    - intros x body IH f HI Hm. rewrite maxprodS_eq in Hm. rewrite !exec_eq.
      apply (same_fun (fun s0 => in_child (block v md a body (f_freeze f (s_buf s0))) (fun val => m_assign v a x val))
                      (fun s0 => in_child (block v md b body (f_freeze f (s_buf s0))) (fun val => m_assign v b x val))).
      intro s0. apply (same_in_child _ _ (fun val => m_assign v a x val)).
      apply (nf_block body IH _ (f_tp f) (supflag f)); [apply linv_freeze; exact HI|reflexivity|reflexivity|exact Hm].
    - intros body IH f HI Hm. rewrite maxprodS_eq in Hm. rewrite !exec_eq.
      apply (same_fun (fun s0 => in_child (block v md a body (f_freeze f (s_buf s0))) (m_ifchanged a))
                      (fun s0 => in_child (block v md b body (f_freeze f (s_buf s0))) (m_ifchanged b))).
      intro s0. apply (same_in_child _ _ (m_ifchanged a)).
      apply (nf_block body IH _ (f_tp f) (supflag f)); [apply linv_freeze; exact HI|reflexivity|reflexivity|exact Hm].
    - intros n body IH f HI Hm. rewrite maxprodS_eq in Hm. rewrite !exec_eq.
      destruct (n =? 0)%N eqn:En; [apply same_refl|].
      assert (Hn : (f_tp f * n <= L)%N) by lia.
      apply same_seq; [apply same_loop_guard; auto|]. apply same_seq; [apply same_refl|].
      apply same_iter. intro k. apply (nf_block body IH _ (f_tp f * n)%N (supflag f)); [|reflexivity|reflexivity|lia].
      apply (linv_for v a L Hv HL f n HI En). apply loop_guard_passes; auto.
    - intros n body IH f HI Hm. rewrite maxprodS_eq in Hm. rewrite !exec_eq.
      destruct (n =? 0)%N eqn:En.
      + assert (n = 0%N) by lia. subst n. simpl.
        apply same_seq; [apply same_loop_guard; [exact HI|destruct HI as (_ & Ht & _); lia]|]. apply same_refl.
      + assert (Hn : (f_tp f * n <= L)%N) by lia.
        apply same_seq; [apply same_loop_guard; auto|]. apply same_seq; [apply same_refl|].
        apply same_seq; [apply same_refl|]. apply same_seq; [|apply same_refl].
        apply same_iter. intro k. apply same_seq; [apply same_refl|]. apply same_seq; [|apply same_refl].
        apply (nf_block body IH _ (f_tp f * n)%N (supflag f)); [|reflexivity|reflexivity|lia].
        apply (linv_scale v a L Hv HL (f_ext f) n (linv_ext L f HI) En). apply (loop_guard_passes f n HI Hn).
    - intros body IH f HI Hm. rewrite maxprodS_eq in Hm. rewrite !exec_eq.
      apply same_seq; [apply same_refl|]. apply same_seq; [apply same_refl|]. apply same_seq; [apply same_refl|].
      apply (nf_partial body IH _ (f_tp f) (supflag f)); [apply linv_ext; exact HI|reflexivity|reflexivity|exact Hm].
    - intros n body IH f HI Hm. rewrite maxprodS_eq in Hm. rewrite !exec_eq.
      apply same_seq; [apply same_refl|]. apply same_seq; [apply same_refl|]. apply same_seq; [apply same_refl|].
      destruct (n =? 0)%N eqn:En.
      + assert (n = 0%N) by lia. subst n. simpl.
        apply same_seq; [apply (same_loop_guard (f_ext f)); [apply linv_ext; exact HI|destruct HI as (_ & Ht & _); simpl; lia]|]. apply same_refl.
      + assert (Hn : (f_tp f * n <= L)%N) by lia.
        apply same_seq; [apply (same_loop_guard (f_ext f)); [apply linv_ext; exact HI|exact Hn]|].
        apply same_iter. intro k. apply (nf_partial body IH _ (f_tp f * n)%N (supflag f)); [|reflexivity|reflexivity|lia].
        apply (linv_scale v a L Hv HL (f_ext f) n (linv_ext L f HI) En). apply (loop_guard_passes f n HI Hn).
    - intros body IH f HI Hm. rewrite maxprodS_eq in Hm. rewrite !exec_eq.
      apply same_seq; [apply same_refl|]. apply same_seq; [apply same_refl|].
      apply same_in_ctx. apply (nf_partial body IH _ (f_tp f) false); [apply linv_copy; exact HI|reflexivity|reflexivity|exact Hm].
    - intros n body IH f HI Hm. rewrite maxprodS_eq in Hm. rewrite !exec_eq.
      apply same_seq; [apply same_refl|]. apply same_seq; [apply same_refl|].
      assert (HIc : linv L (f_copy f)) by (apply linv_copy; exact HI).
      destruct (n =? 0)%N eqn:En.
      + assert (n = 0%N) by lia. subst n. simpl.
        apply same_seq; [apply (same_loop_guard (f_copy f)); [exact HIc|destruct HI as (_ & Ht & _); simpl; lia]|]. apply same_refl.
      + assert (Hn : (f_tp f * n <= L)%N) by lia.
        apply same_seq; [apply (same_loop_guard (f_copy f)); [exact HIc|exact Hn]|].
        assert (Hp : same (partial v md a body (f_scale v (f_copy f) n)) (partial v md b body (f_scale v (f_copy f) n))).
        { apply (nf_partial body IH _ (f_tp f * n)%N false); [|reflexivity|reflexivity|lia].
          apply (linv_scale v a L Hv HL (f_copy f) n HIc En). apply (loop_guard_passes (f_copy f) n HIc Hn). }
        destruct (v_item v).
        * apply same_iter. intro k. apply same_in_ctx. exact Hp.
        * apply same_in_ctx. apply same_iter. intro k. exact Hp.
    - intros body IH f HI Hm. rewrite maxprodS_eq in Hm. rewrite !exec_eq.
      apply same_seq; [apply same_refl|].
      apply same_in_ctx. apply (nf_block body IH _ (f_tp f) false); [apply linv_call; exact HI|reflexivity|reflexivity|exact Hm].
    - (* Block *) intros body IH f HI Hm. rewrite maxprodS_eq in Hm. rewrite !exec_eq.
      apply same_seq; [apply same_refl|]. apply same_seq; [apply same_refl|].
      apply same_in_blk. apply (nf_block body IH _ (f_tp f) true); [apply linv_blk; exact HI|reflexivity|reflexivity|exact Hm].
    - (* BlockD *) intros body IH f HI Hm. rewrite maxprodS_eq in Hm. rewrite !exec_eq.
      apply same_seq; [apply same_refl|]. apply same_seq; [apply same_refl|].
      apply (nf_block body IH _ (f_tp f) false); [apply linv_sup_set; [apply linv_ext; exact HI|left; reflexivity]|reflexivity|reflexivity|exact Hm].
    - (* Super *) intros body IH f HI Hm. rewrite maxprodS_eq in Hm. rewrite !exec_eq. unfold supflag in Hm.
      destruct (f_sup f) as [| |bf] eqn:Es.
      + apply same_refl.
      + apply same_in_sup. apply same_seq; [apply same_refl|].
        apply (nf_block body IH _ (f_tp f) true); [apply linv_sup_set; [apply linv_ext; exact HI|right; reflexivity]|reflexivity|reflexivity|exact Hm].
      + apply same_in_sup. apply same_in_base. apply same_seq; [apply same_refl|].
        apply (nf_block body IH _ (f_tp f) true); [apply linv_ext; apply (linv_base v L Hv f bf HI Es)|reflexivity|reflexivity|exact Hm].
    - (* SuperU *) intros f _ _. rewrite !exec_eq. apply same_refl.
    - intros f _ _. split; apply same_refl.
    - intros x r IHx IHr f HI Hm. simpl in Hm. split.
      + rewrite !exec_list_cons. apply same_seq; [apply IHx; [exact HI|lia]|apply IHr; [exact HI|lia]].
      + rewrite !run_nodes_cons. apply same_seq; [apply same_handle; apply IHx; [exact HI|lia]|apply IHr; [exact HI|lia]].
  Qed.

  Lemma nf_exec_list : forall l, nfQ l.
  Proof.
    induction l as [|x r IH]; intros f HI Hm; [split; apply same_refl|].
    simpl in Hm. split.
    - rewrite !exec_list_cons. apply same_seq; [apply nf_exec; [exact HI|lia]|apply IH; [exact HI|lia]].
    - rewrite !run_nodes_cons. apply same_seq; [apply same_handle; apply nf_exec; [exact HI|lia]|apply IH; [exact HI|lia]].
  Qed.

  Theorem run_no_false_alarm chain main glob sizes :
    (1 <= L)%N -> (maxprod_list 1 main <= L)%N ->
    run_prog v md a chain main glob sizes = run_prog v md b chain main glob sizes.
  Proof.
    intros H1 Hm. unfold run_prog. destruct chain as [|d0 loaded].
    - change (nest_guard md b main) with (nest_guard md a main).
      destruct (nest_guard md a main (st0 glob sizes)) as [s1|e s1|]; try reflexivity.
      apply (nf_partial main (nf_exec_list main) frame0 1%N false); [apply linv_frame0; exact H1|reflexivity|reflexivity|exact Hm].
    - change (l_nest b) with (l_nest a).
      destruct (nestd_guard md (d0 >? l_nest a) (st0 glob sizes)) as [s1|e s1|]; try reflexivity.
      revert s1. apply same_seq; [apply same_refl|]. apply same_handle_out. apply same_seq; [apply same_refl|].
      apply (nf_partial main (nf_exec_list main) (f_ext frame0) 1%N false); [apply linv_ext; apply linv_frame0; exact H1|reflexivity|reflexivity|exact Hm].
  Qed.
End NoFalseAlarm.

(* ------------------------------------------------------------------ (d) the mode only matters once an error is raised *)
(* a render that completes in STRICT mode (no error was raised) completes identically in WARN and LAX mode *)
Section ModeAgreement.
  Variables (v : variant) (md : mode) (lim : limits).

  Definition okle (m m' : M) : Prop := forall s s', m s = LOk s' -> m' s = LOk s'.

  Lemma okle_refl m : okle m m.
  Proof. intros s s' H. exact H. Qed.
  Lemma okle_seq m1 m1' m2 m2' : okle m1 m1' -> okle m2 m2' -> okle (seq m1 m2) (seq m1' m2').
  Proof.
    intros H1 H2 s s' H. apply seq_ok in H. destruct H as (s1 & Ha & Hb).
    unfold seq. rewrite (H1 s s1 Ha). apply H2. exact Hb.
  Qed.
  Lemma okle_iter body body' : (forall k, okle (body k) (body' k)) -> forall n k, okle (iter k n body) (iter k n body').
  Proof. intros Hb. induction n as [|n IH]; intro k; simpl; [apply okle_refl|]. apply okle_seq; auto. Qed.
  Lemma okle_in_null m m' : okle m m' -> okle (in_null m) (in_null m').
  Proof. intros H s s' H0. apply in_null_ok in H0. destruct H0 as (s1 & H1 & ->). unfold in_null. rewrite (H _ _ H1). reflexivity. Qed.
  Lemma okle_in_childb_at cb m m' k s s' : okle m m' -> in_childb cb m k s = LOk s' -> in_childb cb m' k s = LOk s'.
  Proof. intros H H0. apply in_childb_ok in H0. destruct H0 as (s1 & H1 & H2). unfold in_childb. rewrite (H _ _ H1). exact H2. Qed.
  Lemma okle_in_child m m' k : okle m m' -> okle (in_child m k) (in_child m' k).
  Proof. intros H s s' H0. unfold in_child in *. apply (okle_in_childb_at _ m m' k s s' H H0). Qed.
  Lemma okle_in_sup f m m' : okle m m' -> okle (in_sup lim f m) (in_sup lim f m').
  Proof. intros H s s' H0. unfold in_sup in *. apply (okle_in_childb_at _ m m' _ s s' H H0). Qed.
  Lemma okle_in_ctx m m' : okle m m' -> okle (in_ctx m) (in_ctx m').
  Proof. intros H s s' H0. apply in_ctx_ok in H0. destruct H0 as (s1 & H1 & ->). unfold in_ctx. rewrite (H _ _ H1). reflexivity. Qed.
  Lemma okle_in_blk m m' : okle m m' -> okle (in_blk m) (in_blk m').
  Proof. intros H s s' H0. apply in_blk_ok in H0. destruct H0 as (s1 & H1 & H2). unfold in_blk. rewrite (H _ _ H1), H2. reflexivity. Qed.
  Lemma okle_in_base m m' : okle m m' -> okle (in_base v m) (in_base v m').
  Proof.
    intros H s s' H0. apply in_base_ok in H0. destruct H0 as (cb & s1 & Hc & H1 & ->).
    unfold in_base. rewrite Hc, (H _ _ H1). reflexivity.
  Qed.
  Lemma okle_handle m m' : okle m m' -> okle (handle Strict m) (handle md m').
  Proof. intros H s s' H0. rewrite handle_strict in H0. unfold handle. rewrite (H _ _ H0). reflexivity. Qed.
  Lemma okle_handle_out m m' : okle m m' -> okle (handle_out Strict m) (handle_out md m').
  Proof. intros H s s' H0. rewrite handle_out_strict in H0. unfold handle_out. rewrite (H _ _ H0). reflexivity. Qed.
  Lemma okle_fun (F F' : st -> M) : (forall s0, okle (F s0) (F' s0)) -> okle (fun s => F s s) (fun s => F' s s).
  Proof. intros H s s' H0. apply (H s s s' H0). Qed.
  Lemma okle_nestd d : okle (nestd_guard Strict d) (nestd_guard md d).
  Proof. intros s s' H. apply nestd_guard_ok in H. destruct H as [H ->]. unfold nestd_guard. rewrite H. reflexivity. Qed.
  Lemma okle_nest body : okle (nest_guard Strict lim body) (nest_guard md lim body).
  Proof. apply okle_nestd. Qed.

  Definition maP (nd : node) : Prop := forall f, okle (exec v Strict lim nd f) (exec v md lim nd f).
  Definition maQ (l : list node) : Prop :=
    forall f, okle (exec_list v Strict lim l f) (exec_list v md lim l f) /\ okle (run_nodes v Strict lim l f) (run_nodes v md lim l f).

  Lemma ma_block body : maQ body -> forall f, okle (block v Strict lim body f) (block v md lim body f).
  Proof.
    intros H f. unfold block. destruct (blank_list body); [|apply H].
    apply (okle_fun (fun s0 => in_null (exec_list v Strict lim body (f_freeze f (s_buf s0))))
                    (fun s0 => in_null (exec_list v md lim body (f_freeze f (s_buf s0))))).
    intro s0. apply okle_in_null. apply H.
  Qed.
  Lemma ma_partial body : maQ body -> forall f, okle (partial v Strict lim body f) (partial v md lim body f).
  Proof. intros H f. unfold partial. apply okle_seq; [apply okle_refl|apply H]. Qed.

  Theorem ma_exec : forall nd, maP nd.
  Proof.
    apply (node_ind' maP maQ); unfold maP.
    - intros t f. rewrite !exec_eq. apply okle_refl.
    - intros x f. rewrite !exec_eq. apply okle_refl.
    - intros x t f. rewrite !exec_eq. apply okle_refl.
    - intros x body IH f. rewrite !exec_eq.
      apply (okle_fun (fun s0 => in_child (block v Strict lim body (f_freeze f (s_buf s0))) (fun val => m_assign v lim x val))
                      (fun s0 => in_child (block v md lim body (f_freeze f (s_buf s0))) (fun val => m_assign v lim x val))).
      intro s0. apply okle_in_child. apply ma_block; exact IH.
    - intros body IH f. rewrite !exec_eq.
      apply (okle_fun (fun s0 => in_child (block v Strict lim body (f_freeze f (s_buf s0))) (m_ifchanged lim))
                      (fun s0 => in_child (block v md lim body (f_freeze f (s_buf s0))) (m_ifchanged lim))).
      intro s0. apply okle_in_child. apply ma_block; exact IH.
    - intros n body IH f. rewrite !exec_eq. destruct (n =? 0)%N; [apply okle_refl|].
      apply okle_seq; [apply okle_refl|]. apply okle_seq; [apply okle_refl|]. apply okle_iter. intro k. apply ma_block; exact IH.
    - intros n body IH f. rewrite !exec_eq.
      apply okle_seq; [apply okle_refl|]. apply okle_seq; [apply okle_refl|]. apply okle_seq; [apply okle_refl|].
      apply okle_seq; [|apply okle_refl]. apply okle_iter. intro k.
      apply okle_seq; [apply okle_refl|]. apply okle_seq; [apply ma_block; exact IH|apply okle_refl].
    - intros body IH f. rewrite !exec_eq.
      apply okle_seq; [apply okle_refl|]. apply okle_seq; [apply okle_nest|]. apply okle_seq; [apply okle_refl|].
      apply ma_partial; exact IH.
    - intros n body IH f. rewrite !exec_eq.
      apply okle_seq; [apply okle_refl|]. apply okle_seq; [apply okle_nest|]. apply okle_seq; [apply okle_refl|].
      apply okle_seq; [apply okle_refl|]. apply okle_iter. intro k. apply ma_partial; exact IH.
    - intros body IH f. rewrite !exec_eq.
      apply okle_seq; [apply okle_nest|]. apply okle_seq; [apply okle_refl|].
      apply okle_in_ctx. apply ma_partial; exact IH.
    - intros n body IH f. rewrite !exec_eq.
      apply okle_seq; [apply okle_nest|]. apply okle_seq; [apply okle_refl|]. apply okle_seq; [apply okle_refl|].
      destruct (v_item v).
      + apply okle_iter. intro k. apply okle_in_ctx. apply ma_partial; exact IH.
      + apply okle_in_ctx. apply okle_iter. intro k. apply ma_partial; exact IH.
    - intros body IH f. rewrite !exec_eq.
      apply okle_seq; [apply okle_refl|]. apply okle_in_ctx. apply ma_block; exact IH.
    - (* Block *) intros body IH f. rewrite !exec_eq.
      apply okle_seq; [apply okle_refl|]. apply okle_seq; [apply okle_refl|]. apply okle_in_blk. apply ma_block; exact IH.
    - (* BlockD *) intros body IH f. rewrite !exec_eq.
      apply okle_seq; [apply okle_refl|]. apply okle_seq; [apply okle_refl|]. apply ma_block; exact IH.
    - (* Super *) intros body IH f. rewrite !exec_eq. destruct (f_sup f) as [| |bf].
      + apply okle_refl.
      + apply okle_in_sup. apply okle_seq; [apply okle_refl|]. apply ma_block; exact IH.
      + apply okle_in_sup. apply okle_in_base. apply okle_seq; [apply okle_refl|]. apply ma_block; exact IH.
    - (* SuperU *) intro f. rewrite !exec_eq. apply okle_refl.
    - intro f. split; apply okle_refl.
    - intros x r IHx IHr f. split.
      + rewrite !exec_list_cons. apply okle_seq; [apply IHx|apply IHr].
      + rewrite !run_nodes_cons. apply okle_seq; [apply okle_handle; apply IHx|apply IHr].
  Qed.

  Lemma ma_exec_list : forall l, maQ l.
  Proof.
    induction l as [|x r IH]; intro f; [split; apply okle_refl|]. split.
    - rewrite !exec_list_cons. apply okle_seq; [apply ma_exec|apply IH].
    - rewrite !run_nodes_cons. apply okle_seq; [apply okle_handle; apply ma_exec|apply IH].
  Qed.

  Theorem run_mode_agreement chain main glob sizes s :
    run_prog v Strict lim chain main glob sizes = LOk s -> run_prog v md lim chain main glob sizes = LOk s.
  Proof.
    unfold run_prog. intro H. destruct chain as [|d0 loaded].
    - destruct (nest_guard Strict lim main (st0 glob sizes)) as [s1|e s1|] eqn:G; try discriminate.
      rewrite (okle_nest main _ _ G). apply (ma_partial main (ma_exec_list main) frame0 s1 s H).
    - destruct (nestd_guard Strict (d0 >? l_nest lim) (st0 glob sizes)) as [s1|e s1|] eqn:G; try discriminate.
      rewrite (okle_nestd _ _ _ G). revert s1 s H G. intros s1 s H _. revert s1 s H.
      apply okle_seq; [apply okle_refl|]. apply okle_handle_out. apply okle_seq; [apply okle_nestd|].
      apply ma_partial. apply ma_exec_list.
  Qed.
End ModeAgreement.
