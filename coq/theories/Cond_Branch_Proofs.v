(* C12: evaluation of and / or / not, contains, and branch selection in if / unless / elsif / case / ternary. *)
From LiquidVerif Require Import Prelude PyPrims Cond.

(* ------------------------------------------------------------------ *)
(* and / or / not                                                      *)

Lemma eval_cond_inv env e b : eval_cond env e = Ok b -> exists v, eval env e = Ok v /\ truthy v = b.
Proof.
  unfold eval_cond. destruct (eval env e) as [v| |]; cbn [bind]; intro H; try discriminate.
  exists v. split; [reflexivity|congruence].
Qed.

Lemma eval_cond_err env e x : eval_cond env e = Err x -> eval env e = Err x.
Proof. unfold eval_cond. destruct (eval env e); cbn [bind]; intro H; congruence. Qed.

(* `a and b` is true exactly when both are truthy; b is not evaluated (its errors do not occur) when a is falsy *)
Theorem eval_and env a b x :
  eval_cond env a = Ok x ->
  eval_cond env (BAnd a b) = if x then eval_cond env b else Ok false.
Proof.
  intro Ha. destruct (eval_cond_inv _ _ _ Ha) as [v [Ev Tv]].
  unfold eval_cond. cbn [eval]. rewrite Ev. cbn [bind]. rewrite Tv. destruct x.
  - destruct (eval env b) as [w| |]; cbn [bind truthy]; try reflexivity. destruct (truthy w); reflexivity.
  - reflexivity.
Qed.

Theorem eval_or env a b x :
  eval_cond env a = Ok x ->
  eval_cond env (BOr a b) = if x then Ok true else eval_cond env b.
Proof.
  intro Ha. destruct (eval_cond_inv _ _ _ Ha) as [v [Ev Tv]].
  unfold eval_cond. cbn [eval]. rewrite Ev. cbn [bind]. rewrite Tv. destruct x.
  - reflexivity.
  - destruct (eval env b) as [w| |]; cbn [bind truthy]; try reflexivity. destruct (truthy w); reflexivity.
Qed.

Theorem eval_not env a x : eval_cond env a = Ok x -> eval_cond env (BNot a) = Ok (negb x).
Proof.
  intro Ha. destruct (eval_cond_inv _ _ _ Ha) as [v [Ev Tv]].
  unfold eval_cond. cbn [eval]. rewrite Ev. cbn [bind truthy]. rewrite Tv. destruct x; reflexivity.
Qed.

(* a bare variable is falsy exactly when it is bound to false or nil, or not bound at all *)
Theorem eval_var_falsy env x :
  eval_cond env (BVar x) = Ok false <->
  (alookup x env = Some (VBool false) \/ alookup x env = Some VNil \/ alookup x env = Some VUndef \/ alookup x env = None).
Proof.
  unfold eval_cond. cbn [eval bind]. destruct (alookup x env) as [v|].
  - split.
    + intro H. assert (T : truthy v = false) by congruence.
      destruct v as [| |[|]| | | | | | | |]; cbn in T; try discriminate; auto.
    + intros [H|[H|[H|H]]]; inversion H; reflexivity.
  - cbn. split; auto.
Qed.

(* 0, the empty string, empty collections, empty and blank are all truthy *)
Theorem truthy_zero_and_empties :
  truthy (VInt 0) = true /\ truthy (VStr []) = true /\ truthy (VList []) = true /\ truthy (VDict []) = true /\
  truthy (VDec 0 1) = true /\ truthy VEmpty = true /\ truthy VBlank = true /\ (forall a b, truthy (VRange a b) = true).
Proof. repeat split. Qed.

(* ------------------------------------------------------------------ *)
(* comparison operators built from == and <                            *)

Theorem eval_cmp_spec env op a b l r :
  eval env a = Ok l -> eval env b = Ok r ->
  eval_cond env (BCmp op a b) =
  match op with
  | OEq => Ok (liq_eq l r)
  | ONe => Ok (negb (liq_eq l r))
  | OLt => liq_lt l r
  | OGt => liq_lt r l
  | OLe => if liq_eq l r then Ok true else liq_lt l r
  | OGe => if liq_eq l r then Ok true else liq_lt r l
  | OContains => liq_contains l r
  end.
Proof.
  intros Ha Hb. unfold eval_cond. cbn [eval]. rewrite Ha, Hb. cbn [bind].
  destruct op; cbn [bind truthy].
  - destruct (liq_eq l r); reflexivity.
  - destruct (liq_eq l r); reflexivity.
  - destruct (liq_lt l r) as [[|]| |]; reflexivity.
  - destruct (liq_lt r l) as [[|]| |]; reflexivity.
  - destruct (liq_eq l r); [reflexivity|]. destruct (liq_lt l r) as [[|]| |]; reflexivity.
  - destruct (liq_eq l r); [reflexivity|]. destruct (liq_lt r l) as [[|]| |]; reflexivity.
  - destruct (liq_contains l r) as [[|]| |]; reflexivity.
Qed.

(* != is the negation of == for every pair of values, and never raises *)
Theorem ne_is_not_eq env a b l r :
  eval env a = Ok l -> eval env b = Ok r ->
  eval_cond env (BCmp ONe a b) = Ok (negb (liq_eq l r)) /\ eval_cond env (BCmp OEq a b) = Ok (liq_eq l r).
Proof. intros Ha Hb. split; [apply (eval_cmp_spec env ONe a b l r Ha Hb)|apply (eval_cmp_spec env OEq a b l r Ha Hb)]. Qed.

(* ordering raises a Liquid type error exactly on the incompatible pairs: neither two strings, nor two numbers,
   nor a boolean involved *)
Definition orderable (l r : val) : bool :=
  match l, r with
  | VStr _, VStr _ => true
  | (VInt _ | VDec _ _), (VInt _ | VDec _ _) => true
  | VBool _, _ | _, VBool _ => true
  | _, _ => false
  end.

Theorem lt_type_error_iff l r : liq_lt l r = Err EType <-> orderable l r = false.
Proof. destruct l, r; cbn; split; intro H; try reflexivity; try discriminate. Qed.

Theorem lt_never_foreign l r x : liq_lt l r = Err x -> x = EType.
Proof. destruct l, r; cbn; intro H; try discriminate; congruence. Qed.

(* numbers are ordered by value across integers and decimals; strings lexicographically by code point *)
Theorem lt_numbers x y m e :
  liq_lt (VInt x) (VInt y) = Ok (Z.ltb x y) /\
  liq_lt (VInt x) (VDec m e) = Ok (Z.ltb (x * pow10 e) m) /\
  liq_lt (VDec m e) (VInt x) = Ok (Z.ltb m (x * pow10 e)).
Proof.
  repeat split; cbn; unfold num_ltb, pow10; cbn [Z.of_nat Z.pow]; rewrite ?Z.mul_1_r; reflexivity.
Qed.

(* contains: a falsy operand on either side gives false; arrays by membership; hashes by key; strings by substring;
   anything else on the left is a Liquid type error *)
Theorem contains_spec l r :
  (truthy l = false \/ truthy r = false -> liq_contains l r = Ok false) /\
  (truthy r = true -> forall xs, l = VList xs -> liq_contains l r = Ok (existsb (fun x => member_eq x r) xs)) /\
  (forall d k, l = VDict d -> r = VStr k -> liq_contains l r = Ok (existsb (fun p => str_eqb (fst p) k) d)) /\
  (forall s p, l = VStr s -> r = VStr p -> liq_contains l r = Ok (substr p s)) /\
  (truthy r = true -> forall a b, l = VRange a b -> liq_contains l r = Ok (in_range r a b)) /\
  (truthy r = true -> match l with VInt _ | VDec _ _ | VBool true | VEmpty | VBlank => liq_contains l r = Err EType | _ => True end).
Proof.
  repeat split.
  - intros [H|H]; unfold liq_contains; rewrite H; cbn [negb orb]; [reflexivity|rewrite orb_true_r; reflexivity].
  - intros Hr xs ->. unfold liq_contains. rewrite Hr. reflexivity.
  - intros d k -> ->. reflexivity.
  - intros s p -> ->. reflexivity.
  - intros Hr a b ->. unfold liq_contains. rewrite Hr. reflexivity.
  - intros Hr. destruct l as [| |[|]| | | | | | | |]; try exact I; unfold liq_contains; rewrite Hr; reflexivity.
Qed.

(* ------------------------------------------------------------------ *)
(* if / elsif / else, unless                                           *)

Definition falsy_in (env : envt) (c : bexpr) : Prop := eval_cond env c = Ok false.

(* the first arm whose condition is truthy is rendered; later conditions are not evaluated *)
Theorem choose_if_arm env pre c post i has_else :
  Forall (falsy_in env) pre -> eval_cond env c = Ok true ->
  choose_if env (pre ++ c :: post) i has_else = Ok (Arm (i + length pre)).
Proof.
  intros Hpre Hc. revert i. induction Hpre as [|p pre Hp Hpre IH]; intro i; cbn [app choose_if length].
  - rewrite Hc. cbn [bind]. f_equal. f_equal. lia.
  - rewrite Hp. cbn [bind]. rewrite IH. f_equal. f_equal. lia.
Qed.

(* the else block is rendered exactly when every condition is falsy (nothing at all without an else block) *)
Theorem choose_if_else env conds i has_else :
  Forall (falsy_in env) conds ->
  choose_if env conds i has_else = Ok (if has_else then Else else Nothing).
Proof.
  intros H. revert i. induction H as [|c conds Hc H IH]; intro i; cbn [choose_if]; [reflexivity|].
  rewrite Hc. cbn [bind]. apply IH.
Qed.

(* an error in the first condition that is reached is the outcome *)
Theorem choose_if_error env pre c post i has_else x :
  Forall (falsy_in env) pre -> eval_cond env c = Err x ->
  choose_if env (pre ++ c :: post) i has_else = Err x.
Proof.
  intros Hpre Hc. revert i. induction Hpre as [|p pre Hp Hpre IH]; intro i; cbn [app choose_if].
  - rewrite Hc. reflexivity.
  - rewrite Hp. cbn [bind]. apply IH.
Qed.

(* conversely: whatever arm was chosen, its condition was truthy and all earlier ones falsy *)
Theorem choose_if_sound env conds i has_else k :
  choose_if env conds i has_else = Ok (Arm k) ->
  exists pre c post, conds = pre ++ c :: post /\ k = i + length pre /\
                     Forall (falsy_in env) pre /\ eval_cond env c = Ok true.
Proof.
  revert i. induction conds as [|c conds IH]; intro i; cbn [choose_if].
  - destruct has_else; discriminate.
  - destruct (eval_cond env c) as [[|]| |] eqn:Ec; cbn [bind]; try discriminate.
    + intro H. inversion H. subst k. exists [], c, conds. cbn [app length]. repeat split; auto; try lia.
    + intro H. destruct (IH _ H) as [pre [c' [post [E [Hk [Hf Ht]]]]]].
      exists (c :: pre), c', post. subst conds. cbn [app length]. repeat split; auto; try lia.
Qed.

(* unless: the block is rendered when its condition is falsy; otherwise it behaves as the elsif/else chain *)
Theorem choose_unless_spec env c0 elsifs has_else b :
  eval_cond env c0 = Ok b ->
  choose_unless env c0 elsifs has_else = if b then choose_if env elsifs 1 has_else else Ok (Arm 0).
Proof. intro H. unfold choose_unless. rewrite H. reflexivity. Qed.

Theorem unless_is_if_not env c0 elsifs has_else b :
  eval_cond env c0 = Ok b ->
  choose_unless env c0 elsifs has_else = choose_if env (BNot c0 :: elsifs) 0 has_else.
Proof.
  intro H. unfold choose_unless. cbn [choose_if]. rewrite (eval_not env c0 b H), H. cbn [bind].
  destruct b; reflexivity.
Qed.

(* ------------------------------------------------------------------ *)
(* case / when                                                         *)

Fixpoint count_eq (v : val) (ws : list val) : nat :=
  match ws with [] => O | w :: r => (if liq_eq v w then 1 else 0) + count_eq v r end.

Fixpoint eval_all (env : envt) (es : list bexpr) : res (list val) :=
  match es with [] => Ok [] | e :: r => do w <- eval env e; do ws <- eval_all env r; Ok (w :: ws) end.

(* a when block is rendered once for each of its values equal (Liquid ==) to the case value *)
Theorem count_matches_spec env v es ws :
  eval_all env es = Ok ws -> count_matches env v es = Ok (count_eq v ws).
Proof.
  revert ws. induction es as [|e es IH]; intros ws; cbn [eval_all count_matches].
  - intro H. inversion H. reflexivity.
  - destruct (eval env e) as [w| |]; cbn [bind]; try discriminate.
    destruct (eval_all env es) as [ws'| |]; cbn [bind]; try discriminate.
    intro H. inversion H. subst ws. rewrite (IH ws' eq_refl). reflexivity.
Qed.

Theorem count_eq_zero_iff v ws : count_eq v ws = 0 <-> Forall (fun w => liq_eq v w = false) ws.
Proof.
  induction ws as [|w ws IH]; cbn [count_eq]; split; intro H; auto.
  - destruct (liq_eq v w) eqn:E; [discriminate|]. constructor; [exact E|]. apply IH. exact H.
  - inversion H as [|? ? Hw Hws]. rewrite Hw. apply IH. exact Hws.
Qed.

(* blocks given with the values of their when expressions *)
Inductive vblk := VWhen (ws : list val) | VElse.

Fixpoint vrenders (v : val) (blocks : list vblk) (default : bool) : list nat :=
  match blocks with
  | [] => []
  | VWhen ws :: r => count_eq v ws :: vrenders v r (if Nat.eqb (count_eq v ws) 0 then default else false)
  | VElse :: r => (if default then 1 else 0) :: vrenders v r default
  end.

Fixpoint eval_blocks (env : envt) (bs : list caseblk) : res (list vblk) :=
  match bs with
  | [] => Ok []
  | CWhen es :: r => do ws <- eval_all env es; do rest <- eval_blocks env r; Ok (VWhen ws :: rest)
  | CElse :: r => do rest <- eval_blocks env r; Ok (VElse :: rest)
  end.

Theorem case_renders_spec env v bs vbs d :
  eval_blocks env bs = Ok vbs -> case_renders env v bs d = Ok (vrenders v vbs d).
Proof.
  revert vbs d. induction bs as [|[es|] bs IH]; intros vbs d; cbn [eval_blocks case_renders].
  - intro H. inversion H. reflexivity.
  - destruct (eval_all env es) as [ws| |] eqn:Ees; cbn [bind]; try discriminate.
    destruct (eval_blocks env bs) as [rest| |]; cbn [bind]; try discriminate.
    intro H. inversion H. subst vbs. rewrite (count_matches_spec env v es ws Ees). cbn [bind vrenders].
    rewrite (IH rest _ eq_refl). reflexivity.
  - destruct (eval_blocks env bs) as [rest| |]; cbn [bind]; try discriminate.
    intro H. inversion H. subst vbs. cbn [vrenders]. rewrite (IH rest _ eq_refl). reflexivity.
Qed.

(* [default] stays true exactly as long as no when block has matched *)
Lemma vrenders_app v pre post d :
  vrenders v (pre ++ post) d =
  vrenders v pre d ++ vrenders v post (d && forallb (fun b => match b with VWhen ws => Nat.eqb (count_eq v ws) 0 | VElse => true end) pre).
Proof.
  revert d. induction pre as [|[ws|] pre IH]; intro d; cbn [app vrenders forallb].
  - rewrite andb_true_r. reflexivity.
  - rewrite IH. f_equal. f_equal. destruct (Nat.eqb (count_eq v ws) 0), d; reflexivity.
  - rewrite IH. reflexivity.
Qed.

Lemma vrenders_length v bs d : length (vrenders v bs d) = length bs.
Proof. revert d. induction bs as [|[ws|] bs IH]; intro d; cbn [vrenders length]; auto. Qed.

(* an else block is rendered exactly when no earlier when block matched, wherever it stands *)
Theorem case_else_iff v pre post :
  nth (length pre) (vrenders v (pre ++ VElse :: post) true) 0 =
  if forallb (fun b => match b with VWhen ws => Nat.eqb (count_eq v ws) 0 | VElse => true end) pre then 1 else 0.
Proof.
  rewrite vrenders_app. rewrite app_nth2; rewrite vrenders_length; [|lia].
  rewrite Nat.sub_diag. cbn [vrenders nth andb]. reflexivity.
Qed.

(* a when block is rendered once per matching value, whatever surrounds it *)
Theorem case_when_count v pre ws post d :
  nth (length pre) (vrenders v (pre ++ VWhen ws :: post) d) 0 = count_eq v ws.
Proof.
  rewrite vrenders_app. rewrite app_nth2; rewrite vrenders_length; [|lia].
  rewrite Nat.sub_diag. reflexivity.
Qed.

(* a hash never contains an array or a hash: they cannot be keys (repaired under C02: the TypeError of `unhashable in dict` used to escape) *)
Lemma contains_hash_nonkey d r : match r with VList _ | VDict _ => liq_contains (VDict d) r = Ok false | _ => True end.
Proof. destruct r as [| | | | | |l|d'| | |]; try exact I; unfold liq_contains; cbn [truthy negb orb]; reflexivity. Qed.
