(* Limits.v — model of the resource-limit bookkeeping of a render (C06, C07, C08).
   Executable definitions only; no proofs.

   What is transcribed (liquid/context.py, output.py, template.py, ast.py, parser.py and the tags
   for, tablerow, include, render, capture, ifchanged, assign, macro/call), in all three modes:

   * Mode: an error (LErr e s) carries the state at the point where it was raised, after the context managers
     it passed have unwound (buffers of capture/ifchanged/blank blocks dropped, copied contexts dropped, writes
     already made kept).  BoundTemplate.render_with_context handles it PER TOP-LEVEL NODE of the template it
     renders (main template and every included / rendered partial): in STRICT mode it is re-raised, in WARN and
     LAX mode it is dropped and the next node is rendered from that state.  Parse errors are not render errors:
     a block nesting error in WARN/LAX mode (parser recovery) is outside the model and yields [LFuel].

   * RenderContext.raise_for_loop_limit / loop / copy(carry_loop_iterations=True): the loop stack, the
     loop-iteration carry, and (REPAIRED code) the scaling of the carry by tablerow / include-with-array /
     render-for while they repeat their block (RenderContext.loop_iterations).  The unrepaired behaviour
     (those three only call raise_for_loop_limit) is the variant [v_carry := false].
   * LimitedStringIO.write, RenderContext.get_buffer (child limit = limit - size of the buffer it is
     given; NullIO and unlimited StringIO carry 0), BlockNode's NullIO for blank blocks, capture, ifchanged.
   * RenderContext.assign / get_size_of_locals / copy(local_namespace_size_carry): sys.getsizeof is an
     ORACLE: the sizes are a stream [s_sizes] supplied from outside (the harness measures them), consumed
     one per assignment; running out of the stream is [LFuel], never a normal result.
   * RenderContext.extend / copy depth checks (scope-chain size, copy depth), Parser.parse_block's
     block-nesting check (per template, at the time the template is parsed: the main template before the
     render, a partial when include/render loads it).
   * (REPAIRED code) loop_iteration_limit = 0 and local_namespace_limit = 0 are limits; the unrepaired
     truthiness tests ("0 means no limit") are the variant [v_zero := false].
   * render-for copies a fresh isolated context for every item (the code after the C15 repair); the older
     behaviour (one context reused for all items) is the variant [v_item := false].
   * (REPAIRED code) LimitedStringIO writes text unchanged, like StringIO() (C08-limited-buffer-newlines.patch);
     the unrepaired universal-newline translation of "\r\n" and "\r" is not modelled.

   Stack discipline (context managers, try/finally) is modelled by passing the context's "frame"
   (loop stack, carries, depths) DOWN as an argument; only the mutable parts (locals, ifchanged value,
   buffer, oracle stream, ghost logs) are threaded through.

   Ghost quantities (no counterpart in the code): f_tp = the true product of the lengths of all enclosing
   repeating constructs; f_anc = the true total measured size of the local namespaces of all ancestor
   contexts; s_leaf / s_nslog = logs of those at every text write / assignment. *)
From Coq Require Import String Ascii.
From LiquidVerif Require Import Prelude PyPrims.
Local Open Scope Z_scope.

Definition lit (x : string) : str := map N_of_ascii (list_ascii_of_string x).

(* ------------------------------------------------------------------ outcomes *)
Inductive lexn := XLoop | XOutput | XNamespace | XDepth | XNesting | XDisabled.
(* LoopIterationLimitError | OutputStreamLimitError | LocalNamespaceLimitError | ContextDepthError |
   BlockNestingError (all ResourceLimitError)      | DisabledTagError *)

Definition is_limit (e : lexn) : bool := match e with XDisabled => false | _ => true end.

Definition lexn_eqb (a b : lexn) : bool :=
  match a, b with
  | XLoop, XLoop | XOutput, XOutput | XNamespace, XNamespace | XDepth, XDepth
  | XNesting, XNesting | XDisabled, XDisabled => true
  | _, _ => false
  end.

Inductive lres (A : Type) := LOk (a : A) | LErr (e : lexn) (a : A) | LFuel.
Arguments LOk {A} a. Arguments LErr {A} e a. Arguments LFuel {A}.

Inductive mode := Strict | Warn | Lax.       (* Environment(tolerance=...) *)
Definition tolerant (m : mode) : bool := match m with Strict => false | _ => true end.
Definition mode_eqb (a b : mode) : bool :=
  match a, b with Strict, Strict | Warn, Warn | Lax, Lax => true | _, _ => false end.

(* ------------------------------------------------------------------ programs *)
(* Partials and macro bodies are inlined in the tree: the harness gives every Include/Render body its own
   partial template and every Call body its own macro, defined immediately before the call. *)
Inductive node :=
| Text (t : str)                          (* literal text (never whitespace-only) *)
| Echo (x : N)                            (* {{ vX }} *)
| Assign (x : N) (t : str)                (* {% assign vX = 'lit' %} *)
| Capture (x : N) (body : list node)
| IfChanged (body : list node)
| For (n : N) (body : list node)          (* {% for i in (1..n) %} *)
| Tablerow (n : N) (body : list node)     (* {% tablerow i in (1..n) %} *)
| Include (body : list node)              (* {% include 'p' %} *)
| IncludeArr (n : N) (body : list node)   (* {% include 'p' for a %}, a an array of n items *)
| Render (body : list node)               (* {% render 'p' %} *)
| RenderFor (n : N) (body : list node)    (* {% render 'p' for a %} *)
| Call (body : list node).                (* {% macro m %}body{% endmacro %}{% call m %} *)

(* Node.blank (static): a block of blank nodes is rendered to a NullIO *)
Fixpoint blank (nd : node) : bool :=
  let fix all (l : list node) : bool := match l with [] => true | x :: r => blank x && all r end in
  match nd with
  | Assign _ _ | Capture _ _ => true
  | IfChanged b | For _ b => all b
  | _ => false
  end.
Definition blank_list (l : list node) : bool := forallb blank l.

(* deepest stream.block_depth reached while parsing one template (partials are parsed separately) *)
Fixpoint tdepth (nd : node) : Z :=
  let fix mx (l : list node) : Z := match l with [] => 0 | x :: r => Z.max (tdepth x) (mx r) end in
  match nd with
  | Capture _ b | IfChanged b | For _ b | Tablerow _ b | Call b => 1 + mx b
  | _ => 0
  end.
Fixpoint tdepth_list (l : list node) : Z := match l with [] => 0 | x :: r => Z.max (tdepth x) (tdepth_list r) end.

(* ---- declarative: the largest product of enclosing lengths that a complete run reaches ---- *)
Fixpoint maxprod (tp : N) (nd : node) : N :=
  let fix mx (tp : N) (l : list node) : N := match l with [] => 0%N | x :: r => N.max (maxprod tp x) (mx tp r) end in
  match nd with
  | Text _ | Echo _ | Assign _ _ => 0
  | Capture _ b | IfChanged b | Include b | Render b | Call b => mx tp b
  | For n b | Tablerow n b | IncludeArr n b | RenderFor n b =>
      if (n =? 0)%N then 0 else N.max (tp * n) (mx (tp * n) b)
  end%N.
Fixpoint maxprod_list (tp : N) (l : list node) : N :=
  match l with [] => 0%N | x :: r => N.max (maxprod tp x) (maxprod_list tp r) end.

(* ------------------------------------------------------------------ configuration *)
Record limits := { l_loop : option N;   (* loop_iteration_limit *)
                   l_out : option Z;    (* output_stream_limit *)
                   l_ns : option Z;     (* local_namespace_limit *)
                   l_depth : Z;         (* context_depth_limit (always an int) *)
                   l_nest : Z }.        (* block_nesting_limit (always an int) *)

Record variant := { v_carry : bool;    (* true: tablerow/include-array/render-for scale the carry (repaired) *)
                    v_zero : bool;     (* true: a loop / namespace limit of 0 is a limit (repaired) *)
                    v_item : bool;
                    v_rollback : bool }.   (* render-for: true = a fresh copied context per item (the code after
                                          C15-render-for-items-share-one-context.patch); false = ONE copied context
                                          reused for all items (locals persist from item to item).
                                          Every theorem is proved for both. *)
(* v_rollback: true = RenderContext.assign removes the value that breaks the namespace limit before raising
   (repaired, C07-namespace-rollback.patch); false = the value stays (visible in WARN/LAX mode only). *)
Definition repaired : variant := {| v_carry := true; v_zero := true; v_item := true; v_rollback := true |}.
Definition unrepaired : variant := {| v_carry := false; v_zero := false; v_item := true; v_rollback := false |}.

(* ------------------------------------------------------------------ UTF-8 *)
Definition utf8_len (c : N) : Z :=
  if (c <? 128)%N then 1 else if (c <? 2048)%N then 2 else if (c <? 65536)%N then 3 else 4.
Fixpoint utf8_bytes (s : str) : Z := match s with [] => 0 | c :: r => utf8_len c + utf8_bytes r end.

(* ------------------------------------------------------------------ buffers *)
(* BLim base size rtext: a LimitedStringIO created with limit = output_stream_limit - base; rtext is the
   text written so far, reversed.  Without an output limit the code uses a plain StringIO: base and size
   are then never consulted.  BNull: NullIO. *)
Inductive buf := BNull | BLim (base size : Z) (rtext : str).

Definition buf_text (b : buf) : str := match b with BNull => [] | BLim _ _ rt => rev rt end.

(* get_buffer(b): carry = b.size for a LimitedStringIO, 0 otherwise *)
Definition child_of (b : buf) : buf :=
  match b with BNull => BLim 0 0 [] | BLim _ size _ => BLim size 0 [] end.

(* LimitedStringIO.write: size is incremented, THEN compared, and only then is the text written: a refused
   write leaves the size incremented and the text unchanged.  -> (written?, buffer afterwards) *)
Definition buf_write (lo : option Z) (b : buf) (t : str) : bool * buf :=
  match t with
  | [] => (true, b)
  | _ =>
      match b with
      | BNull => (true, BNull)
      | BLim base size rt =>
          let size' := size + utf8_bytes t in
          match lo with
          | Some L => if size' >? L - base then (false, BLim base size' rt) else (true, BLim base size' (rev_append t rt))
          | None => (true, BLim base size' (rev_append t rt))
          end
      end
  end.

(* ------------------------------------------------------------------ state *)
Definition locals := list (N * (str * Z)).           (* name -> (value, measured size) ; a dict *)

Fixpoint lset (x : N) (v : str * Z) (l : locals) : locals :=
  match l with
  | [] => [(x, v)]
  | (y, w) :: r => if (x =? y)%N then (x, v) :: r else (y, w) :: lset x v r
  end.
Fixpoint lget (x : N) (l : locals) : str :=
  match l with [] => [] | (y, w) :: r => if (x =? y)%N then fst w else lget x r end.
Fixpoint sum_sizes (l : locals) : Z := match l with [] => 0 | (_, w) :: r => snd w + sum_sizes r end.

(* passed down *)
Record frame := { f_loops : list N;        (* RenderContext.loops (lengths) *)
                  f_carry : N;             (* loop_iteration_carry *)
                  f_copy_depth : Z;        (* _copy_depth *)
                  f_scope : Z;             (* scope.size() *)
                  f_ns_carry : Z;          (* local_namespace_size_carry *)
                  f_no_include : bool;     (* 'include' in disabled_tags *)
                  f_tp : N;                (* ghost *)
                  f_anc : Z }.             (* ghost *)

(* threaded *)
Record st := { s_locals : locals;
               s_ifch : str;               (* tag_namespace["ifchanged"] *)
               s_buf : buf;
               s_sizes : list Z;           (* oracle: sys.getsizeof of the next assigned values *)
               s_leaf : list N;            (* ghost log, newest first: f_tp at every Text *)
               s_nslog : list (Z * Z) }.   (* log, newest first: (true total, get_size_of_locals()) after every assignment *)

Definition set_buf (s : st) (b : buf) : st :=
  {| s_locals := s_locals s; s_ifch := s_ifch s; s_buf := b; s_sizes := s_sizes s; s_leaf := s_leaf s; s_nslog := s_nslog s |}.
Definition set_mut (s : st) (l : locals) (i : str) : st :=
  {| s_locals := l; s_ifch := i; s_buf := s_buf s; s_sizes := s_sizes s; s_leaf := s_leaf s; s_nslog := s_nslog s |}.

Definition f_for (f : frame) (n : N) : frame :=         (* RenderContext.loop: push the loop, extend *)
  {| f_loops := n :: f_loops f; f_carry := f_carry f; f_copy_depth := f_copy_depth f; f_scope := f_scope f + 1;
     f_ns_carry := f_ns_carry f; f_no_include := f_no_include f; f_tp := (f_tp f * n)%N; f_anc := f_anc f |}.
Definition f_ext (f : frame) : frame :=                  (* RenderContext.extend *)
  {| f_loops := f_loops f; f_carry := f_carry f; f_copy_depth := f_copy_depth f; f_scope := f_scope f + 1;
     f_ns_carry := f_ns_carry f; f_no_include := f_no_include f; f_tp := f_tp f; f_anc := f_anc f |}.
Definition f_scale (v : variant) (f : frame) (n : N) : frame :=   (* RenderContext.loop_iterations (repaired) *)
  {| f_loops := f_loops f; f_carry := if v_carry v then (f_carry f * n)%N else f_carry f;
     f_copy_depth := f_copy_depth f; f_scope := f_scope f;
     f_ns_carry := f_ns_carry f; f_no_include := f_no_include f; f_tp := (f_tp f * n)%N; f_anc := f_anc f |}.
Definition f_copy (f : frame) (sum : Z) : frame :=       (* RenderContext.copy(carry_loop_iterations=True, disabled include) *)
  {| f_loops := []; f_carry := fold_left N.mul (f_loops f) (f_carry f); f_copy_depth := f_copy_depth f + 1; f_scope := 4;
     f_ns_carry := sum + f_ns_carry f; f_no_include := true; f_tp := f_tp f; f_anc := f_anc f + sum |}.

Definition frame0 : frame :=
  {| f_loops := []; f_carry := 1%N; f_copy_depth := 0; f_scope := 4; f_ns_carry := 0; f_no_include := false; f_tp := 1%N; f_anc := 0 |}.
Definition st0 (sizes : list Z) : st :=
  {| s_locals := []; s_ifch := []; s_buf := BLim 0 0 []; s_sizes := sizes; s_leaf := []; s_nslog := [] |}.

(* tablerow's markup *)
Definition tr_open : str := lit "<tr class=""row1"">" ++ [10%N].
Definition td_open (k : Z) : str := lit "<td class=""col" ++ Z_to_str k ++ lit """>".
Definition td_close : str := lit "</td>".
Definition tr_close : str := lit "</tr>" ++ [10%N].

(* ------------------------------------------------------------------ the interpreter *)
Section Exec.
  Variables (v : variant) (md : mode) (lim : limits).

  Definition M := st -> lres st.
  Definition ret : M := fun s => LOk s.
  Definition seq (a b : M) : M :=
    fun s => match a s with LOk s' => b s' | LErr e s' => LErr e s' | LFuel => LFuel end.
  Definition guard (b : bool) (e : lexn) : M := fun s => if b then LErr e s else LOk s.
  (* the handler of render_with_context around ONE top-level node *)
  Definition handle (m : M) : M :=
    fun s => match m s with
             | LErr e s' => if tolerant md then LOk s' else LErr e s'
             | r => r
             end.
  Fixpoint iter (k : Z) (n : nat) (body : Z -> M) : M :=
    match n with O => ret | S n' => seq (body k) (iter (k + 1) n' body) end.

  (* the limits as the code reads them *)
  Definition loop_limit : option N :=
    match l_loop lim with Some 0%N => if v_zero v then Some 0%N else None | x => x end.
  Definition ns_limit : option Z :=
    match l_ns lim with Some 0 => if v_zero v then Some 0 else None | x => x end.

  (* raise_for_loop_limit(n) *)
  Definition loop_exceeded (f : frame) (n : N) : bool :=
    match loop_limit with
    | Some L => (L <? fold_left N.mul (f_loops f) (n * f_carry f))%N
    | None => false
    end.
  Definition depth_exceeded (f : frame) : bool := f_scope f >? l_depth lim.      (* extend *)
  Definition copy_exceeded (f : frame) : bool := f_copy_depth f >? l_depth lim.  (* copy *)
  Definition nest_exceeded (body : list node) : bool := tdepth_list body >? l_nest lim.

  (* loading (= parsing) a template: BlockNestingError in STRICT mode; parser recovery otherwise (not modelled) *)
  Definition nest_guard (body : list node) : M :=
    fun s => if nest_exceeded body then (if tolerant md then LFuel else LErr XNesting s) else LOk s.

  Definition m_write (t : str) : M :=
    fun s => let '(ok, b) := buf_write (l_out lim) (s_buf s) t in
             if ok then LOk (set_buf s b) else LErr XOutput (set_buf s b).

  Definition m_leaf (tp : N) : M :=
    fun s => LOk {| s_locals := s_locals s; s_ifch := s_ifch s; s_buf := s_buf s; s_sizes := s_sizes s;
                    s_leaf := tp :: s_leaf s; s_nslog := s_nslog s |}.

  (* BlockNode.render_to_output of a blank block: everything goes to a NullIO *)
  Definition in_null (m : M) : M :=
    fun s => match m (set_buf s BNull) with
             | LOk s' => LOk (set_buf s' (s_buf s)) | LErr e s' => LErr e (set_buf s' (s_buf s)) | LFuel => LFuel
             end.

  (* buf = context.get_buffer(buffer); render into buf; continue with buf.getvalue() and the old buffer *)
  Definition in_child (m : M) (k : str -> M) : M :=
    fun s => match m (set_buf s (child_of (s_buf s))) with
             | LOk s' => k (buf_text (s_buf s')) (set_buf s' (s_buf s))
             | LErr e s' => LErr e (set_buf s' (s_buf s)) | LFuel => LFuel
             end.

  (* a copied context has its own locals and tag_namespace; the caller's are untouched *)
  Definition in_ctx (m : M) : M :=
    fun s => match m (set_mut s [] []) with
             | LOk s' => LOk (set_mut s' (s_locals s) (s_ifch s))
             | LErr e s' => LErr e (set_mut s' (s_locals s) (s_ifch s)) | LFuel => LFuel
             end.

  (* RenderContext.assign *)
  Definition m_assign (f : frame) (x : N) (val : str) : M :=
    fun s => match s_sizes s with
             | [] => LFuel
             | z :: rest =>
                 let l' := lset x (val, z) (s_locals s) in
                 let tot := sum_sizes l' in
                 let s' := {| s_locals := l'; s_ifch := s_ifch s; s_buf := s_buf s; s_sizes := rest; s_leaf := s_leaf s;
                              s_nslog := (tot + f_anc f, tot + f_ns_carry f) :: s_nslog s |} in
                 match ns_limit with
                 | Some L =>
                     if tot + f_ns_carry f >? L
                     then LErr XNamespace
                            (if v_rollback v
                             then {| s_locals := s_locals s; s_ifch := s_ifch s; s_buf := s_buf s; s_sizes := rest;
                                     s_leaf := s_leaf s; s_nslog := s_nslog s |}
                             else s')
                     else LOk s'
                 | None => LOk s'
                 end
             end.

  (* RenderContext.ifchanged + write *)
  Definition m_ifchanged (val : str) : M :=
    fun s => if str_eqb val (s_ifch s) then LOk s
             else m_write val (set_mut s (s_locals s) val).

  Fixpoint exec (nd : node) (f : frame) {struct nd} : M :=
    let fix exec_list (l : list node) (f : frame) {struct l} : M :=
      match l with [] => ret | x :: r => seq (exec x f) (exec_list r f) end in
    let block (body : list node) (f : frame) : M :=
      if blank_list body then in_null (exec_list body f) else exec_list body f in
    (* BoundTemplate.render_with_context: extend, then every top-level node under the mode's handler *)
    let fix run_nodes (l : list node) (f : frame) {struct l} : M :=
      match l with [] => ret | x :: r => seq (handle (exec x f)) (run_nodes r f) end in
    let partial (body : list node) (f : frame) : M :=
      seq (guard (depth_exceeded f) XDepth) (run_nodes body (f_ext f)) in
    match nd with
    | Text t => seq (m_leaf (f_tp f)) (m_write t)
    | Echo x => fun s => m_write (lget x (s_locals s)) s
    | Assign x t => m_assign f x t
    | Capture x body => in_child (block body f) (fun val => m_assign f x val)
    | IfChanged body => in_child (block body f) m_ifchanged
    | For n body =>
        if (n =? 0)%N then ret
        else seq (guard (loop_exceeded f n) XLoop)
            (seq (guard (depth_exceeded f) XDepth)
                 (iter 1 (N.to_nat n) (fun _ => block body (f_for f n))))
    | Tablerow n body =>
        seq (guard (loop_exceeded f n) XLoop)
       (seq (m_write tr_open)
       (seq (guard (depth_exceeded f) XDepth)
       (seq (iter 1 (N.to_nat n) (fun k => seq (m_write (td_open k)) (seq (block body (f_scale v (f_ext f) n)) (m_write td_close))))
            (m_write tr_close))))
    | Include body =>
        seq (guard (f_no_include f) XDisabled)
       (seq (nest_guard body)
       (seq (guard (depth_exceeded f) XDepth)
            (partial body (f_ext f))))
    | IncludeArr n body =>
        seq (guard (f_no_include f) XDisabled)
       (seq (nest_guard body)
       (seq (guard (depth_exceeded f) XDepth)
       (seq (guard (loop_exceeded (f_ext f) n) XLoop)
            (iter 1 (N.to_nat n) (fun _ => partial body (f_scale v (f_ext f) n))))))
    | Render body =>
        seq (nest_guard body)
       (seq (guard (copy_exceeded f) XDepth)
            (fun s => in_ctx (partial body (f_copy f (sum_sizes (s_locals s)))) s))
    | RenderFor n body =>
        seq (nest_guard body)
       (seq (guard (copy_exceeded f) XDepth)
            (fun s => let fc := f_copy f (sum_sizes (s_locals s)) in
                      seq (guard (loop_exceeded fc n) XLoop)
                          (if v_item v
                           then iter 1 (N.to_nat n) (fun _ => in_ctx (partial body (f_scale v fc n)))
                           else in_ctx (iter 1 (N.to_nat n) (fun _ => partial body (f_scale v fc n)))) s))
    | Call body =>
        seq (guard (copy_exceeded f) XDepth)
            (fun s => in_ctx (block body (f_copy f (sum_sizes (s_locals s)))) s)
    end.

  Fixpoint exec_list (l : list node) (f : frame) : M :=
    match l with [] => ret | x :: r => seq (exec x f) (exec_list r f) end.
  Definition block (body : list node) (f : frame) : M :=
    if blank_list body then in_null (exec_list body f) else exec_list body f.
  Fixpoint run_nodes (l : list node) (f : frame) : M :=
    match l with [] => ret | x :: r => seq (handle (exec x f)) (run_nodes r f) end.
  Definition partial (body : list node) (f : frame) : M :=
    seq (guard (depth_exceeded f) XDepth) (run_nodes body (f_ext f)).

  (* Environment.from_string (parse: block nesting) then BoundTemplate.render *)
  (* Environment.from_string (parse: block nesting) then BoundTemplate.render; an error of the outermost
     extend is outside every per-node handler and escapes in every mode *)
  Definition run_prog (main : list node) (sizes : list Z) : lres st :=
    match nest_guard main (st0 sizes) with
    | LOk s => partial main frame0 s
    | r => r
    end.
End Exec.

(* ------------------------------------------------------------------ observations *)
Inductive obs := OOut (out : str) (ns : list Z) | OErr (e : lexn) | OFuel.

Definition observe (lim : limits) (r : lres st) : obs :=
  match r with
  | LOk s => OOut (buf_text (s_buf s)) (match l_ns lim with Some _ => rev (map snd (s_nslog s)) | None => [] end)
  | LErr e _ => OErr e
  | LFuel => OFuel
  end.

Definition obs_eqb (a b : obs) : bool :=
  match a, b with
  | OOut o1 n1, OOut o2 n2 => str_eqb o1 o2 && list_eqb Z.eqb n1 n2
  | OErr e1, OErr e2 => lexn_eqb e1 e2
  | OFuel, OFuel => true
  | _, _ => false
  end.

Record case := { c_mode : mode; c_lim : limits; c_main : list node; c_sizes : list Z }.

(* what the correspondence run evaluates: the REPAIRED code *)
Definition run_case (c : case) : obs := observe (c_lim c) (run_prog repaired (c_mode c) (c_lim c) (c_main c) (c_sizes c)).
Definition run_case_unrepaired (c : case) : obs := observe (c_lim c) (run_prog unrepaired (c_mode c) (c_lim c) (c_main c) (c_sizes c)).

(* the correspondence run compares a digest of the output (length, UTF-8 bytes, polynomial hash): long expected
   outputs as Gallina list literals are slow to type-check *)
Definition hash_str (s : str) : N := fold_left (fun h c => ((h * 31 + c + 1) mod 2147483647)%N) s 7%N.
Inductive dobs := DOut (len : N) (bytes : Z) (h : N) (ns : list Z) | DErr (e : lexn) | DFuel.
Definition digest (o : obs) : dobs :=
  match o with
  | OOut out ns => DOut (N.of_nat (length out)) (utf8_bytes out) (hash_str out) ns
  | OErr e => DErr e
  | OFuel => DFuel
  end.
Definition dobs_eqb (a b : dobs) : bool :=
  match a, b with
  | DOut l1 b1 h1 n1, DOut l2 b2 h2 n2 => (l1 =? l2)%N && (b1 =? b2) && (h1 =? h2)%N && list_eqb Z.eqb n1 n2
  | DErr e1, DErr e2 => lexn_eqb e1 e2
  | DFuel, DFuel => true
  | _, _ => false
  end.
Definition run_digest (c : case) : dobs := digest (run_case c).

(* one nest under several configurations (the harness groups its cases by nest: the nest term is elaborated once) *)
Record sweep := { sw_main : list node; sw_runs : list (mode * (limits * list Z)) }.
Definition run_sweep (w : sweep) : list dobs :=
  map (fun p => run_digest {| c_mode := fst p; c_lim := fst (snd p); c_main := sw_main w; c_sizes := snd (snd p) |}) (sw_runs w).

(* compact constructors for the harness's case files (elaborating long literal terms dominates the cost of the
   correspondence run): one limit configured, the others at their defaults (None / 30 / 30) *)
Definition RNone (z : list Z) : limits * list Z := (Build_limits None None None 30 30, z).
Definition RLoop (x : N) (z : list Z) : limits * list Z := (Build_limits (Some x) None None 30 30, z).
Definition ROut (x : Z) (z : list Z) : limits * list Z := (Build_limits None (Some x) None 30 30, z).
Definition RNs (x : Z) (z : list Z) : limits * list Z := (Build_limits None None (Some x) 30 30, z).
Definition RDepth (x : Z) (z : list Z) : limits * list Z := (Build_limits None None None x 30, z).
Definition RNest (x : Z) (z : list Z) : limits * list Z := (Build_limits None None None 30 x, z).
Definition InS (r : limits * list Z) : mode * (limits * list Z) := (Strict, r).
Definition InW (r : limits * list Z) : mode * (limits * list Z) := (Warn, r).
Definition InL (r : limits * list Z) : mode * (limits * list Z) := (Lax, r).
Definition D (l h : N) : dobs := DOut l (Z.of_N l) h [].     (* ASCII-only output, no namespace log *)

(* number of leaf executions and the largest true product among them (C06 reading aids) *)
Definition leaf_log (v : variant) (c : case) : option (list N) :=
  match run_prog v (c_mode c) (c_lim c) (c_main c) (c_sizes c) with LOk s => Some (s_leaf s) | _ => None end.
