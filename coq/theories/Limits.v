(* Limits.v — model of the resource-limit bookkeeping of a render (C06, C07, C08).
   Executable definitions only; no proofs.

   What is transcribed (liquid/context.py, output.py, template.py, ast.py, parser.py and the tags
   for, tablerow, include, render, capture, ifchanged, assign, macro/call, and extends / block / block.super of
   liquid.extra), in all three modes:

   * Mode: an error (LErr e s) carries the state at the point where it was raised, after the context managers
     it passed have unwound (buffers of capture/ifchanged/blank blocks dropped, copied contexts dropped, writes
     already made kept).  BoundTemplate.render_with_context handles it PER TOP-LEVEL NODE of the template it
     renders (main template, the base template of an inheritance chain, and every included / rendered partial):
     in STRICT mode it is re-raised, in WARN and LAX mode it is dropped and the next node is rendered from that
     state.  Parse errors are not render errors: a block nesting error in WARN/LAX mode (parser recovery) is
     outside the model and yields [LFuel]; so does, in those modes, an error that escapes from the extends tag
     itself (the rest of the child template would then be rendered).

   * RenderContext.raise_for_loop_limit / loop / copy(carry_loop_iterations=True): the loop stack, the
     loop-iteration carry, and (REPAIRED code) the scaling of the carry by tablerow / include-with-array /
     render-for while they repeat their block (RenderContext.loop_iterations).  The unrepaired behaviour
     (those three only call raise_for_loop_limit) is the variant [v_carry := false].
   * LimitedStringIO.write, RenderContext.get_buffer (child limit = limit - size of the buffer it is
     given; NullIO and unlimited StringIO carry 0), BlockNode's NullIO for blank blocks, capture, ifchanged.
   * RenderContext.assign / get_size_of_locals / copy(local_namespace_size_carry): sys.getsizeof is an
     ORACLE: the sizes are a stream [s_sizes] supplied from outside (the harness measures them), consumed
     one per assignment; running out of the stream is [LFuel], never a normal result.  local_namespace_size_carry
     is a mutable attribute of a context ([x_nsc], threaded).
   * RenderContext.extend / copy depth checks (scope-chain size, copy depth), Parser.parse_block's
     block-nesting check (per template, at the time the template is parsed: the main template before the
     render, a partial when include/render loads it, the parents of a chain when the extends tag loads them).
   * (REPAIRED code) loop_iteration_limit = 0 and local_namespace_limit = 0 are limits; the unrepaired
     truthiness tests ("0 means no limit") are the variant [v_zero := false].
   * render-for copies a fresh isolated context for every item (the code after the C15 repair); the older
     behaviour (one context reused for all items) is the variant [v_item := false].
   * (REPAIRED code) LimitedStringIO writes text unchanged, like StringIO() (C08-limited-buffer-newlines.patch);
     the unrepaired universal-newline translation of "\r\n" and "\r" is not modelled.

   * Template inheritance (liquid/extra/tags/extends_tag.py).  A chain of templates main -> ... -> base renders the
     BASE template's nodes in the main context (ExtendsNode.render_to_output: two nested extends of the scope).  A
     block tag with a stack of definitions is [Block top]: BlockNode.render_to_output renders the most derived
     definition [top] in a block-scoped copy of the context it stands in (copy(carry_loop_iterations=True,
     block_scope=True): empty loop stack, carry := product of the loops x carry, own locals and ifchanged state,
     the enclosing locals still readable, disabled tags inherited).  [Super next] is {{ block.super }} with [next] the
     next definition down (the harness inlines the chain): BlockDrop.__getitem__ renders it in a buffer of its own
     (get_buffer of the buffer the block tag was given: a LimitedStringIO with the remaining budget) and
       - reached from the block-scoped copy: in the BASE context (the one the block tag stands in), under
         loop_iterations(enclosing), enclosing = iterations of the copy // iterations of the base (REPAIRED, fix
         dec4c86; unrepaired: [v_super_loop := false]), with the base's local_namespace_size_carry raised by what
         the copy holds and the copy's carry refreshed afterwards (REPAIRED, C07-namespace-across-block-super.patch;
         unrepaired: [v_super_ns := false]);
       - reached from a definition that is itself rendered in place (a parent definition, render_context = None): in
         the current context.
     Where no block object is in scope (top level, isolated copies made by render and macro calls) block.super is
     undefined and renders nothing; [SuperU] is block.super in the last definition (no parent: undefined).
     [BlockD body] is a block tag without a stack (template rendered on its own, blocks of partials and macros):
     rendered in place, in an extended scope.

   Stack discipline (context managers, try/finally) is modelled by passing the context's "frame"
   (loop stack, carry, depths, what block.super refers to) DOWN as an argument; only the mutable parts (locals,
   ifchanged value, namespace carry, the enclosing block-scoped contexts, buffer, oracle stream, ghost logs) are
   threaded through.

   Ghost quantities (no counterpart in the code): f_tp = the true product of the lengths of all enclosing
   repeating constructs; x_anc = the true total measured size of the live local namespaces that are not on the
   current context's own scope chain (the contexts an isolated copy was made from, and block-scoped copies
   suspended in block.super); s_leaf / s_nslog = logs at every text write / assignment. *)
From Coq Require Import String Ascii.
From LiquidVerif Require Import Prelude PyPrims.
Local Open Scope Z_scope.

Definition lit (x : string) : str := map N_of_ascii (list_ascii_of_string x).

(* ------------------------------------------------------------------ outcomes *)
Inductive lexn := XLoop | XOutput | XNamespace | XDepth | XNesting | XDisabled.
(* LoopIterationLimitError | OutputStreamLimitError | LocalNamespaceLimitError | ContextDepthError |
   BlockNestingError (all ResourceLimitError)      | DisabledTagError *)

Definition is_limit (e : lexn) : bool := match e with XDisabled => false | _ => true end.

Definition lexn_eqb (a b : lexn) : bool :=
  match a, b with
  | XLoop, XLoop | XOutput, XOutput | XNamespace, XNamespace | XDepth, XDepth
  | XNesting, XNesting | XDisabled, XDisabled => true
  | _, _ => false
  end.

Inductive lres (A : Type) := LOk (a : A) | LErr (e : lexn) (a : A) | LFuel.
Arguments LOk {A} a. Arguments LErr {A} e a. Arguments LFuel {A}.

Inductive mode := Strict | Warn | Lax.       (* Environment(tolerance=...) *)
Definition tolerant (m : mode) : bool := match m with Strict => false | _ => true end.
Definition mode_eqb (a b : mode) : bool :=
  match a, b with Strict, Strict | Warn, Warn | Lax, Lax => true | _, _ => false end.

(* ------------------------------------------------------------------ programs *)
(* Partials and macro bodies are inlined in the tree: the harness gives every Include/Render body its own
   partial template and every Call body its own macro, defined immediately before the call.  Block definitions
   are inlined too: Block carries the most derived definition, every Super in it the next definition down. *)
Inductive node :=
| Text (t : str)                          (* literal text (never whitespace-only) *)
| Echo (x : N)                            (* {{ vX }} *)
| Assign (x : N) (t : str)                (* {% assign vX = 'lit' %} *)
| Capture (x : N) (body : list node)
| IfChanged (body : list node)
| For (n : N) (body : list node)          (* {% for i in (1..n) %} *)
| Tablerow (n : N) (body : list node)     (* {% tablerow i in (1..n) %} *)
| Include (body : list node)              (* {% include 'p' %} *)
| IncludeArr (n : N) (body : list node)   (* {% include 'p' for a %}, a an array of n items *)
| Render (body : list node)               (* {% render 'p' %} *)
| RenderFor (n : N) (body : list node)    (* {% render 'p' for a %} *)
| Call (body : list node)                 (* {% macro m %}body{% endmacro %}{% call m %} *)
| Block (body : list node)                (* {% block b %} with a stack of definitions; body = the most derived one *)
| BlockD (body : list node)               (* {% block b %} without a stack: rendered in place *)
| Super (body : list node)                (* {{ block.super }}; body = the next definition down *)
| SuperU.                                 (* {{ block.super }} in the last definition: undefined *)

(* Node.blank (static): a block of blank nodes is rendered to a NullIO *)
Fixpoint blank (nd : node) : bool :=
  let fix all (l : list node) : bool := match l with [] => true | x :: r => blank x && all r end in
  match nd with
  | Assign _ _ | Capture _ _ => true
  | IfChanged b | For _ b => all b
  | _ => false
  end.
Definition blank_list (l : list node) : bool := forallb blank l.

(* deepest stream.block_depth reached while parsing one template (partials are parsed separately; so are the
   templates of an inheritance chain, whose depths are supplied with the program: see run_prog) *)
Fixpoint tdepth (nd : node) : Z :=
  let fix mx (l : list node) : Z := match l with [] => 0 | x :: r => Z.max (tdepth x) (mx r) end in
  match nd with
  | Capture _ b | IfChanged b | For _ b | Tablerow _ b | Call b | Block b | BlockD b => 1 + mx b
  | _ => 0
  end.
Fixpoint tdepth_list (l : list node) : Z := match l with [] => 0 | x :: r => Z.max (tdepth x) (tdepth_list r) end.

(* ---- declarative: the largest product of enclosing lengths that a complete run reaches ----
   sup: is a block object with a parent in scope (block.super renders something)? *)
Fixpoint maxprodS (tp : N) (sup : bool) (nd : node) : N :=
  let fix mx (tp : N) (sup : bool) (l : list node) : N :=
    match l with [] => 0%N | x :: r => N.max (maxprodS tp sup x) (mx tp sup r) end in
  match nd with
  | Text _ | Echo _ | Assign _ _ | SuperU => 0
  | Capture _ b | IfChanged b | Include b => mx tp sup b
  | Render b | Call b | BlockD b => mx tp false b
  | Block b => mx tp true b
  | Super b => if sup then mx tp true b else 0
  | For n b | Tablerow n b | IncludeArr n b => if (n =? 0)%N then 0 else N.max (tp * n) (mx (tp * n) sup b)
  | RenderFor n b => if (n =? 0)%N then 0 else N.max (tp * n) (mx (tp * n) false b)
  end%N.
Fixpoint maxprodS_list (tp : N) (sup : bool) (l : list node) : N :=
  match l with [] => 0%N | x :: r => N.max (maxprodS tp sup x) (maxprodS_list tp sup r) end.
(* of a whole template: no block object in scope at top level *)
Definition maxprod (tp : N) (nd : node) : N := maxprodS tp false nd.
Definition maxprod_list (tp : N) (l : list node) : N := maxprodS_list tp false l.

(* ------------------------------------------------------------------ configuration *)
Record limits := { l_loop : option N;   (* loop_iteration_limit *)
                   l_out : option Z;    (* output_stream_limit *)
                   l_ns : option Z;     (* local_namespace_limit *)
                   l_depth : Z;         (* context_depth_limit (always an int) *)
                   l_nest : Z }.        (* block_nesting_limit (always an int) *)

Record variant := { v_carry : bool;    (* true: tablerow/include-array/render-for scale the carry (repaired) *)
                    v_zero : bool;     (* true: a loop / namespace limit of 0 is a limit (repaired) *)
                    v_item : bool;
                    v_rollback : bool;
                    v_super_loop : bool;
                    v_super_ns : bool }.
(* v_item: render-for: true = a fresh copied context per item (the code after
   C15-render-for-items-share-one-context.patch); false = ONE copied context reused for all items (locals persist
   from item to item).  Every theorem is proved for both.
   v_rollback: true = RenderContext.assign removes the value that breaks the namespace limit before raising
   (repaired, C07-namespace-rollback.patch); false = the value stays (visible in WARN/LAX mode only).
   v_super_loop: true = block.super renders the parent block under loop_iterations(enclosing) (repaired, dec4c86).
   v_super_ns: true = block.super carries the overriding block's namespace size into the base context and refreshes
   the overriding block's carry afterwards (repaired, C07-namespace-across-block-super.patch). *)
Definition repaired : variant :=
  {| v_carry := true; v_zero := true; v_item := true; v_rollback := true; v_super_loop := true; v_super_ns := true |}.
Definition unrepaired : variant :=
  {| v_carry := false; v_zero := false; v_item := true; v_rollback := false; v_super_loop := false; v_super_ns := false |}.
(* one repair missing at a time (witnesses of the two inheritance defects) *)
Definition no_super_loop : variant :=
  {| v_carry := true; v_zero := true; v_item := true; v_rollback := true; v_super_loop := false; v_super_ns := true |}.
Definition no_super_ns : variant :=
  {| v_carry := true; v_zero := true; v_item := true; v_rollback := true; v_super_loop := true; v_super_ns := false |}.

(* ------------------------------------------------------------------ UTF-8 *)
Definition utf8_len (c : N) : Z :=
  if (c <? 128)%N then 1 else if (c <? 2048)%N then 2 else if (c <? 65536)%N then 3 else 4.
Fixpoint utf8_bytes (s : str) : Z := match s with [] => 0 | c :: r => utf8_len c + utf8_bytes r end.

(* ------------------------------------------------------------------ buffers *)
(* BLim base size rtext: a LimitedStringIO created with limit = output_stream_limit - base; rtext is the
   text written so far, reversed.  Without an output limit the code uses a plain StringIO: base and size
   are then never consulted.  BNull: NullIO. *)
Inductive buf := BNull | BLim (base size : Z) (rtext : str).

Definition buf_text (b : buf) : str := match b with BNull => [] | BLim _ _ rt => rev rt end.

(* buf.size if isinstance(buf, LimitedStringIO) else 0 *)
Definition cur_size (b : buf) : Z := match b with BNull => 0 | BLim _ size _ => size end.

(* get_buffer(b): carry = b.size for a LimitedStringIO, 0 otherwise *)
Definition child_of (b : buf) : buf := BLim (cur_size b) 0 [].

(* LimitedStringIO.write: size is incremented, THEN compared, and only then is the text written: a refused
   write leaves the size incremented and the text unchanged.  -> (written?, buffer afterwards) *)
Definition buf_write (lo : option Z) (b : buf) (t : str) : bool * buf :=
  match t with
  | [] => (true, b)
  | _ =>
      match b with
      | BNull => (true, BNull)
      | BLim base size rt =>
          let size' := size + utf8_bytes t in
          match lo with
          | Some L => if size' >? L - base then (false, BLim base size' rt) else (true, BLim base size' (rev_append t rt))
          | None => (true, BLim base size' (rev_append t rt))
          end
      end
  end.

(* ------------------------------------------------------------------ state *)
Definition locals := list (N * (str * Z)).           (* name -> (value, measured size) ; a dict *)

Fixpoint lset (x : N) (v : str * Z) (l : locals) : locals :=
  match l with
  | [] => [(x, v)]
  | (y, w) :: r => if (x =? y)%N then (x, v) :: r else (y, w) :: lset x v r
  end.
Fixpoint lfind (x : N) (l : locals) : option str :=
  match l with [] => None | (y, w) :: r => if (x =? y)%N then Some (fst w) else lfind x r end.
Definition lget (x : N) (l : locals) : str := match lfind x l with Some v => v | None => [] end.
Fixpoint sum_sizes (l : locals) : Z := match l with [] => 0 | (_, w) :: r => snd w + sum_sizes r end.
Fixpoint gfind (x : N) (g : list (N * str)) : option str :=
  match g with [] => None | (y, w) :: r => if (x =? y)%N then Some w else gfind x r end.

(* passed down *)
(* what block.super needs of the context the block tag stands in *)
Record bframe := { b_loops : list N; b_carry : N; b_copy_depth : Z; b_scope : Z; b_no_include : bool; b_no_block : bool }.
(* the block object in scope: none | of a definition rendered in place | of the most derived definition, rendered
   in a block-scoped copy of the context described by b *)
Inductive sup := SupNone | SupHere | SupBase (b : bframe).

Record frame := { f_loops : list N;        (* RenderContext.loops (lengths) *)
                  f_carry : N;             (* loop_iteration_carry (restored by loop_iterations on exit) *)
                  f_copy_depth : Z;        (* _copy_depth *)
                  f_scope : Z;             (* scope.size() *)
                  f_no_include : bool;     (* 'include' in disabled_tags *)
                  f_no_block : bool;       (* 'block' in disabled_tags (macro calls) *)
                  f_sup : sup;             (* the block object in scope *)
                  f_bsz : option Z;        (* BlockDrop.buffer.size: None = the block's buffer is the current one;
                                              Some z = a buffer opened since (capture, ifchanged, blank block) hides
                                              it, and its size was z then (nothing is written to it meanwhile) *)
                  f_tp : N }.              (* ghost *)

(* a context's mutable attributes that a copy does not share *)
Record oent := { o_locals : locals; o_ifch : str; o_nsc : Z; o_anc : Z }.
Record cx := { x_locals : locals;
               x_ifch : str;               (* tag_namespace["ifchanged"] *)
               x_nsc : Z;                  (* local_namespace_size_carry *)
               x_outer : list oent;        (* the contexts this one is a block-scoped copy of, innermost first:
                                              their locals are readable (scope chain), block.super resumes the first *)
               x_anc : Z }.                (* ghost *)

(* threaded *)
Record st := { s_cx : cx;
               s_glob : list (N * str);    (* render arguments (read only) *)
               s_buf : buf;
               s_sizes : list Z;           (* oracle: sys.getsizeof of the next assigned values *)
               s_leaf : list N;            (* ghost log, newest first: f_tp at every Text *)
               s_nslog : list (Z * Z) }.   (* log, newest first: (true total, get_size_of_locals()) after every assignment *)

Definition s_locals (s : st) : locals := x_locals (s_cx s).
Definition s_ifch (s : st) : str := x_ifch (s_cx s).

Definition set_buf (s : st) (b : buf) : st :=
  {| s_cx := s_cx s; s_glob := s_glob s; s_buf := b; s_sizes := s_sizes s; s_leaf := s_leaf s; s_nslog := s_nslog s |}.
Definition set_cx (s : st) (c : cx) : st :=
  {| s_cx := c; s_glob := s_glob s; s_buf := s_buf s; s_sizes := s_sizes s; s_leaf := s_leaf s; s_nslog := s_nslog s |}.
Definition cx_ifch (c : cx) (i : str) : cx :=
  {| x_locals := x_locals c; x_ifch := i; x_nsc := x_nsc c; x_outer := x_outer c; x_anc := x_anc c |}.
Definition cx_locals (c : cx) (l : locals) : cx :=
  {| x_locals := l; x_ifch := x_ifch c; x_nsc := x_nsc c; x_outer := x_outer c; x_anc := x_anc c |}.

(* scope lookup: own locals, the locals of the enclosing block-scoped contexts, the render arguments *)
Fixpoint ofind (x : N) (l : list oent) : option str :=
  match l with [] => None | o :: r => match lfind x (o_locals o) with Some v => Some v | None => ofind x r end end.
Definition lookup (x : N) (s : st) : str :=
  match lfind x (s_locals s) with
  | Some v => v
  | None => match ofind x (x_outer (s_cx s)) with
            | Some v => v
            | None => match gfind x (s_glob s) with Some v => v | None => [] end
            end
  end.

(* get_size_of_locals() *)
Definition cx_size (c : cx) : Z := sum_sizes (x_locals c) + x_nsc c.
Fixpoint outer_total (l : list oent) : Z := match l with [] => 0 | o :: r => sum_sizes (o_locals o) + outer_total r end.
(* ghost: the measured size of ALL live local namespaces *)
Definition cx_live (c : cx) : Z := sum_sizes (x_locals c) + outer_total (x_outer c) + x_anc c.

(* copy(...): an isolated context *)
Definition cx_copy (c : cx) : cx :=
  {| x_locals := []; x_ifch := []; x_nsc := cx_size c; x_outer := []; x_anc := cx_live c |}.
(* copy(..., block_scope=True) *)
Definition cx_blk (c : cx) : cx :=
  {| x_locals := []; x_ifch := []; x_nsc := cx_size c;
     x_outer := {| o_locals := x_locals c; o_ifch := x_ifch c; o_nsc := x_nsc c; o_anc := x_anc c |} :: x_outer c;
     x_anc := x_anc c |}.
(* the block-scoped copy is dropped: back in the context it was made from *)
Definition cx_unblk (c : cx) : option cx :=
  match x_outer c with
  | [] => None
  | o :: rest => Some {| x_locals := o_locals o; x_ifch := o_ifch o; x_nsc := o_nsc o; x_outer := rest; x_anc := o_anc o |}
  end.
(* block.super reached from the block-scoped copy c: the base context resumes (REPAIRED: its carry raised by what c
   holds); ghost: c stays alive meanwhile *)
Definition cx_base (v : variant) (c : cx) : option cx :=
  match x_outer c with
  | [] => None
  | o :: rest =>
      let held := sum_sizes (x_locals c) in
      Some {| x_locals := o_locals o; x_ifch := o_ifch o; x_nsc := o_nsc o + (if v_super_ns v then held else 0);
              x_outer := rest; x_anc := o_anc o + held |}
  end.
(* ... and back: c resumes, the base context (as the parent block left it: c') is suspended again; REPAIRED: c's carry
   is refreshed from the base context *)
Definition cx_back (v : variant) (c c' : cx) : cx :=
  match x_outer c with
  | [] => c
  | o :: rest =>
      {| x_locals := x_locals c; x_ifch := x_ifch c;
         x_nsc := if v_super_ns v then sum_sizes (x_locals c') + o_nsc o else x_nsc c;
         x_outer := {| o_locals := x_locals c'; o_ifch := x_ifch c'; o_nsc := o_nsc o; o_anc := o_anc o |} :: rest;
         x_anc := o_anc o |}
  end.

Definition bk (f : frame) : N := fold_left N.mul (f_loops f) (f_carry f).     (* what raise_for_loop_limit(1) computes *)
Definition bkb (b : bframe) : N := fold_left N.mul (b_loops b) (b_carry b).

Definition f_for (f : frame) (n : N) : frame :=         (* RenderContext.loop: push the loop, extend *)
  {| f_loops := n :: f_loops f; f_carry := f_carry f; f_copy_depth := f_copy_depth f; f_scope := f_scope f + 1;
     f_no_include := f_no_include f; f_no_block := f_no_block f; f_sup := f_sup f; f_bsz := f_bsz f; f_tp := (f_tp f * n)%N |}.
Definition f_ext (f : frame) : frame :=                  (* RenderContext.extend *)
  {| f_loops := f_loops f; f_carry := f_carry f; f_copy_depth := f_copy_depth f; f_scope := f_scope f + 1;
     f_no_include := f_no_include f; f_no_block := f_no_block f; f_sup := f_sup f; f_bsz := f_bsz f; f_tp := f_tp f |}.
Definition f_scale (v : variant) (f : frame) (n : N) : frame :=   (* RenderContext.loop_iterations (repaired) *)
  {| f_loops := f_loops f; f_carry := if v_carry v then (f_carry f * n)%N else f_carry f;
     f_copy_depth := f_copy_depth f; f_scope := f_scope f;
     f_no_include := f_no_include f; f_no_block := f_no_block f; f_sup := f_sup f; f_bsz := f_bsz f; f_tp := (f_tp f * n)%N |}.
Definition f_copy (f : frame) : frame :=       (* RenderContext.copy(carry_loop_iterations=True, disabled include) *)
  {| f_loops := []; f_carry := bk f; f_copy_depth := f_copy_depth f + 1; f_scope := 4;
     f_no_include := true; f_no_block := false; f_sup := SupNone; f_bsz := None; f_tp := f_tp f |}.
Definition f_call (f : frame) : frame :=       (* the same for a macro call: block tags are disabled too *)
  {| f_loops := []; f_carry := bk f; f_copy_depth := f_copy_depth f + 1; f_scope := 4;
     f_no_include := true; f_no_block := true; f_sup := SupNone; f_bsz := None; f_tp := f_tp f |}.
Definition f_blk (f : frame) : frame :=        (* RenderContext.copy(carry_loop_iterations=True, block_scope=True) *)
  {| f_loops := []; f_carry := bk f; f_copy_depth := f_copy_depth f + 1; f_scope := 4;
     f_no_include := f_no_include f; f_no_block := f_no_block f;
     f_sup := SupBase {| b_loops := f_loops f; b_carry := f_carry f; b_copy_depth := f_copy_depth f;
                         b_scope := f_scope f; b_no_include := f_no_include f; b_no_block := f_no_block f |};
     f_bsz := None; f_tp := f_tp f |}.
Definition f_sup_set (f : frame) (u : sup) : frame :=   (* a new block object; the buffer it is given is the current one *)
  {| f_loops := f_loops f; f_carry := f_carry f; f_copy_depth := f_copy_depth f; f_scope := f_scope f;
     f_no_include := f_no_include f; f_no_block := f_no_block f; f_sup := u; f_bsz := None; f_tp := f_tp f |}.
(* block.super from the block-scoped copy (frame f): the base context b under loop_iterations(enclosing) *)
Definition enclosing (v : variant) (b : bframe) (f : frame) : N :=
  if v_super_loop v then N.max 1 (N.max 1 (bk f) / N.max 1 (bkb b)) else 1%N.
Definition f_base (v : variant) (b : bframe) (f : frame) : frame :=
  {| f_loops := b_loops b; f_carry := (b_carry b * enclosing v b f)%N; f_copy_depth := b_copy_depth b; f_scope := b_scope b;
     f_no_include := b_no_include b; f_no_block := b_no_block b; f_sup := SupHere; f_bsz := None; f_tp := f_tp f |}.
(* a buffer is opened on top of the current one *)
Definition f_freeze (f : frame) (b : buf) : frame :=
  {| f_loops := f_loops f; f_carry := f_carry f; f_copy_depth := f_copy_depth f; f_scope := f_scope f;
     f_no_include := f_no_include f; f_no_block := f_no_block f; f_sup := f_sup f;
     f_bsz := match f_bsz f with None => Some (cur_size b) | x => x end; f_tp := f_tp f |}.

Definition frame0 : frame :=
  {| f_loops := []; f_carry := 1%N; f_copy_depth := 0; f_scope := 4; f_no_include := false; f_no_block := false;
     f_sup := SupNone; f_bsz := None; f_tp := 1%N |}.
Definition cx0 : cx := {| x_locals := []; x_ifch := []; x_nsc := 0; x_outer := []; x_anc := 0 |}.
Definition st0 (glob : list (N * str)) (sizes : list Z) : st :=
  {| s_cx := cx0; s_glob := glob; s_buf := BLim 0 0 []; s_sizes := sizes; s_leaf := []; s_nslog := [] |}.

(* tablerow's markup *)
Definition tr_open : str := lit "<tr class=""row1"">" ++ [10%N].
Definition td_open (k : Z) : str := lit "<td class=""col" ++ Z_to_str k ++ lit """>".
Definition td_close : str := lit "</td>".
Definition tr_close : str := lit "</tr>" ++ [10%N].

(* ------------------------------------------------------------------ the interpreter *)
Section Exec.
  Variables (v : variant) (md : mode) (lim : limits).

  Definition M := st -> lres st.
  Definition ret : M := fun s => LOk s.
  Definition seq (a b : M) : M :=
    fun s => match a s with LOk s' => b s' | LErr e s' => LErr e s' | LFuel => LFuel end.
  Definition guard (b : bool) (e : lexn) : M := fun s => if b then LErr e s else LOk s.
  (* the handler of render_with_context around ONE top-level node *)
  Definition handle (m : M) : M :=
    fun s => match m s with
             | LErr e s' => if tolerant md then LOk s' else LErr e s'
             | r => r
             end.
  (* the handler of the CHILD template around its extends tag: re-raised in STRICT mode; otherwise the child's
     remaining nodes would be rendered - not modelled *)
  Definition handle_out (m : M) : M :=
    fun s => match m s with
             | LErr e s' => if tolerant md then LFuel else LErr e s'
             | r => r
             end.
  Fixpoint iter (k : Z) (n : nat) (body : Z -> M) : M :=
    match n with O => ret | S n' => seq (body k) (iter (k + 1) n' body) end.

  (* the limits as the code reads them *)
  Definition loop_limit : option N :=
    match l_loop lim with Some 0%N => if v_zero v then Some 0%N else None | x => x end.
  Definition ns_limit : option Z :=
    match l_ns lim with Some 0 => if v_zero v then Some 0 else None | x => x end.

  (* raise_for_loop_limit(n) *)
  Definition loop_exceeded (f : frame) (n : N) : bool :=
    match loop_limit with
    | Some L => (L <? fold_left N.mul (f_loops f) (n * f_carry f))%N
    | None => false
    end.
  Definition depth_exceeded (f : frame) : bool := f_scope f >? l_depth lim.      (* extend *)
  Definition copy_exceeded (f : frame) : bool := f_copy_depth f >? l_depth lim.  (* copy *)
  Definition nest_exceeded (body : list node) : bool := tdepth_list body >? l_nest lim.

  (* loading (= parsing) a template: BlockNestingError in STRICT mode; parser recovery otherwise (not modelled) *)
  Definition nestd_guard (too_deep : bool) : M :=
    fun s => if too_deep then (if tolerant md then LFuel else LErr XNesting s) else LOk s.
  Definition nest_guard (body : list node) : M := nestd_guard (nest_exceeded body).

  Definition m_write (t : str) : M :=
    fun s => let '(ok, b) := buf_write (l_out lim) (s_buf s) t in
             if ok then LOk (set_buf s b) else LErr XOutput (set_buf s b).

  Definition m_leaf (tp : N) : M :=
    fun s => LOk {| s_cx := s_cx s; s_glob := s_glob s; s_buf := s_buf s; s_sizes := s_sizes s;
                    s_leaf := tp :: s_leaf s; s_nslog := s_nslog s |}.

  (* BlockNode.render_to_output of a blank block: everything goes to a NullIO *)
  Definition in_null (m : M) : M :=
    fun s => match m (set_buf s BNull) with
             | LOk s' => LOk (set_buf s' (s_buf s)) | LErr e s' => LErr e (set_buf s' (s_buf s)) | LFuel => LFuel
             end.

  (* render into the new buffer cb; continue with cb.getvalue() and the old buffer *)
  Definition in_childb (cb : buf) (m : M) (k : str -> M) : M :=
    fun s => match m (set_buf s cb) with
             | LOk s' => k (buf_text (s_buf s')) (set_buf s' (s_buf s))
             | LErr e s' => LErr e (set_buf s' (s_buf s)) | LFuel => LFuel
             end.
  (* buf = context.get_buffer(buffer) *)
  Definition in_child (m : M) (k : str -> M) : M := fun s => in_childb (child_of (s_buf s)) m k s.

  (* an isolated copied context has its own locals and tag_namespace; the caller's are untouched *)
  Definition in_ctx (m : M) : M :=
    fun s => match m (set_cx s (cx_copy (s_cx s))) with
             | LOk s' => LOk (set_cx s' (s_cx s))
             | LErr e s' => LErr e (set_cx s' (s_cx s)) | LFuel => LFuel
             end.

  (* a block-scoped copy: the caller's locals are readable and, through block.super, writable; they are picked up
     again as the block left them *)
  Definition leave_blk (s' : st) : option st :=
    match cx_unblk (s_cx s') with Some c => Some (set_cx s' c) | None => None end.
  (* (leave_blk gives None only where there is no block-scoped copy to leave: cannot happen) *)
  Definition in_blk (m : M) : M :=
    fun s => match m (set_cx s (cx_blk (s_cx s))) with
             | LOk s' => match leave_blk s' with Some s2 => LOk s2 | None => LFuel end
             | LErr e s' => LErr e (match leave_blk s' with Some s2 => s2 | None => s' end)
             | LFuel => LFuel
             end.

  (* block.super from the block-scoped copy: the parent block runs in the base context *)
  Definition in_base (m : M) : M :=
    fun s => match cx_base v (s_cx s) with
             | None => LFuel                   (* no block-scoped copy to leave: cannot happen *)
             | Some cb =>
                 match m (set_cx s cb) with
                 | LOk s' => LOk (set_cx s' (cx_back v (s_cx s) (s_cx s')))
                 | LErr e s' => LErr e (set_cx s' (cx_back v (s_cx s) (s_cx s')))
                 | LFuel => LFuel
                 end
             end.

  (* RenderContext.assign *)
  Definition m_assign (x : N) (val : str) : M :=
    fun s => match s_sizes s with
             | [] => LFuel
             | z :: rest =>
                 let c := s_cx s in
                 let l' := lset x (val, z) (x_locals c) in
                 let c' := cx_locals c l' in
                 let s' := {| s_cx := c'; s_glob := s_glob s; s_buf := s_buf s; s_sizes := rest; s_leaf := s_leaf s;
                              s_nslog := (cx_live c', cx_size c') :: s_nslog s |} in
                 match ns_limit with
                 | Some L =>
                     if cx_size c' >? L
                     then LErr XNamespace
                            (if v_rollback v
                             then {| s_cx := c; s_glob := s_glob s; s_buf := s_buf s; s_sizes := rest;
                                     s_leaf := s_leaf s; s_nslog := s_nslog s |}
                             else s')
                     else LOk s'
                 | None => LOk s'
                 end
             end.

  (* RenderContext.ifchanged + write *)
  Definition m_ifchanged (val : str) : M :=
    fun s => if str_eqb val (s_ifch s) then LOk s
             else m_write val (set_cx s (cx_ifch (s_cx s) val)).

  (* buf = context.get_buffer(BlockDrop.buffer) ... write(buf.getvalue()) *)
  Definition sup_buf (f : frame) (s : st) : buf :=
    BLim (match f_bsz f with Some z => z | None => cur_size (s_buf s) end) 0 [].
  Definition in_sup (f : frame) (m : M) : M := fun s => in_childb (sup_buf f s) m m_write s.

  Fixpoint exec (nd : node) (f : frame) {struct nd} : M :=
    let fix exec_list (l : list node) (f : frame) {struct l} : M :=
      match l with [] => ret | x :: r => seq (exec x f) (exec_list r f) end in
    let block (body : list node) (f : frame) : M :=
      if blank_list body then (fun s => in_null (exec_list body (f_freeze f (s_buf s))) s) else exec_list body f in
    (* BoundTemplate.render_with_context: extend, then every top-level node under the mode's handler *)
    let fix run_nodes (l : list node) (f : frame) {struct l} : M :=
      match l with [] => ret | x :: r => seq (handle (exec x f)) (run_nodes r f) end in
    let partial (body : list node) (f : frame) : M :=
      seq (guard (depth_exceeded f) XDepth) (run_nodes body (f_ext f)) in
    match nd with
    | Text t => seq (m_leaf (f_tp f)) (m_write t)
    | Echo x => fun s => m_write (lookup x s) s
    | Assign x t => m_assign x t
    | Capture x body => fun s => in_child (block body (f_freeze f (s_buf s))) (fun val => m_assign x val) s
    | IfChanged body => fun s => in_child (block body (f_freeze f (s_buf s))) m_ifchanged s
    | For n body =>
        if (n =? 0)%N then ret
        else seq (guard (loop_exceeded f n) XLoop)
            (seq (guard (depth_exceeded f) XDepth)
                 (iter 1 (N.to_nat n) (fun _ => block body (f_for f n))))
    | Tablerow n body =>
        seq (guard (loop_exceeded f n) XLoop)
       (seq (m_write tr_open)
       (seq (guard (depth_exceeded f) XDepth)
       (seq (iter 1 (N.to_nat n) (fun k => seq (m_write (td_open k)) (seq (block body (f_scale v (f_ext f) n)) (m_write td_close))))
            (m_write tr_close))))
    | Include body =>
        seq (guard (f_no_include f) XDisabled)
       (seq (nest_guard body)
       (seq (guard (depth_exceeded f) XDepth)
            (partial body (f_ext f))))
    | IncludeArr n body =>
        seq (guard (f_no_include f) XDisabled)
       (seq (nest_guard body)
       (seq (guard (depth_exceeded f) XDepth)
       (seq (guard (loop_exceeded (f_ext f) n) XLoop)
            (iter 1 (N.to_nat n) (fun _ => partial body (f_scale v (f_ext f) n))))))
    | Render body =>
        seq (nest_guard body)
       (seq (guard (copy_exceeded f) XDepth)
            (in_ctx (partial body (f_copy f))))
    | RenderFor n body =>
        seq (nest_guard body)
       (seq (guard (copy_exceeded f) XDepth)
       (seq (guard (loop_exceeded (f_copy f) n) XLoop)
            (if v_item v
             then iter 1 (N.to_nat n) (fun _ => in_ctx (partial body (f_scale v (f_copy f) n)))
             else in_ctx (iter 1 (N.to_nat n) (fun _ => partial body (f_scale v (f_copy f) n))))))
    | Call body =>
        seq (guard (copy_exceeded f) XDepth)
            (in_ctx (block body (f_call f)))
    | Block body =>
        seq (guard (f_no_block f) XDisabled)
       (seq (guard (copy_exceeded f) XDepth)
            (in_blk (block body (f_blk f))))
    | BlockD body =>
        seq (guard (f_no_block f) XDisabled)
       (seq (guard (depth_exceeded f) XDepth)
            (block body (f_sup_set (f_ext f) SupNone)))
    | Super body =>
        match f_sup f with
        | SupNone => ret
        | SupHere =>
            in_sup f (seq (guard (depth_exceeded f) XDepth) (block body (f_sup_set (f_ext f) SupHere)))
        | SupBase b =>
            in_sup f (in_base (seq (guard (depth_exceeded (f_base v b f)) XDepth) (block body (f_ext (f_base v b f)))))
        end
    | SuperU => ret
    end.

  Fixpoint exec_list (l : list node) (f : frame) : M :=
    match l with [] => ret | x :: r => seq (exec x f) (exec_list r f) end.
  Definition block (body : list node) (f : frame) : M :=
    if blank_list body then (fun s => in_null (exec_list body (f_freeze f (s_buf s))) s) else exec_list body f.
  Fixpoint run_nodes (l : list node) (f : frame) : M :=
    match l with [] => ret | x :: r => seq (handle (exec x f)) (run_nodes r f) end.
  Definition partial (body : list node) (f : frame) : M :=
    seq (guard (depth_exceeded f) XDepth) (run_nodes body (f_ext f)).

  (* the templates an extends tag loads *)
  Definition chain_too_deep (loaded : list Z) : bool := existsb (fun d => d >? l_nest lim) loaded.

  (* Environment.from_string (parse: block nesting) then BoundTemplate.render; an error of the outermost
     extend is outside every per-node handler and escapes in every mode.
     chain = [] : [main] is the template itself.
     chain = d0 :: loaded : the template is the most derived one of an inheritance chain, [main] is the body of the
       chain's BASE template with every block's definitions inlined; d0 is the block-nesting depth of the child
       template's own source and [loaded] those of its parents (supplied by the harness, which prints the chain). *)
  Definition run_prog (chain : list Z) (main : list node) (glob : list (N * str)) (sizes : list Z) : lres st :=
    match chain with
    | [] =>
        match nest_guard main (st0 glob sizes) with
        | LOk s => partial main frame0 s
        | r => r
        end
    | d0 :: loaded =>
        match nestd_guard (d0 >? l_nest lim) (st0 glob sizes) with
        | LOk s =>
            seq (guard (depth_exceeded frame0) XDepth)
                (handle_out (seq (nestd_guard (chain_too_deep loaded)) (partial main (f_ext frame0)))) s
        | r => r
        end
    end.
End Exec.

(* ------------------------------------------------------------------ observations *)
Inductive obs := OOut (out : str) (ns : list Z) | OErr (e : lexn) | OFuel.

Definition observe (lim : limits) (r : lres st) : obs :=
  match r with
  | LOk s => OOut (buf_text (s_buf s)) (match l_ns lim with Some _ => rev (map snd (s_nslog s)) | None => [] end)
  | LErr e _ => OErr e
  | LFuel => OFuel
  end.

Definition obs_eqb (a b : obs) : bool :=
  match a, b with
  | OOut o1 n1, OOut o2 n2 => str_eqb o1 o2 && list_eqb Z.eqb n1 n2
  | OErr e1, OErr e2 => lexn_eqb e1 e2
  | OFuel, OFuel => true
  | _, _ => false
  end.

Record case := { c_mode : mode; c_lim : limits; c_chain : list Z; c_main : list node; c_glob : list (N * str); c_sizes : list Z }.

(* what the correspondence run evaluates: the REPAIRED code *)
Definition run_case (c : case) : obs :=
  observe (c_lim c) (run_prog repaired (c_mode c) (c_lim c) (c_chain c) (c_main c) (c_glob c) (c_sizes c)).
Definition run_case_unrepaired (c : case) : obs :=
  observe (c_lim c) (run_prog unrepaired (c_mode c) (c_lim c) (c_chain c) (c_main c) (c_glob c) (c_sizes c)).

(* the correspondence run compares a digest of the output (length, UTF-8 bytes, polynomial hash): long expected
   outputs as Gallina list literals are slow to type-check *)
Definition hash_str (s : str) : N := fold_left (fun h c => ((h * 31 + c + 1) mod 2147483647)%N) s 7%N.
Inductive dobs := DOut (len : N) (bytes : Z) (h : N) (ns : list Z) | DErr (e : lexn) | DFuel.
Definition digest (o : obs) : dobs :=
  match o with
  | OOut out ns => DOut (N.of_nat (length out)) (utf8_bytes out) (hash_str out) ns
  | OErr e => DErr e
  | OFuel => DFuel
  end.
Definition dobs_eqb (a b : dobs) : bool :=
  match a, b with
  | DOut l1 b1 h1 n1, DOut l2 b2 h2 n2 => (l1 =? l2)%N && (b1 =? b2) && (h1 =? h2)%N && list_eqb Z.eqb n1 n2
  | DErr e1, DErr e2 => lexn_eqb e1 e2
  | DFuel, DFuel => true
  | _, _ => false
  end.
Definition run_digest (c : case) : dobs := digest (run_case c).

(* one nest under several configurations (the harness groups its cases by nest: the nest term is elaborated once) *)
Record run := { r_mode : mode; r_lim : limits; r_sizes : list Z; r_glob : list (N * str) }.
Record sweep := { sw_chain : list Z; sw_main : list node; sw_runs : list run }.
Definition run_sweep (w : sweep) : list dobs :=
  map (fun r => run_digest {| c_mode := r_mode r; c_lim := r_lim r; c_chain := sw_chain w; c_main := sw_main w;
                              c_glob := r_glob r; c_sizes := r_sizes r |}) (sw_runs w).

(* compact constructors for the harness's case files (elaborating long literal terms dominates the cost of the
   correspondence run): one limit configured, the others at their defaults (None / 30 / 30) *)
Definition RNone (z : list Z) : limits * list Z := (Build_limits None None None 30 30, z).
Definition RLoop (x : N) (z : list Z) : limits * list Z := (Build_limits (Some x) None None 30 30, z).
Definition ROut (x : Z) (z : list Z) : limits * list Z := (Build_limits None (Some x) None 30 30, z).
Definition RNs (x : Z) (z : list Z) : limits * list Z := (Build_limits None None (Some x) 30 30, z).
Definition RDepth (x : Z) (z : list Z) : limits * list Z := (Build_limits None None None x 30, z).
Definition RNest (x : Z) (z : list Z) : limits * list Z := (Build_limits None None None 30 x, z).
Definition InS (r : limits * list Z) : run := Build_run Strict (fst r) (snd r) [].
Definition InW (r : limits * list Z) : run := Build_run Warn (fst r) (snd r) [].
Definition InL (r : limits * list Z) : run := Build_run Lax (fst r) (snd r) [].
Definition G (g : list (N * str)) (r : run) : run := Build_run (r_mode r) (r_lim r) (r_sizes r) g.
Definition D (l h : N) : dobs := DOut l (Z.of_N l) h [].     (* ASCII-only output, no namespace log *)

(* number of leaf executions and the largest true product among them (C06 reading aids) *)
Definition leaf_log (v : variant) (c : case) : option (list N) :=
  match run_prog v (c_mode c) (c_lim c) (c_chain c) (c_main c) (c_glob c) (c_sizes c) with LOk s => Some (s_leaf s) | _ => None end.
