(* Lex_C10_Proofs.v — the scanner on the concrete syntax of a well-formed template: one loop iteration per
   text / markup, by induction over the segments with the lstrip flag generalised; whitespace-control theorem. *)
From Coq Require Import ZArith NArith List Bool Lia ZifyBool.
From LiquidVerif Require Import Prelude Lex LexSpec Lex_Proofs Lex_Match_Proofs.
Import ListNotations.
Arguments hy : simpl never.
Arguments nl : simpl never.
Arguments hash : simpl never.
Arguments lbrace : simpl never.

(* ---------------------------------------------------------------- small facts *)
Lemma word_ok_raw : word_ok w_raw. Proof. repeat split. Qed.
Lemma word_ok_endraw : word_ok w_endraw. Proof. repeat split. Qed.
Lemma word_ok_doc : word_ok w_doc. Proof. repeat split. Qed.
Lemma word_ok_enddoc : word_ok w_enddoc. Proof. repeat split. Qed.

Lemma word_stop d w2 r rest : dfacts d -> all_space w2 = true -> word_len (w2 ++ hyp r ++ d_te d ++ rest) = 0.
Proof.
  intros F H. destruct w2 as [|c w2].
  - destruct r; cbn [hyp app]. apply word_len_stop, hy_not_word.
    pose proof (te_ne d F) as Hne. pose proof (te_nw d F) as Hw.
    destruct (d_te d); cbn [nonempty hd0 app] in *; try discriminate. apply word_len_stop; auto.
  - simpl in H. apply andb_true_iff in H as [Hc _]. cbn [app]. apply word_len_stop, space_not_word; auto.
Qed.

Lemma quote_facts q : quote_ok q = true ->
  is_space q = false /\ is_word q = false /\ N.eqb q hy = false /\ N.eqb q hash = false.
Proof.
  unfold quote_ok, squote, dquote. intros H. apply orb_true_iff in H as [H|H]; apply N.eqb_eq in H; subst q; auto.
Qed.

(* ---------------------------------------------------------------- match_at on markup *)
Section Shapes.
  Variable d : delims.
  Variable q : quirks.
  Hypothesis F : dfacts d.

  Lemma ts_not_ss s : prefixb (d_ts d) (d_ss d ++ s) = false.
  Proof. apply clash_false, F. Qed.
  Lemma ss_not_ts s : prefixb (d_ss d) (d_ts d ++ s) = false.
  Proof. apply clash_false. rewrite clash_sym. apply F. Qed.
  Lemma cs_not_ts s : nonempty (d_cs d) = true -> prefixb (d_cs d) (d_ts d ++ s) = false.
  Proof. intros H. apply clash_false. apply (cs_facts d F H). Qed.
  Lemma cs_not_ss s : nonempty (d_cs d) = true -> prefixb (d_cs d) (d_ss d ++ s) = false.
  Proof. intros H. apply clash_false. apply (cs_facts d F H). Qed.
  Lemma ts_not_cs s : nonempty (d_cs d) = true -> prefixb (d_ts d) (d_cs d ++ s) = false.
  Proof. intros H. apply clash_false. rewrite clash_sym. apply (cs_facts d F H). Qed.
  Lemma ss_not_cs s : nonempty (d_cs d) = true -> prefixb (d_ss d) (d_cs d ++ s) = false.
  Proof. intros H. apply clash_false. rewrite clash_sym. apply (cs_facts d F H). Qed.

  (* a tag  ts[-] w1 name w2 expr w3 [-]te  whose name is neither raw nor doc *)
  Lemma match_at_tag l w1 name w2 expr w3 r rest :
    all_space w1 = true -> all_space w2 = true -> all_space w3 = true ->
    stops (name ++ w2 ++ expr ++ w3 ++ hyp r ++ d_te d ++ rest) ->
    hyphen_next (name ++ w2 ++ expr ++ w3 ++ hyp r ++ d_te d ++ rest) = false ->
    name_len (name ++ w2 ++ expr ++ w3 ++ hyp r ++ d_te d ++ rest) = length name ->
    stops (expr ++ w3 ++ hyp r ++ d_te d ++ rest) ->
    body_ok (d_te d) expr ->
    (forall Y, prefixb w_raw (name ++ Y) = false) -> (forall Y, prefixb w_doc (name ++ Y) = false) ->
    match_at d q (d_ts d ++ hyp l ++ w1 ++ name ++ w2 ++ expr ++ w3 ++ hyp r ++ d_te d ++ rest)
    = MTag (length (d_ts d ++ hyp l ++ w1)) (length name) (length (d_ts d ++ hyp l ++ w1 ++ name ++ w2))
           (length expr) r (length (d_ts d ++ hyp l ++ w1 ++ name ++ w2 ++ expr ++ w3 ++ hyp r ++ d_te d)).
  Proof.
    intros H1 H2 H3 Hst Hhn Hnl Hste Hb Hraw Hdoc. unfold match_at, block.
    rewrite (wordtag_mismatch d w_raw) by (auto using word_ok_raw).
    rewrite (wordtag_mismatch d w_doc) by (auto using word_ok_doc).
    rewrite m_comment_not by (intros; apply cs_not_ts; auto).
    unfold m_output. rewrite ss_not_ts.
    rewrite m_tag_ok by auto. reflexivity.
  Qed.

  Lemma match_at_out l w1 expr w2 r rest :
    all_space w1 = true -> all_space w2 = true ->
    stops (expr ++ w2 ++ hyp r ++ d_se d ++ rest) ->
    hyphen_next (expr ++ w2 ++ hyp r ++ d_se d ++ rest) = false ->
    body_ok (d_se d) expr ->
    match_at d q (d_ss d ++ hyp l ++ w1 ++ expr ++ w2 ++ hyp r ++ d_se d ++ rest)
    = MOutput (length (d_ss d ++ hyp l ++ w1)) (length expr) r
              (length (d_ss d ++ hyp l ++ w1 ++ expr ++ w2 ++ hyp r ++ d_se d)).
  Proof.
    intros H1 H2 Hst Hhn Hb. unfold match_at, block.
    rewrite !wordtag_not_ts by apply ts_not_ss.
    rewrite m_comment_not by (intros; apply cs_not_ss; auto).
    rewrite m_output_ok by auto. reflexivity.
  Qed.

  Lemma match_at_raw l1 w1 w2 r1 body l2 w3 w4 r2 rest :
    all_space w1 = true -> all_space w2 = true -> all_space w3 = true -> all_space w4 = true ->
    forallb (fun c => negb (N.eqb c (hd0 (d_ts d)))) body = true ->
    match_at d q (wtag d l1 w1 w_raw w2 r1 ++ body ++ wtag d l2 w3 w_endraw w4 r2 ++ rest)
    = MRaw r1 r2 (length (wtag d l1 w1 w_raw w2 r1)) (length body)
           (length (wtag d l1 w1 w_raw w2 r1) + (length body + length (wtag d l2 w3 w_endraw w4 r2))).
  Proof.
    intros. unfold match_at, wtag. rewrite block_ok by (auto using word_ok_raw, word_ok_endraw). reflexivity.
  Qed.

  Lemma match_at_doc l1 w1 w2 r1 body l2 w3 w4 r2 rest :
    all_space w1 = true -> all_space w2 = true -> all_space w3 = true -> all_space w4 = true ->
    forallb (fun c => negb (N.eqb c (hd0 (d_ts d)))) body = true ->
    match_at d q (wtag d l1 w1 w_doc w2 r1 ++ body ++ wtag d l2 w3 w_enddoc w4 r2 ++ rest)
    = MDoc r1 r2 (length (wtag d l1 w1 w_doc w2 r1)) (length body)
           (length (wtag d l1 w1 w_doc w2 r1) + (length body + length (wtag d l2 w3 w_enddoc w4 r2))).
  Proof.
    intros. unfold match_at.
    assert (E : block d w_raw w_endraw (wtag d l1 w1 w_doc w2 r1 ++ body ++ wtag d l2 w3 w_enddoc w4 r2 ++ rest) = None).
    { unfold block, wtag. norm_app. rewrite (wordtag_mismatch d w_raw); auto using word_ok_raw; reflexivity. }
    rewrite E. unfold wtag. rewrite block_ok by (auto using word_ok_doc, word_ok_enddoc). reflexivity.
  Qed.

  Lemma match_at_short y r rest : nonempty (d_cs d) = true -> cbody_ok (d_ce d) y ->
    match_at d q (d_cs d ++ y ++ hyp r ++ d_ce d ++ rest)
    = MComment (length (d_cs d)) (length y) r (length (d_cs d ++ y ++ hyp r ++ d_ce d)).
  Proof.
    intros Hcs Hy. unfold match_at, block.
    rewrite !wordtag_not_ts by (apply ts_not_cs; auto).
    rewrite m_comment_ok by auto. reflexivity.
  Qed.
End Shapes.

(* ---------------------------------------------------------------- the loop *)
Lemma off_0 p : off p 0 = p. Proof. unfold off. simpl. apply N.add_0_r. Qed.
Lemma off_S p k : off (N.succ p) k = off p (S k). Proof. unfold off. lia. Qed.

Lemma go_skip d q k : forall p s st, k <= length s -> go d q k p s st = go d q 0 (off p k) (skipn k s) st.
Proof.
  induction k; intros p s st H.
  - rewrite off_0. reflexivity.
  - destruct s as [|c s]; simpl in H; [lia|]. cbn [go skipn]. rewrite IHk by lia. rewrite off_S. reflexivity.
Qed.

Lemma go_step d q p s st out st' tot :
  step d q p s st = (out, st', tot) -> 1 <= tot <= length s ->
  go d q 0 p s st = out ++ go d q 0 (off p tot) (skipn tot s) st'.
Proof.
  intros Hs Ht. destruct s as [|c s]; simpl in Ht; [lia|]. cbn [go]. rewrite Hs.
  destruct tot; [lia|]. cbn [pred]. rewrite go_skip by lia. rewrite off_S. reflexivity.
Qed.

(* the match covers exactly the piece x of  x ++ rest *)
Lemma go_piece d q p x rest st out st' :
  step d q p (x ++ rest) st = (out, st', length x) -> x <> [] ->
  go d q 0 p (x ++ rest) st = out ++ go d q 0 (off p (length x)) rest st'.
Proof.
  intros Hs Hx. erewrite go_step; eauto. rewrite skipn_app_len. reflexivity.
  rewrite app_length. destruct x; [congruence|]. simpl. lia.
Qed.

Definition mk (b : bool) (ci : N) (ct : str) : lstate :=
  {| ls_lstrip := b; ls_depth := 0; ls_cidx := ci; ls_ctext := ct |}.

(* step, by kind of match, outside a block comment *)
Lemma step_MTag0 d q p s b ci ct no nlen eo el h tot :
  match_at d q s = MTag no nlen eo el h tot ->
  step d q p s (mk b ci ct)
  = (Tok {| t_kind := KTag; t_value := sub s no nlen; t_start := off p no |}
       :: match el with O => [] | _ => [Tok {| t_kind := KExpr; t_value := sub s eo el; t_start := off p eo |}] end,
     {| ls_lstrip := h; ls_depth := if str_eqb (sub s no nlen) w_comment then 1 else 0;
        ls_cidx := if str_eqb (sub s no nlen) w_comment then off p tot else ci; ls_ctext := ct |}, tot).
Proof. intros H. unfold step. rewrite H. reflexivity. Qed.

Lemma step_MOutput0 d q p s b ci ct eo el h tot :
  match_at d q s = MOutput eo el h tot ->
  step d q p s (mk b ci ct)
  = ([Tok {| t_kind := KOutput; t_value := firstn tot s; t_start := p |};
      Tok {| t_kind := KExpr; t_value := sub s eo el; t_start := off p eo |}], mk h ci ct, tot).
Proof. intros H. unfold step. rewrite H. reflexivity. Qed.

Lemma step_MRaw0 d p s b ci ct h1 h2 bo bl tot :
  match_at d fixed s = MRaw h1 h2 bo bl tot ->
  step d fixed p s (mk b ci ct)
  = ([Tok {| t_kind := KContent; t_value := sub s bo bl; t_start := p |}], mk h2 ci ct, tot).
Proof. intros H. unfold step. rewrite H. reflexivity. Qed.

Lemma step_MDoc0 d q p s b ci ct h1 h2 bo bl tot :
  match_at d q s = MDoc h1 h2 bo bl tot ->
  step d q p s (mk b ci ct)
  = ([Tok {| t_kind := KDoc; t_value := sub s bo bl; t_start := p |}], mk h2 ci ct, tot).
Proof. intros H. unfold step. rewrite H. reflexivity. Qed.

Lemma step_MComment0 d q p s b ci ct bo bl h tot :
  match_at d q s = MComment bo bl h tot ->
  step d q p s (mk b ci ct)
  = ([Tok {| t_kind := KShort; t_value := sub s bo bl; t_start := p |}], mk h ci ct, tot).
Proof. intros H. unfold step. rewrite H. reflexivity. Qed.

Lemma step_MContent0 d q p s b ci ct tot h :
  match_at d q s = MContent tot h ->
  step d q p s (mk b ci ct)
  = (match strip_text b h (firstn tot s) with
     | [] => []
     | v => if starts_markup d q v then [LexErr p] else [Tok {| t_kind := KContent; t_value := v; t_start := p |}]
     end, mk b ci ct, tot).
Proof.
  intros H. unfold step. rewrite H. cbn [m_total ls_depth mk ls_lstrip]. unfold strip_text.
  destruct (if h then _ else _); reflexivity.
Qed.

(* inside a block comment (depth 1) *)
Definition mk1 (b : bool) (ci : N) (ct : str) : lstate :=
  {| ls_lstrip := b; ls_depth := 1; ls_cidx := ci; ls_ctext := ct |}.

Lemma step_MContent1 d q p s b ci ct tot h :
  match_at d q s = MContent tot h ->
  step d q p s (mk1 b ci ct) = ([], mk1 b ci (ct ++ firstn tot s), tot).
Proof. intros H. unfold step. rewrite H. reflexivity. Qed.

Lemma step_MTag1_end d q p s b ci ct no nlen eo el h tot :
  match_at d q s = MTag no nlen eo el h tot -> sub s no nlen = w_endcomment ->
  step d q p s (mk1 b ci ct)
  = ([Tok {| t_kind := KComment; t_value := ct; t_start := ci |};
      Tok {| t_kind := KTag; t_value := w_endcomment; t_start := off p no |}], mk h 0%N [], tot).
Proof. intros H Hn. unfold step. rewrite H. cbn [m_total ls_depth mk1]. rewrite Hn. reflexivity. Qed.

(* ---------------------------------------------------------------- rendering a token list piecewise *)
Definition hne (ts : list token) : Prop := match ts with t :: _ => t_kind t <> KExpr | [] => True end.

Definition renders (d : delims) (p : N) (s : str) (st : lstate) (X : str) : Prop :=
  exists ts, items_result (go d fixed 0 p s st) = Ok ts /\ hne ts /\ render_toks PTop ts = ROut X.

Lemma items_result_app toks l :
  items_result (map Tok toks ++ l) = match items_result l with Ok ts => Ok (toks ++ ts) | e => e end.
Proof.
  induction toks as [|t toks IH]; simpl.
  - destruct (items_result l); reflexivity.
  - rewrite IH. destruct (items_result l); reflexivity.
Qed.

Definition piece_ok (toks : list token) (Y : str) : Prop :=
  forall ts', hne ts' -> hne (toks ++ ts') /\ render_toks PTop (toks ++ ts') = rprepend Y (render_toks PTop ts').

Lemma renders_step d p s st toks p' s' st' Y X :
  go d fixed 0 p s st = map Tok toks ++ go d fixed 0 p' s' st' ->
  piece_ok toks Y -> renders d p' s' st' X -> renders d p s st (Y ++ X).
Proof.
  intros Hgo Hp (ts' & H1 & H2 & H3). exists (toks ++ ts').
  rewrite Hgo, items_result_app, H1. destruct (Hp ts' H2) as [Ha Hb].
  repeat split; auto. rewrite Hb, H3. reflexivity.
Qed.

(* ---------------------------------------------------------------- text pieces *)
Lemma forallb_skipn {A} (f : A -> bool) k l : forallb f l = true -> forallb f (skipn k l) = true.
Proof.
  revert l; induction k; intros l H; simpl; auto. destruct l; auto. simpl in H. apply andb_true_iff in H. apply IHk. tauto.
Qed.

Lemma forallb_rev {A} (f : A -> bool) l : forallb f (rev l) = forallb f l.
Proof.
  induction l; simpl; auto. rewrite forallb_app, IHl. simpl. rewrite andb_true_r. apply andb_comm.
Qed.

Lemma plain_lstrip d t : plain d t = true -> plain d (lstrip_s t) = true.
Proof. intros. apply forallb_skipn; auto. Qed.

Lemma plain_rstrip d t : plain d t = true -> plain d (rstrip_s t) = true.
Proof.
  intros H. unfold rstrip_s, plain. rewrite forallb_rev. apply plain_lstrip. unfold plain. rewrite forallb_rev. exact H.
Qed.

Lemma plain_strip d a b t : plain d t = true -> plain d (strip_text a b t) = true.
Proof. intros H. unfold strip_text. destruct a, b; auto using plain_lstrip, plain_rstrip. Qed.

Lemma plain_not_markup d v : dfacts d -> plain d v = true -> starts_markup d fixed v = false.
Proof.
  intros F. unfold starts_markup. cbn [q_brace fixed]. destruct v as [|c v]; intros H.
  - rewrite !prefixb_nil by apply F. reflexivity.
  - simpl in H. apply andb_true_iff in H as [H _]. rewrite plain_not_ss, plain_not_ts by auto. reflexivity.
Qed.

Lemma rprepend_nil r : rprepend [] r = r.
Proof. destruct r; reflexivity. Qed.

Lemma piece_text v p :
  piece_ok (match v with [] => [] | n :: l => [{| t_kind := KContent; t_value := n :: l; t_start := p |}] end) v.
Proof.
  intros ts' H. destruct v.
  - cbn [app]. rewrite rprepend_nil. auto.
  - split; [simpl; discriminate | reflexivity].
Qed.

Lemma go_text d p c t after h b ci ct : dfacts d -> plain d (c :: t) = true -> follows d after h ->
  go d fixed 0 p ((c :: t) ++ after) (mk b ci ct)
  = map Tok (match strip_text b h (c :: t) with
             | [] => []
             | v => [{| t_kind := KContent; t_value := v; t_start := p |}]
             end)
    ++ go d fixed 0 (off p (length (c :: t))) after (mk b ci ct).
Proof.
  intros F Hp Hf. erewrite go_piece; [ | | discriminate].
  2: { erewrite step_MContent0 by (apply match_at_text; eauto). reflexivity. }
  rewrite firstn_app_len. f_equal.
  pose proof (plain_strip d b h _ Hp) as Hv. destruct (strip_text b h (c :: t)) eqn:E; auto.
  cbv zeta. rewrite (plain_not_markup d) by auto. reflexivity.
Qed.

(* ---------------------------------------------------------------- what follows a text *)
Lemma delim_at_ts d l X : hyphen_next X = false -> delim_at d (d_ts d ++ hyp l ++ X) = Some l.
Proof.
  intros H. unfold delim_at. rewrite prefixb_app, skipn_app_len. destruct l; cbn [hyp app]; [reflexivity|].
  rewrite H. reflexivity.
Qed.

Lemma tight_facts e x : tight e x = true ->
  body_ok e x /\ (forall s, stops s -> stops (x ++ s)) /\ (x <> [] -> is_space (hd0 x) = false).
Proof.
  unfold tight. intros H. apply andb_true_iff in H as [H1 H2]. destruct x as [|c x].
  - repeat split; auto; try congruence.
  - apply andb_true_iff in H2 as [H2 H4]. apply andb_true_iff in H2 as [H2 H3].
    apply negb_true_iff in H2, H3, H4. repeat split; auto.
Qed.

Lemma sub_at (a b c s : str) : s = a ++ b ++ c -> sub s (length a) (length b) = b.
Proof. intros ->. apply sub_app_len. Qed.

Lemma str_lit_ok q e : quote_ok q = true -> lit_ok q e = true -> str_lit (q :: e ++ [q]) = Some e.
Proof.
  unfold quote_ok, lit_ok, str_lit. intros Hq He. rewrite Hq, rev_unit, N.eqb_refl, forallb_rev, He.
  cbn [andb]. rewrite rev_involutive. reflexivity.
Qed.

Lemma no_nl_valid body : forallb (fun c => negb (N.eqb c nl)) body = true -> invalid_inline body = false.
Proof.
  induction body as [|c r IH]; [reflexivity|]. simpl. intros H. apply andb_true_iff in H as [H1 H2].
  apply negb_true_iff in H1. rewrite H1, IH by auto. reflexivity.
Qed.

(* ---------------------------------------------------------------- markup pieces *)
Definition markup_steps (d : delims) (m : markup) : Prop :=
  forall p b ci ct rest, exists toks p' ci' ct',
    go d fixed 0 p (msrc d m ++ rest) (mk b ci ct)
    = map Tok toks ++ go d fixed 0 p' rest (mk (closes m) ci' ct')
    /\ piece_ok toks (mout m).

Lemma app_ne (a b : str) : nonempty a = true -> a ++ b <> [].
Proof. destruct a; simpl; intros; congruence. Qed.

Ltac split_and H :=
  repeat match type of H with
         | _ && _ = true => let H' := fresh "W" in apply andb_true_iff in H; destruct H as [H H']
         end.

Lemma steps_out d l w1 q e w2 r : dfacts d -> wf_markup d (MkOut l w1 q e w2 r) = true ->
  markup_steps d (MkOut l w1 q e w2 r).
Proof.
  intros F H. cbn [wf_markup] in H.
  apply andb_true_iff in H as [H Ht]. apply andb_true_iff in H as [H Hl]. apply andb_true_iff in H as [H Hq].
  apply andb_true_iff in H as [H1 H2].
  destruct (tight_facts _ _ Ht) as (Hb & Hst & Hhd). destruct (quote_facts q Hq) as (Q1 & Q2 & Q3 & Q4).
  intros p b ci ct rest. set (M := MkOut l w1 q e w2 r). set (E := q :: e ++ [q]) in *.
  assert (HM : match_at d fixed (msrc d M ++ rest)
               = MOutput (length (d_ss d ++ hyp l ++ w1)) (length E) r (length (msrc d M))).
  { unfold M. cbn [msrc]. fold E. norm_app. apply match_at_out; auto. }
  assert (Hsub : sub (msrc d M ++ rest) (length (d_ss d ++ hyp l ++ w1)) (length E) = E).
  { apply sub_at with (c := w2 ++ hyp r ++ d_se d ++ rest). unfold M. cbn [msrc]. fold E. norm_app. reflexivity. }
  exists [ {| t_kind := KOutput; t_value := firstn (length (msrc d M)) (msrc d M ++ rest); t_start := p |};
           {| t_kind := KExpr; t_value := E; t_start := off p (length (d_ss d ++ hyp l ++ w1)) |} ],
         (off p (length (msrc d M))), ci, ct.
  split.
  - erewrite go_piece; [ reflexivity | erewrite step_MOutput0 by exact HM; rewrite Hsub; reflexivity | ].
    unfold M. cbn [msrc]. apply app_ne, F.
  - intros ts' Hh. split; [simpl; discriminate|].
    cbn [app render_toks t_kind t_value mout M]. unfold E. rewrite str_lit_ok by auto. reflexivity.
Qed.

Lemma word_len_after_name w2 (X : str) :
  all_space w2 = true -> (is_word (hd0 X) = false) -> word_len (w2 ++ X) = 0.
Proof.
  intros H HX. destruct w2 as [|c w2].
  - destruct X; [reflexivity|]. apply word_len_stop. exact HX.
  - simpl in H. apply andb_true_iff in H as [Hc _]. cbn [app]. apply word_len_stop, space_not_word; auto.
Qed.

Lemma steps_echo d l w1 w2 q e w3 r : dfacts d -> wf_markup d (MkEcho l w1 w2 q e w3 r) = true ->
  markup_steps d (MkEcho l w1 w2 q e w3 r).
Proof.
  intros F H. cbn [wf_markup] in H.
  apply andb_true_iff in H as [H Ht]. apply andb_true_iff in H as [H Hl]. apply andb_true_iff in H as [H Hq].
  apply andb_true_iff in H as [H H3]. apply andb_true_iff in H as [H1 H2].
  destruct (tight_facts _ _ Ht) as (Hb & Hst & Hhd). destruct (quote_facts q Hq) as (Q1 & Q2 & Q3 & Q4).
  intros p b ci ct rest. set (M := MkEcho l w1 w2 q e w3 r). set (E := q :: e ++ [q]) in *.
  assert (HM : match_at d fixed (msrc d M ++ rest)
               = MTag (length (d_ts d ++ hyp l ++ w1)) (length w_echo) (length (d_ts d ++ hyp l ++ w1 ++ w_echo ++ w2))
                      (length E) r (length (msrc d M))).
  { unfold M. cbn [msrc]. fold E. norm_app. apply match_at_tag; auto; try reflexivity.
    change (name_len (w_echo ++ w2 ++ E ++ w3 ++ hyp r ++ d_te d ++ rest))
      with (word_len (w_echo ++ w2 ++ E ++ w3 ++ hyp r ++ d_te d ++ rest)).
    rewrite word_len_app by reflexivity. rewrite word_len_after_name; auto. }
  assert (Hname : sub (msrc d M ++ rest) (length (d_ts d ++ hyp l ++ w1)) (length w_echo) = w_echo).
  { apply sub_at with (c := w2 ++ E ++ w3 ++ hyp r ++ d_te d ++ rest). unfold M. cbn [msrc]. fold E. norm_app. reflexivity. }
  assert (Hsub : sub (msrc d M ++ rest) (length (d_ts d ++ hyp l ++ w1 ++ w_echo ++ w2)) (length E) = E).
  { apply sub_at with (c := w3 ++ hyp r ++ d_te d ++ rest). unfold M. cbn [msrc]. fold E. norm_app. reflexivity. }
  exists [ {| t_kind := KTag; t_value := w_echo; t_start := off p (length (d_ts d ++ hyp l ++ w1)) |};
           {| t_kind := KExpr; t_value := E; t_start := off p (length (d_ts d ++ hyp l ++ w1 ++ w_echo ++ w2)) |} ],
         (off p (length (msrc d M))), ci, ct.
  split.
  - erewrite go_piece; [ reflexivity | erewrite step_MTag0 by exact HM; rewrite Hname, Hsub; reflexivity | ].
    unfold M. cbn [msrc]. apply app_ne, F.
  - intros ts' Hh. split; [simpl; discriminate|].
    cbn [app render_toks t_kind t_value mout M]. unfold E.
    change (str_eqb w_echo w_hash) with false. change (str_eqb w_echo w_comment) with false.
    change (str_eqb w_echo w_doc) with false. change (str_eqb w_echo w_echo) with true. cbv iota.
    rewrite str_lit_ok by auto. reflexivity.
Qed.

Lemma steps_inline d l w1 w2 body w3 r : dfacts d -> wf_markup d (MkInline l w1 w2 body w3 r) = true ->
  markup_steps d (MkInline l w1 w2 body w3 r).
Proof.
  intros F H. cbn [wf_markup] in H.
  apply andb_true_iff in H as [H Hw3]. apply andb_true_iff in H as [H Hnl]. apply andb_true_iff in H as [H Ht].
  apply andb_true_iff in H as [H H3]. apply andb_true_iff in H as [H1 H2].
  destruct (tight_facts _ _ Ht) as (Hb & Hst & Hhd).
  intros p b ci ct rest. set (M := MkInline l w1 w2 body w3 r).
  assert (Hstop : stops (body ++ w3 ++ hyp r ++ d_te d ++ rest)).
  { destruct body as [|c body'].
    - cbn [nonempty orb negb] in Hw3. destruct w3; [|discriminate]. cbn [app]. apply stops_hyp_e; apply F.
    - simpl. apply (Hhd ltac:(discriminate)). }
  assert (HM : match_at d fixed (msrc d M ++ rest)
               = MTag (length (d_ts d ++ hyp l ++ w1)) (length w_hash) (length (d_ts d ++ hyp l ++ w1 ++ w_hash ++ w2))
                      (length body) r (length (msrc d M))).
  { unfold M. cbn [msrc]. norm_app. apply match_at_tag; auto; reflexivity. }
  assert (Hname : sub (msrc d M ++ rest) (length (d_ts d ++ hyp l ++ w1)) (length w_hash) = w_hash).
  { apply sub_at with (c := w2 ++ body ++ w3 ++ hyp r ++ d_te d ++ rest). unfold M. cbn [msrc]. norm_app. reflexivity. }
  assert (Hsub : sub (msrc d M ++ rest) (length (d_ts d ++ hyp l ++ w1 ++ w_hash ++ w2)) (length body) = body).
  { apply sub_at with (c := w3 ++ hyp r ++ d_te d ++ rest). unfold M. cbn [msrc]. norm_app. reflexivity. }
  exists ({| t_kind := KTag; t_value := w_hash; t_start := off p (length (d_ts d ++ hyp l ++ w1)) |}
          :: match length body with
             | O => []
             | _ => [ {| t_kind := KExpr; t_value := body;
                         t_start := off p (length (d_ts d ++ hyp l ++ w1 ++ w_hash ++ w2)) |} ]
             end),
         (off p (length (msrc d M))), ci, ct.
  split.
  - erewrite go_piece; [ | erewrite step_MTag0 by exact HM; rewrite Hname, Hsub; reflexivity | ].
    + destruct (length body); reflexivity.
    + unfold M. cbn [msrc]. apply app_ne, F.
  - intros ts' Hh. split; [simpl; discriminate|]. cbn [mout M]. rewrite rprepend_nil.
    destruct body as [|c body'].
    + cbn [length app render_toks t_kind t_value]. change (str_eqb w_hash w_hash) with true. cbv iota.
      destruct ts' as [|t ts'']; [reflexivity|]. simpl in Hh. destruct (t_kind t); try reflexivity. congruence.
    + cbn [length app render_toks t_kind t_value]. change (str_eqb w_hash w_hash) with true. cbv iota.
      rewrite no_nl_valid by auto. reflexivity.
Qed.

Lemma steps_raw d l1 w1 w2 r1 body l2 w3 w4 r2 : dfacts d ->
  wf_markup d (MkRaw l1 w1 w2 r1 body l2 w3 w4 r2) = true -> markup_steps d (MkRaw l1 w1 w2 r1 body l2 w3 w4 r2).
Proof.
  intros F H. cbn [wf_markup] in H.
  apply andb_true_iff in H as [H Hb]. apply andb_true_iff in H as [H H4]. apply andb_true_iff in H as [H H3].
  apply andb_true_iff in H as [H1 H2].
  intros p b ci ct rest. set (M := MkRaw l1 w1 w2 r1 body l2 w3 w4 r2).
  set (t1 := wtag d l1 w1 w_raw w2 r1). set (t2 := wtag d l2 w3 w_endraw w4 r2).
  assert (HM : match_at d fixed (msrc d M ++ rest) = MRaw r1 r2 (length t1) (length body) (length (msrc d M))).
  { unfold M. cbn [msrc]. fold t1 t2. norm_app. unfold t1, t2. rewrite match_at_raw by auto.
    f_equal. rewrite !app_length. lia. }
  assert (Hsub : sub (msrc d M ++ rest) (length t1) (length body) = body).
  { apply sub_at with (c := t2 ++ rest). unfold M. cbn [msrc]. fold t1 t2. norm_app. reflexivity. }
  exists [ {| t_kind := KContent; t_value := body; t_start := p |} ], (off p (length (msrc d M))), ci, ct.
  split.
  - erewrite go_piece; [ reflexivity | erewrite step_MRaw0 by exact HM; rewrite Hsub; reflexivity | ].
    unfold M. cbn [msrc]. unfold wtag. norm_app. apply app_ne, F.
  - intros ts' Hh. split; [simpl; discriminate|]. reflexivity.
Qed.

Lemma steps_doc d l1 w1 w2 r1 body l2 w3 w4 r2 : dfacts d ->
  wf_markup d (MkDoc l1 w1 w2 r1 body l2 w3 w4 r2) = true -> markup_steps d (MkDoc l1 w1 w2 r1 body l2 w3 w4 r2).
Proof.
  intros F H. cbn [wf_markup] in H.
  apply andb_true_iff in H as [H Hb]. apply andb_true_iff in H as [H H4]. apply andb_true_iff in H as [H H3].
  apply andb_true_iff in H as [H1 H2].
  intros p b ci ct rest. set (M := MkDoc l1 w1 w2 r1 body l2 w3 w4 r2).
  set (t1 := wtag d l1 w1 w_doc w2 r1). set (t2 := wtag d l2 w3 w_enddoc w4 r2).
  assert (HM : match_at d fixed (msrc d M ++ rest) = MDoc r1 r2 (length t1) (length body) (length (msrc d M))).
  { unfold M. cbn [msrc]. fold t1 t2. norm_app. unfold t1, t2. rewrite match_at_doc by auto.
    f_equal. rewrite !app_length. lia. }
  exists [ {| t_kind := KDoc; t_value := sub (msrc d M ++ rest) (length t1) (length body); t_start := p |} ],
         (off p (length (msrc d M))), ci, ct.
  split.
  - erewrite go_piece; [ reflexivity | erewrite step_MDoc0 by exact HM; reflexivity | ].
    unfold M. cbn [msrc]. unfold wtag. norm_app. apply app_ne, F.
  - intros ts' Hh. split; [simpl; discriminate|]. cbn [mout M]. rewrite rprepend_nil. reflexivity.
Qed.

Lemma last0_app_cons a c b : last0 (a ++ c :: b) = last0 (c :: b).
Proof. unfold last0. induction a as [|x a IH]; auto. simpl app. rewrite <- IH. destruct (a ++ c :: b) eqn:E; auto.
  destruct a; discriminate. Qed.

Lemma steps_short d l body r : dfacts d -> wf_markup d (MkShort l body r) = true -> markup_steps d (MkShort l body r).
Proof.
  intros F H. cbn [wf_markup] in H.
  apply andb_true_iff in H as [H Hm]. apply andb_true_iff in H as [Hcs Hb].
  intros p b ci ct rest. set (M := MkShort l body r).
  pose proof (ce_nhy d F) as Hce.
  assert (Hy : cbody_ok (d_ce d) (hyp l ++ body)).
  { split.
    - rewrite forallb_app, Hb, andb_true_r. destruct l; cbn [hyp forallb]; auto.
      rewrite N.eqb_sym, Hce. reflexivity.
    - destruct body as [|c body'].
      + apply andb_true_iff in Hm as [Hl _]. apply negb_true_iff in Hl. subst l. cbn [hyp app]. congruence.
      + intros _. apply andb_true_iff in Hm as [_ Hlast]. apply negb_true_iff in Hlast.
        rewrite last0_app_cons. exact Hlast. }
  assert (HM : match_at d fixed (msrc d M ++ rest)
               = MComment (length (d_cs d)) (length (hyp l ++ body)) r (length (msrc d M))).
  { unfold M. cbn [msrc]. norm_app. rewrite (app_assoc (hyp l) body). rewrite match_at_short by auto.
    f_equal. rewrite !app_length. lia. }
  exists [ {| t_kind := KShort; t_value := sub (msrc d M ++ rest) (length (d_cs d)) (length (hyp l ++ body)); t_start := p |} ],
         (off p (length (msrc d M))), ci, ct.
  split.
  - erewrite go_piece; [ reflexivity | erewrite step_MComment0 by exact HM; reflexivity | ].
    unfold M. cbn [msrc]. apply app_ne; auto.
  - intros ts' Hh. split; [simpl; discriminate|]. cbn [mout M]. rewrite rprepend_nil. reflexivity.
Qed.

Lemma go_piece1 d q p x rest st out st' :
  step d q p (x ++ rest) st = (out, st', length x) -> x <> [] ->
  go d q 0 p (x ++ rest) st = out ++ go d q 0 (off p (length x)) rest st'.
Proof. apply go_piece. Qed.

Lemma steps_comment d l1 w1 w2 r1 body l2 w3 w4 r2 : dfacts d ->
  wf_markup d (MkComment l1 w1 w2 r1 body l2 w3 w4 r2) = true ->
  markup_steps d (MkComment l1 w1 w2 r1 body l2 w3 w4 r2).
Proof.
  intros F H. cbn [wf_markup] in H.
  apply andb_true_iff in H as [H Hb]. apply andb_true_iff in H as [H H4]. apply andb_true_iff in H as [H H3].
  apply andb_true_iff in H as [H1 H2].
  intros p b ci ct rest. set (M := MkComment l1 w1 w2 r1 body l2 w3 w4 r2).
  set (t1 := wtag d l1 w1 w_comment w2 r1). set (t2 := wtag d l2 w3 w_endcomment w4 r2).
  (* the opening tag *)
  assert (HM1 : forall after, match_at d fixed (t1 ++ after)
               = MTag (length (d_ts d ++ hyp l1 ++ w1)) (length w_comment) (length (d_ts d ++ hyp l1 ++ w1 ++ w_comment ++ w2))
                      0 r1 (length t1)).
  { intros after. unfold t1, wtag. norm_app.
    pose proof (match_at_tag d fixed F l1 w1 w_comment w2 [] [] r1 after) as HT. cbn [app length] in HT.
    apply HT; auto; try reflexivity.
    - change (name_len (w_comment ++ w2 ++ hyp r1 ++ d_te d ++ after))
        with (word_len (w_comment ++ w2 ++ hyp r1 ++ d_te d ++ after)).
      rewrite word_len_app by reflexivity. rewrite word_stop; auto.
    - apply stops_hyp_e; apply F.
    - split; [reflexivity | congruence]. }
  assert (HM3 : match_at d fixed (t2 ++ rest)
               = MTag (length (d_ts d ++ hyp l2 ++ w3)) (length w_endcomment)
                      (length (d_ts d ++ hyp l2 ++ w3 ++ w_endcomment ++ w4)) 0 r2 (length t2)).
  { unfold t2, wtag. norm_app.
    pose proof (match_at_tag d fixed F l2 w3 w_endcomment w4 [] [] r2 rest) as HT. cbn [app length] in HT.
    apply HT; auto; try reflexivity.
    - change (name_len (w_endcomment ++ w4 ++ hyp r2 ++ d_te d ++ rest))
        with (word_len (w_endcomment ++ w4 ++ hyp r2 ++ d_te d ++ rest)).
      rewrite word_len_app by reflexivity. rewrite word_stop; auto.
    - apply stops_hyp_e; apply F.
    - split; [reflexivity | congruence]. }
  assert (Hn1 : forall after, sub (t1 ++ after) (length (d_ts d ++ hyp l1 ++ w1)) (length w_comment) = w_comment).
  { intros after. apply sub_at with (c := w2 ++ hyp r1 ++ d_te d ++ after). unfold t1, wtag. norm_app. reflexivity. }
  assert (Hn3 : sub (t2 ++ rest) (length (d_ts d ++ hyp l2 ++ w3)) (length w_endcomment) = w_endcomment).
  { apply sub_at with (c := w4 ++ hyp r2 ++ d_te d ++ rest). unfold t2, wtag. norm_app. reflexivity. }
  assert (Hne1 : t1 <> []). { unfold t1, wtag. apply app_ne, F. }
  assert (Hne2 : t2 <> []). { unfold t2, wtag. apply app_ne, F. }
  (* first iteration: the comment tag, depth becomes 1 *)
  assert (G1 : go d fixed 0 p (msrc d M ++ rest) (mk b ci ct)
               = [Tok {| t_kind := KTag; t_value := w_comment; t_start := off p (length (d_ts d ++ hyp l1 ++ w1)) |}]
                 ++ go d fixed 0 (off p (length t1)) (body ++ t2 ++ rest) (mk1 r1 (off p (length t1)) ct)).
  { unfold M. cbn [msrc]. fold t1 t2. norm_app.
    erewrite go_piece; [ reflexivity | | exact Hne1 ].
    erewrite step_MTag0 by apply HM1. rewrite Hn1. reflexivity. }
  (* second iteration (if the body is not empty): content appended to the comment text *)
  assert (G2 : exists ct', go d fixed 0 (off p (length t1)) (body ++ t2 ++ rest) (mk1 r1 (off p (length t1)) ct)
               = go d fixed 0 (off (off p (length t1)) (length body)) (t2 ++ rest) (mk1 r1 (off p (length t1)) ct')).
  { destruct body as [|c body'].
    - exists ct. cbn [app length]. rewrite off_0. reflexivity.
    - exists (ct ++ c :: body').
      erewrite go_piece; [ | | discriminate ].
      2: { erewrite step_MContent1.
           2: { apply match_at_text with (h := l2); auto. right. unfold t2, wtag. norm_app.
                apply delim_at_ts. apply hyphen_next_space_or; auto. }
           rewrite firstn_app_len. reflexivity. }
      reflexivity. }
  destruct G2 as (ct' & G2).
  (* third iteration: endcomment closes the comment *)
  assert (G3 : forall p3 ci3, go d fixed 0 p3 (t2 ++ rest) (mk1 r1 ci3 ct')
               = [Tok {| t_kind := KComment; t_value := ct'; t_start := ci3 |};
                  Tok {| t_kind := KTag; t_value := w_endcomment; t_start := off p3 (length (d_ts d ++ hyp l2 ++ w3)) |}]
                 ++ go d fixed 0 (off p3 (length t2)) rest (mk r2 0%N [])).
  { intros p3 ci3. erewrite go_piece; [ reflexivity | | exact Hne2 ].
    erewrite step_MTag1_end; [reflexivity | exact HM3 | exact Hn3]. }
  eexists [ _; _; _ ], _, 0%N, []. split.
  - rewrite G1, G2, G3. cbn [closes M]. reflexivity.
  - intros ts' Hh. split; [simpl; discriminate|]. cbn [mout M]. rewrite rprepend_nil. reflexivity.
Qed.

Lemma markup_ok d m : dfacts d -> wf_markup d m = true -> markup_steps d m.
Proof.
  intros F H. destruct m.
  - apply steps_out; auto.
  - apply steps_echo; auto.
  - apply steps_inline; auto.
  - apply steps_raw; auto.
  - apply steps_doc; auto.
  - apply steps_comment; auto.
  - apply steps_short; auto.
Qed.

(* the look-ahead of a text that precedes a markup sees its opening delimiter and its marker *)
Lemma follows_markup d m rest : dfacts d -> wf_markup d m = true -> follows d (msrc d m ++ rest) (opens m).
Proof.
  intros F H. right. destruct m; cbn [msrc opens wf_markup] in *; unfold wtag; norm_app.
  - (* out *) split_and H. destruct (quote_facts q W1) as (_ & _ & Q3 & _).
    unfold delim_at. rewrite ts_not_ss by auto. rewrite prefixb_app, skipn_app_len.
    destruct l; cbn [hyp app]; [reflexivity|]. rewrite hyphen_next_space_or; auto.
  - (* echo *) split_and H. apply delim_at_ts. apply hyphen_next_space_or; auto.
  - (* inline *) split_and H. apply delim_at_ts. apply hyphen_next_space_or; auto.
  - (* raw *) split_and H. apply delim_at_ts. apply hyphen_next_space_or; auto.
  - (* doc *) split_and H. apply delim_at_ts. apply hyphen_next_space_or; auto.
  - (* comment *) split_and H. apply delim_at_ts. apply hyphen_next_space_or; auto.
  - (* short *) split_and H. unfold delim_at.
    rewrite ts_not_cs, ss_not_cs by auto. rewrite H, prefixb_app, skipn_app_len. cbn [andb].
    destruct l; cbn [hyp app]; [reflexivity|].
    destruct body as [|c body'].
    + apply andb_true_iff in W as [_ Wr]. apply negb_true_iff in Wr. subst r. cbn [hyp app].
      destruct (cs_facts d F H) as (Hce & _). pose proof (ce_nhy d F) as Hh.
      destruct (d_ce d); cbn [nonempty hd0 app hyphen_next] in *; [discriminate|]. rewrite Hh. reflexivity.
    + apply andb_true_iff in W as [Wc _]. apply negb_true_iff in Wc. cbn [app hyphen_next]. rewrite Wc. reflexivity.
Qed.

(* ---------------------------------------------------------------- the whole template *)
Lemma strip_text_nil a b : strip_text a b [] = [].
Proof. destruct a, b; reflexivity. Qed.

Lemma renders_nil d p st : renders d p [] st [].
Proof. exists []. repeat split. Qed.

Lemma renders_text d p t after h b ci ct X : dfacts d -> plain d t = true -> follows d after h ->
  (forall p', renders d p' after (mk b ci ct) X) ->
  renders d p (t ++ after) (mk b ci ct) (strip_text b h t ++ X).
Proof.
  intros F Hp Hf HX. destruct t as [|c t].
  - rewrite strip_text_nil. apply HX.
  - eapply renders_step; [ apply go_text; eauto | apply piece_text | apply HX ].
Qed.

Lemma scan_segs d : dfacts d -> forall segs tail, wf_segs d segs = true -> plain d tail = true ->
  forall p b ci ct, renders d p (build_segs d segs ++ tail) (mk b ci ct) (spec_from b segs tail).
Proof.
  intros F segs tail. induction segs as [|[t m] segs IH]; intros Hwf Htail p b ci ct.
  - cbn [build_segs app spec_from].
    rewrite <- (app_nil_r tail) at 1. rewrite <- (app_nil_r (strip_text b false tail)).
    apply renders_text; auto. left; auto. intros; apply renders_nil.
  - cbn [wf_segs forallb fst snd] in Hwf. apply andb_true_iff in Hwf as [Hm Hwf].
    apply andb_true_iff in Hm as [Ht Hm].
    cbn [build_segs spec_from]. norm_app.
    apply renders_text; auto using follows_markup.
    intros p1.
    destruct (markup_ok d m F Hm p1 b ci ct (build_segs d segs ++ tail)) as (toks & p2 & ci2 & ct2 & Hgo & Hpiece).
    eapply renders_step; [ exact Hgo | exact Hpiece | ]. apply IH; auto.
Qed.

(* C10, main statement (partial: see no_collision) *)
Theorem whitespace_control_partial : forall d tp, no_collision d tp = true ->
  render_src d (build d tp) = ROut (spec_render tp).
Proof.
  intros d [segs tail] H. unfold no_collision in H. cbn [fst snd] in H.
  apply andb_true_iff in H as [H Htail]. apply andb_true_iff in H as [Hd Hwf].
  pose proof (d_ok_facts d Hd) as F.
  destruct (scan_segs d F segs tail Hwf Htail 0%N false 0%N []) as (ts & H1 & _ & H3).
  unfold render_src, tokenize, tokenize_q, scan, build, spec_render. cbn [fst snd].
  change ls0 with (mk false 0%N []). rewrite H1. exact H3.
Qed.

(* ---------------------------------------------------------------- corollaries *)
(* text outside markup is output verbatim *)
Lemma text_verbatim d t : d_ok d = true -> plain d t = true -> render_src d t = ROut t.
Proof.
  intros Hd Ht. change t with (build d ([], t)) at 1.
  rewrite whitespace_control_partial; [reflexivity|]. unfold no_collision. cbn [fst snd wf_segs forallb]. rewrite Hd, Ht. reflexivity.
Qed.

(* one markup between two texts *)
Lemma one_markup d t1 m t2 : no_collision d ([(t1, m)], t2) = true ->
  render_src d (t1 ++ msrc d m ++ t2)
  = ROut (strip_text false (opens m) t1 ++ mout m ++ strip_text (closes m) false t2).
Proof.
  intros H. pose proof (whitespace_control_partial d ([(t1, m)], t2) H) as E.
  unfold build, spec_render in E. cbn [fst snd build_segs spec_from] in E.
  rewrite <- !app_assoc, app_nil_l in E. cbn [app] in E. exact E.
Qed.

(* the body of a raw block is output verbatim, whatever the four markers are *)
Lemma raw_verbatim d t1 l1 w1 w2 r1 body l2 w3 w4 r2 t2 :
  no_collision d ([(t1, MkRaw l1 w1 w2 r1 body l2 w3 w4 r2)], t2) = true ->
  render_src d (t1 ++ msrc d (MkRaw l1 w1 w2 r1 body l2 w3 w4 r2) ++ t2)
  = ROut (strip_text false l1 t1 ++ body ++ strip_text r2 false t2).
Proof. intros H. apply (one_markup d t1 _ t2 H). Qed.

(* comment, doc, shorthand-comment and inline-comment bodies are never output *)
Definition silent (m : markup) : bool :=
  match m with MkInline _ _ _ _ _ _ | MkDoc _ _ _ _ _ _ _ _ _ | MkComment _ _ _ _ _ _ _ _ _ | MkShort _ _ _ => true | _ => false end.

Lemma comments_silent d t1 m t2 : silent m = true -> no_collision d ([(t1, m)], t2) = true ->
  render_src d (t1 ++ msrc d m ++ t2) = ROut (strip_text false (opens m) t1 ++ strip_text (closes m) false t2).
Proof. intros Hs H. rewrite (one_markup d t1 m t2 H). destruct m; try discriminate; reflexivity. Qed.

(* reading aids for the specification itself *)
Lemma lstrip_spec t : exists w, t = w ++ lstrip_s t /\ all_space w = true /\ stops (lstrip_s t).
Proof.
  unfold lstrip_s. induction t as [|c t IH]; simpl.
  - exists []. repeat split.
  - destruct (is_space c) eqn:Hc.
    + destruct IH as (w & E & Hw & Hs). exists (c :: w). simpl. rewrite Hc, Hw. repeat split; auto. congruence.
    + exists []. repeat split. simpl. exact Hc.
Qed.

(* the same for the right side: what a hyphen on an OPENING delimiter removes from the end of the preceding text is
   whitespace only, and what remains ends with a non-space character (or is empty) *)
Lemma all_space_rev w : all_space (rev w) = all_space w.
Proof. unfold all_space. apply forallb_rev. Qed.

Lemma rstrip_spec t : exists w, t = rstrip_s t ++ w /\ all_space w = true /\ stops (rev (rstrip_s t)).
Proof.
  unfold rstrip_s. destruct (lstrip_spec (rev t)) as (w & E & Hw & Hs).
  exists (rev w). split; [|split].
  - rewrite <- rev_app_distr, <- E, rev_involutive. reflexivity.
  - rewrite all_space_rev. exact Hw.
  - rewrite rev_involutive. exact Hs.
Qed.

(* stripping is idempotent and leaves a text that has nothing more to strip untouched *)
Lemma lstrip_stops t : stops t -> lstrip_s t = t.
Proof. unfold lstrip_s. destruct t as [|c t]; simpl; [reflexivity|]. intros H. rewrite H. reflexivity. Qed.

Lemma lstrip_idem t : lstrip_s (lstrip_s t) = lstrip_s t.
Proof. destruct (lstrip_spec t) as (w & _ & _ & Hs). apply lstrip_stops. exact Hs. Qed.

Lemma rstrip_idem t : rstrip_s (rstrip_s t) = rstrip_s t.
Proof. unfold rstrip_s. rewrite rev_involutive, lstrip_idem. reflexivity. Qed.

Fixpoint no_markers (segs : list (str * markup)) : bool :=
  match segs with [] => true | (_, m) :: r => negb (opens m) && negb (closes m) && no_markers r end.

Fixpoint plain_concat (segs : list (str * markup)) (tail : str) : str :=
  match segs with [] => tail | (t, m) :: r => t ++ mout m ++ plain_concat r tail end.

(* without a hyphen no whitespace is removed *)
Lemma no_hyphen_no_strip segs tail : no_markers segs = true -> spec_from false segs tail = plain_concat segs tail.
Proof.
  induction segs as [|[t m] segs IH]; simpl; auto. intros H.
  apply andb_true_iff in H as [H Hr]. apply andb_true_iff in H as [Ho Hc].
  apply negb_true_iff in Ho, Hc. rewrite Ho, Hc. unfold strip_text at 1. rewrite IH; auto.
Qed.

(* C11 part 1: the rendering does not depend on the delimiters *)
Lemma delimiter_equivariance d1 d2 tp : no_collision d1 tp = true -> no_collision d2 tp = true ->
  render_src d1 (build d1 tp) = render_src d2 (build d2 tp).
Proof. intros H1 H2. rewrite !whitespace_control_partial; auto. Qed.
