(* C19 -- model of liquid/static_analysis.py (the _visit walk of analyze / analyze_async) over a mini
   template language with partials, and a tracing interpreter for the same language.
   No proofs here (StaticAnalysis_Proofs.v).

   Transcribed from /repo (after the three C19 fix: commits):
     static_analysis.py  analyze/_visit, _analyze_variables, _extract_filters, _StaticScope, the seen map
     ast.py              Node.children/expressions/template_scope/block_scope/partial_scope, Partial
     builtin/tags/*.py, extra/tags/{_with,macro_tag}.py   what each tag returns from those five methods and
                         what its render_to_output reads, binds and renders
     context.py          RenderContext.get / extend / copy (lookup order of the scope chain)
   The pre-fix walk is kept as visit_old / analyze_old (witnesses of the three defects).

   Not modelled (stated in the manifest): break/continue, ifchanged, inline snippets, filter VALUES (a filtered expression, a capture and the forloop object evaluate to the
   opaque value VOpq; the generator never lets an opaque value reach a condition, a loop or a with/for
   binding), the special path keys size/first/last, template names containing a dot, resource limits,
   error modes other than strict, hash collisions of Partial.key. *)
From LiquidVerif Require Import Prelude.

(* ------------------------------------------------------------------ names *)
Definition s_forloop : str := [102; 111; 114; 108; 111; 111; 112]%N.
Definition s_args : str := [97; 114; 103; 115]%N.
Definition s_kwargs : str := [107; 119; 97; 114; 103; 115]%N.
Definition s_for : str := [102; 111; 114]%N.
Definition s_if : str := [105; 102]%N.
Definition s_assign : str := [97; 115; 115; 105; 103; 110]%N.
Definition s_capture : str := [99; 97; 112; 116; 117; 114; 101]%N.
Definition s_with : str := [119; 105; 116; 104]%N.
Definition s_macro : str := [109; 97; 99; 114; 111]%N.
Definition s_call : str := [99; 97; 108; 108]%N.
Definition s_include : str := [105; 110; 99; 108; 117; 100; 101]%N.
Definition s_render : str := [114; 101; 110; 100; 101; 114]%N.
Definition s_increment : str := [105; 110; 99; 114; 101; 109; 101; 110; 116]%N.
Definition s_decrement : str := [100; 101; 99; 114; 101; 109; 101; 110; 116]%N.
Definition s_unless : str := [117; 110; 108; 101; 115; 115]%N.
Definition s_case : str := [99; 97; 115; 101]%N.
Definition s_tablerow : str := [116; 97; 98; 108; 101; 114; 111; 119]%N.
Definition s_tablerowloop : str := [116; 97; 98; 108; 101; 114; 111; 119; 108; 111; 111; 112]%N.
Definition s_cycle : str := [99; 121; 99; 108; 101]%N.
Definition s_echo : str := [101; 99; 104; 111]%N.
Definition s_liquid : str := [108; 105; 113; 117; 105; 100]%N.

(* ----------------------------------------------------------------- syntax *)
Inductive value :=
| VNil | VUndef | VOpq
| VBool (b : bool) | VInt (z : Z) | VStr (s : str)
| VList (l : list value) | VMap (m : list (str * value)).

(* a path may use, as a segment, another path, to any depth: a[b[c.d]] *)
Inductive path := Path (root : str) (segs : list seg)
with seg := SKey (s : str) | SIdx (z : Z) | SSub (q : path).
Definition p_root (p : path) : str := match p with Path r _ => r end.
Definition p_segs (p : path) : list seg := match p with Path _ s => s end.
Inductive atom := ALit (v : value) | AVar (p : path).
Record fcall := { f_name : str; f_args : list atom }.
Record expr := { e_left : atom; e_filters : list fcall }.
Inductive cond := CTruthy (a : atom) | CEq (a b : atom) | CAnd (c d : cond) | COr (c d : cond).

(* what a for / tablerow loop iterates over: a path or a range (a..b) *)
Inductive iter_src := IPath (p : path) | IRange (a b : atom).

(* the arguments of a for / tablerow loop: limit, offset (an expression or the word continue), reversed, cols *)
Inductive offset_arg := OffAtom (a : atom) | OffContinue.
Record loop_args := { la_limit : option atom; la_offset : option offset_arg; la_reversed : bool; la_cols : option atom }.
Definition la_none : loop_args := {| la_limit := None; la_offset := None; la_reversed := false; la_cols := None |}.

Inductive node :=
| NText
| NOutput (e : expr)
| NEcho (e : expr)
| NAssign (x : str) (e : expr)
| NCapture (x : str) (body : list node)
| NFor (x : str) (it : iter_src) (la : loop_args) (body els : list node)
| NTablerow (x : str) (it : iter_src) (la : loop_args) (body : list node)
| NIf (neg : bool) (c : cond) (thn : list node) (alts : list (cond * list node)) (els : list node)   (* neg: unless *)
| NElsif (c : cond) (body : list node)                 (* ConditionalBlockNode: a child of if/unless *)
| NCase (subj : atom) (whens : list (list atom * list node)) (els : list node)
| NWhen (subj : atom) (alts : list atom) (body : list node)    (* MultiExpressionBlockNode: a child of case *)
| NCycle (group : option atom) (args : list atom)
| NLiquid (body : list node)
| NWith (binds : list (str * atom)) (body : list node)
| NMacro (m : str) (params : list (str * option atom)) (body : list node)
| NCall (m : str) (pos : list atom) (kws : list (str * atom))
| NInclude (p : str) (bind : option (path * option str)) (args : list (str * atom))
| NRender (p : str) (bind : option (bool * path * option str)) (args : list (str * atom))
| NIncrement (x : str)
| NDecrement (x : str).

(* a loader of named templates; the root template is looked up by name like any partial *)
Record prog := { pg_root : str; pg_tpls : list (str * list node) }.

(* ------------------------------------------- what a node shows to the walk *)
Definition plain (a : atom) : expr := {| e_left := a; e_filters := [] |}.
(* _analyze_variables on a Path: the path itself, then, in order, the paths used as its segments, each with
   the paths used in it (Path.children(), recursively) *)
Fixpoint all_paths (p : path) : list path :=
  match p with
  | Path _ segs =>
      p :: (fix go (l : list seg) : list path :=
              match l with
              | [] => []
              | SSub q :: l' => all_paths q ++ go l'
              | _ :: l' => go l'
              end) segs
  end.
Definition atom_paths (a : atom) : list path := match a with AVar p => all_paths p | ALit _ => [] end.
(* _analyze_variables: the left operand, then the arguments of each filter in order *)
Definition expr_paths (e : expr) : list path :=
  atom_paths (e_left e) ++ flat_map (fun f => flat_map atom_paths (f_args f)) (e_filters e).
Definition expr_filters (e : expr) : list str := map f_name (e_filters e).
Fixpoint cond_atoms (c : cond) : list atom :=
  match c with
  | CTruthy a => [a]
  | CEq a b => [a; b]
  | CAnd c d | COr c d => cond_atoms c ++ cond_atoms d
  end.

Definition bind_alias (p : str) (alias : option str) : str := match alias with Some a => a | None => p end.

Definition n_tag (n : node) : option str :=
  match n with
  | NText | NOutput _ | NElsif _ _ | NWhen _ _ _ => None
  | NEcho _ => Some s_echo
  | NTablerow _ _ _ _ => Some s_tablerow
  | NCase _ _ _ => Some s_case
  | NCycle _ _ => Some s_cycle
  | NLiquid _ => Some s_liquid
  | NDecrement _ => Some s_decrement
  | NAssign _ _ => Some s_assign
  | NCapture _ _ => Some s_capture
  | NFor _ _ _ _ _ => Some s_for
  | NIf neg _ _ _ _ => Some (if neg then s_unless else s_if)
  | NWith _ _ => Some s_with
  | NMacro _ _ _ => Some s_macro
  | NCall _ _ _ => Some s_call
  | NInclude _ _ _ => Some s_include
  | NRender _ _ _ => Some s_render
  | NIncrement _ => Some s_increment
  end.

Definition iter_exprs (it : iter_src) : list expr :=
  match it with IPath p => [plain (AVar p)] | IRange a b => [plain a; plain b] end.
Definition opt_atom (o : option atom) : list atom := match o with Some a => [a] | None => [] end.
(* LoopExpression.children() after the iterable: limit, offset, cols -- each if present, whichever others are *)
Definition la_atoms (la : loop_args) : list atom :=
  opt_atom (la_limit la) ++ match la_offset la with Some (OffAtom a) => [a] | _ => [] end ++ opt_atom (la_cols la).

Definition n_exprs (n : node) : list expr :=
  match n with
  | NOutput e | NEcho e | NAssign _ e => [e]
  | NFor _ it la _ _ | NTablerow _ it la _ => iter_exprs it ++ map plain (la_atoms la)
  | NIf _ c _ _ _ | NElsif c _ => map plain (cond_atoms c)
  | NCase subj _ _ => [plain subj]
  | NWhen _ alts _ => map plain alts        (* _AnyExpression.children(): the when values, not the subject *)
  | NCycle g args => map plain (opt_atom g ++ args)
  | NWith b _ => map (fun kv => plain (snd kv)) b
  | NMacro _ ps _ => flat_map (fun p => match snd p with Some a => [plain a] | None => [] end) ps
  | NCall _ pos kws => map plain pos ++ map (fun kv => plain (snd kv)) kws
  | NInclude _ b args =>
      match b with Some (vp, _) => [plain (AVar vp)] | None => [] end ++ map (fun kv => plain (snd kv)) args
  | NRender _ b args =>
      match b with Some (_, vp, _) => [plain (AVar vp)] | None => [] end ++ map (fun kv => plain (snd kv)) args
  | _ => []
  end.

Definition n_tscope (n : node) : list str :=
  match n with NAssign x _ | NCapture x _ | NIncrement x | NDecrement x => [x] | _ => [] end.

Definition n_bscope (n : node) : list str :=
  match n with
  | NFor x _ _ _ _ => [x; s_forloop]
  | NTablerow x _ _ _ => [x; s_tablerowloop]
  | NWith b _ => map fst b
  | NMacro _ ps _ => s_args :: s_kwargs :: map fst ps
  | _ => []
  end.

Definition n_children (n : node) : list node :=
  match n with
  | NCapture _ b | NWith _ b | NMacro _ _ b | NTablerow _ _ _ b | NElsif _ b | NWhen _ _ b | NLiquid b => b
  | NFor _ _ _ b e => b ++ e
  | NIf _ _ b alts e => b ++ map (fun cb => NElsif (fst cb) (snd cb)) alts ++ e
  | NCase subj whens e => map (fun ab => NWhen subj (fst ab) (snd ab)) whens ++ e
  | _ => []
  end.

(* Partial: name, isolated?, in_scope, key (None for include; the argument names for render) *)
Definition n_partial (n : node) : option (str * bool * list str * option (list str)) :=
  match n with
  | NInclude p b args =>
      Some (p, false, map fst args ++ match b with Some (_, al) => [bind_alias p al] | None => [] end, None)
  | NRender p b args =>
      Some (p, true, map fst args ++ match b with Some (_, _, al) => [bind_alias p al] | None => [] end,
            Some (map fst args))
  | _ => None
  end.

(* ------------------------------------------------------ the analysis state *)
Definition mem (x : str) (l : list str) : bool := existsb (str_eqb x) l.
Definition subset (a b : list str) : bool := forallb (fun x => mem x b) a.
Definition set_eqb (a b : list str) : bool := subset a b && subset b a.

(* entries of seen[name]: the None marker, or (Partial.key, frozenset of the names in scope) *)
Inductive skey := KMark | KPart (k : option (list str)) (vis : list str).
Definition skey_eqb (a b : skey) : bool :=
  match a, b with
  | KMark, KMark => true
  | KPart k v, KPart k' v' => option_eqb (list_eqb str_eqb) k k' && set_eqb v v'
  | _, _ => false
  end.

(* _StaticScope: stack[0] is sc_base, the pushed block scopes are sc_frames (top first) *)
Record scope := { sc_frames : list (list str); sc_base : list str }.
Definition sc_flat (s : scope) : list str := concat (sc_frames s) ++ sc_base s.
Definition sc_mem (x : str) (s : scope) : bool := mem x (sc_flat s).
Definition sc_push (f : list str) (s : scope) : scope := {| sc_frames := f :: sc_frames s; sc_base := sc_base s |}.
Definition sc_pop (s : scope) : scope := {| sc_frames := tl (sc_frames s); sc_base := sc_base s |}.
Definition sc_add (x : str) (s : scope) : scope := {| sc_frames := sc_frames s; sc_base := sc_base s ++ [x] |}.

Record astate := {
  a_vars : list path;  a_globals : list path;  a_locals : list str;
  a_filters : list str;  a_tags : list str;
  a_seen : list (str * list skey);
  a_scope : scope
}.
Definition set_vars v st := {| a_vars := v; a_globals := a_globals st; a_locals := a_locals st; a_filters := a_filters st;
  a_tags := a_tags st; a_seen := a_seen st; a_scope := a_scope st |}.
Definition set_globals v st := {| a_vars := a_vars st; a_globals := v; a_locals := a_locals st; a_filters := a_filters st;
  a_tags := a_tags st; a_seen := a_seen st; a_scope := a_scope st |}.
Definition set_locals v st := {| a_vars := a_vars st; a_globals := a_globals st; a_locals := v; a_filters := a_filters st;
  a_tags := a_tags st; a_seen := a_seen st; a_scope := a_scope st |}.
Definition set_filters v st := {| a_vars := a_vars st; a_globals := a_globals st; a_locals := a_locals st; a_filters := v;
  a_tags := a_tags st; a_seen := a_seen st; a_scope := a_scope st |}.
Definition set_tags v st := {| a_vars := a_vars st; a_globals := a_globals st; a_locals := a_locals st; a_filters := a_filters st;
  a_tags := v; a_seen := a_seen st; a_scope := a_scope st |}.
Definition set_seen v st := {| a_vars := a_vars st; a_globals := a_globals st; a_locals := a_locals st; a_filters := a_filters st;
  a_tags := a_tags st; a_seen := v; a_scope := a_scope st |}.
Definition set_scope v st := {| a_vars := a_vars st; a_globals := a_globals st; a_locals := a_locals st; a_filters := a_filters st;
  a_tags := a_tags st; a_seen := a_seen st; a_scope := v |}.

Definition seen_dom (name : str) (sn : list (str * list skey)) : bool := existsb (fun e => str_eqb name (fst e)) sn.
Definition seen_get (name : str) (sn : list (str * list skey)) : list skey :=
  match alookup name sn with Some l => l | None => [] end.
Definition skey_in (k : skey) (l : list skey) : bool := existsb (skey_eqb k) l.
Fixpoint seen_add (name : str) (k : skey) (sn : list (str * list skey)) : list (str * list skey) :=
  match sn with
  | [] => [(name, [k])]
  | (n', l) :: sn' =>
      if str_eqb name n' then (n', if skey_in k l then l else l ++ [k]) :: sn'
      else (n', l) :: seen_add name k sn'
  end.

Definition is_empty (s : str) : bool := match s with [] => true | _ => false end.

(* one Path met by _analyze_variables *)
Definition record_path (jg : bool) (p : path) (st : astate) : astate :=
  let st1 := if jg then st else set_vars (a_vars st ++ [p]) st in
  if sc_mem (p_root p) (a_scope st1) then st1 else set_globals (a_globals st1 ++ [p]) st1.

Definition record_expr (jg : bool) (st : astate) (e : expr) : astate :=
  let st1 := fold_left (fun s p => record_path jg p s) (expr_paths e) st in
  if jg then st1 else set_filters (a_filters st1 ++ expr_filters e) st1.

Definition record_tscope (st : astate) (x : str) : astate :=
  set_locals (a_locals st ++ [x]) (set_scope (sc_add x (a_scope st)) st).

(* everything _visit does before it looks at partial_scope()/children() *)
Definition pre_visit (jg : bool) (tn : str) (n : node) (st : astate) : astate :=
  let st := if negb jg && negb (is_empty tn) then set_seen (seen_add tn KMark (a_seen st)) st else st in
  let st := if jg then st else match n_tag n with Some t => set_tags (a_tags st ++ [t]) st | None => st end in
  let st := fold_left (record_expr jg) (n_exprs n) st in
  fold_left record_tscope (n_tscope n) st.

Fixpoint seqM {A S} (step : A -> S -> res S) (l : list A) (s : S) : res S :=
  match l with
  | [] => Ok s
  | a :: l' => do s' <- step a s; seqM step l' s'
  end.


Section WithProg.
Variable P : prog.

(* ------------------------------------------------- _visit, as repaired *)
Fixpoint visit (fuel : nat) (jg : bool) (tn : str) (n : node) (st : astate) : res astate :=
  match fuel with
  | O => OutOfFuel
  | S f =>
      let st := pre_visit jg tn n st in
      match n_partial n with
      | Some (pname, iso, insc, key) =>
          let jg0 := seen_dom pname (a_seen st) in
          let vis := if iso then insc else sc_flat (a_scope st) ++ insc in
          let k := KPart key vis in
          if skey_in k (seen_get pname (a_seen st)) then Ok st
          else
            let st := set_seen (seen_add pname k (a_seen st)) st in
            match alookup pname (pg_tpls P) with
            | None => Err ENotFound
            | Some body =>
                let saved := a_scope st in
                let st := set_scope (if iso then {| sc_frames := []; sc_base := insc |} else sc_push insc saved) st in
                do st' <- seqM (visit f jg0 pname) body st;
                Ok (set_scope (if iso then saved else sc_pop (a_scope st')) st')
            end
      | None =>
          let st := set_scope (sc_push (n_bscope n) (a_scope st)) st in
          do st' <- seqM (visit f jg tn) (n_children n) st;
          Ok (set_scope (sc_pop (a_scope st')) st')
      end
  end.

Definition a_init : astate :=
  {| a_vars := []; a_globals := []; a_locals := []; a_filters := []; a_tags := []; a_seen := [];
     a_scope := {| sc_frames := []; sc_base := [] |} |}.

Definition analyze (fuel : nat) : res astate :=
  match alookup (pg_root P) (pg_tpls P) with
  | None => Err ENotFound
  | Some body => seqM (visit fuel false (pg_root P)) body a_init
  end.

(* ------------------------------------------------- _visit before the fixes
   (1) just_globals is inherited by a partial that has never been visited;
   (2) the key in the seen map is Partial.key alone (None for include = the marker itself);
   (3) an include pushes on root_scope even when the current scope is a rendered partial's own scope.
   o_iso = Some s: the current scope object is the isolated scope s; None: it is root_scope (a_scope). *)
Record ostate := { o_st : astate; o_iso : option scope }.
Definition o_cur (o : ostate) : scope := match o_iso o with Some s => s | None => a_scope (o_st o) end.
Definition o_set_cur (s : scope) (o : ostate) : ostate :=
  match o_iso o with
  | Some _ => {| o_st := o_st o; o_iso := Some s |}
  | None => {| o_st := set_scope s (o_st o); o_iso := None |}
  end.
Definition o_with (o : ostate) (f : astate -> astate) : ostate := {| o_st := f (o_st o); o_iso := o_iso o |}.

Definition record_path_old (jg : bool) (p : path) (o : ostate) : ostate :=
  let o1 := if jg then o else o_with o (fun st => set_vars (a_vars st ++ [p]) st) in
  if sc_mem (p_root p) (o_cur o1) then o1 else o_with o1 (fun st => set_globals (a_globals st ++ [p]) st).
Definition record_expr_old (jg : bool) (o : ostate) (e : expr) : ostate :=
  let o1 := fold_left (fun s p => record_path_old jg p s) (expr_paths e) o in
  if jg then o1 else o_with o1 (fun st => set_filters (a_filters st ++ expr_filters e) st).
Definition record_tscope_old (o : ostate) (x : str) : ostate :=
  o_with (o_set_cur (sc_add x (o_cur o)) o) (fun st => set_locals (a_locals st ++ [x]) st).
Definition pre_visit_old (jg : bool) (tn : str) (n : node) (o : ostate) : ostate :=
  let o := if negb jg && negb (is_empty tn) then o_with o (fun st => set_seen (seen_add tn KMark (a_seen st)) st) else o in
  let o := if jg then o else match n_tag n with Some t => o_with o (fun st => set_tags (a_tags st ++ [t]) st) | None => o end in
  let o := fold_left (record_expr_old jg) (n_exprs n) o in
  fold_left record_tscope_old (n_tscope n) o.

Fixpoint visit_old (fuel : nat) (jg : bool) (tn : str) (n : node) (o : ostate) : res ostate :=
  match fuel with
  | O => OutOfFuel
  | S f =>
      let o := pre_visit_old jg tn n o in
      match n_partial n with
      | Some (pname, iso, insc, key) =>
          let jg0 := seen_dom pname (a_seen (o_st o)) in
          let k := match key with None => KMark | Some _ => KPart key [] end in
          if skey_in k (seen_get pname (a_seen (o_st o))) then Ok o
          else
            let o := o_with o (fun st => set_seen (seen_add pname k (a_seen st)) st) in
            match alookup pname (pg_tpls P) with
            | None => Err ENotFound
            | Some body =>
                let saved := o_iso o in
                let o1 := if iso then {| o_st := o_st o; o_iso := Some {| sc_frames := []; sc_base := insc |} |}
                          else {| o_st := set_scope (sc_push insc (a_scope (o_st o))) (o_st o); o_iso := None |} in
                do o' <- seqM (visit_old f (jg || jg0) pname) body o1;
                Ok (if iso then {| o_st := o_st o'; o_iso := saved |}
                    else {| o_st := set_scope (sc_pop (a_scope (o_st o'))) (o_st o'); o_iso := saved |})
            end
      | None =>
          let o := o_set_cur (sc_push (n_bscope n) (o_cur o)) o in
          do o' <- seqM (visit_old f jg tn) (n_children n) o;
          Ok (o_set_cur (sc_pop (o_cur o')) o')
      end
  end.

Definition analyze_old (fuel : nat) : res astate :=
  match alookup (pg_root P) (pg_tpls P) with
  | None => Err ENotFound
  | Some body =>
      do o <- seqM (visit_old fuel false (pg_root P)) body {| o_st := a_init; o_iso := None |};
      Ok (o_st o)
  end.

Fixpoint path_eqb (a b : path) : bool :=
  match a, b with
  | Path r1 s1, Path r2 s2 =>
      str_eqb r1 r2 &&
      (fix go (l1 l2 : list seg) : bool :=
         match l1, l2 with
         | [], [] => true
         | x :: l1', y :: l2' =>
             match x, y with
             | SKey u, SKey v => str_eqb u v
             | SIdx u, SIdx v => Z.eqb u v
             | SSub p, SSub q => path_eqb p q
             | _, _ => false
             end && go l1' l2'
         | _, _ => false
         end) s1 s2
  end.
Definition seg_eqb (a b : seg) : bool :=
  match a, b with
  | SKey x, SKey y => str_eqb x y
  | SIdx x, SIdx y => Z.eqb x y
  | SSub p, SSub q => path_eqb p q
  | _, _ => false
  end.
Definition lit_eqb (a b : value) : bool :=
  match a, b with
  | VInt x, VInt y => Z.eqb x y
  | VStr x, VStr y => str_eqb x y
  | VBool x, VBool y => Bool.eqb x y
  | VNil, VNil => true
  | _, _ => false
  end.
Definition atom_eqb (a b : atom) : bool :=
  match a, b with ALit v, ALit w => lit_eqb v w | AVar p, AVar q => path_eqb p q | _, _ => false end.
(* str(iterable): two loop sources written alike *)
Definition iter_eqb (a b : iter_src) : bool :=
  match a, b with
  | IPath p, IPath q => path_eqb p q
  | IRange a1 b1, IRange a2 b2 => atom_eqb a1 a2 && atom_eqb b1 b2
  | _, _ => false
  end.

(* ============================================================ tracing semantics *)
Inductive event :=
| ERead (p : path) (from_global excused : bool)
| EFilter (f : str)
| ETag (t : str).

(* mc_sigma: the names bound at the macro tag (its defaults are written there); the body adds the block scope *)
Record macro := { mc_params : list (str * option atom); mc_body : list node; mc_sigma : list str }.
Inductive status := Running | Halted | Exhausted.
Record dstate := {
  d_locals : list (str * value);       (* RenderContext.locals (assign, capture) *)
  d_counters : list (str * Z);         (* RenderContext.counters (increment) *)
  d_macros : list (str * macro);       (* tag_namespace["macros"] *)
  d_stop : list (str * iter_src * Z);  (* tag_namespace["stopindex"]: where the last loop over (variable, iterable) stopped *)
  d_trace : list event;                (* newest first *)
  d_status : status
}.
(* scope chain: pushed namespaces, locals, [render/macro argument namespaces, top-level data], counters *)
Record ctx := {
  c_pushed : list (list (str * value));
  c_args : list (list (str * value));
  c_top : list (str * value);
  c_noinc : bool                       (* disabled_tags contains include *)
}.

Definition d_set_locals v st := {| d_locals := v; d_counters := d_counters st; d_macros := d_macros st; d_stop := d_stop st; d_trace := d_trace st; d_status := d_status st |}.
Definition d_set_counters v st := {| d_locals := d_locals st; d_counters := v; d_macros := d_macros st; d_stop := d_stop st; d_trace := d_trace st; d_status := d_status st |}.
Definition d_set_macros v st := {| d_locals := d_locals st; d_counters := d_counters st; d_macros := v; d_stop := d_stop st; d_trace := d_trace st; d_status := d_status st |}.
Definition d_set_stop v st := {| d_locals := d_locals st; d_counters := d_counters st; d_macros := d_macros st; d_stop := v; d_trace := d_trace st; d_status := d_status st |}.
Definition d_set_status v st := {| d_locals := d_locals st; d_counters := d_counters st; d_macros := d_macros st; d_stop := d_stop st; d_trace := d_trace st; d_status := v |}.
Definition emit (e : event) (st : dstate) : dstate :=
  match d_status st with
  | Running => {| d_locals := d_locals st; d_counters := d_counters st; d_macros := d_macros st; d_stop := d_stop st; d_trace := e :: d_trace st; d_status := Running |}
  | _ => st
  end.
(* a fresh RenderContext (context.copy): no locals, counters, macros; the trace goes on *)
Definition d_fresh (st : dstate) : dstate :=
  {| d_locals := []; d_counters := []; d_macros := []; d_stop := []; d_trace := d_trace st; d_status := d_status st |}.
(* the context a macro body runs in: fresh, except that the macros defined so far can be called *)
Definition d_call (st : dstate) : dstate :=
  {| d_locals := []; d_counters := []; d_macros := d_macros st; d_stop := []; d_trace := d_trace st; d_status := d_status st |}.
Definition d_restore (saved st : dstate) : dstate :=
  {| d_locals := d_locals saved; d_counters := d_counters saved; d_macros := d_macros saved; d_stop := d_stop saved; d_trace := d_trace st; d_status := d_status st |}.

Fixpoint first_some {V} (x : str) (l : list (list (str * V))) : option V :=
  match l with
  | [] => None
  | m :: l' => match alookup x m with Some v => Some v | None => first_some x l' end
  end.

(* RenderContext.get on the root segment: (value, resolved from the top-level data?) *)
Definition lookup (c : ctx) (st : dstate) (x : str) : value * bool :=
  match first_some x (c_pushed c) with Some v => (v, false) | None =>
  match alookup x (d_locals st) with Some v => (v, false) | None =>
  match first_some x (c_args c) with Some v => (v, false) | None =>
  match alookup x (c_top c) with Some v => (v, true) | None =>
  match alookup x (d_counters st) with Some z => (VInt z, false) | None => (VUndef, false)
  end end end end end.

Fixpoint nth_value (l : list value) (i : nat) : value :=
  match l, i with
  | [], _ => VUndef
  | v :: _, O => v
  | _ :: l', S i' => nth_value l' i'
  end.

(* RenderContext.get_item with an evaluated key *)
Definition get_key (v : value) (k : value) : value :=
  match v, k with
  | VMap m, VStr s => match alookup s m with Some x => x | None => VUndef end
  | VList l, (VInt _ | VBool _) =>
      let i := match k with VInt z => z | VBool true => 1%Z | _ => 0%Z end in
      let len := Z.of_nat (length l) in
      if (0 <=? i)%Z && (i <? len)%Z then nth_value l (Z.to_nat i)
      else if (i <? 0)%Z && (- len <=? i)%Z then nth_value l (Z.to_nat (len + i))
      else VUndef
  | VOpq, _ => VOpq
  | _, _ => VUndef
  end.

Definition truthy (v : value) : bool :=
  match v with VNil | VUndef | VBool false => false | _ => true end.

Definition veq (a b : value) : bool :=
  match a, b with
  | VBool x, VBool y => Bool.eqb x y
  | VInt x, VInt y => Z.eqb x y
  | VStr x, VStr y => str_eqb x y
  | (VNil | VUndef), (VNil | VUndef) => true
  | _, _ => false
  end.

(* LoopExpression._to_iter *)
Definition to_iter (v : value) : list value :=
  match v with
  | VList l => l
  | VMap m => map (fun kv => VList [VStr (fst kv); snd kv]) m
  | VStr [] => []
  | VStr s => [VStr s]
  | _ => []
  end.

(* Path.evaluate: the paths used as segments are evaluated (and read) first, left to right, each with its own
   nested paths first; then the path itself is looked up with the evaluated keys *)
Fixpoint eval_path (c : ctx) (sg : list str) (p : path) (st : dstate) : value * dstate :=
  match p with
  | Path r segs =>
      let '(ks, st1) :=
        (fix go (l : list seg) (st : dstate) : list value * dstate :=
           match l with
           | [] => ([], st)
           | s :: l' =>
               let '(k, sa) := match s with
                               | SKey x => (VStr x, st)
                               | SIdx i => (VInt i, st)
                               | SSub q => eval_path c sg q st
                               end in
               let '(ks, sb) := go l' sa in
               (k :: ks, sb)
           end) segs st in
      let '(v0, g) := lookup c st1 r in
      (fold_left get_key ks v0, emit (ERead p g (mem r sg)) st1)
  end.

(* RangeLiteral._make_range: unconvertible bounds count as 0; a descending range is empty *)
Definition to_int0 (v : value) : Z :=
  match v with VInt z => z | VBool true => 1%Z | _ => 0%Z end.
Fixpoint zrange (lo : Z) (n : nat) : list value :=
  match n with O => [] | S n' => VInt lo :: zrange (lo + 1)%Z n' end.
Definition make_range (a b : value) : list value :=
  let lo := to_int0 a in let hi := to_int0 b in
  if (hi <? lo)%Z then [] else zrange lo (Z.to_nat (hi - lo + 1)).

Definition eval_atom (c : ctx) (sg : list str) (a : atom) (st : dstate) : value * dstate :=
  match a with
  | ALit v => (v, st)
  | AVar p => eval_path c sg p st
  end.

Fixpoint eval_atoms (c : ctx) (sg : list str) (l : list atom) (st : dstate) : list value * dstate :=
  match l with
  | [] => ([], st)
  | a :: l' =>
      let '(v, st1) := eval_atom c sg a st in
      let '(vs, st2) := eval_atoms c sg l' st1 in
      (v :: vs, st2)
  end.

Fixpoint eval_filters (c : ctx) (sg : list str) (fs : list fcall) (st : dstate) : dstate :=
  match fs with
  | [] => st
  | f :: fs' =>
      let '(_, st1) := eval_atoms c sg (f_args f) st in
      eval_filters c sg fs' (emit (EFilter (f_name f)) st1)
  end.

Definition eval_expr (c : ctx) (sg : list str) (e : expr) (st : dstate) : value * dstate :=
  let '(v, st1) := eval_atom c sg (e_left e) st in
  match e_filters e with
  | [] => (v, st1)
  | fs => (VOpq, eval_filters c sg fs st1)
  end.

Fixpoint eval_cond (c : ctx) (sg : list str) (cd : cond) (st : dstate) : bool * dstate :=
  match cd with
  | CTruthy a => let '(v, st1) := eval_atom c sg a st in (truthy v, st1)
  | CEq a b =>
      let '(v, st1) := eval_atom c sg a st in
      let '(w, st2) := eval_atom c sg b st1 in
      (veq v w, st2)
  | CAnd x y =>
      let '(b, st1) := eval_cond c sg x st in
      if b then eval_cond c sg y st1 else (false, st1)
  | COr x y =>
      let '(b, st1) := eval_cond c sg x st in
      if b then (true, st1) else eval_cond c sg y st1
  end.

(* {name: value for each keyword argument}: evaluated in order, a later duplicate wins *)
Fixpoint eval_binds (c : ctx) (sg : list str) (b : list (str * atom)) (acc : list (str * value)) (st : dstate)
  : list (str * value) * dstate :=
  match b with
  | [] => (acc, st)
  | (k, a) :: b' =>
      let '(v, st1) := eval_atom c sg a st in
      eval_binds c sg b' ((k, v) :: acc) st1
  end.

Definition assign (x : str) (v : value) (st : dstate) : dstate := d_set_locals ((x, v) :: d_locals st) st.
Definition halt (st : dstate) : dstate :=
  match d_status st with Running => d_set_status Halted st | _ => st end.
Definition exhaust (st : dstate) : dstate :=
  match d_status st with Running => d_set_status Exhausted st | _ => st end.
(* run a list of nodes; sigma grows by the names each node assigns (asg), whether or not it runs them *)
Fixpoint run_nodes (step : list str -> node -> dstate -> dstate) (asg : node -> res (list str))
  (sg : list str) (ns : list node) (st : dstate) : dstate :=
  match ns with
  | [] => st
  | n :: ns' =>
      let st1 := step sg n st in
      match asg n with
      | Ok a => run_nodes step asg (sg ++ a) ns' st1
      | _ => exhaust st1
      end
  end.

Definition push_ns (ns : list (str * value)) (c : ctx) : ctx :=
  {| c_pushed := ns :: c_pushed c; c_args := c_args c; c_top := c_top c; c_noinc := c_noinc c |}.
(* context.copy(namespace, disabled_tags=[include...]): the copy is built on the ROOT context's globals
   (base_globals), so it sees its own namespace and the top-level data, not an enclosing partial's arguments *)
Definition copy_ctx (ns : list (str * value)) (c : ctx) : ctx :=
  {| c_pushed := []; c_args := [ns]; c_top := c_top c; c_noinc := true |}.

Fixpoint find_last {V} (k : str) (l : list (str * V)) : option V :=
  match l with
  | [] => None
  | (k', v) :: l' => match find_last k l' with Some w => Some w | None => if str_eqb k k' then Some v else None end
  end.

(* CallNode.macro_args: the expression bound to each parameter (true: it is the default written in the macro
   tag), and the surplus positional arguments *)
Fixpoint bind_params (ps : list (str * option atom)) (pos : list atom) (kws : list (str * atom))
  : list (str * option (bool * atom)) * list atom :=
  match ps with
  | [] => ([], pos)
  | (x, d) :: ps' =>
      let '(here, pos') :=
        match pos with
        | a :: r => (Some (false, a), r)
        | [] => (match d with Some a => Some (true, a) | None => None end, [])
        end in
      let here := match find_last x kws with Some a => Some (false, a) | None => here end in
      let '(rest, excess) := bind_params ps' pos' kws in
      ((x, here) :: rest, excess)
  end.

(* sg: names bound at the call tag; sgd: names bound at the macro tag (where a default is written) *)
Fixpoint eval_params (c : ctx) (sg sgd : list str) (b : list (str * option (bool * atom))) (acc : list (str * value))
  (st : dstate) : list (str * value) * dstate :=
  match b with
  | [] => (acc, st)
  | (k, None) :: b' => eval_params c sg sgd b' ((k, VUndef) :: acc) st
  | (k, Some (isdef, a)) :: b' =>
      let '(v, st1) := eval_atom c (if isdef then sgd else sg) a st in
      eval_params c sg sgd b' ((k, v) :: acc) st1
  end.

(* names added to the template scope by the nodes of a list, partials with shared scope expanded:
   the part of sigma that accumulates in source order *)
Fixpoint flatM {A B} (f : A -> res (list B)) (l : list A) : res (list B) :=
  match l with
  | [] => Ok []
  | a :: l' => do x <- f a; do y <- flatM f l'; Ok (x ++ y)
  end.

Fixpoint assigned (fuel : nat) (n : node) : res (list str) :=
  match fuel with
  | O => OutOfFuel
  | S f =>
      do rest <- match n with
                 | NInclude p _ _ =>
                     match alookup p (pg_tpls P) with Some body => flatM (assigned f) body | None => Ok [] end
                 | NRender _ _ _ => Ok []
                 | _ => flatM (assigned f) (n_children n)
                 end;
      Ok (n_tscope n ++ rest)
  end.

Definition eval_iter (c : ctx) (sg : list str) (it : iter_src) (st : dstate) : list value * dstate :=
  match it with
  | IPath p => let '(v, st1) := eval_atom c sg (AVar p) st in (to_iter v, st1)
  | IRange a b =>
      let '(va, st1) := eval_atom c sg a st in
      let '(vb, st2) := eval_atom c sg b st1 in
      (make_range va vb, st2)
  end.

(* LoopExpression._to_int: None when int() raises (the render then fails with a type error) *)
Definition to_int_strict (v : value) : option Z :=
  match v with VInt z => Some z | VBool true => Some 1%Z | VBool false => Some 0%Z | VUndef => Some 0%Z | _ => None end.

Fixpoint stop_lookup (x : str) (it : iter_src) (l : list (str * iter_src * Z)) : Z :=
  match l with
  | [] => 0%Z
  | (y, jt, z) :: l' => if str_eqb x y && iter_eqb it jt then z else stop_lookup x it l'
  end.

Definition py_slice (l : list value) (start stop : Z) : list value :=
  let len := Z.of_nat (length l) in
  let a := Z.min (Z.max start 0) len in
  let b := Z.min (Z.max stop 0) len in
  firstn (Z.to_nat (b - a)) (skipn (Z.to_nat a) l).

(* LoopExpression.evaluate: the iterable, then limit, then offset are evaluated; the items are sliced and
   the stop index is remembered for a later offset: continue.  A limit or offset that int() rejects
   fails the render. *)
Definition eval_loop (c : ctx) (sg : list str) (x : str) (it : iter_src) (la : loop_args) (st : dstate)
  : list value * dstate :=
  let '(items, st1) := eval_iter c sg it st in
  let '(lim, st2) := match la_limit la with
                     | None => (Some None, st1)
                     | Some a => let '(v, s) := eval_atom c sg a st1 in
                                 (match to_int_strict v with Some z => Some (Some z) | None => None end, s)
                     end in
  match lim with
  | None => ([], halt st2)
  | Some lim =>
      let '(off, st3) := match la_offset la with
                         | None => (Some 0%Z, st2)
                         | Some OffContinue => (Some (stop_lookup x it (d_stop st2)), st2)
                         | Some (OffAtom a) => let '(v, s) := eval_atom c sg a st2 in (to_int_strict v, s)
                         end in
      match off with
      | None => ([], halt st3)
      | Some start =>
          let len := Z.of_nat (length items) in
          let stop := match lim with Some z => (z + start)%Z | None => len end in
          let stop_ := Z.min (Z.max stop 0) len in
          let sl := py_slice items start stop in
          (if la_reversed la then rev sl else sl, d_set_stop ((x, it, stop_) :: d_stop st3) st3)
      end
  end.

(* iterate a body over items, the loop variable bound by mk *)
Fixpoint iter {X} (run : X -> dstate -> dstate) (items : list X) (st : dstate) : dstate :=
  match items with
  | [] => st
  | x :: r => iter run r (run x st)
  end.

(* the elsif branches and the else branch of if/unless: sigma grows by what the skipped branches assign *)
Fixpoint run_alts (runl : list str -> list node -> dstate -> dstate)
  (evc : list str -> cond -> dstate -> bool * dstate) (asgl : list node -> res (list str))
  (sg : list str) (alts : list (cond * list node)) (els : list node) (st : dstate) : dstate :=
  match alts with
  | [] => runl sg els st
  | (cd, b) :: r =>
      let '(v, st1) := evc sg cd st in
      if v then runl sg b st1
      else match asgl b with
           | Ok a => run_alts runl evc asgl (sg ++ a) r els st1
           | _ => exhaust st1
           end
  end.

(* the when blocks of case: each evaluates the subject and its values, and renders once per equal value;
   the else block renders if no when block matched *)
Fixpoint run_whens (runl : list str -> list node -> dstate -> dstate)
  (evs : dstate -> value * dstate) (eva : list str -> list atom -> dstate -> list value * dstate)
  (asgl : list node -> res (list str))
  (sg : list str) (whens : list (list atom * list node)) (els : list node) (matched : bool) (st : dstate) : dstate :=
  match whens with
  | [] => if matched then st else runl sg els st
  | (atoms, b) :: r =>
      let '(v, st1) := evs st in
      let '(ws, st2) := eva sg atoms st1 in
      let k := length (filter (veq v) ws) in
      let st3 := iter (fun _ s => runl sg b s) (repeat tt k) st2 in
      match asgl b with
      | Ok a => run_whens runl evs eva asgl (sg ++ a) r els (matched || Nat.ltb 0 k) st3
      | _ => exhaust st3
      end
  end.

(* sg: the names that are, at this reference, bound by an enclosing block or assigned earlier in source
   order (partials expanded; a rendered partial starts from its arguments alone).  A read of a root in
   sg is "excused" from the globals clause. *)
Fixpoint exec (fuel : nat) (c : ctx) (sg : list str) (n : node) (st : dstate) : dstate :=
  match d_status st with
  | Halted | Exhausted => st
  | Running =>
  match fuel with
  | O => exhaust st
  | S f =>
      let exec_in := fun (c' : ctx) => run_nodes (exec f c') (assigned f) in
      let exec_list := exec_in c in
      let st := match n_tag n with Some t => emit (ETag t) st | None => st end in
      let sgc := sg ++ n_tscope n ++ n_bscope n in
      match n with
      | NText => st
      | NOutput e => snd (eval_expr c sg e st)
      | NAssign x e => let '(v, st1) := eval_expr c sg e st in assign x v st1
      | NCapture x body => assign x VOpq (exec_list sgc body st)
      | NEcho e => snd (eval_expr c sg e st)
      | NFor x it la body els =>
          let '(its, st1) := eval_loop c sg x it la st in
          match its with
          | [] =>
              match flatM (assigned f) body with
              | Ok a => exec_list (sgc ++ a) els st1
              | _ => exhaust st1
              end
          | items => iter (fun item s => exec_in (push_ns [(s_forloop, VOpq); (x, item)] c) sgc body s) items st1
          end
      | NTablerow x it la body =>
          let '(its, st1) := eval_loop c sg x it la st in
          let st2 := match la_cols la with Some a => snd (eval_atom c sg a st1) | None => st1 end in   (* cols: read, never fails *)
          iter (fun item s => exec_in (push_ns [(x, item); (s_tablerowloop, VOpq)] c) sgc body s) its st2
      | NIf neg cd thn alts els =>
          let '(b, st1) := eval_cond c sg cd st in
          if xorb neg b then exec_list sgc thn st1
          else match flatM (assigned f) thn with
               | Ok a => run_alts exec_list (eval_cond c) (flatM (assigned f)) (sgc ++ a) alts els st1
               | _ => exhaust st1
               end
      | NElsif cd body =>
          let '(b, st1) := eval_cond c sg cd st in
          if b then exec_list sgc body st1 else st1
      | NCase subj whens els =>
          run_whens exec_list (eval_atom c sg subj) (eval_atoms c) (flatM (assigned f)) sgc whens els false st
      | NWhen _ _ _ => st    (* only ever a child of case (run_whens); the parser builds no free-standing one *)
      | NCycle g args => snd (eval_atoms c sg (opt_atom g ++ args) st)
      | NLiquid body => exec_list sgc body st
      | NWith binds body =>
          let '(ns, st1) := eval_binds c sg binds [] st in
          exec_in (push_ns ns c) sgc body st1
      | NMacro m ps body =>
          d_set_macros ((m, {| mc_params := ps; mc_body := body; mc_sigma := sg |}) :: d_macros st) st
      | NCall m pos kws =>
          match alookup m (d_macros st) with
          | None => st
          | Some mc =>
              let '(bound, excess) := bind_params (mc_params mc) pos kws in
              let '(xs, st1) := eval_atoms c sg excess st in
              let xkw := filter (fun kv => negb (mem (fst kv) (map fst (mc_params mc)))) kws in
              let '(kvs, st2) := eval_binds c sg xkw [] st1 in
              let '(ns, st3) := eval_params c sg (mc_sigma mc) bound [(s_kwargs, VMap kvs); (s_args, VList xs)] st2 in
              d_restore st3
                (exec_in (copy_ctx ns c) (mc_sigma mc ++ s_args :: s_kwargs :: map fst (mc_params mc)) (mc_body mc)
                         (d_call st3))
          end
      | NInclude p b args =>
          if c_noinc c then halt st
          else match alookup p (pg_tpls P) with
          | None => halt st
          | Some body =>
              let '(ns, st1) := eval_binds c sg args [] st in
              let sgb := sg ++ map fst args ++ match b with Some (_, al) => [bind_alias p al] | None => [] end in
              match b with
              | None => exec_in (push_ns ns c) sgb body st1
              | Some (vp, al) =>
                  let '(v, st2) := eval_atom (push_ns ns c) sg (AVar vp) st1 in
                  let key := bind_alias p al in
                  match v with
                  | VList items => iter (fun item s => exec_in (push_ns ((key, item) :: ns) c) sgb body s) items st2
                  | _ => exec_in (push_ns ((key, v) :: ns) c) sgb body st2
                  end
              end
          end
      | NRender p b args =>
          match alookup p (pg_tpls P) with
          | None => halt st
          | Some body =>
              let '(ns, st1) := eval_binds c sg args [] st in
              let sgb := map fst args ++ match b with Some (_, _, al) => [bind_alias p al] | None => [] end in
              match b with
              | None => d_restore st1 (exec_in (copy_ctx ns c) sgb body (d_fresh st1))
              | Some (isfor, vp, al) =>
                  let '(v, st2) := eval_atom c sg (AVar vp) st1 in
                  let key := bind_alias p al in
                  match isfor, v with
                  | true, VList items =>
                      d_restore st2
                        (* a new isolated context for each item: locals, counters, macros start empty *)
                        (iter (fun item s => exec_in (copy_ctx ((key, item) :: (s_forloop, VOpq) :: ns) c) sgb body (d_fresh s))
                              items (d_fresh st2))
                  | _, _ => d_restore st2 (exec_in (copy_ctx ((key, v) :: ns) c) sgb body (d_fresh st2))
                  end
              end
          end
      | NIncrement x =>
          let z := match alookup x (d_counters st) with Some z => z | None => 0%Z end in
          d_set_counters ((x, (z + 1)%Z) :: d_counters st) st
      | NDecrement x =>
          let z := match alookup x (d_counters st) with Some z => z | None => 0%Z end in
          d_set_counters ((x, (z - 1)%Z) :: d_counters st) st
      end
  end
  end.

Definition d_init : dstate := {| d_locals := []; d_counters := []; d_macros := []; d_stop := []; d_trace := []; d_status := Running |}.

Definition exec_nodes (fuel : nat) (c : ctx) : list str -> list node -> dstate -> dstate :=
  run_nodes (exec fuel c) (assigned fuel).

Definition exec_prog (fuel : nat) (data : list (str * value)) : dstate :=
  match alookup (pg_root P) (pg_tpls P) with
  | None => halt d_init
  | Some body =>
      exec_nodes fuel {| c_pushed := []; c_args := []; c_top := data; c_noinc := false |} [] body d_init
  end.

End WithProg.

(* =========================================================== observations *)
(* dict-of-lists in insertion order, as _VariableMap / defaultdict(list) build them *)
Fixpoint group_add {V} (k : str) (v : V) (g : list (str * list V)) : list (str * list V) :=
  match g with
  | [] => [(k, [v])]
  | (k', l) :: g' => if str_eqb k k' then (k', l ++ [v]) :: g' else (k', l) :: group_add k v g'
  end.
Definition group_paths (l : list path) : list (str * list (list seg)) :=
  fold_left (fun g p => group_add (p_root p) (p_segs p) g) l [].
Definition count_names (l : list str) : list (str * N) :=
  map (fun kv => (fst kv, N.of_nat (length (snd kv)))) (fold_left (fun g x => group_add x tt g) l []).

Record aobs := {
  ob_vars : list (str * list (list seg));
  ob_globals : list (str * list (list seg));
  ob_locals : list (str * N);
  ob_filters : list (str * N);
  ob_tags : list (str * N)
}.
Definition obs_of (st : astate) : aobs :=
  {| ob_vars := group_paths (a_vars st); ob_globals := group_paths (a_globals st);
     ob_locals := count_names (a_locals st); ob_filters := count_names (a_filters st);
     ob_tags := count_names (a_tags st) |}.

Definition pair_eqb {A B} (ea : A -> A -> bool) (eb : B -> B -> bool) (x y : A * B) : bool :=
  ea (fst x) (fst y) && eb (snd x) (snd y).
Definition grouped_eqb := list_eqb (pair_eqb str_eqb (list_eqb (list_eqb seg_eqb))).
Definition counts_eqb := list_eqb (pair_eqb str_eqb N.eqb).
Definition aobs_eqb (a b : aobs) : bool :=
  grouped_eqb (ob_vars a) (ob_vars b) && grouped_eqb (ob_globals a) (ob_globals b) &&
  counts_eqb (ob_locals a) (ob_locals b) && counts_eqb (ob_filters a) (ob_filters b) &&
  counts_eqb (ob_tags a) (ob_tags b).

Definition event_eqb (a b : event) : bool :=
  match a, b with
  | ERead p g e, ERead p' g' e' => path_eqb p p' && Bool.eqb g g' && Bool.eqb e e'
  | EFilter f, EFilter f' => str_eqb f f'
  | ETag t, ETag t' => str_eqb t t'
  | _, _ => false
  end.

(* the harness calls these *)
Record acase := { ac_prog : prog; ac_fuel : nat }.
Definition run_analyze (c : acase) : res aobs :=
  do st <- analyze (ac_prog c) (ac_fuel c); Ok (obs_of st).
Definition run_analyze_old (c : acase) : res aobs :=
  do st <- analyze_old (ac_prog c) (ac_fuel c); Ok (obs_of st).
Definition res_aobs_eqb (a b : res aobs) : bool :=
  match a, b with
  | Ok x, Ok y => aobs_eqb x y
  | Err e, Err e' => exn_eqb e e'
  | _, _ => false
  end.

Record tcase := { tc_prog : prog; tc_fuel : nat; tc_data : list (str * value) }.
(* the trace in execution order; None when the interpreter ran out of fuel *)
Definition run_trace (c : tcase) : option (list event * bool) :=
  let st := exec_prog (tc_prog c) (tc_fuel c) (tc_data c) in
  match d_status st with
  | Exhausted => None
  | Running => Some (rev (d_trace st), false)
  | Halted => Some (rev (d_trace st), true)
  end.
Definition trace_obs_eqb (a b : option (list event * bool)) : bool :=
  option_eqb (pair_eqb (list_eqb event_eqb) Bool.eqb) a b.

(* one case per program: the analysis and the traces of the renders the model covers *)
Record pcase := { pc_prog : prog; pc_fuel : nat; pc_datas : list (list (str * value)) }.
Record pobs := { po_ana : res aobs; po_traces : list (option (list event * bool)) }.
Definition run_case (c : pcase) : pobs :=
  {| po_ana := run_analyze {| ac_prog := pc_prog c; ac_fuel := pc_fuel c |};
     po_traces := map (fun d => run_trace {| tc_prog := pc_prog c; tc_fuel := pc_fuel c; tc_data := d |}) (pc_datas c) |}.
Definition run_case_old (c : pcase) : pobs :=
  {| po_ana := run_analyze_old {| ac_prog := pc_prog c; ac_fuel := pc_fuel c |};
     po_traces := map (fun d => run_trace {| tc_prog := pc_prog c; tc_fuel := pc_fuel c; tc_data := d |}) (pc_datas c) |}.
Definition pobs_eqb (a b : pobs) : bool :=
  res_aobs_eqb (po_ana a) (po_ana b) && list_eqb trace_obs_eqb (po_traces a) (po_traces b).
(* which part of a case disagrees (used only to word a report) *)
Definition pobs_diff (a b : pobs) : bool * list bool :=
  (res_aobs_eqb (po_ana a) (po_ana b),
   map (fun xy => trace_obs_eqb (fst xy) (snd xy)) (combine (po_traces a) (po_traces b))).
