(* Every well-grouped condition text parses to the tree it denotes; hence the repaired serialiser round-trips. *)
From LiquidVerif Require Import Prelude PyPrims Cond CondPrint Cond_Proofs CondParen.

Fixpoint psize (q : pexpr) : nat :=
  match q with
  | PLit _ | PVar _ => 1
  | PNot a | PParen a => S (psize a)
  | PAnd a b | POr a b | PCmp _ a b => S (psize a + psize b)
  end.

Definition fitsP (p : nat) (q : pexpr) : Prop :=
  match q with
  | PAnd _ _ | POr _ _ => p <= 2
  | PCmp op _ _ => p <= prec (TOp op)
  | _ => True
  end.

Definition okrestP (q : pexpr) (p : nat) (rest : list tok) : Prop :=
  stops p rest /\ match q with PNot _ => stops1 rest | _ => True end.

Lemma psize_pos q : 1 <= psize q.
Proof. destruct q; cbn; lia. Qed.

Section Step.
  Variable n : nat.
  Hypothesis IH : forall q, psize q <= n -> wg q = true -> forall fuel p rest,
    4 * psize q <= fuel -> fitsP p q -> okrestP q p rest ->
    pp flags_on fuel p (toks q ++ rest) = Ok (erase q, rest).

  Lemma prim_atomic x r f : patomic x = true -> wg x = true -> psize x <= S n -> 4 * psize x <= S f ->
    primary (pp flags_on f) flags_on (toks x ++ r) = Ok (erase x, r).
  Proof.
    intros Ha Hw Hs Hf. destruct x as [v|y| | | | |a]; try discriminate.
    - reflexivity.
    - reflexivity.
    - cbn [psize] in Hs, Hf. cbn [wg] in Hw. cbn [toks erase]. cbn [app]. rewrite <- app_assoc. cbn [app primary flags_on allow_parens].
      rewrite (IH a ltac:(lia) Hw f 1 (TRParen :: r) ltac:(lia)).
      + reflexivity.
      + destruct a as [| | | | |[] ? ?|]; cbn; lia.
      + split; [right; reflexivity|]. destruct a; try exact I. reflexivity.
  Qed.

  Lemma pp_atomic x q r fuel : patomic x = true -> wg x = true -> psize x <= S n -> 4 * psize x <= fuel ->
    stops q r -> pp flags_on fuel q (toks x ++ r) = Ok (erase x, r).
  Proof.
    intros Ha Hw Hs Hf Hst. pose proof (psize_pos x). destruct fuel as [|f]; [lia|]. cbn [pp].
    rewrite (prim_atomic x r f Ha Hw Hs ltac:(lia)). cbn [bind fst snd].
    destruct f as [|g]; [lia|]. apply ploop_stop, Hst.
  Qed.

  (* `a and b` / `a or b` with a well-grouped left operand *)
  Lemma bin_case (t : tok) (mk : bexpr -> bexpr -> bexpr) a b :
    (t = TAnd /\ mk = BAnd) \/ (t = TOr /\ mk = BOr) ->
    pleft_ok a = true -> wg a = true -> wg b = true -> psize a + psize b <= n ->
    forall fuel p rest, 4 * S (psize a + psize b) <= fuel -> p <= 2 -> stops p rest ->
    pp flags_on fuel p (toks a ++ t :: toks b ++ rest) = Ok (mk (erase a) (erase b), rest).
  Proof.
    intros Ht Hl Hwa Hwb Hs fuel p rest Hf Hp Hst.
    assert (Hinf : is_infix t = true) by (destruct Ht as [[-> _]|[-> _]]; reflexivity).
    assert (Hprec : prec t = 2) by (destruct Ht as [[-> _]|[-> _]]; reflexivity).
    assert (Hmk : forall l r, mk_infix t l r = Some (mk l r)) by (destruct Ht as [[-> ->]|[-> ->]]; reflexivity).
    pose proof (psize_pos a) as Pa. pose proof (psize_pos b) as Pb.
    destruct fuel as [|f]; [lia|]. cbn [pp].
    assert (Hb : pp flags_on f (prec t) (toks b ++ rest) = Ok (erase b, rest)).
    { rewrite Hprec. apply IH; [lia|exact Hwb|lia| |].
      - destruct b as [| | | | |[] ? ?|]; cbn; lia.
      - split; [apply (stops_le p); [exact Hst|lia]|]. destruct b; try exact I. apply (stops_low p); assumption. }
    destruct (patomic a) eqn:Hat.
    - rewrite (prim_atomic a _ f Hat Hwa ltac:(lia) ltac:(lia)). cbn [bind fst snd].
      destruct f as [|g]; [lia|].
      rewrite (step_infix (S g) p g (erase a) t (toks b ++ rest) (erase b) rest (mk (erase a) (erase b)) Hinf ltac:(lia) Hb (Hmk _ _)).
      destruct g as [|g']; [lia|]. apply ploop_stop, Hst.
    - destruct a as [| | | | |op x y|]; try discriminate.
      cbn [wg] in Hwa. apply andb_true_iff in Hwa. destruct Hwa as [Hwa Hwy]. apply andb_true_iff in Hwa. destruct Hwa as [Hwa Hwx].
      apply andb_true_iff in Hwa. destruct Hwa as [Hax Hay].
      cbn [psize] in Hs, Hf. cbn [toks erase]. rewrite <- app_assoc. cbn [app].
      rewrite (prim_atomic x _ f Hax Hwx ltac:(lia) ltac:(lia)). cbn [bind fst snd].
      destruct f as [|g]; [lia|].
      assert (Hy : pp flags_on (S g) (prec (TOp op)) (toks y ++ t :: toks b ++ rest) = Ok (erase y, t :: toks b ++ rest)).
      { apply pp_atomic; [exact Hay|exact Hwy|lia|lia|]. left. rewrite Hprec. destruct op; cbn; lia. }
      rewrite (step_infix (S g) p g (erase x) (TOp op) _ (erase y) _ (BCmp op (erase x) (erase y)) eq_refl
                 ltac:(destruct op; cbn; lia) Hy eq_refl).
      destruct g as [|g1]; [lia|].
      rewrite (step_infix (S (S g1)) p g1 _ t (toks b ++ rest) (erase b) rest (mk (BCmp op (erase x) (erase y)) (erase b)) Hinf ltac:(lia) Hb (Hmk _ _)).
      destruct g1 as [|g2]; [lia|]. apply ploop_stop, Hst.
  Qed.
End Step.

Lemma parse_toks_body : forall n q, psize q <= n -> wg q = true -> forall fuel p rest,
  4 * psize q <= fuel -> fitsP p q -> okrestP q p rest ->
  pp flags_on fuel p (toks q ++ rest) = Ok (erase q, rest).
Proof.
  induction n as [|n IHn]; intros q Hs Hw; [pose proof (psize_pos q); lia|].
  intros fuel p rest Hf Hfit [Hst Hnot].
  destruct q as [v|x|a|a b|a b|op a b|a].
  - (* literal *) apply (pp_atomic n IHn (PLit v)); try reflexivity; cbn in *; try lia; exact Hst.
  - (* variable *) apply (pp_atomic n IHn (PVar x)); try reflexivity; cbn in *; try lia; exact Hst.
  - (* not *)
    cbn [psize] in Hs, Hf. cbn [wg] in Hw. destruct fuel as [|f]; [lia|]. cbn [pp toks erase app primary flags_on allow_not].
    rewrite (IHn a ltac:(lia) Hw f 1 rest ltac:(lia)).
    + cbn [bind fst snd]. pose proof (psize_pos a). destruct f as [|g]; [lia|]. apply ploop_stop, Hst.
    + destruct a as [| | | | |[] ? ?|]; cbn; lia.
    + split; [apply stops1_any, Hnot|]. destruct a; try exact I. exact Hnot.
  - (* and *)
    cbn [psize] in Hs, Hf. cbn [wg] in Hw. apply andb_true_iff in Hw. destruct Hw as [Hw Hwb]. apply andb_true_iff in Hw. destruct Hw as [Hl Hwa].
    cbn [toks erase]. rewrite <- app_assoc. cbn [app].
    apply (bin_case n IHn TAnd BAnd a b); auto; try lia; try exact Hfit.
  - (* or *)
    cbn [psize] in Hs, Hf. cbn [wg] in Hw. apply andb_true_iff in Hw. destruct Hw as [Hw Hwb]. apply andb_true_iff in Hw. destruct Hw as [Hl Hwa].
    cbn [toks erase]. rewrite <- app_assoc. cbn [app].
    apply (bin_case n IHn TOr BOr a b); auto; try lia; try exact Hfit.
  - (* comparison *)
    cbn [psize] in Hs, Hf. cbn [wg] in Hw. apply andb_true_iff in Hw. destruct Hw as [Hw Hwb]. apply andb_true_iff in Hw. destruct Hw as [Hw Hwa].
    apply andb_true_iff in Hw. destruct Hw as [Haa Hab]. cbn [fitsP] in Hfit.
    pose proof (psize_pos a). pose proof (psize_pos b).
    cbn [toks erase]. rewrite <- app_assoc. cbn [app].
    destruct fuel as [|f]; [lia|]. cbn [pp].
    rewrite (prim_atomic n IHn a _ f Haa Hwa ltac:(lia) ltac:(lia)). cbn [bind fst snd].
    destruct f as [|g]; [lia|].
    assert (Hy : pp flags_on (S g) (prec (TOp op)) (toks b ++ rest) = Ok (erase b, rest)).
    { apply (pp_atomic n IHn); [exact Hab|exact Hwb|lia|lia|]. apply (stops_le p); assumption. }
    rewrite (step_infix (S g) p g (erase a) (TOp op) _ (erase b) rest (BCmp op (erase a) (erase b)) eq_refl Hfit Hy eq_refl).
    destruct g as [|g1]; [lia|]. apply ploop_stop, Hst.
  - (* parenthesised group *)
    apply (pp_atomic n IHn (PParen a)); try reflexivity; try exact Hw; try exact Hs; try exact Hst. lia.
Qed.

Lemma toks_length q : psize q <= length (toks q).
Proof.
  induction q as [v|x|a IHa|a IHa b IHb|a IHa b IHb|op a IHa b IHb|a IHa]; cbn [toks psize length]; rewrite ?app_length; cbn [length];
    rewrite ?app_length; cbn [length]; lia.
Qed.

(* every well-grouped condition text parses to the tree it denotes -- whatever redundant parentheses it contains *)
Theorem parse_wellgrouped q : wg q = true -> parse flags_on (toks q) = Ok (erase q).
Proof.
  intro Hw. unfold parse. pose proof (toks_length q) as Hl.
  rewrite <- (app_nil_r (toks q)) at 2.
  rewrite (parse_toks_body (psize q) q (le_n _) Hw (4 * length (toks q) + 4) 1 []).
  - reflexivity.
  - lia.
  - destruct q as [| | | | |[] ? ?|]; cbn; lia.
  - split; [exact I|]. destruct q; exact I.
Qed.

(* ---- the repaired serialiser ---- *)
Lemma erase_pwrap b q : erase (pwrap b q) = erase q. Proof. destruct b; reflexivity. Qed.
Lemma wg_pwrap b q : wg (pwrap b q) = wg q. Proof. destruct b; reflexivity. Qed.

Lemma pq2_erase e : forall p l, erase (pq2 p l e) = e.
Proof.
  induction e as [v|x|a IHa|a IHa b IHb|a IHa b IHb|op a IHa b IHb]; intros p l; cbn [pq2]; rewrite ?erase_pwrap; cbn [erase];
    rewrite ?erase_pwrap, ?IHa, ?IHb; reflexivity.
Qed.

Lemma pq2_left_ok e p : pleft_ok (pq2 p true e) = true.
Proof. destruct e; cbn [pq2]; rewrite ?orb_true_r; reflexivity. Qed.

Lemma pq2_operand_atomic e : patomic (pwrap (compound e) (pq2 0 false e)) = true.
Proof. destruct e; reflexivity. Qed.

Lemma pq2_wg e : forall p l, wg (pq2 p l e) = true.
Proof.
  induction e as [v|x|a IHa|a IHa b IHb|a IHa b IHb|op a IHa b IHb]; intros p l; cbn [pq2]; rewrite ?wg_pwrap; cbn [wg].
  - reflexivity.
  - reflexivity.
  - apply IHa.
  - rewrite pq2_left_ok, IHa, IHb. reflexivity.
  - rewrite pq2_left_ok, IHa, IHb. reflexivity.
  - rewrite !pq2_operand_atomic, !wg_pwrap, IHa, IHb. reflexivity.
Qed.

(* C04: for EVERY condition tree, the text str() produces parses back to the same tree ... *)
Theorem print2_roundtrip e : parse flags_on (print2 e) = Ok e.
Proof. unfold print2. rewrite (parse_wellgrouped _ (pq2_wg e 0 false)), pq2_erase. reflexivity. Qed.

(* ... so it has the same value on every data, and serialising the re-parsed tree gives the same text again *)
Corollary print2_same_meaning e : exists e', parse flags_on (print2 e) = Ok e' /\ (forall env, eval env e' = eval env e) /\ print2 e' = print2 e.
Proof. exists e. rewrite print2_roundtrip. repeat split. Qed.

Corollary run_reprint2_fixpoint c : run_reprint2 c = run_print2 c.
Proof. unfold run_reprint2, run_print2. destruct (parse flags_on (pc_toks c)) as [e| |]; try reflexivity. rewrite print2_roundtrip. reflexivity. Qed.

(* the minimal printer of CondPrint.v is another instance *)
Lemma pq_toks c e : toks (pq c e) = pr c e.
Proof.
  revert c. induction e as [v|x|a IHa|a IHa b IHb|a IHa b IHb|op a IHa b IHb]; intro c; cbn [pq pr];
    destruct (wraps c _); cbn [pwrap wrap toks]; rewrite ?IHa, ?IHb; reflexivity.
Qed.

From Coq Require Import String.
Local Open Scope string_scope. Local Open Scope list_scope.

(* the serialiser before the repair: `(a and b) or c` comes back as `a and (b or c)`, which differs when a is false and c true *)
Theorem print_old_refuted :
  let e := BOr (BAnd (BVar (lit "a")) (BVar (lit "b"))) (BVar (lit "c")) in
  let env := [(lit "a", VBool false); (lit "b", VBool false); (lit "c", VBool true)] in
  exists e', parse flags_on (print_old e) = Ok e' /\ e' <> e /\ eval_cond env e' <> eval_cond env e.
Proof.
  eexists. split; [vm_compute; reflexivity|]. split; [discriminate|]. vm_compute. discriminate.
Qed.

(* ... `(not a) and b` comes back as `not (a and b)` ... *)
Theorem print_old_not_refuted :
  let e := BAnd (BNot (BVar (lit "a"))) (BVar (lit "b")) in
  let env := [(lit "a", VBool true); (lit "b", VBool false)] in
  exists e', parse flags_on (print_old e) = Ok e' /\ eval_cond env e' <> eval_cond env e.
Proof. eexists. split; [vm_compute; reflexivity|]. vm_compute. discriminate. Qed.

(* ... and a compound comparison operand lost its parentheses: `a == (b and c)` came back as `(a == b) and c` *)
Theorem print_old_operand_refuted :
  let e := BCmp OEq (BVar (lit "a")) (BAnd (BVar (lit "b")) (BVar (lit "c"))) in
  let env := [(lit "a", VBool false); (lit "b", VBool true); (lit "c", VNil)] in
  exists e', parse flags_on (print_old e) = Ok e' /\ eval_cond env e' <> eval_cond env e.
Proof. eexists. split; [vm_compute; reflexivity|]. vm_compute. discriminate. Qed.
