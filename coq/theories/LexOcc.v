(* LexOcc.v — the occurrence guard for C10/C11 (replaces the alphabet guard [no_collision] of LexSpec.v).
   A text may contain ANY characters as long as no opening delimiter (tag start, statement start, comment start when
   shorthand comments are enabled) OCCURS at a position inside it in the source — which includes an occurrence that
   starts in the text and is completed by the markup that follows (text "{" before "{% x %}" forms "{{%").  A body may
   contain anything as long as the closing pattern of its own construct does not match at a position inside it.
   Definitions only. *)
From LiquidVerif Require Import Prelude Lex LexSpec.

Definition is_some {A} (o : option A) : bool := match o with Some _ => true | None => false end.

(* the matcher f matches at no position of y in the source  y ++ after  (positions 0 .. |y|-1) *)
Fixpoint nomatch {A} (f : str -> option A) (y after : str) : bool :=
  match y with
  | [] => true
  | c :: y' => negb (is_some (f ((c :: y') ++ after))) && nomatch f y' after
  end.

(* no opening delimiter occurs at a position of the text t, given what follows it *)
Definition clean (d : delims) (t after : str) : bool := nomatch (delim_at d) t after.

Definition first_nonspace (x : str) : bool := match x with c :: _ => negb (is_space c) | [] => true end.

(* [rest] is the source text that follows the markup *)
Definition wf_markup_occ (d : delims) (m : markup) (rest : str) : bool :=
  match m with
  | MkOut l w1 q e w2 r =>
      all_space w1 && all_space w2 && quote_ok q && lit_ok q e
      && nomatch (close (d_se d)) (q :: e ++ [q]) (w2 ++ hyp r ++ d_se d ++ rest)
  | MkEcho l w1 w2 q e w3 r =>
      all_space w1 && all_space w2 && all_space w3 && quote_ok q && lit_ok q e
      && nomatch (close (d_te d)) (q :: e ++ [q]) (w3 ++ hyp r ++ d_te d ++ rest)
  | MkInline l w1 w2 body w3 r =>
      all_space w1 && all_space w2 && all_space w3
      && nomatch (close (d_te d)) body (w3 ++ hyp r ++ d_te d ++ rest)
      && forallb (fun c => negb (N.eqb c nl)) body
      && (nonempty body || negb (nonempty w3)) && first_nonspace body
  | MkRaw l1 w1 w2 r1 body l2 w3 w4 r2 =>
      all_space w1 && all_space w2 && all_space w3 && all_space w4
      && nomatch (wordtag d w_endraw) body (wtag d l2 w3 w_endraw w4 r2 ++ rest)
  | MkDoc l1 w1 w2 r1 body l2 w3 w4 r2 =>
      all_space w1 && all_space w2 && all_space w3 && all_space w4
      && nomatch (wordtag d w_enddoc) body (wtag d l2 w3 w_enddoc w4 r2 ++ rest)
  | MkComment l1 w1 w2 r1 body l2 w3 w4 r2 =>
      (* the body of a block comment is scanned again by the lexer: here it is a text (no opening delimiter occurs
         in it); bodies that contain complete markup are covered by the correspondence run only *)
      all_space w1 && all_space w2 && all_space w3 && all_space w4
      && clean d body (wtag d l2 w3 w_endcomment w4 r2 ++ rest)
  | MkShort l body r =>
      nonempty (d_cs d)
      && nomatch (cclose (d_ce d)) (hyp l ++ body) (hyp r ++ d_ce d ++ rest)
      && (l || negb (hyphen_next (body ++ hyp r ++ d_ce d ++ rest)))   (* a hyphen right after the opening delimiter IS the left marker *)
  end.

Fixpoint wf_segs_occ (d : delims) (segs : list (str * markup)) (tail : str) : bool :=
  match segs with
  | [] => clean d tail []
  | (t, m) :: r =>
      let rest := build_segs d r ++ tail in
      clean d t (msrc d m ++ rest) && wf_markup_occ d m rest && wf_segs_occ d r tail
  end.

(* the occurrence guard *)
Definition no_collision_occ (d : delims) (tp : template) : bool :=
  d_ok d && wf_segs_occ d (fst tp) (snd tp).
