(* Expressions inside tags and output statements, token level: the printers transcribe the __str__ methods of
   liquid/builtin/expressions/{primitive,path,filtered,arguments,loop}.py and of the tags that own an expression
   (output, echo, assign, for, tablerow, case/when, cycle, include, render, capture/increment/decrement); the parsers
   transcribe parse_primitive, Path.parse (PathSyntax.parse_path), Filter.parse, FilteredExpression.parse,
   TernaryFilteredExpression.parse, LoopExpression.parse, KeywordArgument.parse, PositionalArgument.parse,
   parse_identifier, CaseTag._parse_when_expression and the parse methods of cycle / include / render / assign
   (default environment: strict mode, no shorthand indexes, no keyword assignment with `=`; ternaries, `not` and
   parentheses enabled).  The token stream is a list; its end is TOKEN_EOF (TokenStream returns eof for ever).
   The condition of a ternary is tokenised in the vocabulary of the condition model (Cond.tok: an operand is ONE token)
   and parsed by Cond.pp itself; everywhere else a path is the token sequence of PathSyntax.
   The model is the code AFTER the fixes C04-1..C04-5; the behaviour before them is kept as `*_old`.
   Executable definitions only. *)
From Coq Require Import String.
From LiquidVerif Require Import Prelude PyPrims Cond CondPrint CondParen StrLit PathSyntax.
Local Open Scope string_scope. Local Open Scope list_scope.

Inductive etok :=
| EWord (s : str)                       (* TOKEN_WORD: a word that is not a keyword *)
| EDot | EIdentStr (s : str) | EIdentIdx (z : Z) | ELBr | ERBr
| EInt (z : Z) | EFloat (s : str) | EStr (s : str)
| ETrue | EFalse | ENil | EEmpty | EBlank
| ERangeL | ERange | ERParen | ELParen
| EColon | EComma | EPipe | EDPipe | EAssign
| EIf | EElse | EIn | ELimit | EOffset | ECols | EReversed | EContinue | EWith | EFor | EAs | EOr
| EOtherKw                              (* and contains not required *)
| ECond (t : tok).                      (* a token of a ternary's condition, in the vocabulary of Cond.v *)

(* the lexer turns a word that is a keyword into the keyword's own token kind (_tokenize.py: _keywords) *)
Definition kw_table : list (str * etok) :=
  [(lit "true", ETrue); (lit "false", EFalse); (lit "nil", ENil); (lit "null", ENil); (lit "empty", EEmpty); (lit "blank", EBlank);
   (lit "and", EOtherKw); (lit "or", EOr); (lit "contains", EOtherKw); (lit "not", EOtherKw); (lit "in", EIn);
   (lit "offset", EOffset); (lit "limit", ELimit); (lit "reversed", EReversed); (lit "cols", ECols); (lit "continue", EContinue);
   (lit "with", EWith); (lit "for", EFor); (lit "as", EAs); (lit "if", EIf); (lit "else", EElse); (lit "required", EOtherKw)].
Definition is_kw (s : str) : bool := match alookup s kw_table with Some _ => true | None => false end.
Definition word_tok (s : str) : etok := match alookup s kw_table with Some t => t | None => EWord s end.

Definition to_ptok (t : etok) : ptok :=
  match t with
  | EWord s => PWord s | EDot => PDot | EIdentStr s => PIdentStr s | EIdentIdx z => PIdentIdx z | ELBr => PLBr | ERBr => PRBr
  | _ => POther
  end.
Definition of_ptok (t : ptok) : etok :=
  match t with
  | PWord s => word_tok s | PDot => EDot | PIdentStr s => EIdentStr s | PIdentIdx z => EIdentIdx z | PLBr => ELBr | PRBr => ERBr
  | POther => EComma
  end.
Definition to_ctok (t : etok) : tok := match t with ECond c => c | _ => TJunk end.

(* ---- abstract syntax ---- *)
Inductive prim :=
| PInt (z : Z) | PFloat (s : str)       (* the float's text: its formatting is below the token level *)
| PStr (s : str) | PTrue | PFalse | PNil | PEmpty | PBlank
| PPath (p : list seg)
| PRange (a b : prim).

Inductive arg := APos (p : prim) | AKw (k : str) (p : prim).
Record filter := { f_name : str; f_args : list arg }.
Record fexpr := { fe_left : prim; fe_filters : list filter }.
Inductive expr :=
| XFilt (e : fexpr)
| XTern (e : fexpr) (c : bexpr) (alt : option (prim * list filter)) (tail : list filter).

Record loopx := { lp_id : str; lp_iter : prim; lp_limit : option prim; lp_offset : option prim; lp_cols : option prim; lp_rev : bool }.
(* include: name, `with`/`for` variable and alias, keyword arguments;  render: the name is a string or an identifier *)
Record inclx := { in_name : prim; in_bind : option (list seg * option str); in_args : list (str * prim) }.
Inductive rname := RStr (s : str) | RIdent (s : str).
Record rendx := { rd_name : rname; rd_bind : option (bool * list seg * option str); rd_args : list (str * prim) }.

Inductive payload :=
| YExpr (e : expr)                      (* output statement, echo *)
| YAssign (name : str) (e : expr)
| YLoop (l : loopx)                     (* for, tablerow *)
| YCase (p : prim)
| YWhen (l : list prim)
| YCycle (g : option prim) (args : list prim)
| YInclude (i : inclx)
| YRender (r : rendx)
| YIdent (s : str).                     (* increment, decrement (kind KIdent); capture (kind KCapture: nothing may follow) *)
Inductive pkind := KExpr | KAssign | KLoop | KCase | KWhen | KCycle | KInclude | KRender | KIdent | KCapture.
Definition kind_of (y : payload) : pkind :=
  match y with
  | YExpr _ => KExpr | YAssign _ _ => KAssign | YLoop _ => KLoop | YCase _ => KCase | YWhen _ => KWhen | YCycle _ _ => KCycle
  | YInclude _ => KInclude | YRender _ => KRender | YIdent _ => KIdent
  end.

Definition hd_tok (ts : list etok) : option etok := hd_error ts.
Definition is_comma (t : option etok) : bool := match t with Some EComma => true | _ => false end.
Definition is_colon (t : option etok) : bool := match t with Some EColon => true | _ => false end.
Definition is_eword (t : option etok) : bool := match t with Some (EWord _) => true | _ => false end.
Fixpoint join (sep : list etok) (l : list (list etok)) : list etok :=
  match l with [] => [] | [x] => x | x :: r => x ++ sep ++ join sep r end.
(* `if tokens.current.kind == TOKEN_COMMA: next(tokens)` *)
Definition skip_comma (ts : list etok) : list etok := match ts with EComma :: r => r | _ => ts end.
Definition ends_q (s : str) : bool := match rev s with 63%N :: _ => true | _ => false end.     (* word.endswith('?') *)

Section Syntax.
  Variable is_prop : str -> bool.        (* path.is_property: RE_PROPERTY.fullmatch and not a keyword *)

  (* ================= printers ================= *)
  Fixpoint print_prim (p : prim) : list etok :=
    match p with
    | PInt z => [EInt z] | PFloat s => [EFloat s] | PStr s => [EStr s]
    | PTrue => [ETrue] | PFalse => [EFalse]
    | PNil => []                                                  (* Nil.__str__ returns '' -- pinned by the tests *)
    | PEmpty => [EEmpty] | PBlank => [EBlank]
    | PPath l => map of_ptok (print_path is_prop l)
    | PRange a b => ERangeL :: print_prim a ++ ERange :: print_prim b ++ [ERParen]
    end.

  Definition print_arg (a : arg) : list etok :=
    match a with APos p => print_prim p | AKw k p => word_tok k :: EColon :: print_prim p end.
  Definition print_filter (f : filter) : list etok :=
    word_tok (f_name f) :: match f_args f with [] => [] | l => EColon :: join [EComma] (map print_arg l) end.
  (* ' | f | g' *)
  Definition print_pipes (fs : list filter) : list etok := flat_map (fun f => EPipe :: print_filter f) fs.
  Definition print_fexpr (e : fexpr) : list etok := print_prim (fe_left e) ++ print_pipes (fe_filters e).
  Definition print_expr (e : expr) : list etok :=
    match e with
    | XFilt e => print_fexpr e
    | XTern e c alt tail =>
        print_fexpr e ++ EIf :: map ECond (print2 c)
        ++ match alt with Some (a, fs) => EElse :: print_prim a ++ print_pipes fs | None => [] end
        ++ match tail with [] => [] | f :: r => EDPipe :: print_filter f ++ print_pipes r end
    end.

  (* path.quote_identifier *)
  Definition print_ident (s : str) : list etok := if is_prop s then [word_tok s] else [EIdentStr s].
  Definition print_opt (k : etok) (o : option prim) : list etok :=
    match o with Some p => k :: EColon :: print_prim p | None => [] end.
  Definition print_loop (l : loopx) : list etok :=
    print_ident (lp_id l) ++ EIn :: print_prim (lp_iter l) ++ print_opt ELimit (lp_limit l) ++ print_opt EOffset (lp_offset l)
    ++ print_opt ECols (lp_cols l) ++ (if lp_rev l then [EReversed] else []).
  Definition print_kwarg (a : str * prim) : list etok := word_tok (fst a) :: EColon :: print_prim (snd a).
  (* the tail shared by include and render: [, ]k:v, j:w *)
  Definition print_kwargs (l : list (str * prim)) : list etok :=
    match l with [] => [] | _ => EComma :: join [EComma] (map print_kwarg l) end.
  Definition print_alias (a : option str) : list etok := match a with Some s => [EAs; word_tok s] | None => [] end.
  Definition print_include (i : inclx) : list etok :=
    print_prim (in_name i)
    ++ match in_bind i with Some (v, a) => EWith :: map of_ptok (print_path is_prop v) ++ print_alias a | None => [] end
    ++ print_kwargs (in_args i).
  Definition print_rname (n : rname) : list etok := match n with RStr s => [EStr s] | RIdent s => print_ident s end.
  Definition print_render (r : rendx) : list etok :=
    print_rname (rd_name r)
    ++ match rd_bind r with
       | Some (lp, v, a) => (if lp then EFor else EWith) :: map of_ptok (print_path is_prop v) ++ print_alias a
       | None => []
       end
    ++ print_kwargs (rd_args r).
  Definition print_cycle (g : option prim) (args : list prim) : list etok :=
    match g with Some p => print_prim p ++ [EColon] | None => [] end ++ join [EComma] (map print_prim args).

  Definition print_payload (y : payload) : list etok :=
    match y with
    | YExpr e => print_expr e
    | YAssign n e => print_ident n ++ EAssign :: print_expr e
    | YLoop l => print_loop l
    | YCase p => print_prim p
    | YWhen l => join [EComma] (map print_prim l)
    | YCycle g a => print_cycle g a
    | YInclude i => print_include i
    | YRender r => print_render r
    | YIdent s => print_ident s
    end.

  (* ================= parsers ================= *)
  (* Path.parse on the current position of the stream *)
  Definition parse_path_e (ts : list etok) : res (list seg * list etok) :=
    do x <- parse_path (S (length ts)) [] (map to_ptok ts);
    Ok (fst x, skipn (length ts - length (snd x)) ts).

  (* parse_primitive; the fuel bounds the nesting of range literals *)
  Fixpoint parse_prim (fuel : nat) (ts : list etok) {struct fuel} : res (prim * list etok) :=
    match fuel with
    | O => OutOfFuel
    | S f =>
        match ts with
        | ETrue :: r => Ok (PTrue, r)
        | EFalse :: r => Ok (PFalse, r)
        | ENil :: r => Ok (PNil, r)
        | EInt z :: r => Ok (PInt z, r)
        | EFloat s :: r => Ok (PFloat s, r)
        | EStr s :: r => Ok (PStr s, r)
        | ERangeL :: r =>
            do a <- parse_prim f r;
            match snd a with
            | ERange :: r2 =>
                do b <- parse_prim f r2;
                match snd b with ERParen :: r3 => Ok (PRange (fst a) (fst b), r3) | _ => Err ESyntax end
            | _ => Err ESyntax
            end
        | EEmpty :: r => Ok (PEmpty, r)
        | EBlank :: r => Ok (PBlank, r)
        | EWord _ :: _ | EIdentStr _ :: _ | ELBr :: _ => do x <- parse_path_e ts; Ok (PPath (fst x), snd x)
        | _ => Err ESyntax
        end
    end.
  Definition pfuel (ts : list etok) : nat := S (length ts).
  Definition pprim (ts : list etok) : res (prim * list etok) := parse_prim (pfuel ts) ts.

  (* FILTER_TOKENS (with TOKEN_IDENTSTRING, fix C04-4) *)
  Definition is_filter_tok_gen (identstr : bool) (t : option etok) : bool :=
    match t with
    | Some (EInt _) | Some (EFloat _) | Some (EStr _) | Some EFalse | Some ETrue | Some ENil | Some ERangeL
    | Some ELBr | Some ELParen | Some (EWord _) => true
    | Some (EIdentStr _) => identstr
    | _ => false
    end.

  Section Filters.
    Variable identstr : bool.
    Let is_filter_tok := is_filter_tok_gen identstr.

    (* the inner `while True` of Filter.parse: the arguments of one filter *)
    Fixpoint parse_fargs (fuel : nat) (acc : list arg) (ts : list etok) {struct fuel} : res (list arg * list etok) :=
      match fuel with
      | O => OutOfFuel
      | S f =>
          match ts with
          | EWord w :: r =>
              do x <- (if is_colon (hd_tok r) then do y <- pprim (tl r); Ok (AKw w (fst y), snd y)
                       else do y <- pprim ts; Ok (APos (fst y), snd y));
              if is_filter_tok (hd_tok (snd x)) then Err ESyntax else parse_fargs f (fst x :: acc) (snd x)
          | EComma :: r => if is_comma (hd_tok r) then Err ESyntax else parse_fargs f acc r
          | t :: _ =>
              if is_filter_tok (Some t) then
                do y <- pprim ts;
                if is_filter_tok (hd_tok (snd y)) then Err ESyntax else parse_fargs f (APos (fst y) :: acc) (snd y)
              else Ok (rev acc, ts)
          | [] => Ok (rev acc, [])
          end
      end.

    (* Filter.parse(env, tokens, delim=...): dpipe says whether `||` is a delimiter too *)
    Fixpoint parse_filters (fuel : nat) (dpipe : bool) (acc : list filter) (ts : list etok) {struct fuel} : res (list filter * list etok) :=
      match fuel with
      | O => OutOfFuel
      | S f =>
          match ts with
          | t :: r =>
              if match t with EPipe => true | EDPipe => dpipe | _ => false end then
                match r with
                | EWord name :: r2 =>
                    if is_colon (hd_tok r2) then
                      do x <- parse_fargs (S (length r2)) [] (tl r2);
                      parse_filters f dpipe ({| f_name := name; f_args := fst x |} :: acc) (snd x)
                    else parse_filters f dpipe ({| f_name := name; f_args := [] |} :: acc) r2
                | _ => Err ESyntax
                end
              else Ok (rev acc, ts)
          | [] => Ok (rev acc, [])
          end
      end.
    Definition pfilters (dpipe : bool) (ts : list etok) := parse_filters (S (length ts)) dpipe [] ts.

    (* TernaryFilteredExpression.parse, after the `if` *)
    Definition parse_ternary (e : fexpr) (ts : list etok) : res expr :=
      do c <- pp flags_on (4 * length ts + 4) 1 (map to_ctok ts);
      let r1 := skipn (length ts - length (snd c)) ts in
      do a <- match r1 with
              | EElse :: r =>
                  do p <- pprim r;
                  match snd p with
                  | EPipe :: _ => do fs <- pfilters false (snd p); Ok (Some (fst p, fst fs), snd fs)
                  | _ => Ok (Some (fst p, []), snd p)
                  end
              | _ => Ok (None, r1)
              end;
      do t <- match snd a with
              | EDPipe :: _ => pfilters true (snd a)
              | _ => Ok ([], snd a)
              end;
      match snd t with [] => Ok (XTern e (fst c) (fst a) (fst t)) | _ => Err ESyntax end.

    (* FilteredExpression.parse *)
    Definition parse_expr (ts : list etok) : res expr :=
      do l <- pprim ts;
      do fs <- pfilters false (snd l);
      let e := {| fe_left := fst l; fe_filters := fst fs |} in
      match snd fs with
      | EIf :: r => parse_ternary e r
      | [] => Ok (XFilt e)
      | _ => Err ESyntax
      end.
  End Filters.

  (* parse_identifier *)
  Definition parse_ident (allow_q : bool) (ts : list etok) : res (str * list etok) :=
    do x <- pprim ts;
    match fst x with
    | PInt z => Ok (Z_to_str z, snd x)
    | PPath [SName w] => if negb allow_q && ends_q w then Err ESyntax else Ok (w, snd x)
    | _ => Err ESyntax
    end.

  (* LoopExpression.parse: the `while True` over limit / offset / cols / reversed *)
  Definition set_loop (l : loopx) (k : etok) (p : prim) : loopx :=
    match k with
    | ELimit => {| lp_id := lp_id l; lp_iter := lp_iter l; lp_limit := Some p; lp_offset := lp_offset l; lp_cols := lp_cols l; lp_rev := lp_rev l |}
    | EOffset => {| lp_id := lp_id l; lp_iter := lp_iter l; lp_limit := lp_limit l; lp_offset := Some p; lp_cols := lp_cols l; lp_rev := lp_rev l |}
    | _ => {| lp_id := lp_id l; lp_iter := lp_iter l; lp_limit := lp_limit l; lp_offset := lp_offset l; lp_cols := Some p; lp_rev := lp_rev l |}
    end.
  Definition set_rev (l : loopx) : loopx :=
    {| lp_id := lp_id l; lp_iter := lp_iter l; lp_limit := lp_limit l; lp_offset := lp_offset l; lp_cols := lp_cols l; lp_rev := true |}.
  Definition loop_key (k : etok) : bool := match k with ELimit | EOffset | ECols => true | _ => false end.
  Definition is_offset (k : etok) : bool := match k with EOffset => true | _ => false end.
  Definition is_continue (t : option etok) : bool := match t with Some EContinue => true | _ => false end.
  Definition is_reversed (k : etok) : bool := match k with EReversed => true | _ => false end.

  Fixpoint parse_loop_args (fuel : nat) (l : loopx) (ts : list etok) {struct fuel} : res loopx :=
    match fuel with
    | O => OutOfFuel
    | S f =>
        match ts with
        | [] => Ok l
        | k :: r =>
            if is_reversed k then parse_loop_args f (set_rev l) r
            else if loop_key k then
              if is_colon (hd_tok r) then
                if is_offset k && is_continue (hd_tok (tl r)) then parse_loop_args f (set_loop l EOffset (PStr (lit "continue"))) (tl (tl r))
                else do p <- pprim (tl r); parse_loop_args f (set_loop l k (fst p)) (snd p)
              else Err ESyntax
            else if is_comma (Some k) then (if is_comma (hd_tok (tl r)) then Err ESyntax else parse_loop_args f l r)
            else Err ESyntax
        end
    end.
  Definition parse_loop (ts : list etok) : res loopx :=
    do i <- parse_ident true ts;
    match snd i with
    | EIn :: r =>
        do it <- pprim r;
        let r2 := skip_comma (snd it) in                                  (* leading commas are OK *)
        parse_loop_args (S (length r2)) {| lp_id := fst i; lp_iter := fst it; lp_limit := None; lp_offset := None; lp_cols := None; lp_rev := false |} r2
    | _ => Err ESyntax
    end.

  (* KeywordArgument.parse (include, render) *)
  Fixpoint parse_kwargs_loop (fuel : nat) (acc : list (str * prim)) (ts : list etok) {struct fuel} : res (list (str * prim)) :=
    match fuel with
    | O => OutOfFuel
    | S f =>
        let ts1 := skip_comma ts in                                     (* token = next(); a comma is skipped once *)
        match ts1 with
        | [] => Ok (rev acc)
        | EWord w :: EColon :: r =>
            do p <- pprim r;
            if is_eword (hd_tok (snd p)) then Err ESyntax else parse_kwargs_loop f ((w, fst p) :: acc) (snd p)
        | _ => Err ESyntax
        end
    end.
  Definition parse_kwargs (ts : list etok) : res (list (str * prim)) :=
    let ts0 := skip_comma ts in                                         (* leading commas are OK *)
    parse_kwargs_loop (S (length ts0)) [] ts0.

  (* PositionalArgument.parse (cycle) *)
  Fixpoint parse_posargs (fuel : nat) (acc : list prim) (ts : list etok) {struct fuel} : res (list prim) :=
    match fuel with
    | O => OutOfFuel
    | S f =>
        let ts1 := skip_comma ts in
        match ts1 with
        | [] => Ok (rev acc)
        | _ => do p <- pprim ts1; parse_posargs f (fst p :: acc) (snd p)
        end
    end.

  (* CaseTag._parse_when_expression in STRICT mode (the mode of the round trip): a failing primitive after a separator is a syntax
     error (since fix C03-when-list-strict; before it, and still in lax mode, it ended the list quietly -- [parse_when_loop_old]); no
     end-of-stream check *)
  Fixpoint parse_when_loop (fuel : nat) (acc : list prim) (ts : list etok) {struct fuel} : res (list prim) :=
    match fuel with
    | O => OutOfFuel
    | S f =>
        match ts with
        | EComma :: r | EOr :: r =>
            match pprim r with
            | Ok p => parse_when_loop f (fst p :: acc) (snd p)
            | Err e => Err e
            | OutOfFuel => OutOfFuel
            end
        | _ => Ok (rev acc)
        end
    end.
  Definition parse_when (ts : list etok) : res (list prim) :=
    do p <- pprim ts; parse_when_loop (S (length ts)) [fst p] (snd p).
  Fixpoint parse_when_loop_old (fuel : nat) (acc : list prim) (ts : list etok) {struct fuel} : res (list prim) :=
    match fuel with
    | O => OutOfFuel
    | S f =>
        match ts with
        | EComma :: r | EOr :: r =>
            match pprim r with
            | Ok p => parse_when_loop_old f (fst p :: acc) (snd p)
            | Err _ => Ok (rev acc)
            | OutOfFuel => OutOfFuel
            end
        | _ => Ok (rev acc)
        end
    end.
  Definition parse_when_old (ts : list etok) : res (list prim) :=
    do p <- pprim ts; parse_when_loop_old (S (length ts)) [fst p] (snd p).

  Definition parse_cycle (ts : list etok) : res payload :=
    do g <- (if is_colon (hd_tok (tl ts)) then
               do p <- pprim ts;
               match snd p with EColon :: r => Ok (Some (fst p), r) | _ => Err ESyntax end
             else Ok (None, ts));
    do a <- parse_posargs (S (length (snd g))) [] (snd g);
    match a with [] => Err ESyntax | _ => Ok (YCycle (fst g) a) end.

  (* the optional `with x as y` / `for x as y`; [relaxed] = the variable may start with a bracket (fix C04-3) *)
  Definition parse_bind (relaxed : bool) (ts : list etok) : res (option (bool * list seg * option str) * list etok) :=
    match ts with
    | k :: r =>
        if match k with EWith | EFor => true | _ => false end then
          let lp := match k with EFor => true | _ => false end in
          if match hd_tok r with Some (EWord _) => true | Some (EIdentStr _) | Some ELBr => relaxed | _ => false end then
            do v <- parse_path_e r;
            match snd v with
            | EAs :: r2 =>
                if is_eword (hd_tok r2) then do a <- parse_ident true r2; Ok (Some (lp, fst v, Some (fst a)), snd a)
                else Err ESyntax
            | _ => Ok (Some (lp, fst v, None), snd v)
            end
          else Err ESyntax
        else Ok (None, ts)
    | [] => Ok (None, [])
    end.

  Definition parse_include (relaxed : bool) (ts : list etok) : res inclx :=
    do n <- pprim ts;
    match fst n with
    | PStr _ | PPath _ =>
        do b <- parse_bind relaxed (snd n);
        do a <- parse_kwargs (snd b);
        Ok {| in_name := fst n; in_bind := match fst b with Some (_, v, al) => Some (v, al) | None => None end; in_args := a |}
    | _ => Err ESyntax
    end.

  Definition parse_render (relaxed : bool) (ts : list etok) : res rendx :=
    do n <- pprim ts;
    do name <- match fst n with
               | PStr s => Ok (RStr s)
               | PPath [SName w] => Ok (RIdent w)
               | _ => Err ESyntax
               end;
    do b <- parse_bind relaxed (snd n);
    do a <- parse_kwargs (snd b);
    Ok {| rd_name := name; rd_bind := fst b; rd_args := a |}.

  Definition parse_payload_gen (fixed : bool) (k : pkind) (ts : list etok) : res payload :=
    match k with
    | KExpr => do e <- parse_expr fixed ts; Ok (YExpr e)
    | KAssign =>
        do i <- parse_ident false ts;
        match snd i with EAssign :: r => do e <- parse_expr fixed r; Ok (YAssign (fst i) e) | _ => Err ESyntax end
    | KLoop => do l <- parse_loop ts; Ok (YLoop l)
    | KCase => do p <- pprim ts; match snd p with [] => Ok (YCase (fst p)) | _ => Err ESyntax end
    | KWhen => do l <- parse_when ts; Ok (YWhen l)
    | KCycle => parse_cycle ts
    | KInclude => do i <- parse_include fixed ts; Ok (YInclude i)
    | KRender => do r <- parse_render fixed ts; Ok (YRender r)
    | KIdent => do i <- parse_ident true ts; Ok (YIdent (fst i))       (* increment / decrement do not look further *)
    | KCapture => do i <- parse_ident true ts; match snd i with [] => Ok (YIdent (fst i)) | _ => Err ESyntax end
    end.
  Definition parse_payload := parse_payload_gen true.
End Syntax.

(* path.is_property after fix C04-1: RE_PROPERTY and not a keyword *)
Definition expr_is_prop (s : str) : bool := std_is_prop s && negb (is_kw s).

(* ================= well-formedness: what the parser can produce and the serialiser must handle ================= *)
Fixpoint wfs (g : seg) : bool :=
  match g with
  | SNested p => match p with [] => false | _ => true end &&
                 (fix wl (l : list seg) : bool := match l with [] => true | x :: r => wfs x && wl r end) p
  | _ => true
  end.
Fixpoint wfl (l : list seg) : bool := match l with [] => true | x :: r => wfs x && wfl r end.
(* a path at expression level: non-empty, nested paths non-empty, and it does not begin with an index *)
Definition wf_path (l : list seg) : bool :=
  match l with [] => false | SIdx _ :: _ => false | _ => wfl l end.
Definition is_range (p : prim) : bool := match p with PRange _ _ => true | _ => false end.
Fixpoint wf_prim (p : prim) : bool :=
  match p with
  | PNil => false                                    (* the recorded finding: nil prints as nothing *)
  | PStr s => negb (has SQ s && has DQ s)            (* a literal cannot contain both kinds of quote (StrLit) *)
  | PPath l => wf_path l
  | PRange a b => wf_prim a && wf_prim b
  | _ => true
  end.
Definition wf_name (s : str) : bool := negb (is_kw s).       (* a filter / argument / alias name is the text of a WORD token *)
Definition wf_arg (a : arg) : bool :=
  match a with
  | APos p => wf_prim p && match p with PEmpty | PBlank => false | _ => true end     (* not in FILTER_TOKENS: the parser rejects them *)
  | AKw k p => wf_name k && wf_prim p
  end.
Definition wf_filter (f : filter) : bool := wf_name (f_name f) && forallb wf_arg (f_args f).
Definition wf_fexpr (e : fexpr) : bool := wf_prim (fe_left e) && forallb wf_filter (fe_filters e).
Definition wf_expr (e : expr) : bool :=
  match e with
  | XFilt e => wf_fexpr e
  | XTern e _ alt tail =>
      wf_fexpr e && match alt with Some (a, fs) => wf_prim a && forallb wf_filter fs | None => true end && forallb wf_filter tail
  end.
Definition wf_opt (o : option prim) : bool := match o with Some p => wf_prim p | None => true end.
Definition wf_loop (l : loopx) : bool := wf_prim (lp_iter l) && wf_opt (lp_limit l) && wf_opt (lp_offset l) && wf_opt (lp_cols l).
Definition wf_kwargs (l : list (str * prim)) : bool := forallb (fun a => wf_name (fst a) && wf_prim (snd a)) l.
Definition wf_alias (a : option str) : bool := match a with Some s => wf_name s | None => true end.
(* a cycle group is recognised by the colon being the SECOND token: it is a one-token primitive *)
Definition one_token (p : prim) : bool :=
  match p with PRange _ _ | PNil => false | PPath [SName _] => true | PPath _ => false | _ => true end.
Definition wf_payload (y : payload) : bool :=
  match y with
  | YExpr e => wf_expr e
  | YAssign n e => negb (ends_q n) && wf_expr e
  | YLoop l => wf_loop l
  | YCase p => wf_prim p
  | YWhen l => match l with [] => false | _ => forallb wf_prim l end
  | YCycle g a => match g with Some p => one_token p && wf_prim p | None => true end && match a with [] => false | _ => forallb wf_prim a end
  | YInclude i =>
      match in_name i with PStr s => wf_prim (PStr s) | PPath l => wf_path l | _ => false end
      && match in_bind i with Some (v, a) => wf_path v && wf_alias a | None => true end && wf_kwargs (in_args i)
  | YRender r =>
      match rd_name r with RStr s => wf_prim (PStr s) | RIdent _ => true end
      && match rd_bind r with Some (_, v, a) => wf_path v && wf_alias a | None => true end && wf_kwargs (rd_args r)
  | YIdent _ => true
  end.

(* does the nil / null literal occur (the recorded finding is the only reason a parsed tree may fail to be well formed) *)
Fixpoint nil_free_prim (p : prim) : bool :=
  match p with PNil => false | PRange a b => nil_free_prim a && nil_free_prim b | _ => true end.
Definition nil_free_arg (a : arg) : bool := match a with APos p | AKw _ p => nil_free_prim p end.
Definition nil_free_filters (fs : list filter) : bool := forallb (fun f => forallb nil_free_arg (f_args f)) fs.
Definition nil_free_expr (e : expr) : bool :=
  match e with
  | XFilt e => nil_free_prim (fe_left e) && nil_free_filters (fe_filters e)
  | XTern e _ alt tail =>
      nil_free_prim (fe_left e) && nil_free_filters (fe_filters e)
      && match alt with Some (a, fs) => nil_free_prim a && nil_free_filters fs | None => true end && nil_free_filters tail
  end.
Definition nil_free_opt (o : option prim) : bool := match o with Some p => nil_free_prim p | None => true end.
Definition nil_free (y : payload) : bool :=
  match y with
  | YExpr e | YAssign _ e => nil_free_expr e
  | YLoop l => nil_free_prim (lp_iter l) && nil_free_opt (lp_limit l) && nil_free_opt (lp_offset l) && nil_free_opt (lp_cols l)
  | YCase p => nil_free_prim p
  | YWhen l => forallb nil_free_prim l
  | YCycle g a => nil_free_opt g && forallb nil_free_prim a
  | YInclude i => nil_free_prim (in_name i) && forallb (fun a => nil_free_prim (snd a)) (in_args i)
  | YRender r => forallb (fun a => nil_free_prim (snd a)) (rd_args r)
  | YIdent _ => true
  end.

(* ================= the serialiser before the fixes (witnesses) ================= *)
(* C04-2: identifiers were written as they are *)
Definition print_ident_old (s : str) : list etok := [word_tok s].
(* C04-1: is_prop did not exclude keywords *)
Definition old_is_prop : str -> bool := std_is_prop.

(* ================= correspondence ================= *)
Definition etok_eqb (a b : etok) : bool :=
  match a, b with
  | EWord x, EWord y | EIdentStr x, EIdentStr y | EFloat x, EFloat y | EStr x, EStr y => str_eqb x y
  | EIdentIdx x, EIdentIdx y | EInt x, EInt y => Z.eqb x y
  | ECond x, ECond y => tok_eqb x y
  | EDot, EDot | ELBr, ELBr | ERBr, ERBr | ETrue, ETrue | EFalse, EFalse | ENil, ENil | EEmpty, EEmpty | EBlank, EBlank
  | ERangeL, ERangeL | ERange, ERange | ERParen, ERParen | ELParen, ELParen | EColon, EColon | EComma, EComma | EPipe, EPipe
  | EDPipe, EDPipe | EAssign, EAssign | EIf, EIf | EElse, EElse | EIn, EIn | ELimit, ELimit | EOffset, EOffset | ECols, ECols
  | EReversed, EReversed | EContinue, EContinue | EWith, EWith | EFor, EFor | EAs, EAs | EOr, EOr | EOtherKw, EOtherKw => true
  | _, _ => false
  end.

(* the tokens of the SOURCE expression of a tag -> the tokens of what str() writes (None: the parser rejects the source) *)
Record xcase := { xc_kind : pkind; xc_toks : list etok }.
Definition run_xprint (c : xcase) : option (list etok) :=
  match parse_payload (xc_kind c) (xc_toks c) with
  | Ok y => Some (print_payload expr_is_prop y)
  | _ => None
  end.
(* ... and what parsing that again and serialising once more gives *)
Definition run_xreprint (c : xcase) : option (list etok) :=
  match parse_payload (xc_kind c) (xc_toks c) with
  | Ok y => match parse_payload (xc_kind c) (print_payload expr_is_prop y) with
            | Ok y' => Some (print_payload expr_is_prop y')
            | _ => None
            end
  | _ => None
  end.
Definition run_xprint_eqb (a b : option (list etok)) : bool := option_eqb (list_eqb etok_eqb) a b.
(* the serialiser alone, from the tree the harness generated *)
Record ycase := { yc_payload : payload }.
Definition run_yprint (c : ycase) : list etok := print_payload expr_is_prop (yc_payload c).
(* every tree the parser builds from a source without the nil literal is well formed (checked on the generated sources;
   the tokens must be what the lexer can produce: no keyword as a word, no string with both kinds of quote) *)
Definition run_xwf (c : xcase) : bool :=
  match parse_payload (xc_kind c) (xc_toks c) with
  | Ok y => wf_payload y || negb (nil_free y)
  | _ => true
  end.
(* the three observations on a source in one pass: str(); whether the second round gives the same tokens (compared only where the
   implementation round-trips: [snd o]); well-formedness of the parsed tree *)
Definition run_xall (c : xcase) : option (list etok) * option (list etok) * bool := (run_xprint c, run_xreprint c, run_xwf c).
Definition xall_eqb (m : option (list etok) * option (list etok) * bool) (o : option (list etok) * bool) : bool :=
  run_xprint_eqb (fst (fst m)) (fst o) && (if snd o then run_xprint_eqb (snd (fst m)) (fst o) else true) && snd m.
