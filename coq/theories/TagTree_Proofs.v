(* Round trip of the tag-level structure: parsing the serialisation of a tree gives the tree back. *)
From LiquidVerif Require Import Prelude TagTree.

Lemma pl_print_nodes body :
  (fix pl (ns : list node) : list ttok := match ns with [] => [] | m :: ns' => print_node m ++ pl ns' end) body = print_nodes body.
Proof. induction body as [|m b IH]; [reflexivity|]. cbn [print_nodes]. rewrite <- IH. reflexivity. Qed.

Lemma print_block n e body secs :
  print_node (NBlock n e body secs) = KTag n e :: print_nodes body ++ print_secs secs ++ [KTag (endname n) []].
Proof.
  cbn [print_node]. rewrite pl_print_nodes.
  match goal with |- _ :: _ ++ ?f secs ++ _ = _ => assert (Hs : f secs = print_secs secs) end.
  { induction secs as [|[[sn se] sb] ss IH]; [reflexivity|].
    cbn [print_secs]. rewrite <- IH, <- (pl_print_nodes sb). reflexivity. }
  rewrite Hs. reflexivity.
Qed.

Lemma mem_true_iff x l : mem x l = true <-> In x l.
Proof.
  induction l as [|y l IH]; cbn; [split; [discriminate|tauto]|].
  rewrite orb_true_iff, IH, str_eqb_eq. split; intros [H|H]; auto.
Qed.

Ltac len := cbn [length app print_secs print_nodes] in *; repeat rewrite app_length in *; cbn [length] in *;
            repeat rewrite app_length in *; cbn [length] in *; lia.

Section RoundTrip.
  Variable kind_of : str -> tagkind.
  Local Notation wf := (TagTree.wf kind_of).
  Local Notation wf_nodes := (TagTree.wf_nodes kind_of).
  Local Notation wf_secs := (TagTree.wf_secs kind_of).

  (* the register is coherent: end tags and section names are not themselves tags, and no section is named like the end tag *)
  Definition reg_ok : Prop := forall n ss, kind_of n = TBlock ss ->
    kind_of (endname n) = TNone /\ (forall s, mem s ss = true -> kind_of s = TNone) /\ mem (endname n) ss = false.

  Lemma wl_wf_nodes ns :
    (fix wl (ns : list node) : bool := match ns with [] => true | m :: r => wf m && wl r end) ns = wf_nodes ns.
  Proof. induction ns as [|m r IH]; [reflexivity|]. cbn [wf_nodes]. rewrite <- IH. reflexivity. Qed.

  Lemma wf_block name e body secs :
    wf (NBlock name e body secs) =
    match kind_of name with TBlock ss => wf_nodes body && wf_secs ss secs | _ => false end.
  Proof.
    cbn [wf]. destruct (kind_of name) as [ss| |]; try reflexivity.
    rewrite wl_wf_nodes. f_equal.
    induction secs as [|[[sn se] sb] r IH]; [reflexivity|]. cbn [wf_secs]. rewrite wl_wf_nodes, IH. reflexivity.
  Qed.

  Definition stops_ok (stops : list str) : Prop := forall x, mem x stops = true -> kind_of x = TNone.
  Definition rest_ok (stops : list str) (rest : list ttok) : Prop :=
    match rest with [] => True | KTag n _ :: _ => mem n stops = true | _ => False end.

  Hypothesis Hreg : reg_ok.

  Lemma inner_ok n ss : kind_of n = TBlock ss -> stops_ok (endname n :: ss).
  Proof.
    intros Hk x Hx. destruct (Hreg n ss Hk) as (He & Hs & _).
    cbn [mem] in Hx. apply orb_true_iff in Hx. destruct Hx as [Hx|Hx].
    - apply str_eqb_eq in Hx. subst x. exact He.
    - apply Hs, Hx.
  Qed.

  Section Step.
    Variable k : nat.
    Hypothesis IH : forall ns, length (print_nodes ns) <= k -> wf_nodes ns = true ->
      forall fuel stops rest, length (print_nodes ns ++ rest) < fuel -> stops_ok stops -> rest_ok stops rest ->
      parse_until kind_of fuel stops (print_nodes ns ++ rest) = Ok (ns, rest).

    Lemma psections_print n ss : kind_of n = TBlock ss ->
      forall secs tail f g, length (print_secs secs) <= k -> wf_secs ss secs = true ->
      length secs < g -> length (print_secs secs ++ KTag (endname n) [] :: tail) < f ->
      psections (parse_until kind_of f (endname n :: ss)) ss g (print_secs secs ++ KTag (endname n) [] :: tail)
      = Ok (secs, KTag (endname n) [] :: tail).
    Proof.
      intros Hk. destruct (Hreg n ss Hk) as (_ & _ & Hend).
      induction secs as [|[[sn se] sb] secs' IHs]; intros tail f g Hlen Hwf Hg Hf.
      - destruct g as [|g']; [cbn in Hg; lia|]. cbn [print_secs app psections]. rewrite Hend. reflexivity.
      - destruct g as [|g']; [cbn in Hg; lia|].
        cbn [wf_secs] in Hwf. apply andb_true_iff in Hwf. destruct Hwf as [Hwf Hwf']. apply andb_true_iff in Hwf. destruct Hwf as [Hm Hsb].
        assert (L1 : length (print_nodes sb) <= k) by len.
        assert (L2 : length (print_secs secs') <= k) by len.
        assert (L3 : length secs' < g') by len.
        assert (L4 : length (print_nodes sb ++ print_secs secs' ++ KTag (endname n) [] :: tail) < f) by len.
        assert (L5 : length (print_secs secs' ++ KTag (endname n) [] :: tail) < f) by len.
        cbn [print_secs]. cbn [app psections]. rewrite Hm. rewrite <- app_assoc.
        rewrite (IH sb); [| exact L1 | exact Hsb | exact L4 | apply inner_ok; exact Hk | ].
        + cbn [bind fst snd]. rewrite IHs; [reflexivity | exact L2 | exact Hwf' | exact L3 | exact L5 ].
        + destruct secs' as [|[[sn' se'] sb'] r].
          * cbn. rewrite str_eqb_refl. reflexivity.
          * cbn [print_secs app rest_ok]. cbn [wf_secs] in Hwf'.
            apply andb_true_iff in Hwf'. destruct Hwf' as [Hx _]. apply andb_true_iff in Hx. destruct Hx as [Hx _].
            cbn [mem]. rewrite Hx. apply orb_true_r.
    Qed.
  End Step.

  Lemma parse_print_until : forall k ns, length (print_nodes ns) <= k -> wf_nodes ns = true ->
    forall fuel stops rest, length (print_nodes ns ++ rest) < fuel -> stops_ok stops -> rest_ok stops rest ->
    parse_until kind_of fuel stops (print_nodes ns ++ rest) = Ok (ns, rest).
  Proof.
    induction k as [|k IHk].
    - intros [|m ns] Hlen Hwf fuel stops rest Hf Hs Hr.
      + destruct fuel as [|f]; [lia|]. cbn [print_nodes app]. destruct rest as [|[| | | |n e] r]; cbn in Hr; try contradiction.
        * reflexivity.
        * cbn [parse_until]. rewrite Hr. reflexivity.
      + exfalso. cbn [print_nodes] in Hlen. rewrite app_length in Hlen. destruct m; cbn in Hlen; lia.
    - intros [|m ns] Hlen Hwf fuel stops rest Hf Hs Hr.
      + destruct fuel as [|f]; [lia|]. cbn [print_nodes app]. destruct rest as [|[| | | |n e] r]; cbn in Hr; try contradiction.
        * reflexivity.
        * cbn [parse_until]. rewrite Hr. reflexivity.
      + cbn [wf_nodes] in Hwf. apply andb_true_iff in Hwf. destruct Hwf as [Hm Hns].
        destruct fuel as [|f]; [lia|].
        assert (Htail : 1 <= length (print_node m) -> parse_until kind_of f stops (print_nodes ns ++ rest) = Ok (ns, rest)).
        { intros H1. apply IHk; [len | exact Hns | len | exact Hs | exact Hr]. }
        cbn [print_nodes]. rewrite <- app_assoc.
        destruct m as [s|s|s|e|name e|name e body secs].
        * cbn [print_node app parse_until]. rewrite Htail by (cbn; lia). reflexivity.
        * cbn [print_node app parse_until]. rewrite Htail by (cbn; lia). reflexivity.
        * cbn [print_node app parse_until]. rewrite Htail by (cbn; lia). reflexivity.
        * cbn [print_node app parse_until]. rewrite Htail by (cbn; lia). reflexivity.
        * cbn [wf] in Hm. destruct (kind_of name) eqn:Hk; try discriminate.
          cbn [print_node app parse_until].
          assert (Hns' : mem name stops = false).
          { destruct (mem name stops) eqn:E; [|reflexivity]. rewrite (Hs _ E) in Hk. discriminate. }
          rewrite Hns', Hk. rewrite Htail by (cbn; lia). reflexivity.
        * rewrite wf_block in Hm. destruct (kind_of name) as [ss| |] eqn:Hk; try discriminate.
          apply andb_true_iff in Hm. destruct Hm as [Hb Hsecs].
          assert (Hns' : mem name stops = false).
          { destruct (mem name stops) eqn:E; [|reflexivity]. rewrite (Hs _ E) in Hk. discriminate. }
          assert (Hsl : length secs <= length (print_secs secs)).
          { clear. induction secs as [|[[a b] c] r IH]; cbn [print_secs length]; [lia|]. rewrite app_length. lia. }
          cbn [print_nodes] in Hlen, Hf. rewrite print_block in *.
          assert (L1 : length (print_nodes body) <= k) by len.
          assert (L2 : length (print_secs secs) <= k) by len.
          assert (L3 : length (print_nodes ns) <= k) by len.
          assert (L4 : length (print_nodes body ++ print_secs secs ++ KTag (endname name) [] :: print_nodes ns ++ rest) < f) by len.
          assert (L5 : length (print_secs secs ++ KTag (endname name) [] :: print_nodes ns ++ rest) < f) by len.
          assert (L6 : length (print_nodes ns ++ rest) < f) by len.
          assert (L7 : length secs < f) by len.
          cbn [app]. rewrite <- !app_assoc. cbn [app]. cbn [parse_until].
          rewrite Hns', Hk. cbv zeta.
          rewrite (IHk body); [| exact L1 | exact Hb | exact L4 | apply inner_ok; exact Hk | ].
          -- cbn [bind fst snd].
             rewrite (psections_print k IHk name ss Hk secs (print_nodes ns ++ rest) f f L2 Hsecs L7 L5).
             cbn [bind fst snd]. rewrite str_eqb_refl.
             rewrite IHk; [reflexivity | exact L3 | exact Hns | exact L6 | exact Hs | exact Hr].
          -- destruct secs as [|[[sn' se'] sb'] r].
             ++ cbn. rewrite str_eqb_refl. reflexivity.
             ++ cbn [print_secs app rest_ok]. cbn [wf_secs] in Hsecs.
                apply andb_true_iff in Hsecs. destruct Hsecs as [Hx _]. apply andb_true_iff in Hx. destruct Hx as [Hx _].
                cbn [mem]. rewrite Hx. apply orb_true_r.
  Qed.

  (* C04 (structure): for every well-formed tree, parsing its serialisation gives the same tree back *)
  Theorem parse_print_template ns : wf_nodes ns = true -> parse_template kind_of (print_nodes ns) = Ok ns.
  Proof.
    intro Hwf. unfold parse_template.
    rewrite <- (app_nil_r (print_nodes ns)) at 2.
    rewrite (parse_print_until (length (print_nodes ns)) ns (le_n _) Hwf (S (length (print_nodes ns))) [] []).
    - reflexivity.
    - rewrite app_nil_r. lia.
    - intros x Hx. discriminate.
    - exact I.
  Qed.

  (* ... hence serialising the re-parsed tree yields the same tokens again *)
  Corollary print_idempotent ns : wf_nodes ns = true ->
    exists ns', parse_template kind_of (print_nodes ns) = Ok ns' /\ print_nodes ns' = print_nodes ns.
  Proof. intro H. exists ns. split; [apply parse_print_template, H|reflexivity]. Qed.

End RoundTrip.

(* the standard register is coherent *)
Lemma alookup_in {V} n (l : list (str * V)) v : alookup n l = Some v -> In (n, v) l.
Proof.
  induction l as [|[k w] l IH]; cbn; [discriminate|].
  destruct (str_eqb_spec n k) as [->|_]; [intro H; inversion H; auto|auto].
Qed.

Lemma std_reg_ok : reg_ok std_kind.
Proof.
  intros n ss H. unfold std_kind in H. destruct (alookup n std_blocks) as [ss'|] eqn:E.
  - inversion H; subst ss'. clear H. apply alookup_in in E.
    repeat (destruct E as [E|E]; [inversion E; subst; clear E;
      (split; [vm_compute; reflexivity|split; [|vm_compute; reflexivity]];
       intros s Hs; apply mem_true_iff in Hs; repeat (destruct Hs as [<-|Hs]; [vm_compute; reflexivity|]); destruct Hs)|]).
    destruct E.
  - destruct (mem n std_inlines); discriminate.
Qed.

Theorem std_parse_print ns : wf_nodes std_kind ns = true -> parse_template std_kind (print_nodes ns) = Ok ns.
Proof. apply parse_print_template, std_reg_ok. Qed.
