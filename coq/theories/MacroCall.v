(* MacroCall.v -- the call tag with positional AND keyword arguments over the render context and value type of
   Scope.v (C27 deepening).  Executable definitions only.

   CallNode.render_to_output (liquid/extra/tags/macro_tag.py), as it is after the repair
   .work/fixes/C27-call-inside-macro.patch:
     macro = context.tag_namespace["macros"].get(name, undefined)          -- looked up when the CALL is rendered
     undefined  -> buffer.write(str(undefined))                             -- '' or UndefinedError
     args = macro_args(macro)                                               -- MacroArgs.bind on EXPRESSIONS
     namespace = {"args": [e.evaluate(context) ...], "kwargs": {k: e.evaluate(context) ...}}
     for name, expr in args.args.items(): namespace[name] = undefined | expr.evaluate(context)
     macro_context = context.copy(namespace, disabled_tags=[include, block]);  macros := dict(caller's macros)
     macro.block.render(macro_context)
   Every expression -- surplus positionals, surplus keywords, then each parameter's keyword / positional / DEFAULT --
   is evaluated in the CALLER's context at the time of the call.

   The interpreter is Scope.exec with the call node replaced: the pairs of an NCall whose name is EMPTY are the
   positional arguments (source order is kept), all other nodes run as in Scope.exec_step. *)
From Coq Require Import String Ascii.
From LiquidVerif Require Import Prelude PyPrims Scope.
From LiquidVerif Require MacroArgs.

Definition s_args : str := slit "args".
Definition s_kwargs : str := slit "kwargs".

(* the arguments of a call tag in source order; parse_arguments sorts them into two lists *)
Definition is_pos (a : str * expr) : bool := match fst a with [] => true | _ :: _ => false end.
Definition call_pos (a : list (str * expr)) : list expr := map snd (filter is_pos a).
Definition call_kws (a : list (str * expr)) : list (str * expr) := filter (fun x => negb (is_pos x)) a.

(* Parameter.parse builds a dict: a repeated parameter name keeps its first position and its last default *)
Definition norm_params (ps : list (str * option expr)) : list (str * option expr) :=
  fold_left (fun acc p => MacroArgs.dict_set (fst p) (snd p) acc) ps [].

(* `for name, expr in args.args.items(): namespace[name] = ...` *)
Fixpoint bind_eval (uk : ukind) (c : ctx) (args : list (str * option expr)) (acc : ns) : res ns :=
  match args with
  | [] => Ok acc
  | (p, oe) :: r =>
      do v <- (match oe with Some e => eval_expr uk c e | None => Ok VUndef end);
      bind_eval uk c r (dict_set p v acc)
  end.

(* the namespace of the macro's context; c is the CALLER's context *)
Definition call_namespace (uk : ukind) (c : ctx) (ps : list (str * option expr)) (pos : list expr)
           (kws : list (str * expr)) : res ns :=
  let b := MacroArgs.bind ps pos kws in
  do xs <- eval_args uk c (MacroArgs.b_excess b);
  do kx <- eval_kwargs uk c (MacroArgs.b_kwexcess b) [];
  bind_eval uk c (MacroArgs.b_args b) [(s_args, VList xs); (s_kwargs, VDict kx)].

(* the context a macro's block is rendered in: RenderContext.copy plus the caller's macro table *)
Definition copy_call (c : ctx) (nm : ns) : ctx := set_macros (copy c nm [TInclude; TBlock]) (macros c).
(* before the repair: an empty macro table *)
Definition copy_call_old (c : ctx) (nm : ns) : ctx := copy c nm [TInclude; TBlock].

Definition call_step (cp : ctx -> ns -> ctx) (E : env) (run : node -> ctx -> outcome)
           (name : str) (a : list (str * expr)) (c : ctx) : outcome :=
  match alookup name (macros c) with
  | None => lift (to_output (e_uk E) VUndef) c (fun s => Done c s Normal)
  | Some (params, body) =>
      lift (call_namespace (e_uk E) c (norm_params params) (call_pos a) (call_kws a)) c (fun nm =>
        match seq_nodes run body (cp c nm) with
        | Fuel => Fuel
        | Done _ out s => Done c out s          (* the caller's context is what it was *)
        end)
  end.

Definition mexec_step (cp : ctx -> ns -> ctx) (E : env) (run : node -> ctx -> outcome) (n : node) (c : ctx) : outcome :=
  match n with
  | NCall name a => call_step cp E run name a c
  | _ => exec_step E run n c
  end.

Fixpoint mexec_gen (cp : ctx -> ns -> ctx) (fuel : nat) (E : env) (n : node) (c : ctx) {struct fuel} : outcome :=
  match fuel with
  | O => Fuel
  | S f => mexec_step cp E (mexec_gen cp f E) n c
  end.

Definition mexec := mexec_gen copy_call.
Definition mexec_old := mexec_gen copy_call_old.

(* ---- the case the harness runs: Scope.case, rendered with mexec ---- *)
Definition mrun_top (k : case) : outcome :=
  run_template (k_mode k) false false (mexec run_fuel (case_env k)) (k_body k) (init_ctx k).
Definition mrun_case (k : case) : res str := finish (mrun_top k).
Definition mrun_case_old (k : case) : res str :=
  finish (run_template (k_mode k) false false (mexec_old run_fuel (case_env k)) (k_body k) (init_ctx k)).

(* ---- the documented rule, written independently: which EXPRESSION a parameter gets ---- *)
Fixpoint last_named (x : str) (a : list (str * expr)) : option expr :=
  match a with
  | [] => None
  | (k, e) :: r => match last_named x r with Some e' => Some e' | None => if str_eqb x k then Some e else None end
  end.

(* parameter number i named p with default d: the last keyword argument named p, else the i-th positional
   argument, else the default, else nothing (undefined) *)
Definition chosen (p : str) (i : nat) (d : option expr) (pos : list expr) (kws : list (str * expr)) : option expr :=
  match last_named p kws with
  | Some e => Some e
  | None => match nth_error pos i with Some e => Some e | None => d end
  end.

Definition eval_opt (uk : ukind) (c : ctx) (oe : option expr) : res val :=
  match oe with Some e => eval_expr uk c e | None => Ok VUndef end.
