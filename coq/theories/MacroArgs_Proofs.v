From LiquidVerif Require Import Prelude PyPrims MacroArgs.

Section BindProofs.
  Context {E : Type}.
  Notation params := (@params E).

  (* ---------------- positional arguments ---------------- *)
  Lemma bind_pos_nil (ps : params) : bind_pos ps [] = (ps, []).
  Proof. destruct ps as [|[n d] ps]; reflexivity. Qed.

  Lemma bind_pos_excess (ps : params) : forall pos, snd (bind_pos ps pos) = skipn (length ps) pos.
  Proof.
    induction ps as [|[n d] ps IH]; intros pos; [reflexivity|].
    destruct pos as [|e pos]; [reflexivity|]. cbn [bind_pos length skipn].
    specialize (IH pos). destruct (bind_pos ps pos) as [r ex]. exact IH.
  Qed.

  Lemma skipn_cons_nth (pos : list E) : forall i e rest,
    skipn i pos = e :: rest -> nth_error pos i = Some e /\ skipn (S i) pos = rest.
  Proof.
    induction pos as [|x pos IH]; intros [|i] e rest H; cbn in *; try discriminate.
    - inversion H; subst. split; reflexivity.
    - apply IH. exact H.
  Qed.

  Lemma skipn_nil_nth (pos : list E) : forall i, skipn i pos = [] -> nth_error pos i = None /\ skipn (S i) pos = [].
  Proof.
    induction pos as [|x pos IH]; intros [|i] H; cbn in *; try discriminate; try (split; reflexivity).
    apply IH. exact H.
  Qed.

  Lemma spec_args_nokw (ps : params) : forall i pos,
    spec_args ps i pos [] = fst (bind_pos ps (skipn i pos)).
  Proof.
    induction ps as [|[n d] ps IH]; intros i pos; [reflexivity|].
    cbn [spec_args last_kw]. destruct (skipn i pos) as [|e rest] eqn:Es.
    - destruct (skipn_nil_nth pos i Es) as [-> Hs]. cbn [bind_pos fst]. f_equal.
      rewrite IH, Hs, bind_pos_nil. reflexivity.
    - destruct (skipn_cons_nth pos i e rest Es) as [-> Hs]. cbn [bind_pos].
      rewrite IH, Hs. destruct (bind_pos ps rest) as [r ex]. reflexivity.
  Qed.

  (* ---------------- keywords ---------------- *)
  Definition upd (kws : list (str * E)) (p : str * option E) : str * option E :=
    (fst p, match last_kw (fst p) kws with Some v => Some v | None => snd p end).

  Lemma has_key_In {V} k (l : list (str * V)) : has_key k l = true <-> In k (map fst l).
  Proof.
    induction l as [|[k' v] l IH]; cbn; [split; [discriminate|tauto]|].
    rewrite orb_true_iff, IH, str_eqb_eq. split; intros [H|H]; auto.
  Qed.

  Lemma dict_set_keys {V} k (v : V) l : has_key k l = true -> map fst (dict_set k v l) = map fst l.
  Proof.
    induction l as [|[k' v'] l IH]; cbn; [discriminate|].
    destruct (str_eqb_spec k k') as [->|Hne]; cbn; [reflexivity|]. intro H. f_equal. apply IH, H.
  Qed.

  Lemma dict_set_absent {V} k (v : V) l : has_key k l = false -> dict_set k v l = l ++ [(k, v)].
  Proof.
    induction l as [|[k' v'] l IH]; cbn; [reflexivity|].
    destruct (str_eqb k k'); cbn; [discriminate|]. intro H. f_equal. apply IH, H.
  Qed.

  (* on a dict (unique keys) an in-place assignment changes exactly the entry of that key *)
  Lemma dict_set_map {V} k (v : V) l : NoDup (map fst l) -> has_key k l = true ->
    dict_set k v l = map (fun p => if str_eqb (fst p) k then (fst p, v) else p) l.
  Proof.
    induction l as [|[k' v'] l IH]; cbn; [discriminate|]. intros Hnd Hk.
    inversion Hnd as [|? ? Hnin Hnd']; subst.
    destruct (str_eqb_spec k k') as [->|Hne].
    - rewrite str_eqb_refl. cbn. f_equal.
      rewrite <- (map_id l) at 1. apply map_ext_in. intros [k2 v2] Hin. cbn.
      destruct (str_eqb_spec k2 k') as [->|_]; [|reflexivity].
      exfalso. apply Hnin. apply in_map_iff. exists (k', v2). split; [reflexivity|exact Hin].
    - cbn in Hk. destruct (str_eqb_spec k' k) as [Heq|_]; [congruence|]. f_equal. apply IH; assumption.
  Qed.

  Lemma last_kw_cons n k v (r : list (str * E)) :
    last_kw n ((k, v) :: r) = match last_kw n r with Some x => Some x | None => if str_eqb n k then Some v else None end.
  Proof. reflexivity. Qed.

  Lemma bind_kw_args : forall (kws : list (str * E)) (a : params) ex,
    NoDup (map fst a) -> fst (bind_kw kws a ex) = map (upd kws) a.
  Proof.
    induction kws as [|[k v] r IH]; intros a ex Hnd.
    - cbn. rewrite <- (map_id a) at 1. apply map_ext. intros [n w]. reflexivity.
    - cbn [bind_kw]. destruct (has_key k a) eqn:Hk.
      + rewrite IH by (rewrite dict_set_keys by exact Hk; exact Hnd).
        rewrite dict_set_map by assumption. rewrite map_map. apply map_ext. intros [n w].
        unfold upd. cbn [fst snd]. rewrite last_kw_cons.
        destruct (str_eqb_spec n k) as [->|Hne]; cbn [fst snd]; destruct (last_kw _ r); reflexivity.
      + rewrite IH by exact Hnd. apply map_ext_in. intros [n w] Hin. unfold upd. cbn [fst snd].
        rewrite last_kw_cons. destruct (last_kw n r); [reflexivity|].
        destruct (str_eqb_spec n k) as [->|_]; [|reflexivity].
        exfalso. assert (has_key k a = true); [|congruence].
        apply has_key_In. apply in_map_iff. exists (k, w). split; [reflexivity|exact Hin].
  Qed.

  Lemma bind_kw_keys : forall (kws : list (str * E)) (a : params) ex k,
    has_key k (fst (bind_kw kws a ex)) = has_key k a.
  Proof.
    induction kws as [|[k0 v] r IH]; intros a ex k; [reflexivity|]. cbn [bind_kw].
    destruct (has_key k0 a) eqn:Hk; rewrite IH; [|reflexivity].
    destruct (has_key k a) eqn:Hk2.
    - apply has_key_In. rewrite dict_set_keys by exact Hk. apply has_key_In. exact Hk2.
    - destruct (has_key k (dict_set k0 (Some v) a)) eqn:Hk3; [|reflexivity].
      apply has_key_In in Hk3. rewrite dict_set_keys in Hk3 by exact Hk. apply has_key_In in Hk3. congruence.
  Qed.

  (* surplus keywords *)
  Fixpoint remove_keys {V} (ks : list str) (l : list (str * V)) : list (str * V) :=
    match ks with [] => l | k :: r => remove_keys r (remove_key k l) end.

  Definition updv (kws : list (str * E)) (p : str * E) : str * E :=
    (fst p, match last_kw (fst p) kws with Some v => v | None => snd p end).

  Lemma remove_key_comm {V} a b (l : list (str * V)) : remove_key a (remove_key b l) = remove_key b (remove_key a l).
  Proof.
    induction l as [|[k v] l IH]; cbn; [reflexivity|].
    destruct (str_eqb a k) eqn:Ea, (str_eqb b k) eqn:Eb; cbn; rewrite ?Ea, ?Eb; congruence.
  Qed.

  Lemma remove_key_idem {V} a (l : list (str * V)) : remove_key a (remove_key a l) = remove_key a l.
  Proof.
    induction l as [|[k v] l IH]; cbn; [reflexivity|].
    destruct (str_eqb a k) eqn:Ea; cbn; rewrite ?Ea; congruence.
  Qed.

  Lemma remove_keys_remove_key {V} ks a (l : list (str * V)) :
    remove_keys ks (remove_key a l) = remove_key a (remove_keys ks l).
  Proof.
    revert l. induction ks as [|k ks IH]; intro l; cbn; [reflexivity|].
    rewrite remove_key_comm. apply IH.
  Qed.

  Lemma remove_keys_absorb {V} ks a (l : list (str * V)) : In a ks ->
    remove_keys ks (remove_key a l) = remove_keys ks l.
  Proof.
    revert l. induction ks as [|k ks IH]; intros l Hin; [destruct Hin|]. cbn.
    destruct Hin as [->|Hin].
    - rewrite remove_key_idem. reflexivity.
    - rewrite remove_key_comm. apply IH, Hin.
  Qed.

  Lemma remove_keys_cons_in {V} ks a (v : V) l : In a ks -> remove_keys ks ((a, v) :: l) = remove_keys ks l.
  Proof.
    revert l. induction ks as [|k ks IH]; intros l Hin; [destruct Hin|]. cbn.
    destruct (str_eqb_spec k a) as [->|Hne]; [reflexivity|].
    destruct Hin as [Heq|Hin]; [congruence|]. apply IH, Hin.
  Qed.

  Lemma remove_keys_cons_out {V} ks a (v : V) l : ~ In a ks -> remove_keys ks ((a, v) :: l) = (a, v) :: remove_keys ks l.
  Proof.
    revert l. induction ks as [|k ks IH]; intros l Hnin; [reflexivity|]. cbn.
    destruct (str_eqb_spec k a) as [->|Hne]; [exfalso; apply Hnin; left; reflexivity|].
    apply IH. intro H. apply Hnin. right. exact H.
  Qed.

  Lemma remove_keys_app {V} k1 k2 (l : list (str * V)) : remove_keys (k1 ++ k2) l = remove_keys k2 (remove_keys k1 l).
  Proof. revert l. induction k1 as [|k k1 IH]; intro l; cbn; [reflexivity|]. apply IH. Qed.

  (* the dict built by the keyword loop for non-parameter names *)
  Lemma bind_kw_excess (ps : params) : forall (kws : list (str * E)) (a : params) (ex : list (str * E)),
    (forall k, has_key k a = has_key k ps) -> NoDup (map fst ex) ->
    (forall k, In k (map fst ex) -> has_key k ps = false) ->
    snd (bind_kw kws a ex) = map (updv (filter (fun kv => negb (has_key (fst kv) ps)) kws)) ex
                              ++ remove_keys (map fst ex) (spec_kwexcess ps kws).
  Proof.
    induction kws as [|[k v] r IH]; intros a ex Hkeys Hnd Hex.
    - cbn [bind_kw snd filter spec_kwexcess].
      assert (Hrm : forall ks, @remove_keys E ks [] = []) by (induction ks; auto).
      rewrite Hrm, app_nil_r. rewrite <- (map_id ex) at 1. apply map_ext. intros [n w]. reflexivity.
    - cbn [bind_kw spec_kwexcess filter fst]. rewrite Hkeys. destruct (has_key k ps) eqn:Hk; cbn [negb].
      + apply IH; [|exact Hnd|exact Hex].
        intro k'. rewrite <- Hkeys.
        destruct (has_key k' a) eqn:E1.
        * apply has_key_In. rewrite dict_set_keys by (rewrite Hkeys; exact Hk). apply has_key_In. exact E1.
        * destruct (has_key k' (dict_set k (Some v) a)) eqn:E2; [|reflexivity].
          apply has_key_In in E2. rewrite dict_set_keys in E2 by (rewrite Hkeys; exact Hk).
          apply has_key_In in E2. congruence.
      + set (F := filter (fun kv => negb (has_key (fst kv) ps)) r).
        destruct (has_key k ex) eqn:Hkx.
        * (* the name is already in kwargs: assignment in place *)
          rewrite (IH a (dict_set k v ex) Hkeys);
            [| rewrite dict_set_keys by exact Hkx; exact Hnd
             | intros k' Hin; rewrite dict_set_keys in Hin by exact Hkx; apply Hex, Hin].
          rewrite dict_set_keys by exact Hkx.
          rewrite remove_keys_cons_in by (apply has_key_In; exact Hkx).
          rewrite remove_keys_absorb by (apply has_key_In; exact Hkx).
          f_equal. rewrite dict_set_map by assumption. rewrite map_map. apply map_ext. intros [n w].
          unfold updv. cbn [fst snd]. fold F.
          assert (Hl : forall m, last_kw m ((k, v) :: F) = match last_kw m F with Some x => Some x | None => if str_eqb m k then Some v else None end) by reflexivity.
          destruct (str_eqb_spec n k) as [->|Hne]; cbn [fst snd]; rewrite Hl.
          -- rewrite str_eqb_refl. destruct (last_kw k F); reflexivity.
          -- destruct (str_eqb_spec n k); [contradiction|]. destruct (last_kw n F); reflexivity.
        * (* a new name: appended *)
          rewrite dict_set_absent by exact Hkx.
          assert (Hnin : ~ In k (map fst ex)) by (intro H; apply has_key_In in H; congruence).
          rewrite (IH a (ex ++ [(k, v)]) Hkeys).
          -- rewrite map_app. cbn [map]. rewrite <- app_assoc. cbn [app].
             rewrite map_app. cbn [map fst]. rewrite remove_keys_app. cbn [remove_keys].
             rewrite remove_keys_cons_out by exact Hnin. rewrite remove_keys_remove_key.
             f_equal.
             ++ apply map_ext_in. intros [n w] Hin. unfold updv. cbn [fst snd]. fold F.
                change (last_kw n ((k, v) :: F)) with
                  (match last_kw n F with Some x => Some x | None => if str_eqb n k then Some v else None end).
                destruct (last_kw n F); [reflexivity|].
                destruct (str_eqb_spec n k) as [->|_]; [|reflexivity].
                exfalso. apply Hnin. apply in_map_iff. exists (k, w). split; [reflexivity|exact Hin].
             ++ f_equal. unfold updv. cbn [fst snd]. fold F. f_equal.
                (* last value of k among the surplus keywords = last value of k among all keywords, k not a parameter *)
                assert (Hf : forall l : list (str * E), last_kw k (filter (fun kv => negb (has_key (fst kv) ps)) l) = last_kw k l).
                { induction l as [|[k2 v2] l IHl]; [reflexivity|]. cbn [filter fst].
                  destruct (has_key k2 ps) eqn:Hk2; cbn [negb].
                  - rewrite IHl. rewrite last_kw_cons. destruct (last_kw k l); [reflexivity|].
                    destruct (str_eqb_spec k k2) as [->|_]; [congruence|reflexivity].
                  - rewrite !last_kw_cons, IHl. reflexivity. }
                unfold F. rewrite Hf. reflexivity.
          -- rewrite map_app. cbn. apply NoDup_app_iff || idtac.
             clear -Hnd Hnin. induction ex as [|[k2 v2] ex IHex]; cbn in *; [constructor; [tauto|constructor]|].
             inversion Hnd; subst. constructor.
             ++ rewrite in_app_iff. cbn. intros [H|[H|[]]]; [tauto|]. subst. apply Hnin. left. reflexivity.
             ++ apply IHex; [assumption|]. intro H. apply Hnin. right. exact H.
          -- intros k' Hin. rewrite map_app, in_app_iff in Hin. cbn in Hin.
             destruct Hin as [Hin|[<-|[]]]; [apply Hex, Hin|exact Hk].
  Qed.

  Lemma spec_args_upd (ps : params) : forall i pos (kws : list (str * E)),
    spec_args ps i pos kws = map (upd kws) (spec_args ps i pos []).
  Proof.
    induction ps as [|[n d] ps IH]; intros i pos kws; [reflexivity|].
    cbn [spec_args map last_kw]. unfold upd at 1. cbn [fst snd]. rewrite IH. reflexivity.
  Qed.

  (* C27: the binding computed by the call tag is the documented one *)
  Theorem bind_is_spec (ps : params) pos (kws : list (str * E)) :
    NoDup (map fst ps) -> bind ps pos kws = spec_bind ps pos kws.
  Proof.
    intro Hnd. unfold bind, spec_bind.
    pose proof (bind_pos_excess ps pos) as Hex. pose proof (spec_args_nokw ps 0 pos) as Ha. cbn [skipn] in Ha.
    destruct (bind_pos ps pos) as [a1 ex] eqn:Ebp. cbn [fst snd] in *.
    assert (Hkeys1 : map fst a1 = map fst ps).
    { rewrite <- Ha. clear. generalize 0. induction ps as [|[n d] ps IH]; intro i; cbn; [reflexivity|]. f_equal. apply IH. }
    pose proof (bind_kw_args kws a1 [] ltac:(rewrite Hkeys1; exact Hnd)) as Hargs.
    pose proof (bind_kw_excess ps kws a1 []) as Hkex.
    destruct (bind_kw kws a1 []) as [a2 kex]. cbn [fst snd] in *.
    rewrite Hkex; [| | constructor | intros k []].
    - cbn [map app remove_keys]. subst a2 ex. f_equal.
      rewrite <- Ha. symmetry. apply spec_args_upd.
    - intro k. destruct (has_key k a1) eqn:E1, (has_key k ps) eqn:E2; try reflexivity.
      + apply has_key_In in E1. rewrite Hkeys1 in E1. apply has_key_In in E1. congruence.
      + apply has_key_In in E2. rewrite <- Hkeys1 in E2. apply has_key_In in E2. congruence.
  Qed.
End BindProofs.

(* ------------------------------------------------------------------ *)
(* the with tag                                                        *)

(* every node leaves the scope chain and the globals as it found them: a with block's names
   vanish after the block, whatever happens inside (nesting, assignments) *)
Theorem wexec_balanced : forall fuel c ns out c',
  wexec fuel c ns = Ok (out, c') -> w_scopes c' = w_scopes c /\ w_globals c' = w_globals c.
Proof.
  induction fuel as [|f IH]; intros c ns out c' H; [discriminate|].
  destruct ns as [|n rest]; cbn [wexec] in H; [inversion H; subst; split; reflexivity|].
  destruct n as [x|args body|x e]; unfold Prelude.bind in H.
  - destruct (wexec f c rest) as [[o2 c2]| |] eqn:E2; try discriminate.
    inversion H; subst. exact (IH _ _ _ _ E2).
  - destruct (wexec f _ body) as [[o1 c1]| |] eqn:E1; try discriminate.
    destruct (wexec f _ rest) as [[o2 c2]| |] eqn:E2; try discriminate.
    inversion H; subst. destruct (IH _ _ _ _ E1) as [Hs Hg]. destruct (IH _ _ _ _ E2) as [Hs2 Hg2].
    cbn [w_scopes w_globals] in *. rewrite Hs2, Hg2, Hs, Hg. split; reflexivity.
  - destruct (wexec f _ rest) as [[o2 c2]| |] eqn:E2; try discriminate.
    inversion H; subst. destruct (IH _ _ _ _ E2) as [Hs2 Hg2]. cbn [w_scopes w_globals] in *. split; assumption.
Qed.

(* inside the block a bound name resolves to the value of its LAST binding in the tag, evaluated in the
   context OUTSIDE the block; every other name resolves as outside *)
Fixpoint last_arg (x : str) (args : list (str * wexpr)) : option wexpr :=
  match args with
  | [] => None
  | (k, e) :: r => match last_arg x r with Some e' => Some e' | None => if str_eqb x k then Some e else None end
  end.

Lemma alookup_dict_set {V} x k (v : V) l :
  alookup x (dict_set k v l) = if str_eqb x k then Some v else alookup x l.
Proof.
  induction l as [|[k' v'] l IH]; cbn.
  - destruct (str_eqb x k); reflexivity.
  - destruct (str_eqb_spec k k') as [->|Hne]; cbn.
    + destruct (str_eqb x k'); reflexivity.
    + rewrite IH. destruct (str_eqb_spec x k') as [->|_]; [|reflexivity].
      destruct (str_eqb_spec k' k); [congruence|reflexivity].
Qed.

Lemma with_namespace_lookup c x : forall args acc,
  alookup x (with_namespace c args acc) =
  match last_arg x args with Some e => Some (weval c e) | None => alookup x acc end.
Proof.
  induction args as [|[k e] r IH]; intro acc; cbn; [reflexivity|].
  rewrite IH, alookup_dict_set. destruct (last_arg x r); [reflexivity|].
  destruct (str_eqb x k); reflexivity.
Qed.

Theorem with_binds_in_block c args x :
  wlookup {| w_scopes := with_namespace c args [] :: w_scopes c; w_locals := w_locals c; w_globals := w_globals c |} x =
  match last_arg x args with Some e => weval c e | None => wlookup c x end.
Proof.
  unfold wlookup. cbn [w_scopes w_locals w_globals app first_hit].
  rewrite with_namespace_lookup. destruct (last_arg x args); reflexivity.
Qed.
