(* Model of the name-resolution logic of the file-system and package template loaders:
   liquid/builtin/loaders/file_system_loader.py (FileSystemLoader.resolve_path) and
   liquid/builtin/loaders/package_loader.py (PackageLoader._resolve_path), together with the rules of
   pathlib.PurePosixPath they rely on (Python 3.12: posixpath.splitroot, _parse_path, name, suffix,
   with_suffix, joinpath, is_relative_to).  Executable definitions only; proofs in LoaderPath_Proofs.v.

   The operating system is not modelled: what stat / realpath answer for a path is DATA of a case
   ([fsview]); the model is the decision logic around those answers. *)
From LiquidVerif Require Import Prelude.

Definition slash : N := 47%N.
Definition dot : N := 46%N.
Definition dotdot : str := [dot; dot].

Definition is_nil {A} (l : list A) : bool := match l with [] => true | _ => false end.

(* ---------- PurePosixPath ---------- *)
Inductive rootk := NoRoot | Root1 | Root2.      (* "", "/", "//" *)
Record ppath := { p_root : rootk; p_parts : list str }.   (* parts WITHOUT the root *)

(* str.split('/') : always at least one piece *)
Fixpoint split_slash (s : str) : list str :=
  match s with
  | [] => [[]]
  | c :: r =>
      if N.eqb c slash then [] :: split_slash r
      else match split_slash r with
           | h :: t => (c :: h) :: t
           | [] => [[c]]
           end
  end.

(* posixpath.splitroot: no leading slash -> no root; exactly two -> "//"; one or three and more -> "/" *)
Definition starts_slash (s : str) : bool := match s with c :: _ => N.eqb c slash | [] => false end.
Definition splitroot (s : str) : rootk * str :=
  if starts_slash s then
    let r1 := tl s in
    if starts_slash r1 then
      let r2 := tl r1 in
      if starts_slash r2 then (Root1, r1) else (Root2, r2)
    else (Root1, r1)
  else (NoRoot, s).

(* _parse_path: [x for x in rel.split('/') if x and x != '.'] *)
Definition keep_part (x : str) : bool := negb (is_nil x) && negb (str_eqb x [dot]).

Definition parse (s : str) : ppath :=
  let '(r, rel) := splitroot s in {| p_root := r; p_parts := filter keep_part (split_slash rel) |}.

Definition is_absolute (p : ppath) : bool := match p_root p with NoRoot => false | _ => true end.

(* PurePath.name: the last part, '' if there is none *)
Definition name (p : ppath) : str := last (p_parts p) [].

(* the last '.' of a name: (text before it, text from it on) *)
Fixpoint last_dot_split (s : str) : option (str * str) :=
  match s with
  | [] => None
  | c :: r =>
      match last_dot_split r with
      | Some (a, b) => Some (c :: a, b)
      | None => if N.eqb c dot then Some ([], c :: r) else None
      end
  end.

(* PurePath.suffix: i = name.rfind('.'); name[i:] if 0 < i < len(name) - 1 else '' *)
Definition suffix (nm : str) : str :=
  match last_dot_split nm with
  | Some (a, b) => if is_nil a || is_nil (tl b) then [] else b
  | None => []
  end.

Definition stem (nm : str) : str :=
  match last_dot_split nm with
  | Some (a, b) => if is_nil a || is_nil (tl b) then nm else a
  | None => nm
  end.

(* PurePath.with_suffix for a valid suffix (starts with '.', is not '.', has no '/'; checked by the loader's
   constructor): ValueError for an empty name; otherwise the last part becomes stem + suffix *)
Definition with_suffix (e : str) (p : ppath) : res ppath :=
  if is_nil (name p) then Err EValueError
  else Ok {| p_root := p_root p; p_parts := removelast (p_parts p) ++ [stem (name p) ++ e] |}.

Definition has_pardir (p : ppath) : bool := existsb (str_eqb dotdot) (p_parts p).

(* str(path) *)
Fixpoint join_slash (l : list str) : str :=
  match l with
  | [] => []
  | [x] => x
  | x :: r => x ++ [slash] ++ join_slash r
  end.
Definition render (p : ppath) : str :=
  match p_root p, p_parts p with
  | NoRoot, [] => [dot]
  | NoRoot, l => join_slash l
  | Root1, l => [slash] ++ join_slash l
  | Root2, l => [slash; slash] ++ join_slash l
  end.

(* ---------- the file system as seen through stat and realpath ---------- *)
(* an absolute location, as the list of its components below "/" *)
Definition apath := list str.

Inductive statk :=
| SFile        (* a regular file (following symlinks) *)
| SDir         (* exists, not a regular file *)
| SMissing     (* ENOENT / ENOTDIR / ELOOP / embedded NUL / unencodable: pathlib answers False *)
| SErr.        (* any other OSError, e.g. ENAMETOOLONG: Path.exists / is_file re-raise it *)

Definition apath_eqb (a b : apath) : bool := list_eqb str_eqb a b.

Record fsview := {
  v_stat : list (apath * statk);             (* default SMissing *)
  v_real : list (apath * option apath)       (* Path.resolve(strict=False); None = OSError; default None *)
}.

Fixpoint tlookup {V} (k : apath) (l : list (apath * V)) : option V :=
  match l with
  | [] => None
  | (k', v) :: r => if apath_eqb k k' then Some v else tlookup k r
  end.

Definition stat (v : fsview) (p : apath) : statk := match tlookup p (v_stat v) with Some s => s | None => SMissing end.
Definition real (v : fsview) (p : apath) : option apath := match tlookup p (v_real v) with Some r => r | None => None end.

(* PurePath.is_relative_to on resolved paths: component-wise prefix *)
Fixpoint is_prefix (a b : apath) : bool :=
  match a, b with
  | [], _ => true
  | x :: a', y :: b' => str_eqb x y && is_prefix a' b'
  | _ :: _, [] => false
  end.

(* base.joinpath(p): pathlib joins the TEXT of the segments (os.path.join) and parses the result again;
   an absolute p REPLACES the base *)
Definition join (base : apath) (p : ppath) : apath :=
  match p_root p with NoRoot => base ++ p_parts p | _ => p_parts p end.
Definition joinpath (base : apath) (p : ppath) : apath := join base (parse (render p)).

(* ---------- FileSystemLoader ---------- *)
Record fscfg := {
  f_ext : option str;         (* ext, None when not given or empty *)
  f_reject : bool             (* reject_symlinks *)
}.

(* the part of resolve_path before the search: which names are refused outright *)
Definition fs_resolve_name (c : fscfg) (s : str) : res ppath :=
  let p := parse s in
  if is_nil (name p) then Err ENotFound
  else
    do p1 <- (match f_ext c with
              | Some e => if is_nil (suffix (name p)) then with_suffix e p else Ok p
              | None => Ok p
              end);
    if has_pardir p1 || is_absolute p1 then Err ENotFound else Ok p1.

(* the search over the configured directories.  [found] : the code as found lets an OSError of
   exists()/is_file() escape; the repaired code treats it as "not here". *)
Fixpoint fs_search (found : bool) (c : fscfg) (v : fsview) (bases : list apath) (p : ppath) : res apath :=
  match bases with
  | [] => Err ENotFound
  | b :: rest =>
      let q := joinpath b p in
      match stat v q with
      | SErr => if found then Err EOSError else fs_search found c v rest p
      | SFile =>
          if f_reject c then
            match real v q, real v b with
            | Some rq, Some rb => if is_prefix rb rq then Ok q else fs_search found c v rest p
            | _, _ => fs_search found c v rest p              (* except OSError: continue *)
            end
          else Ok q
      | _ => fs_search found c v rest p
      end
  end.

Definition fs_load (found : bool) (c : fscfg) (v : fsview) (bases : list apath) (s : str) : res apath :=
  do p <- fs_resolve_name c s; fs_search found c v bases p.

(* ---------- PackageLoader ---------- *)
(* as found: only '..' is refused; an empty name reaches with_suffix (ValueError); an absolute name survives *)
Definition pkg_resolve_name (found : bool) (e : str) (s : str) : res ppath :=
  let p := parse s in
  if found then
    if has_pardir p then Err ENotFound
    else if is_nil (suffix (name p)) then with_suffix e p else Ok p
  else
    if is_nil (name p) then Err ENotFound
    else if has_pardir p || is_absolute p then Err ENotFound
    else if is_nil (suffix (name p)) then with_suffix e p else Ok p.

(* path.joinpath(str(template_path)); is_file() *)
Fixpoint pkg_search (found : bool) (v : fsview) (bases : list apath) (p : ppath) : res apath :=
  match bases with
  | [] => Err ENotFound
  | b :: rest =>
      let q := joinpath b p in
      match stat v q with
      | SFile => Ok q
      | SErr => if found then Err EOSError else pkg_search found v rest p
      | _ => pkg_search found v rest p
      end
  end.

Definition pkg_load (found : bool) (e : str) (v : fsview) (bases : list apath) (s : str) : res apath :=
  do p <- pkg_resolve_name found e s; pkg_search found v bases p.

(* ---------- lexical normalisation (os.path.normpath on components): the specification side ---------- *)
Fixpoint norm_acc (stack : list str) (l : list str) : list str :=     (* stack: innermost first *)
  match l with
  | [] => rev stack
  | x :: r => if str_eqb x dotdot then norm_acc (tl stack) r else norm_acc (x :: stack) r
  end.
Definition norm (l : apath) : apath := norm_acc [] l.

(* ---------- correspondence interface ---------- *)
Inductive loaderk := KFs (c : fscfg) | KPkg (e : str).
Record case := { c_loader : loaderk; c_view : fsview; c_bases : list apath; c_name : str }.

Inductive obs := OFound (p : apath) | OErr (e : exn) | OFuel.

Definition to_obs (r : res apath) : obs := match r with Ok p => OFound p | Err e => OErr e | OutOfFuel => OFuel end.

Definition run_case (k : case) : obs :=
  to_obs (match c_loader k with
          | KFs c => fs_load false c (c_view k) (c_bases k) (c_name k)
          | KPkg e => pkg_load false e (c_view k) (c_bases k) (c_name k)
          end).

Definition run_case_as_found (k : case) : obs :=
  to_obs (match c_loader k with
          | KFs c => fs_load true c (c_view k) (c_bases k) (c_name k)
          | KPkg e => pkg_load true e (c_view k) (c_bases k) (c_name k)
          end).

Definition obs_eqb (a b : obs) : bool :=
  match a, b with
  | OFound x, OFound y => apath_eqb x y
  | OErr x, OErr y => exn_eqb x y
  | OFuel, OFuel => true
  | _, _ => false
  end.
