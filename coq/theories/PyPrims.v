(* Modelled Python primitives shared by several models. Executable definitions only. *)
From LiquidVerif Require Import Prelude.

(* str(int) *)
Fixpoint N_digits (fuel : nat) (n : N) (acc : str) : str :=
  match fuel with
  | O => acc
  | S f =>
      let d := (48 + n mod 10)%N in
      let q := (n / 10)%N in
      if (q =? 0)%N then d :: acc else N_digits f q (d :: acc)
  end.

Definition N_to_str (n : N) : str := N_digits (S (N.size_nat n)) n [].

Definition Z_to_str (z : Z) : str :=
  match z with
  | Z0 => [48%N]
  | Zpos p => N_to_str (Npos p)
  | Zneg p => 45%N :: N_to_str (Npos p)
  end.

Definition s_true : str := [116; 114; 117; 101]%N.
Definition s_false : str := [102; 97; 108; 115; 101]%N.
Definition bool_to_str (b : bool) : str := if b then s_true else s_false.

(* Python slicing l[a:b] for 0 <= a, any b (already clamped by the caller) *)
Definition zslice {A} (l : list A) (a b : Z) : list A :=
  firstn (Z.to_nat (b - a)) (skipn (Z.to_nat a) l).

(* range(a, b+1) as a list, for the small ranges of the correspondence run *)
Fixpoint zrange_from (a : Z) (n : nat) : list Z :=
  match n with O => [] | S n' => a :: zrange_from (a + 1) n' end.
Definition zrange_incl (a b : Z) : list Z := zrange_from a (Z.to_nat (b - a + 1)).

Definition zlen {A} (l : list A) : Z := Z.of_nat (length l).

Fixpoint concat_str (l : list str) : str :=
  match l with [] => [] | s :: r => s ++ concat_str r end.

Definition colon : str := [58%N].
Definition semi : str := [59%N].
