(* LruSpec.v -- the abstract bounded least-recently-used map, written without any list order, and the abstraction
   from the OrderedDict machine of Lru.v (C24 deepening).  Definitions only; the refinement is in LruSpec_Proofs.v.

   Abstract state: a capacity, a finite map  key -> (value, time of last use)  and a clock.  A USE of a key is a
   successful lookup (c[k], c.get) or a store (c[k] = v); membership tests, len and the listings are not uses.
   Every operation advances the clock by one.  The map is a function; two maps are the same when they agree on
   every key (no extensionality axiom is used). *)
From LiquidVerif Require Import Prelude Lru.
From Coq Require Import Sorted.

Definition amap := N -> option (Z * nat).
Definition same (m m' : amap) : Prop := forall k, m' k = m k.

Definition touch (m : amap) (k : N) (v : Z) (c : nat) : amap := fun k' => if N.eqb k' k then Some (v, c) else m k'.
Definition drop (m : amap) (k : N) : amap := fun k' => if N.eqb k' k then None else m k'.

(* the number of keys present *)
Definition card (m : amap) (n : nat) : Prop :=
  exists l, NoDup l /\ length l = n /\ forall k, In k l <-> m k <> None.

(* the least recently used key: its last use is older than that of every other key present *)
Definition oldest (m : amap) (k0 : N) : Prop :=
  exists v0 t0, m k0 = Some (v0, t0) /\ forall k' v' t', k' <> k0 -> m k' = Some (v', t') -> t0 < t'.

(* a listing: every entry once, most recently used first *)
Definition newer (m : amap) (a b : N * Z) : Prop :=
  exists ta tb, m (fst a) = Some (snd a, ta) /\ m (fst b) = Some (snd b, tb) /\ tb < ta.
Definition listing (m : amap) (l : list (N * Z)) : Prop :=
  NoDup (map fst l) /\ (forall k v, In (k, v) l <-> exists t, m k = Some (v, t)) /\ StronglySorted (newer m) l.

Definition present (m : amap) (k : N) : bool := match m k with Some _ => true | None => false end.

(* one operation of a bounded LRU map of capacity cap at clock time c: before-map, operation, after-map, result *)
Inductive lru_step (cap : nat) (m : amap) (c : nat) : op -> amap -> out -> Prop :=
| L_get_hit k v t m' : m k = Some (v, t) -> same (touch m k v c) m' -> lru_step cap m c (Get k) m' (OVal v)
| L_get_miss k m' : m k = None -> same m m' -> lru_step cap m c (Get k) m' OKeyError
| L_getd_hit k d v t m' : m k = Some (v, t) -> same (touch m k v c) m' -> lru_step cap m c (GetD k d) m' (OVal v)
| L_getd_miss k d m' : m k = None -> same m m' -> lru_step cap m c (GetD k d) m' (OVal d)
| L_getn_hit k v t m' : m k = Some (v, t) -> same (touch m k v c) m' -> lru_step cap m c (GetN k) m' (OVal v)
| L_getn_miss k m' : m k = None -> same m m' -> lru_step cap m c (GetN k) m' ONone
  (* a store to a present key replaces the value and is a use: no eviction *)
| L_set_hit k v v0 t m' : m k = Some (v0, t) -> same (touch m k v c) m' -> lru_step cap m c (Set_ k v) m' ODone
  (* a store of a new key with room left *)
| L_set_room k v n m' : m k = None -> card m n -> n < cap -> same (touch m k v c) m' -> lru_step cap m c (Set_ k v) m' ODone
  (* a store of a new key into a full map evicts exactly the least recently used key *)
| L_set_evict k v n k0 m' : m k = None -> card m n -> cap <= n -> oldest m k0 ->
    same (touch (drop m k0) k v c) m' -> lru_step cap m c (Set_ k v) m' ODone
| L_del_hit k m' : m k <> None -> same (drop m k) m' -> lru_step cap m c (Del k) m' ODone
| L_del_miss k m' : m k = None -> same m m' -> lru_step cap m c (Del k) m' OKeyError
  (* not uses: the map, last-use times included, is unchanged *)
| L_contains k m' : same m m' -> lru_step cap m c (Contains k) m' (OBool (present m k))
| L_len n m' : same m m' -> card m n -> lru_step cap m c Len m' (OLen n)
| L_items l m' : same m m' -> listing m l -> lru_step cap m c Items m' (OItems l)
| L_keys l m' : same m m' -> listing m l -> lru_step cap m c Keys m' (OKeys (map fst l))
| L_iter l m' : same m m' -> listing m l -> lru_step cap m c Iter m' (OKeys (map fst l))
| L_values l m' : same m m' -> listing m l -> lru_step cap m c Values m' (OVals (map snd l)).

(* ---- the abstraction: what the stamped OrderedDict machine denotes ---- *)
Definition amap_of (g : gcache) : amap := fun k => glookup k (gitems g).

(* the invariant of reachable states: one entry per key, entries in order of last use, every stamp in the past *)
Definition RInv (g : gcache) : Prop :=
  NoDup (map fst (erase_items (gitems g))) /\ StronglySorted lt (map snd (gitems g)) /\
  Forall (fun t => t < clock g) (map snd (gitems g)) /\
  1 <= gcap g /\ length (gitems g) <= gcap g.

(* operations that are not uses and change nothing *)
Definition readonly (o : op) : bool :=
  match o with Contains _ | Len | Keys | Values | Items | Iter => true | _ => false end.

(* number of ListNext actions of a thread *)
Fixpoint nexts (tid : nat) (acts : list action) : nat :=
  match acts with
  | [] => 0
  | ListNext t :: a => if Nat.eqb t tid then S (nexts tid a) else nexts tid a
  | _ :: a => nexts tid a
  end.
Fixpoint no_begin (tid : nat) (acts : list action) : bool :=
  match acts with
  | [] => true
  | ListBegin t :: a => negb (Nat.eqb t tid) && no_begin tid a
  | _ :: a => no_begin tid a
  end.
