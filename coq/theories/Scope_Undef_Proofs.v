(* Scope_Undef_Proofs.v — the strict undefined types only refine the default one (C16). *)
From Coq Require Import String Ascii ZArith List Bool Lia.
From LiquidVerif Require Import Prelude PyPrims Scope Scope_Proofs.
Import ListNotations.

Lemma exec_S' f E n c : exec (S f) E n c = exec_step E (exec f E) n c.
Proof. reflexivity. Qed.

(* ================================================================== every USE refines the default *)
(* a use that succeeds under any undefined type gives the same result under the default type *)
Lemma step_item_ref_val g uk obj kv v : step_item g uk obj kv = SVal v -> step_item g UDefault obj kv = SVal v.
Proof.
  unfold step_item. destruct (is_undef kv && probe_raises uk); [discriminate|].
  simpl. rewrite andb_false_r. destruct obj; auto. destruct (strict_kind uk); [discriminate|auto].
Qed.

Lemma step_item_ref_missing g uk obj kv : step_item g uk obj kv = SMissing -> step_item g UDefault obj kv = SMissing.
Proof.
  unfold step_item. destruct (is_undef kv && probe_raises uk); [discriminate|].
  simpl. rewrite andb_false_r. destruct obj; auto. destruct (strict_kind uk); discriminate.
Qed.

Lemma walk_ref g uk ks : forall obj v, walk g uk obj ks = Ok v -> walk g UDefault obj ks = Ok v.
Proof.
  induction ks as [|k ks IH]; intros obj v H; simpl in *; [exact H|].
  destruct (step_item g uk obj k) as [v'| |] eqn:E.
  - rewrite (step_item_ref_val _ _ _ _ _ E). apply IH. exact H.
  - rewrite (step_item_ref_missing _ _ _ _ E). exact H.
  - discriminate.
Qed.

Lemma eval_simple_ref uk c r ks v : eval_simple uk c r ks = Ok v -> eval_simple UDefault c r ks = Ok v.
Proof. unfold eval_simple. destruct (resolve c r); [apply walk_ref|auto]. Qed.

Lemma eval_segs_ref uk c ss : forall vs, eval_segs uk c ss = Ok vs -> eval_segs UDefault c ss = Ok vs.
Proof.
  induction ss as [|s ss IH]; intros vs H; simpl in *; [exact H|].
  destruct s as [st k|r ks].
  - simpl in *. destruct (eval_segs uk c ss) as [vs'| |]; try discriminate. rewrite (IH vs' eq_refl). exact H.
  - destruct (eval_simple uk c r ks) as [v| |] eqn:E; try discriminate. rewrite (eval_simple_ref _ _ _ _ _ E).
    simpl in *. destruct (eval_segs uk c ss) as [vs'| |]; try discriminate. rewrite (IH vs' eq_refl). exact H.
Qed.

Lemma eval_path_ref uk c p v : eval_path uk c p = Ok v -> eval_path UDefault c p = Ok v.
Proof.
  unfold eval_path. destruct (eval_segs uk c (p_segs p)) as [ks| |] eqn:E; try discriminate.
  rewrite (eval_segs_ref _ _ _ _ E). simpl. destruct (resolve c (p_root p)); [apply walk_ref|auto].
Qed.

Lemma eval_expr_ref uk c e v : eval_expr uk c e = Ok v -> eval_expr UDefault c e = Ok v.
Proof. destruct e; simpl; [auto|apply eval_path_ref]. Qed.

(* the condition on an abstract filter table under which the refinement survives: whatever a filter returns under
   some undefined type it also returns under the default type *)
Definition filters_refine (ft : filter_table) : Prop :=
  forall id uk v args r, ft id uk v args = Ok r -> ft id UDefault v args = Ok r.

Lemma eval_args_ref uk c es : forall vs, eval_args uk c es = Ok vs -> eval_args UDefault c es = Ok vs.
Proof.
  induction es as [|e es IH]; intros vs H; simpl in *; [exact H|].
  destruct (eval_expr uk c e) as [v| |] eqn:E; try discriminate. rewrite (eval_expr_ref _ _ _ _ E). simpl in *.
  destruct (eval_args uk c es) as [vs'| |]; try discriminate. rewrite (IH vs' eq_refl). exact H.
Qed.

(* the `has` filter with its is_undefined guard is such a filter: an undefined left value raises under every strict
   type and is empty otherwise; an undefined VALUE argument raises or counts as nil; nothing else looks at the type *)
Lemma has_filter_ref uk v attr w r : has_filter uk v attr w = Ok r -> has_filter UDefault v attr w = Ok r.
Proof.
  unfold has_filter.
  assert (Hi : forall l, has_input uk v = Ok l -> has_input UDefault v = Ok l).
  { destruct v; simpl; auto. destruct (strict_kind uk); [discriminate|auto]. }
  destruct (has_input uk v) as [l| |] eqn:E; try discriminate. rewrite (Hi l eq_refl). simpl.
  destruct w; auto. destruct (probe_raises uk); [discriminate|auto].
Qed.

Lemma apply_filter_ref ft uk c f v r :
  filters_refine ft -> apply_filter ft uk c f v = Ok r -> apply_filter ft UDefault c f v = Ok r.
Proof.
  intro Hft. destruct f; simpl.
  - destruct v; auto. destruct (strict_kind uk); [discriminate|auto].
  - destruct v; auto. destruct (strict_kind uk); [discriminate|auto].
  - destruct v; auto. destruct uk; auto; discriminate.
  - destruct value as [e|]; simpl.
    + destruct (eval_expr uk c e) as [w| |] eqn:E; try discriminate. rewrite (eval_expr_ref _ _ _ _ E). simpl.
      apply has_filter_ref.
    + apply has_filter_ref.
  - destruct (eval_args uk c args) as [ws| |] eqn:E; try discriminate. rewrite (eval_args_ref _ _ _ _ E). simpl.
    apply Hft.
Qed.

Lemma apply_filters_ref ft uk c fs : filters_refine ft ->
  forall v r, apply_filters ft uk c fs v = Ok r -> apply_filters ft UDefault c fs v = Ok r.
Proof.
  intro Hft. induction fs as [|f fs IH]; intros v r H; simpl in *; [exact H|].
  destruct (apply_filter ft uk c f v) as [v'| |] eqn:E; try discriminate.
  rewrite (apply_filter_ref _ _ _ _ _ _ Hft E). simpl in *. apply IH. exact H.
Qed.

Lemma eval_fexpr_ref ft uk c e v : filters_refine ft -> eval_fexpr ft uk c e = Ok v -> eval_fexpr ft UDefault c e = Ok v.
Proof.
  intro Hft. destruct e as [e0 fs]. simpl. destruct (eval_expr uk c e0) as [v0| |] eqn:E; try discriminate.
  rewrite (eval_expr_ref _ _ _ _ E). simpl. apply apply_filters_ref. exact Hft.
Qed.

(* witness for the seeded variant of `has` without the guard: FalsyStrictUndefined renders, and differently *)
Lemma has_unguarded_not_refining :
  exists v attr w r, has_filter_unguarded UFalsy v attr w = Ok r /\ has_filter_unguarded UDefault v attr w <> Ok r.
Proof.
  exists (VList [VDict [(slit "a", VBool false)]]), (slit "a"), VUndef, (VBool true). split; vm_compute; [reflexivity|discriminate].
Qed.

Lemma to_output_ref uk v t : to_output uk v = Ok t -> to_output UDefault v = Ok t.
Proof. destruct v; simpl; auto. destruct (strict_kind uk); [discriminate|auto]. Qed.

Lemma truthy_ref uk v b : truthy uk v = Ok b -> truthy UDefault v = Ok b.
Proof. destruct v; simpl; auto. destruct (probe_raises uk); [discriminate|auto]. Qed.

Lemma eval_atom_ref uk c a b : eval_atom uk c a = Ok b -> eval_atom UDefault c a = Ok b.
Proof.
  destruct a as [e|e l|e l|e n]; simpl; destruct (eval_expr uk c e) as [v| |] eqn:E; try discriminate;
    rewrite (eval_expr_ref _ _ _ _ E); simpl.
  - apply truthy_ref.
  - rewrite andb_false_r. destruct (is_undef v && probe_raises uk); [discriminate|auto].
  - rewrite andb_false_r. destruct (is_undef v && probe_raises uk); [discriminate|auto].
  - destruct v; auto. destruct (probe_raises uk); discriminate.
Qed.

Lemma eval_cond_ref uk c cd : forall b, eval_cond uk c cd = Ok b -> eval_cond UDefault c cd = Ok b.
Proof.
  induction cd as [a|a r IH|a r IH]; intros b H; simpl in *.
  - apply (eval_atom_ref _ _ _ _ H).
  - destruct (eval_atom uk c a) as [b0| |] eqn:E; try discriminate. rewrite (eval_atom_ref _ _ _ _ E). simpl in *.
    destruct b0; [apply IH; exact H|exact H].
  - destruct (eval_atom uk c a) as [b0| |] eqn:E; try discriminate. rewrite (eval_atom_ref _ _ _ _ E). simpl in *.
    destruct b0; [exact H|apply IH; exact H].
Qed.

Lemma eval_kwargs_ref uk c args : forall acc r, eval_kwargs uk c args acc = Ok r -> eval_kwargs UDefault c args acc = Ok r.
Proof.
  induction args as [|[k e] args IH]; intros acc r H; simpl in *; [exact H|].
  destruct (eval_expr uk c e) as [v| |] eqn:E; try discriminate. rewrite (eval_expr_ref _ _ _ _ E). simpl in *.
  apply IH. exact H.
Qed.

Lemma items_of_ref g uk v l : items_of g uk v = Ok l -> items_of g UDefault v = Ok l.
Proof. destruct v; simpl; auto. destruct (strict_kind uk); [discriminate|auto]. Qed.

Lemma eval_iter_ref uk c it l : eval_iter uk c it = Ok l -> eval_iter UDefault c it = Ok l.
Proof.
  destruct it as [p|a b]; simpl; [|auto].
  destruct (eval_path uk c p) as [v| |] eqn:E; try discriminate. rewrite (eval_path_ref _ _ _ _ E). simpl.
  apply items_of_ref.
Qed.

Lemma arraylike_ref uk v : arraylike uk v <> ARaise -> arraylike UDefault v = arraylike uk v.
Proof. destruct v; simpl; auto. destruct (probe_raises uk); [intro H; exfalso; apply H; reflexivity|auto]. Qed.

Lemma bind_params_ref uk c ps kws : forall acc r, bind_params uk c ps kws acc = Ok r -> bind_params UDefault c ps kws acc = Ok r.
Proof.
  induction ps as [|[p d] ps IH]; intros acc r H; simpl in *; [exact H|].
  match type of H with bind ?X _ = _ => destruct X as [v| |] eqn:E; try discriminate end.
  assert (E' : match last_kw p kws with
               | Some e => eval_expr UDefault c e
               | None => match d with Some e => eval_expr UDefault c e | None => Ok VUndef end
               end = Ok v).
  { destruct (last_kw p kws); [apply (eval_expr_ref _ _ _ _ E)|]. destruct d; [apply (eval_expr_ref _ _ _ _ E)|exact E]. }
  rewrite E'. simpl in *. apply IH. exact H.
Qed.

Lemma macro_namespace_ref uk c ps kws r : macro_namespace uk c ps kws = Ok r -> macro_namespace UDefault c ps kws = Ok r.
Proof.
  unfold macro_namespace.
  destruct (eval_kwargs uk c (filter _ kws) []) as [ex| |] eqn:E; try discriminate.
  rewrite (eval_kwargs_ref _ _ _ _ _ E). simpl. apply bind_params_ref.
Qed.

(* ================================================================== the simulation *)
Definition no_raise (s : signal) : Prop := match s with Raise _ => False | _ => True end.

(* r2 reproduces every run of r1 that does not end in an exception *)
Definition refines (r1 r2 : node -> ctx -> outcome) : Prop :=
  forall n c c' o s, r1 n c = Done c' o s -> no_raise s -> r2 n c = Done c' o s.

Lemma lift_ok_inv {A} (r : res A) c k c' o s :
  lift r c k = Done c' o s -> no_raise s -> exists a, r = Ok a /\ k a = Done c' o s.
Proof.
  destruct r; simpl; intros H Hs.
  - eauto.
  - inversion H; subst. contradiction.
  - discriminate.
Qed.

Lemma seq_nodes_ref r1 r2 l : refines r1 r2 ->
  forall c c' o s, seq_nodes r1 l c = Done c' o s -> no_raise s -> seq_nodes r2 l c = Done c' o s.
Proof.
  intro Hr. induction l as [|n l IH]; intros c c' o s H Hs; simpl in *; [exact H|].
  destruct (r1 n c) as [c1 o1 s1|] eqn:E; [|discriminate].
  destruct s1.
  - rewrite (Hr _ _ _ _ _ E I).
    destruct (seq_nodes r1 l c1) as [c2 o2 s2|] eqn:E2; [|discriminate].
    inversion H; subst. rewrite (IH _ _ _ _ E2 Hs). reflexivity.
  - inversion H; subst. rewrite (Hr _ _ _ _ _ E I). reflexivity.
  - inversion H; subst. rewrite (Hr _ _ _ _ _ E I). reflexivity.
  - inversion H; subst. contradiction.
Qed.

Lemma loop_items_ref catch (f1 f2 : ctx -> val -> Z -> outcome) items :
  (forall c v i c' o s, f1 c v i = Done c' o s -> no_raise s -> f2 c v i = Done c' o s) ->
  forall i c c' o s, loop_items catch f1 items i c = Done c' o s -> no_raise s -> loop_items catch f2 items i c = Done c' o s.
Proof.
  intro Hf. induction items as [|v items IH]; intros i c c' o s H Hs; simpl in *; [exact H|].
  destruct (f1 c v i) as [c1 o1 s1|] eqn:E; [|discriminate].
  destruct s1.
  - rewrite (Hf _ _ _ _ _ _ E I).
    destruct (loop_items catch f1 items (i + 1)%Z c1) as [c2 o2 s2|] eqn:E2; [|discriminate].
    inversion H; subst. rewrite (IH _ _ _ _ _ E2 Hs). reflexivity.
  - rewrite (Hf _ _ _ _ _ _ E I). destruct catch; exact H.
  - rewrite (Hf _ _ _ _ _ _ E I). destruct catch.
    + destruct (loop_items true f1 items (i + 1)%Z c1) as [c2 o2 s2|] eqn:E2; [|discriminate].
      inversion H; subst. rewrite (IH _ _ _ _ _ E2 Hs). reflexivity.
    + exact H.
  - inversion H; subst. contradiction.
Qed.

(* in strict tolerance mode an exception inside a template is never swallowed *)
Lemma tmpl_nodes_ref pr r1 r2 l : refines r1 r2 ->
  forall c c' o s, tmpl_nodes MStrict pr r1 l c = Done c' o s -> no_raise s -> tmpl_nodes MStrict pr r2 l c = Done c' o s.
Proof.
  intro Hr. induction l as [|n l IH]; intros c c' o s H Hs; simpl in *; [exact H|].
  destruct (r1 n c) as [c1 o1 s1|] eqn:E; [|discriminate].
  destruct s1.
  - rewrite (Hr _ _ _ _ _ E I).
    destruct (tmpl_nodes MStrict pr r1 l c1) as [c2 o2 s2|] eqn:E2; [|discriminate].
    inversion H; subst. rewrite (IH _ _ _ _ E2 Hs). reflexivity.
  - rewrite (Hr _ _ _ _ _ E I). destruct pr; [exact H|]. inversion H; subst. contradiction.
  - rewrite (Hr _ _ _ _ _ E I). destruct pr; [exact H|]. inversion H; subst. contradiction.
  - inversion H; subst. contradiction.
Qed.

Lemma run_template_ref p pr r1 r2 body : refines r1 r2 ->
  forall c c' o s, run_template MStrict p pr r1 body c = Done c' o s -> no_raise s ->
                   run_template MStrict p pr r2 body c = Done c' o s.
Proof.
  intros Hr c c' o s H Hs. unfold run_template, after in *.
  destruct (tmpl_nodes MStrict pr r1 body _) as [c1 o1 s1|] eqn:E; [|discriminate].
  inversion H; subst. rewrite (tmpl_nodes_ref pr r1 r2 body Hr _ _ _ _ E Hs). reflexivity.
Qed.

Lemma after_inv (x : outcome) g c' o s : after x g = Done c' o s -> exists c1, x = Done c1 o s /\ c' = g c1.
Proof. destruct x; simpl; [|discriminate]. intro H; inversion H; subst. eauto. Qed.

Lemma back_inv (x : outcome) c c' o s :
  match x with Fuel => Fuel | Done _ out s0 => Done c out s0 end = Done c' o s -> exists c1, x = Done c1 o s /\ c' = c.
Proof. destruct x; [|discriminate]. intro H; inversion H; subst. eauto. Qed.

(* one node: if the nested interpreter is refined, so is the node *)
Lemma exec_step_refines uk ld ft r1 r2 : filters_refine ft ->
  refines r1 r2 -> refines (exec_step (Env MStrict uk ld ft) r1) (exec_step (Env MStrict UDefault ld ft) r2).
Proof.
  intros Hft Hr n c c' o s H Hs.
  destruct n; cbn [exec_step e_uk e_mode e_loader e_filters] in *.
  - exact H.
  - (* output *)
    destruct (lift_ok_inv _ _ _ _ _ _ H Hs) as (v & Ev & Hv). cbv beta in Hv.
    destruct (lift_ok_inv _ _ _ _ _ _ Hv Hs) as (t & Et & Ht).
    rewrite (eval_fexpr_ref _ _ _ _ _ Hft Ev). cbn [lift]. rewrite (to_output_ref _ _ _ Et). exact Ht.
  - (* assign *)
    destruct (lift_ok_inv _ _ _ _ _ _ H Hs) as (v & Ev & Hv).
    rewrite (eval_fexpr_ref _ _ _ _ _ Hft Ev). exact Hv.
  - (* capture *)
    destruct (seq_nodes r1 body c) as [c1 o1 s1|] eqn:E; [|discriminate].
    assert (Hs1 : no_raise s1) by (destruct s1; try exact I; inversion H; subst; exact Hs).
    rewrite (seq_nodes_ref r1 r2 body Hr _ _ _ _ E Hs1). exact H.
  - (* if *)
    destruct (lift_ok_inv _ _ _ _ _ _ H Hs) as (b & Eb & Hb). cbv beta in Hb.
    rewrite (eval_cond_ref _ _ _ _ Eb). cbn [lift]. apply (seq_nodes_ref r1 r2 _ Hr _ _ _ _ Hb Hs).
  - (* for *)
    destruct (lift_ok_inv _ _ _ _ _ _ H Hs) as (items & Ei & Hi). cbv beta in Hi.
    rewrite (eval_iter_ref _ _ _ _ Ei). cbn [lift].
    destruct items as [|v0 items0]; [apply (seq_nodes_ref r1 r2 _ Hr _ _ _ _ Hi Hs)|].
    apply after_inv in Hi. destruct Hi as (c1 & Hl & ->).
    erewrite (loop_items_ref true _ _ _ _ _ _ _ _ _ Hl Hs). reflexivity.
    Unshelve. intros ci v i cj oj sj Hb Hsj. cbv beta in *. apply (seq_nodes_ref r1 r2 _ Hr _ _ _ _ Hb Hsj).
  - exact H.
  - exact H.
  - (* with *)
    destruct (lift_ok_inv _ _ _ _ _ _ H Hs) as (nw & Ew & Hw). cbv beta in Hw.
    rewrite (eval_kwargs_ref _ _ _ _ _ Ew). cbn [lift].
    apply after_inv in Hw. destruct Hw as (c1 & Hb & ->).
    rewrite (seq_nodes_ref r1 r2 _ Hr _ _ _ _ Hb Hs). reflexivity.
  - (* include *)
    destruct (is_disabled TInclude c); [exact H|].
    destruct (alookup name ld) as [body|]; [|exact H].
    destruct (lift_ok_inv _ _ _ _ _ _ H Hs) as (na & Ea & Ha). cbv beta in Ha.
    rewrite (eval_kwargs_ref _ _ _ _ _ Ea). cbn [lift].
    apply after_inv in Ha. destruct Ha as (c1 & Hb & ->).
    assert (R1 : forall ci cj oj sj, run_template MStrict true true r1 body ci = Done cj oj sj -> no_raise sj ->
                                     run_template MStrict true true r2 body ci = Done cj oj sj)
      by (intros; eapply run_template_ref; eauto).
    destruct var as [[p alias]|].
    + destruct (lift_ok_inv _ _ _ _ _ _ Hb Hs) as (v & Ev & Hv). cbv beta in Hv.
      rewrite (eval_path_ref _ _ _ _ Ev). cbn [lift].
      destruct (arraylike uk v) as [l| |] eqn:Ea2.
      * rewrite (arraylike_ref uk v) by (rewrite Ea2; discriminate). rewrite Ea2.
        erewrite (loop_items_ref false _ _ _ _ _ _ _ _ _ Hv Hs). reflexivity.
        Unshelve. intros ci itm i cj oj sj Hx Hsj. cbv beta in *. apply (R1 _ _ _ _ Hx Hsj).
      * rewrite (arraylike_ref uk v) by (rewrite Ea2; discriminate). rewrite Ea2.
        rewrite (R1 _ _ _ _ Hv Hs). reflexivity.
      * inversion Hv; subst. contradiction.
    + rewrite (R1 _ _ _ _ Hb Hs). reflexivity.
  - (* render *)
    destruct (alookup name ld) as [body|]; [|exact H].
    destruct (lift_ok_inv _ _ _ _ _ _ H Hs) as (na & Ea & Ha). cbv beta in Ha.
    rewrite (eval_kwargs_ref _ _ _ _ _ Ea). cbn [lift].
    assert (R1 : forall ci cj oj sj, run_template MStrict true false r1 body ci = Done cj oj sj -> no_raise sj ->
                                     run_template MStrict true false r2 body ci = Done cj oj sj)
      by (intros; eapply run_template_ref; eauto).
    destruct var as [[[p lp] alias]|].
    + destruct (lift_ok_inv _ _ _ _ _ _ Ha Hs) as (v & Ev & Hv). cbv beta in Hv.
      rewrite (eval_path_ref _ _ _ _ Ev). cbn [lift].
      assert (Earr : (if lp then arraylike uk v else ANot) <> ARaise ->
                     (if lp then arraylike UDefault v else ANot) = (if lp then arraylike uk v else ANot))
        by (destruct lp; [apply arraylike_ref|reflexivity]).
      destruct (if lp then arraylike uk v else ANot) as [l| |] eqn:Ea2.
      * rewrite Earr by discriminate.
        apply back_inv in Hv. destruct Hv as (c1 & Hl & ->). unfold render_loop in *.
        erewrite (loop_items_ref false _ _ _ _ _ _ _ _ _ Hl Hs). reflexivity.
        Unshelve. intros ci itm i cj oj sj Hx Hsj. cbv beta in *. apply (R1 _ _ _ _ Hx Hsj).
      * rewrite Earr by discriminate.
        apply back_inv in Hv. destruct Hv as (c1 & Hl & ->). rewrite (R1 _ _ _ _ Hl Hs). reflexivity.
      * inversion Hv; subst. contradiction.
    + apply back_inv in Ha. destruct Ha as (c1 & Hl & ->). rewrite (R1 _ _ _ _ Hl Hs). reflexivity.
  - exact H.
  - (* call *)
    destruct (alookup name (macros c)) as [[ps body]|].
    + destruct (lift_ok_inv _ _ _ _ _ _ H Hs) as (nm & En & Hn). cbv beta in Hn.
      rewrite (macro_namespace_ref _ _ _ _ _ En). cbn [lift].
      apply back_inv in Hn. destruct Hn as (c1 & Hl & ->).
      rewrite (seq_nodes_ref r1 r2 _ Hr _ _ _ _ Hl Hs). reflexivity.
    + destruct (lift_ok_inv _ _ _ _ _ _ H Hs) as (t & Et & Ht).
      rewrite (to_output_ref _ _ _ Et). exact Ht.
  - exact H.
  - exact H.
  - (* block *)
    destruct (is_disabled TBlock c); [exact H|].
    destruct (overrides c) as [ovs|].
    + apply back_inv in H. destruct H as (c1 & Hl & ->). rewrite (seq_nodes_ref r1 r2 _ Hr _ _ _ _ Hl Hs). reflexivity.
    + apply after_inv in H. destruct H as (c1 & Hb & ->). rewrite (seq_nodes_ref r1 r2 _ Hr _ _ _ _ Hb Hs). reflexivity.
  - (* extends *)
    match type of H with context [alookup ?b ld] => destruct (alookup b ld) as [body|]; [|exact H] end.
    apply after_inv in H. destruct H as (c1 & Hb & ->).
    rewrite (run_template_ref false false r1 r2 body Hr _ _ _ _ Hb Hs). reflexivity.
Qed.

Theorem exec_refines fuel uk ld ft : filters_refine ft ->
  refines (exec fuel (Env MStrict uk ld ft)) (exec fuel (Env MStrict UDefault ld ft)).
Proof.
  intro Hft. induction fuel as [|f IH].
  - intros n c c' o s H. discriminate.
  - intros n c c' o s H Hs. rewrite exec_S' in *. eapply exec_step_refines; eauto.
Qed.

Lemma no_filters_refine : filters_refine no_filters.
Proof. intros id uk v args r H. exact H. Qed.

(* C16: if rendering succeeds with a strict undefined type, the default undefined type gives the same output *)
Theorem run_case_refines k u out :
  k_mode k = MStrict -> run_case (with_uk k u) = Ok out -> run_case (with_uk k UDefault) = Ok out.
Proof.
  intros Hm H. unfold run_case, run_top, case_env, init_ctx, top_globals in *. destruct k as [md uk0 fg ld a m t e body].
  cbn [with_uk k_mode k_uk k_flags k_loader k_args k_matter k_tglobals k_eglobals k_body] in *. subst md.
  match type of H with finish ?X = _ => destruct X as [c o s|] eqn:E; [|discriminate] end.
  destruct s; try discriminate. simpl in H.
  rewrite (run_template_ref false false _ _ body (exec_refines run_fuel u ld no_filters no_filters_refine) _ _ _ _ E I). simpl. exact H.
Qed.

(* ================================================================== StrictUndefined raises on every use *)
(* a name bound nowhere evaluates to the undefined value under every undefined type: resolving never raises *)
Lemma missing_name_is_undefined uk c x : resolve c x = None -> eval_expr uk c (EPath (Path x [])) = Ok VUndef.
Proof. intro H. simpl. unfold eval_path. simpl. rewrite H. reflexivity. Qed.

(* an evaluation either succeeds or fails with UndefinedError: nothing else can go wrong in a path *)
Lemma walk_ok_or_undef g uk ks : forall obj, (exists v, walk g uk obj ks = Ok v) \/ walk g uk obj ks = Err EUndefined.
Proof.
  induction ks as [|k ks IH]; intro obj; simpl; [left; eauto|].
  destruct (step_item g uk obj k); [apply IH|left; eauto|right; reflexivity].
Qed.

Lemma eval_simple_ok_or_undef uk c r ks : (exists v, eval_simple uk c r ks = Ok v) \/ eval_simple uk c r ks = Err EUndefined.
Proof. unfold eval_simple. destruct (resolve c r); [apply walk_ok_or_undef|left; eauto]. Qed.

Lemma eval_segs_ok_or_undef uk c ss : (exists vs, eval_segs uk c ss = Ok vs) \/ eval_segs uk c ss = Err EUndefined.
Proof.
  induction ss as [|sg ss IH]; simpl; [left; eauto|].
  destruct sg as [st k|r ks]; simpl.
  - destruct IH as [[vs ->]| ->]; simpl; [left; eauto|right; reflexivity].
  - destruct (eval_simple_ok_or_undef uk c r ks) as [[v ->]| ->]; simpl; [|right; reflexivity].
    destruct IH as [[vs ->]| ->]; simpl; [left; eauto|right; reflexivity].
Qed.

Lemma eval_expr_ok_or_undef uk c e : (exists v, eval_expr uk c e = Ok v) \/ eval_expr uk c e = Err EUndefined.
Proof.
  destruct e as [l|p]; simpl; [left; eauto|]. unfold eval_path.
  destruct (eval_segs_ok_or_undef uk c (p_segs p)) as [[vs ->]| ->]; simpl; [|right; reflexivity].
  destruct (resolve c (p_root p)); [apply walk_ok_or_undef|left; eauto].
Qed.

(* the modelled filters (everything but an abstract one) *)
Definition concrete (f : filt) : Prop := match f with FGen _ _ => False | _ => True end.

Lemma apply_filter_strict_undef ft c f : concrete f -> apply_filter ft UStrict c f VUndef = Err EUndefined.
Proof.
  destruct f; simpl; intro H; try reflexivity; try contradiction.
  destruct value as [e|]; simpl; [|reflexivity].
  destruct (eval_expr_ok_or_undef UStrict c e) as [[w ->]| ->]; reflexivity.
Qed.

Lemma apply_filters_strict_undef ft c f fs : concrete f -> apply_filters ft UStrict c (f :: fs) VUndef = Err EUndefined.
Proof. intro H. simpl. rewrite (apply_filter_strict_undef ft c f H). reflexivity. Qed.

(* outputting (with or without filters) *)
Theorem strict_output_raises f md ld ft c e fs :
  eval_expr UStrict c e = Ok VUndef -> (forall flt, hd_error fs = Some flt -> concrete flt) ->
  exec (S f) (Env md UStrict ld ft) (NOut (FPlain e fs)) c = Done c [] (Raise EUndefined).
Proof.
  intros H Hc. rewrite exec_S'. cbn [exec_step e_uk e_filters eval_fexpr]. rewrite H. cbn [bind].
  destruct fs as [|f0 fs]; [reflexivity|]. rewrite apply_filters_strict_undef by (apply Hc; reflexivity). reflexivity.
Qed.

(* filtering, even when the result is only assigned *)
Theorem strict_filter_raises f md ld ft c x e flt fs :
  eval_expr UStrict c e = Ok VUndef -> concrete flt ->
  exec (S f) (Env md UStrict ld ft) (NAssign x (FPlain e (flt :: fs))) c = Done c [] (Raise EUndefined).
Proof.
  intros H Hc. rewrite exec_S'. cbn [exec_step e_uk e_filters eval_fexpr]. rewrite H. cbn [bind].
  rewrite apply_filters_strict_undef by exact Hc. reflexivity.
Qed.

(* iterating *)
Theorem strict_iterate_raises f md ld ft c x p body els :
  eval_path UStrict c p = Ok VUndef ->
  exec (S f) (Env md UStrict ld ft) (NFor x (IPath p) body els) c = Done c [] (Raise EUndefined).
Proof. intro H. rewrite exec_S'. cbn [exec_step e_uk eval_iter]. rewrite H. reflexivity. Qed.

(* comparing and testing *)
Definition atom_expr (a : atom) : expr := match a with CTruthy e | CEq e _ | CNe e _ | CLt e _ => e end.
Definition cond_head (cd : cond) : atom := match cd with CAtom a | CAnd a _ | COr a _ => a end.

Lemma strict_atom_raises c a : eval_expr UStrict c (atom_expr a) = Ok VUndef -> eval_atom UStrict c a = Err EUndefined.
Proof. destruct a; simpl; intro H; rewrite H; reflexivity. Qed.

Theorem strict_compare_raises f md ld ft c cd th el :
  eval_expr UStrict c (atom_expr (cond_head cd)) = Ok VUndef ->
  exec (S f) (Env md UStrict ld ft) (NIf cd th el) c = Done c [] (Raise EUndefined).
Proof.
  intro H. rewrite exec_S'. cbn [exec_step e_uk].
  assert (E : eval_cond UStrict c cd = Err EUndefined)
    by (destruct cd; simpl in *; rewrite (strict_atom_raises _ _ H); reflexivity).
  rewrite E. reflexivity.
Qed.

(* which use each undefined type permits for an undefined value *)
Lemma undefined_use_table uk g ft c :
  to_output uk VUndef = (if strict_kind uk then Err EUndefined else Ok []) /\
  items_of g uk VUndef = (if strict_kind uk then Err EUndefined else Ok []) /\
  apply_filter ft uk c FUpcase VUndef = (if strict_kind uk then Err EUndefined else Ok (VStr [])) /\
  apply_filter ft uk c FSize VUndef = (if strict_kind uk then Err EUndefined else Ok (VInt 0)) /\
  truthy uk VUndef = (if probe_raises uk then Err EUndefined else Ok false) /\
  (forall l, apply_filter ft uk c (FDefault l) VUndef = match uk with UStrict => Err EUndefined | _ => Ok (val_of_scalar l) end) /\
  (forall attr, apply_filter ft uk c (FHas attr None) VUndef = (if strict_kind uk then Err EUndefined else Ok (VBool false))) /\
  (forall l attr, has_filter uk (VList l) attr VUndef =
                  (if probe_raises uk then Err EUndefined else has_filter uk (VList l) attr VNil)).
Proof.
  repeat split; intros; simpl; try (destruct (strict_kind uk); reflexivity);
    unfold has_filter; simpl; try (destruct (strict_kind uk); reflexivity); destruct (probe_raises uk); reflexivity.
Qed.

(* ================================================================== the default type never raises UndefinedError *)
Definition sg (s : signal) : Prop := s <> Raise EUndefined.
Definition sig_ok (run : node -> ctx -> outcome) : Prop := forall n c c' o s, run n c = Done c' o s -> sg s.

Lemma sg_normal : sg Normal. Proof. discriminate. Qed.
Lemma sg_break : sg Break. Proof. discriminate. Qed.
Lemma sg_continue : sg Continue. Proof. discriminate. Qed.

Lemma seq_nodes_sig run l : sig_ok run -> forall c c' o s, seq_nodes run l c = Done c' o s -> sg s.
Proof.
  intro Hr. induction l as [|n l IH]; intros c c' o s H; simpl in *.
  - inversion H; subst. apply sg_normal.
  - destruct (run n c) as [c1 o1 s1|] eqn:E; [|discriminate]. pose proof (Hr _ _ _ _ _ E) as H1.
    destruct s1; try (inversion H; subst; exact H1).
    destruct (seq_nodes run l c1) as [c2 o2 s2|] eqn:E2; [|discriminate]. inversion H; subst. eapply IH; eauto.
Qed.

Lemma loop_items_sig catch (f : ctx -> val -> Z -> outcome) items :
  (forall c v i c' o s, f c v i = Done c' o s -> sg s) ->
  forall i c c' o s, loop_items catch f items i c = Done c' o s -> sg s.
Proof.
  intro Hf. induction items as [|v items IH]; intros i c c' o s H; simpl in *.
  - inversion H; subst. apply sg_normal.
  - destruct (f c v i) as [c1 o1 s1|] eqn:E; [|discriminate]. pose proof (Hf _ _ _ _ _ _ E) as H1.
    destruct (loop_items catch f items (i + 1)%Z c1) as [c2 o2 s2|] eqn:E2.
    + specialize (IH _ _ _ _ _ E2).
      destruct s1; [|destruct catch|destruct catch|]; inversion H; subst; auto using sg_normal.
    + destruct s1; [|destruct catch|destruct catch|]; try discriminate; inversion H; subst; auto using sg_normal.
Qed.

Lemma tmpl_nodes_sig md pr run l : sig_ok run -> forall c c' o s, tmpl_nodes md pr run l c = Done c' o s -> sg s.
Proof.
  intro Hr. induction l as [|n l IH]; intros c c' o s H; simpl in *.
  - inversion H; subst. apply sg_normal.
  - destruct (run n c) as [c1 o1 s1|] eqn:E; [|discriminate]. pose proof (Hr _ _ _ _ _ E) as H1.
    assert (HS : sg (Raise ESyntax)) by discriminate.
    destruct (tmpl_nodes md pr run l c1) as [c2 o2 s2|] eqn:E2.
    + specialize (IH _ _ _ _ E2).
      destruct s1 as [| | |e]; [|destruct pr|destruct pr|]; try destruct md; try destruct (is_liquid _);
        inversion H; subst; auto.
    + destruct s1 as [| | |e]; [|destruct pr|destruct pr|]; try destruct md; try destruct (is_liquid _);
        try discriminate; inversion H; subst; auto.
Qed.

Lemma run_template_sig md p pr run body : sig_ok run -> forall c c' o s, run_template md p pr run body c = Done c' o s -> sg s.
Proof.
  intros Hr c c' o s H. unfold run_template in H. apply after_inv in H. destruct H as (c1 & H & _).
  eapply tmpl_nodes_sig; eauto.
Qed.

Lemma lift_sig {A} (r : res A) c k c' o s :
  r <> Err EUndefined -> (forall a, k a = Done c' o s -> sg s) -> lift r c k = Done c' o s -> sg s.
Proof.
  intros Hr Hk H. destruct r; simpl in H.
  - eauto.
  - inversion H; subst. intro E. inversion E; subst. apply Hr. reflexivity.
  - discriminate.
Qed.

(* under the default type no evaluation fails with UndefinedError *)
Lemma total_no_undef {A} (r : res A) : (exists a, r = Ok a) -> r <> Err EUndefined.
Proof. intros [a ->]. discriminate. Qed.

Lemma eval_expr_default_total c e : exists v, eval_expr UDefault c e = Ok v.
Proof. destruct e; simpl; [eauto|apply eval_path_default_total]. Qed.

Lemma eval_args_default_total c es : exists vs, eval_args UDefault c es = Ok vs.
Proof.
  induction es as [|e es [vs IH]]; simpl; [eauto|].
  destruct (eval_expr_default_total c e) as [v ->]. simpl. rewrite IH. simpl. eauto.
Qed.

Lemma has_any_no_undef test attr items : has_any test attr items <> Err EUndefined.
Proof.
  induction items as [|itm items IH]; simpl; [discriminate|].
  destruct (getattr_item itm attr); try discriminate. destruct (test x); [discriminate|exact IH].
Qed.

Lemma has_filter_default_no_undef v attr w : has_filter UDefault v attr w <> Err EUndefined.
Proof.
  unfold has_filter.
  assert (Hi : exists l, has_input UDefault v = Ok l) by (destruct v; simpl; eauto).
  destruct Hi as [l ->]. simpl. destruct w; apply has_any_no_undef.
Qed.

(* the second condition on an abstract filter table: under the default type no filter raises UndefinedError *)
Definition filters_default_ok (ft : filter_table) : Prop := forall id v args, ft id UDefault v args <> Err EUndefined.

Lemma apply_filter_default_no_undef ft c f v : filters_default_ok ft -> apply_filter ft UDefault c f v <> Err EUndefined.
Proof.
  intro Hft. destruct f; simpl.
  - destruct v; discriminate.
  - destruct v; discriminate.
  - destruct v; try discriminate; try (destruct b; discriminate); try (destruct s; discriminate); try (destruct l0; discriminate);
      try (destruct d; discriminate); destruct l; discriminate.
  - destruct value as [e|]; simpl; [|apply has_filter_default_no_undef].
    destruct (eval_expr_default_total c e) as [w ->]. simpl. apply has_filter_default_no_undef.
  - destruct (eval_args_default_total c args) as [ws ->]. simpl. apply Hft.
Qed.

Lemma apply_filters_default_no_undef ft c fs : filters_default_ok ft -> forall v, apply_filters ft UDefault c fs v <> Err EUndefined.
Proof.
  intro Hft. induction fs as [|f fs IH]; intro v; simpl; [discriminate|].
  pose proof (apply_filter_default_no_undef ft c f v Hft) as H.
  destruct (apply_filter ft UDefault c f v) as [v'| |]; simpl; [apply IH|exact H|discriminate].
Qed.

Lemma eval_fexpr_default_no_undef ft c e : filters_default_ok ft -> eval_fexpr ft UDefault c e <> Err EUndefined.
Proof.
  intro Hft. destruct e as [e0 fs]. simpl. destruct (eval_expr_default_total c e0) as [v ->]. simpl.
  apply apply_filters_default_no_undef. exact Hft.
Qed.

Lemma to_output_default_total v : exists t, to_output UDefault v = Ok t.
Proof. destruct v; simpl; eauto. Qed.

Lemma eval_atom_default_no_undef c a : eval_atom UDefault c a <> Err EUndefined.
Proof.
  destruct a as [e|e l|e l|e n]; simpl; destruct (eval_expr_default_total c e) as [v ->]; simpl.
  - destruct v; simpl; try discriminate. destruct b; discriminate.
  - rewrite andb_false_r. discriminate.
  - rewrite andb_false_r. discriminate.
  - destruct v; simpl; discriminate.
Qed.

Lemma eval_cond_default_no_undef c cd : eval_cond UDefault c cd <> Err EUndefined.
Proof.
  induction cd as [a|a r IH|a r IH]; simpl.
  - apply eval_atom_default_no_undef.
  - pose proof (eval_atom_default_no_undef c a). destruct (eval_atom UDefault c a) as [b| |]; simpl; try assumption; try discriminate.
    destruct b; [exact IH|discriminate].
  - pose proof (eval_atom_default_no_undef c a). destruct (eval_atom UDefault c a) as [b| |]; simpl; try assumption; try discriminate.
    destruct b; [discriminate|exact IH].
Qed.

Lemma eval_kwargs_default_total c args : forall acc, exists r, eval_kwargs UDefault c args acc = Ok r.
Proof.
  induction args as [|[k e] args IH]; intro acc; simpl; [eauto|].
  destruct (eval_expr_default_total c e) as [v ->]. simpl. apply IH.
Qed.

Lemma eval_iter_default_total c it : exists l, eval_iter UDefault c it = Ok l.
Proof.
  destruct it as [p|a b]; simpl; [|eauto].
  destruct (eval_path_default_total c p) as [v ->]. simpl. destruct v; simpl; eauto.
  destruct (fl_sequences (cfg c)); eauto. destruct s; eauto.
Qed.

Lemma arraylike_default_no_raise v : arraylike UDefault v <> ARaise.
Proof. destruct v; simpl; discriminate. Qed.

Lemma bind_params_default_total c ps kws : forall acc, exists r, bind_params UDefault c ps kws acc = Ok r.
Proof.
  induction ps as [|[p d] ps IH]; intro acc; simpl; [eauto|].
  assert (T : exists v, match last_kw p kws with
               | Some e => eval_expr UDefault c e
               | None => match d with Some e => eval_expr UDefault c e | None => Ok VUndef end
               end = Ok v).
  { destruct (last_kw p kws); [apply eval_expr_default_total|]. destruct d; [apply eval_expr_default_total|eauto]. }
  destruct T as [v ->]. simpl. apply IH.
Qed.

Lemma macro_namespace_default_total c ps kws : exists r, macro_namespace UDefault c ps kws = Ok r.
Proof.
  unfold macro_namespace. destruct (eval_kwargs_default_total c (filter (fun kv => negb (has_param (fst kv) ps)) kws) []) as [ex ->].
  simpl. apply bind_params_default_total.
Qed.

Lemma exec_step_sig md ld ft run : filters_default_ok ft -> sig_ok run -> sig_ok (exec_step (Env md UDefault ld ft) run).
Proof.
  intros Hft Hr n c c' o s H.
  assert (Hseq : forall l c0 c1 o1 s1, seq_nodes run l c0 = Done c1 o1 s1 -> sg s1) by (intros; eapply seq_nodes_sig; eauto).
  assert (Htm : forall p pr body c0 c1 o1 s1, run_template md p pr run body c0 = Done c1 o1 s1 -> sg s1)
    by (intros; eapply run_template_sig; eauto).
  destruct n; cbn [exec_step e_uk e_mode e_loader e_filters] in H.
  - inversion H; subst; apply sg_normal.
  - eapply lift_sig; [apply eval_fexpr_default_no_undef; exact Hft| |exact H]. intros v Hv. cbv beta in Hv.
    eapply lift_sig; [apply total_no_undef, to_output_default_total| |exact Hv]. intros t Ht. inversion Ht; subst; apply sg_normal.
  - eapply lift_sig; [apply eval_fexpr_default_no_undef; exact Hft| |exact H]. intros v Hv. inversion Hv; subst; apply sg_normal.
  - destruct (seq_nodes run body c) as [c1 o1 s1|] eqn:E; [|discriminate]. apply Hseq in E.
    destruct s1; inversion H; subst; auto using sg_normal.
  - eapply lift_sig; [apply eval_cond_default_no_undef| |exact H]. intros b Hb. cbv beta in Hb. eapply Hseq; eauto.
  - eapply lift_sig; [apply total_no_undef, eval_iter_default_total| |exact H]. intros items Hi. cbv beta in Hi.
    destruct items as [|v0 items0]; [eapply Hseq; eauto|].
    apply after_inv in Hi. destruct Hi as (c1 & Hl & _).
    eapply loop_items_sig; [|exact Hl]. intros ci v i cj oj sj Hb. cbv beta in Hb. eapply Hseq; eauto.
  - inversion H; subst; apply sg_break.
  - inversion H; subst; apply sg_continue.
  - eapply lift_sig; [apply total_no_undef, eval_kwargs_default_total| |exact H]. intros nw Hw. cbv beta in Hw.
    apply after_inv in Hw. destruct Hw as (c1 & Hb & _). eapply Hseq; eauto.
  - destruct (is_disabled TInclude c); [inversion H; subst; discriminate|].
    destruct (alookup name ld) as [body|]; [|inversion H; subst; discriminate].
    eapply lift_sig; [apply total_no_undef, eval_kwargs_default_total| |exact H]. intros na Ha. cbv beta in Ha.
    apply after_inv in Ha. destruct Ha as (c1 & Hb & _).
    destruct var as [[p alias]|]; [|eapply Htm; eauto].
    eapply lift_sig; [apply total_no_undef, eval_path_default_total| |exact Hb]. intros v Hv. cbv beta in Hv.
    pose proof (arraylike_default_no_raise v) as Hn.
    destruct (arraylike UDefault v); [|eapply Htm; eauto|congruence].
    eapply loop_items_sig; [|exact Hv]. intros ci itm i cj oj sj Hx. cbv beta in Hx. eapply Htm; eauto.
  - destruct (alookup name ld) as [body|]; [|inversion H; subst; discriminate].
    eapply lift_sig; [apply total_no_undef, eval_kwargs_default_total| |exact H]. intros na Ha. cbv beta in Ha.
    destruct var as [[[p lp] alias]|].
    + eapply lift_sig; [apply total_no_undef, eval_path_default_total| |exact Ha]. intros v Hv. cbv beta in Hv.
      pose proof (arraylike_default_no_raise v) as Hn.
      destruct (if lp then arraylike UDefault v else ANot) eqn:Earr.
      * apply back_inv in Hv. destruct Hv as (c1 & Hl & _). unfold render_loop in Hl.
        eapply loop_items_sig; [|exact Hl]. intros ci itm i cj oj sj Hx. cbv beta in Hx. eapply Htm; eauto.
      * apply back_inv in Hv. destruct Hv as (c1 & Hl & _). eapply Htm; eauto.
      * destruct lp; congruence.
    + apply back_inv in Ha. destruct Ha as (c1 & Hl & _). eapply Htm; eauto.
  - inversion H; subst; apply sg_normal.
  - destruct (alookup name (macros c)) as [[ps body]|].
    + eapply lift_sig; [apply total_no_undef, macro_namespace_default_total| |exact H]. intros nm Hn. cbv beta in Hn.
      apply back_inv in Hn. destruct Hn as (c1 & Hl & _). eapply Hseq; eauto.
    + eapply lift_sig; [apply total_no_undef, to_output_default_total| |exact H]. intros t Ht. inversion Ht; subst; apply sg_normal.
  - inversion H; subst; apply sg_normal.
  - inversion H; subst; apply sg_normal.
  - destruct (is_disabled TBlock c); [inversion H; subst; discriminate|].
    destruct (overrides c) as [ovs|].
    + apply back_inv in H. destruct H as (c1 & Hl & _). eapply Hseq; eauto.
    + apply after_inv in H. destruct H as (c1 & Hb & _). eapply Hseq; eauto.
  - match type of H with context [alookup ?b ld] => destruct (alookup b ld) as [body|]; [|inversion H; subst; discriminate] end.
    apply after_inv in H. destruct H as (c1 & Hb & _). eapply Htm; eauto.
Qed.

Lemma no_filters_default_ok : filters_default_ok no_filters.
Proof. intros id v args. discriminate. Qed.

Theorem exec_default_never_undefined fuel md ld ft : filters_default_ok ft -> sig_ok (exec fuel (Env md UDefault ld ft)).
Proof.
  intro Hft. induction fuel as [|f IH].
  - intros n c c' o s H. discriminate.
  - intros n c c' o s H. rewrite exec_S' in H. eapply exec_step_sig; eauto.
Qed.

(* with the default undefined type a render never fails with UndefinedError, in either tolerance mode *)
Theorem run_case_default_never_undefined k : run_case (with_uk k UDefault) <> Err EUndefined.
Proof.
  unfold run_case, run_top, finish. destruct (run_template _ _ _ _ _ _) as [c o s|] eqn:E; [|discriminate].
  apply run_template_sig in E; [|apply exec_default_never_undefined, no_filters_default_ok].
  destruct s; try discriminate. intro H. inversion H; subst. apply E. reflexivity.
Qed.

(* the hypothesis "strict tolerance mode" of the refinement is needed: in lax mode the UndefinedError is swallowed,
   the render "succeeds" and prints less than the default type does *)
Definition lax_witness : case :=
  Case MLax UStrict default_flags [] [] [] [] []
    [NIf (CAtom (CTruthy (EPath (Path (slit "nosuch") [])))) [NText (slit "t")] [NText (slit "f")]; NText (slit ".")].

Lemma refinement_needs_strict_mode :
  run_case lax_witness = Ok (slit ".") /\ run_case (with_uk lax_witness UDefault) = Ok (slit "f.").
Proof. split; vm_compute; reflexivity. Qed.

(* ================================================================== abstract filters: the shape that keeps the refinement *)
(* A GUARDED filter looks at the undefined type only to decide whether an undefined left value (rin) or an undefined
   argument (rarg) raises; otherwise the left value counts as `empty` and an undefined argument as nil, and the result is
   a function `core` of the substituted values.  This is the shape `if is_undefined(x): ...` gives a filter. *)
Definition undef_to_nil (v : val) : val := match v with VUndef => VNil | _ => v end.

Definition guarded (rin rarg : ukind -> bool) (empty : val) (core : val -> list val -> res val)
  : ukind -> val -> list val -> res val :=
  fun uk v args =>
    if is_undef v && rin uk then Err EUndefined
    else if existsb is_undef args && rarg uk then Err EUndefined
    else core (if is_undef v then empty else v) (map undef_to_nil args).

(* every guarded filter whose guards are off for the default type satisfies the refinement condition ... *)
Theorem guarded_refines rin rarg empty core :
  rin UDefault = false -> rarg UDefault = false ->
  forall uk v args r, guarded rin rarg empty core uk v args = Ok r -> guarded rin rarg empty core UDefault v args = Ok r.
Proof.
  intros Hi Ha uk v args r. unfold guarded. rewrite Hi, Ha, !andb_false_r.
  destruct (is_undef v && rin uk); [discriminate|]. destruct (existsb is_undef args && rarg uk); [discriminate|auto].
Qed.

(* ... and, if its core never fails with UndefinedError, the "default never raises" condition *)
Theorem guarded_default_ok rin rarg empty core :
  rin UDefault = false -> rarg UDefault = false -> (forall v args, core v args <> Err EUndefined) ->
  forall v args, guarded rin rarg empty core UDefault v args <> Err EUndefined.
Proof. intros Hi Ha Hc v args. unfold guarded. rewrite Hi, Ha, !andb_false_r. apply Hc. Qed.

(* a table of guarded filters therefore keeps both C16 theorems *)
Corollary guarded_table_ok (tbl : N -> (ukind -> bool) * (ukind -> bool) * val * (val -> list val -> res val)) :
  (forall id, fst (fst (fst (tbl id))) UDefault = false /\ snd (fst (fst (tbl id))) UDefault = false) ->
  filters_refine (fun id => guarded (fst (fst (fst (tbl id)))) (snd (fst (fst (tbl id)))) (snd (fst (tbl id))) (snd (tbl id))).
Proof.
  intros H id uk v args r. destruct (H id) as [Hi Ha]. apply guarded_refines; assumption.
Qed.

(* the built-in `has` IS a guarded filter: its left value is guarded by iteration (every strict type raises, empty
   otherwise), its value argument by is_undefined (raises where __class__ is not readable, nil otherwise) *)
Theorem has_is_guarded uk v attr w :
  has_filter uk v attr w =
  guarded strict_kind probe_raises (VList []) (fun v' ws => has_filter UDefault v' attr (hd VNil ws)) uk v [w].
Proof.
  unfold guarded, has_filter. destruct v; simpl;
    try (destruct w; simpl; try reflexivity; rewrite ?orb_false_r; destruct (probe_raises uk); reflexivity).
  destruct (strict_kind uk); simpl; [reflexivity|].
  destruct w; simpl; try reflexivity; destruct (probe_raises uk); reflexivity.
Qed.

(* the unguarded variant is not: no guarded filter agrees with it (it violates the refinement condition) *)
Theorem has_unguarded_is_not_guarded attr :
  attr = slit "a" ->
  ~ exists rin rarg empty core, rin UDefault = false /\ rarg UDefault = false /\
      forall uk v w, has_filter_unguarded uk v attr w = guarded rin rarg empty core uk v [w].
Proof.
  intros -> (rin & rarg & empty & core & Hi & Ha & H).
  pose proof (guarded_refines rin rarg empty core Hi Ha UFalsy (VList [VDict [(slit "a", VBool false)]]) [VUndef] (VBool true)) as R.
  rewrite <- !H in R. specialize (R eq_refl). vm_compute in R. discriminate.
Qed.
