(* Scope_Undef_Proofs.v — the strict undefined types only refine the default one (C16). *)
From Coq Require Import String Ascii ZArith List Bool Lia.
From LiquidVerif Require Import Prelude PyPrims Scope Scope_Proofs.
Import ListNotations.

Lemma exec_S' f E n c : exec (S f) E n c = exec_step E (exec f E) n c.
Proof. reflexivity. Qed.

(* ================================================================== every USE refines the default *)
(* a use that succeeds under any undefined type gives the same result under the default type *)
Lemma step_item_ref_val uk obj kv v : step_item uk obj kv = SVal v -> step_item UDefault obj kv = SVal v.
Proof.
  unfold step_item. destruct (is_undef kv && probe_raises uk); [discriminate|].
  simpl. rewrite andb_false_r. destruct obj; auto. destruct (strict_kind uk); [discriminate|auto].
Qed.

Lemma step_item_ref_missing uk obj kv : step_item uk obj kv = SMissing -> step_item UDefault obj kv = SMissing.
Proof.
  unfold step_item. destruct (is_undef kv && probe_raises uk); [discriminate|].
  simpl. rewrite andb_false_r. destruct obj; auto. destruct (strict_kind uk); discriminate.
Qed.

Lemma walk_ref uk ks : forall obj v, walk uk obj ks = Ok v -> walk UDefault obj ks = Ok v.
Proof.
  induction ks as [|k ks IH]; intros obj v H; simpl in *; [exact H|].
  destruct (step_item uk obj k) as [v'| |] eqn:E.
  - rewrite (step_item_ref_val _ _ _ _ E). apply IH. exact H.
  - rewrite (step_item_ref_missing _ _ _ E). exact H.
  - discriminate.
Qed.

Lemma eval_simple_ref uk c r ks v : eval_simple uk c r ks = Ok v -> eval_simple UDefault c r ks = Ok v.
Proof. unfold eval_simple. destruct (resolve c r); [apply walk_ref|auto]. Qed.

Lemma eval_segs_ref uk c ss : forall vs, eval_segs uk c ss = Ok vs -> eval_segs UDefault c ss = Ok vs.
Proof.
  induction ss as [|s ss IH]; intros vs H; simpl in *; [exact H|].
  destruct s as [st k|r ks].
  - simpl in *. destruct (eval_segs uk c ss) as [vs'| |]; try discriminate. rewrite (IH vs' eq_refl). exact H.
  - destruct (eval_simple uk c r ks) as [v| |] eqn:E; try discriminate. rewrite (eval_simple_ref _ _ _ _ _ E).
    simpl in *. destruct (eval_segs uk c ss) as [vs'| |]; try discriminate. rewrite (IH vs' eq_refl). exact H.
Qed.

Lemma eval_path_ref uk c p v : eval_path uk c p = Ok v -> eval_path UDefault c p = Ok v.
Proof.
  unfold eval_path. destruct (eval_segs uk c (p_segs p)) as [ks| |] eqn:E; try discriminate.
  rewrite (eval_segs_ref _ _ _ _ E). simpl. destruct (resolve c (p_root p)); [apply walk_ref|auto].
Qed.

Lemma eval_expr_ref uk c e v : eval_expr uk c e = Ok v -> eval_expr UDefault c e = Ok v.
Proof. destruct e; simpl; [auto|apply eval_path_ref]. Qed.

Lemma apply_filter_ref uk f v r : apply_filter uk f v = Ok r -> apply_filter UDefault f v = Ok r.
Proof.
  destruct f; simpl.
  - destruct v; auto. destruct (strict_kind uk); [discriminate|auto].
  - destruct v; auto. destruct (strict_kind uk); [discriminate|auto].
  - destruct v; auto. destruct uk; auto; discriminate.
Qed.

Lemma apply_filters_ref uk fs : forall v r, apply_filters uk fs v = Ok r -> apply_filters UDefault fs v = Ok r.
Proof.
  induction fs as [|f fs IH]; intros v r H; simpl in *; [exact H|].
  destruct (apply_filter uk f v) as [v'| |] eqn:E; try discriminate.
  rewrite (apply_filter_ref _ _ _ _ E). simpl in *. apply IH. exact H.
Qed.

Lemma eval_fexpr_ref uk c e v : eval_fexpr uk c e = Ok v -> eval_fexpr UDefault c e = Ok v.
Proof.
  destruct e as [e0 fs]. simpl. destruct (eval_expr uk c e0) as [v0| |] eqn:E; try discriminate.
  rewrite (eval_expr_ref _ _ _ _ E). simpl. apply apply_filters_ref.
Qed.

Lemma to_output_ref uk v t : to_output uk v = Ok t -> to_output UDefault v = Ok t.
Proof. destruct v; simpl; auto. destruct (strict_kind uk); [discriminate|auto]. Qed.

Lemma truthy_ref uk v b : truthy uk v = Ok b -> truthy UDefault v = Ok b.
Proof. destruct v; simpl; auto. destruct (probe_raises uk); [discriminate|auto]. Qed.

Lemma eval_atom_ref uk c a b : eval_atom uk c a = Ok b -> eval_atom UDefault c a = Ok b.
Proof.
  destruct a as [e|e l|e l|e n]; simpl; destruct (eval_expr uk c e) as [v| |] eqn:E; try discriminate;
    rewrite (eval_expr_ref _ _ _ _ E); simpl.
  - apply truthy_ref.
  - rewrite andb_false_r. destruct (is_undef v && probe_raises uk); [discriminate|auto].
  - rewrite andb_false_r. destruct (is_undef v && probe_raises uk); [discriminate|auto].
  - destruct v; auto. destruct (probe_raises uk); discriminate.
Qed.

Lemma eval_cond_ref uk c cd : forall b, eval_cond uk c cd = Ok b -> eval_cond UDefault c cd = Ok b.
Proof.
  induction cd as [a|a r IH|a r IH]; intros b H; simpl in *.
  - apply (eval_atom_ref _ _ _ _ H).
  - destruct (eval_atom uk c a) as [b0| |] eqn:E; try discriminate. rewrite (eval_atom_ref _ _ _ _ E). simpl in *.
    destruct b0; [apply IH; exact H|exact H].
  - destruct (eval_atom uk c a) as [b0| |] eqn:E; try discriminate. rewrite (eval_atom_ref _ _ _ _ E). simpl in *.
    destruct b0; [exact H|apply IH; exact H].
Qed.

Lemma eval_kwargs_ref uk c args : forall acc r, eval_kwargs uk c args acc = Ok r -> eval_kwargs UDefault c args acc = Ok r.
Proof.
  induction args as [|[k e] args IH]; intros acc r H; simpl in *; [exact H|].
  destruct (eval_expr uk c e) as [v| |] eqn:E; try discriminate. rewrite (eval_expr_ref _ _ _ _ E). simpl in *.
  apply IH. exact H.
Qed.

Lemma items_of_ref uk v l : items_of uk v = Ok l -> items_of UDefault v = Ok l.
Proof. destruct v; simpl; auto. destruct (strict_kind uk); [discriminate|auto]. Qed.

Lemma eval_iter_ref uk c it l : eval_iter uk c it = Ok l -> eval_iter UDefault c it = Ok l.
Proof.
  destruct it as [p|a b]; simpl; [|auto].
  destruct (eval_path uk c p) as [v| |] eqn:E; try discriminate. rewrite (eval_path_ref _ _ _ _ E). simpl.
  apply items_of_ref.
Qed.

Lemma arraylike_ref uk v : arraylike uk v <> ARaise -> arraylike UDefault v = arraylike uk v.
Proof. destruct v; simpl; auto. destruct (probe_raises uk); [intro H; exfalso; apply H; reflexivity|auto]. Qed.

Lemma bind_params_ref uk c ps kws : forall acc r, bind_params uk c ps kws acc = Ok r -> bind_params UDefault c ps kws acc = Ok r.
Proof.
  induction ps as [|[p d] ps IH]; intros acc r H; simpl in *; [exact H|].
  match type of H with bind ?X _ = _ => destruct X as [v| |] eqn:E; try discriminate end.
  assert (E' : match last_kw p kws with
               | Some e => eval_expr UDefault c e
               | None => match d with Some e => eval_expr UDefault c e | None => Ok VUndef end
               end = Ok v).
  { destruct (last_kw p kws); [apply (eval_expr_ref _ _ _ _ E)|]. destruct d; [apply (eval_expr_ref _ _ _ _ E)|exact E]. }
  rewrite E'. simpl in *. apply IH. exact H.
Qed.

Lemma macro_namespace_ref uk c ps kws r : macro_namespace uk c ps kws = Ok r -> macro_namespace UDefault c ps kws = Ok r.
Proof.
  unfold macro_namespace.
  destruct (eval_kwargs uk c (filter _ kws) []) as [ex| |] eqn:E; try discriminate.
  rewrite (eval_kwargs_ref _ _ _ _ _ E). simpl. apply bind_params_ref.
Qed.

(* ================================================================== the simulation *)
Definition no_raise (s : signal) : Prop := match s with Raise _ => False | _ => True end.

(* r2 reproduces every run of r1 that does not end in an exception *)
Definition refines (r1 r2 : node -> ctx -> outcome) : Prop :=
  forall n c c' o s, r1 n c = Done c' o s -> no_raise s -> r2 n c = Done c' o s.

Lemma lift_ok_inv {A} (r : res A) c k c' o s :
  lift r c k = Done c' o s -> no_raise s -> exists a, r = Ok a /\ k a = Done c' o s.
Proof.
  destruct r; simpl; intros H Hs.
  - eauto.
  - inversion H; subst. contradiction.
  - discriminate.
Qed.

Lemma seq_nodes_ref r1 r2 l : refines r1 r2 ->
  forall c c' o s, seq_nodes r1 l c = Done c' o s -> no_raise s -> seq_nodes r2 l c = Done c' o s.
Proof.
  intro Hr. induction l as [|n l IH]; intros c c' o s H Hs; simpl in *; [exact H|].
  destruct (r1 n c) as [c1 o1 s1|] eqn:E; [|discriminate].
  destruct s1.
  - rewrite (Hr _ _ _ _ _ E I).
    destruct (seq_nodes r1 l c1) as [c2 o2 s2|] eqn:E2; [|discriminate].
    inversion H; subst. rewrite (IH _ _ _ _ E2 Hs). reflexivity.
  - inversion H; subst. rewrite (Hr _ _ _ _ _ E I). reflexivity.
  - inversion H; subst. rewrite (Hr _ _ _ _ _ E I). reflexivity.
  - inversion H; subst. contradiction.
Qed.

Lemma loop_items_ref catch (f1 f2 : ctx -> val -> Z -> outcome) items :
  (forall c v i c' o s, f1 c v i = Done c' o s -> no_raise s -> f2 c v i = Done c' o s) ->
  forall i c c' o s, loop_items catch f1 items i c = Done c' o s -> no_raise s -> loop_items catch f2 items i c = Done c' o s.
Proof.
  intro Hf. induction items as [|v items IH]; intros i c c' o s H Hs; simpl in *; [exact H|].
  destruct (f1 c v i) as [c1 o1 s1|] eqn:E; [|discriminate].
  destruct s1.
  - rewrite (Hf _ _ _ _ _ _ E I).
    destruct (loop_items catch f1 items (i + 1)%Z c1) as [c2 o2 s2|] eqn:E2; [|discriminate].
    inversion H; subst. rewrite (IH _ _ _ _ _ E2 Hs). reflexivity.
  - rewrite (Hf _ _ _ _ _ _ E I). destruct catch; exact H.
  - rewrite (Hf _ _ _ _ _ _ E I). destruct catch.
    + destruct (loop_items true f1 items (i + 1)%Z c1) as [c2 o2 s2|] eqn:E2; [|discriminate].
      inversion H; subst. rewrite (IH _ _ _ _ _ E2 Hs). reflexivity.
    + exact H.
  - inversion H; subst. contradiction.
Qed.

(* in strict tolerance mode an exception inside a template is never swallowed *)
Lemma tmpl_nodes_ref pr r1 r2 l : refines r1 r2 ->
  forall c c' o s, tmpl_nodes MStrict pr r1 l c = Done c' o s -> no_raise s -> tmpl_nodes MStrict pr r2 l c = Done c' o s.
Proof.
  intro Hr. induction l as [|n l IH]; intros c c' o s H Hs; simpl in *; [exact H|].
  destruct (r1 n c) as [c1 o1 s1|] eqn:E; [|discriminate].
  destruct s1.
  - rewrite (Hr _ _ _ _ _ E I).
    destruct (tmpl_nodes MStrict pr r1 l c1) as [c2 o2 s2|] eqn:E2; [|discriminate].
    inversion H; subst. rewrite (IH _ _ _ _ E2 Hs). reflexivity.
  - rewrite (Hr _ _ _ _ _ E I). destruct pr; [exact H|]. inversion H; subst. contradiction.
  - rewrite (Hr _ _ _ _ _ E I). destruct pr; [exact H|]. inversion H; subst. contradiction.
  - inversion H; subst. contradiction.
Qed.

Lemma run_template_ref p pr r1 r2 body : refines r1 r2 ->
  forall c c' o s, run_template MStrict p pr r1 body c = Done c' o s -> no_raise s ->
                   run_template MStrict p pr r2 body c = Done c' o s.
Proof.
  intros Hr c c' o s H Hs. unfold run_template, after in *.
  destruct (tmpl_nodes MStrict pr r1 body _) as [c1 o1 s1|] eqn:E; [|discriminate].
  inversion H; subst. rewrite (tmpl_nodes_ref pr r1 r2 body Hr _ _ _ _ E Hs). reflexivity.
Qed.

Lemma after_inv (x : outcome) g c' o s : after x g = Done c' o s -> exists c1, x = Done c1 o s /\ c' = g c1.
Proof. destruct x; simpl; [|discriminate]. intro H; inversion H; subst. eauto. Qed.

Lemma back_inv (x : outcome) c c' o s :
  match x with Fuel => Fuel | Done _ out s0 => Done c out s0 end = Done c' o s -> exists c1, x = Done c1 o s /\ c' = c.
Proof. destruct x; [|discriminate]. intro H; inversion H; subst. eauto. Qed.

(* one node: if the nested interpreter is refined, so is the node *)
Lemma exec_step_refines uk ld r1 r2 :
  refines r1 r2 -> refines (exec_step (Env MStrict uk ld) r1) (exec_step (Env MStrict UDefault ld) r2).
Proof.
  intros Hr n c c' o s H Hs.
  destruct n; cbn [exec_step e_uk e_mode e_loader] in *.
  - exact H.
  - (* output *)
    destruct (lift_ok_inv _ _ _ _ _ _ H Hs) as (v & Ev & Hv). cbv beta in Hv.
    destruct (lift_ok_inv _ _ _ _ _ _ Hv Hs) as (t & Et & Ht).
    rewrite (eval_fexpr_ref _ _ _ _ Ev). cbn [lift]. rewrite (to_output_ref _ _ _ Et). exact Ht.
  - (* assign *)
    destruct (lift_ok_inv _ _ _ _ _ _ H Hs) as (v & Ev & Hv).
    rewrite (eval_fexpr_ref _ _ _ _ Ev). exact Hv.
  - (* capture *)
    destruct (seq_nodes r1 body c) as [c1 o1 s1|] eqn:E; [|discriminate].
    assert (Hs1 : no_raise s1) by (destruct s1; try exact I; inversion H; subst; exact Hs).
    rewrite (seq_nodes_ref r1 r2 body Hr _ _ _ _ E Hs1). exact H.
  - (* if *)
    destruct (lift_ok_inv _ _ _ _ _ _ H Hs) as (b & Eb & Hb). cbv beta in Hb.
    rewrite (eval_cond_ref _ _ _ _ Eb). cbn [lift]. apply (seq_nodes_ref r1 r2 _ Hr _ _ _ _ Hb Hs).
  - (* for *)
    destruct (lift_ok_inv _ _ _ _ _ _ H Hs) as (items & Ei & Hi). cbv beta in Hi.
    rewrite (eval_iter_ref _ _ _ _ Ei). cbn [lift].
    destruct items as [|v0 items0]; [apply (seq_nodes_ref r1 r2 _ Hr _ _ _ _ Hi Hs)|].
    apply after_inv in Hi. destruct Hi as (c1 & Hl & ->).
    erewrite (loop_items_ref true _ _ _ _ _ _ _ _ _ Hl Hs). reflexivity.
    Unshelve. intros ci v i cj oj sj Hb Hsj. cbv beta in *. apply (seq_nodes_ref r1 r2 _ Hr _ _ _ _ Hb Hsj).
  - exact H.
  - exact H.
  - (* with *)
    destruct (lift_ok_inv _ _ _ _ _ _ H Hs) as (nw & Ew & Hw). cbv beta in Hw.
    rewrite (eval_kwargs_ref _ _ _ _ _ Ew). cbn [lift].
    apply after_inv in Hw. destruct Hw as (c1 & Hb & ->).
    rewrite (seq_nodes_ref r1 r2 _ Hr _ _ _ _ Hb Hs). reflexivity.
  - (* include *)
    destruct (is_disabled TInclude c); [exact H|].
    destruct (alookup name ld) as [body|]; [|exact H].
    destruct (lift_ok_inv _ _ _ _ _ _ H Hs) as (na & Ea & Ha). cbv beta in Ha.
    rewrite (eval_kwargs_ref _ _ _ _ _ Ea). cbn [lift].
    apply after_inv in Ha. destruct Ha as (c1 & Hb & ->).
    assert (R1 : forall ci cj oj sj, run_template MStrict true true r1 body ci = Done cj oj sj -> no_raise sj ->
                                     run_template MStrict true true r2 body ci = Done cj oj sj)
      by (intros; eapply run_template_ref; eauto).
    destruct var as [[p alias]|].
    + destruct (lift_ok_inv _ _ _ _ _ _ Hb Hs) as (v & Ev & Hv). cbv beta in Hv.
      rewrite (eval_path_ref _ _ _ _ Ev). cbn [lift].
      destruct (arraylike uk v) as [l| |] eqn:Ea2.
      * rewrite (arraylike_ref uk v) by (rewrite Ea2; discriminate). rewrite Ea2.
        erewrite (loop_items_ref false _ _ _ _ _ _ _ _ _ Hv Hs). reflexivity.
        Unshelve. intros ci itm i cj oj sj Hx Hsj. cbv beta in *. apply (R1 _ _ _ _ Hx Hsj).
      * rewrite (arraylike_ref uk v) by (rewrite Ea2; discriminate). rewrite Ea2.
        rewrite (R1 _ _ _ _ Hv Hs). reflexivity.
      * inversion Hv; subst. contradiction.
    + rewrite (R1 _ _ _ _ Hb Hs). reflexivity.
  - (* render *)
    destruct (alookup name ld) as [body|]; [|exact H].
    destruct (lift_ok_inv _ _ _ _ _ _ H Hs) as (na & Ea & Ha). cbv beta in Ha.
    rewrite (eval_kwargs_ref _ _ _ _ _ Ea). cbn [lift].
    assert (R1 : forall ci cj oj sj, run_template MStrict true false r1 body ci = Done cj oj sj -> no_raise sj ->
                                     run_template MStrict true false r2 body ci = Done cj oj sj)
      by (intros; eapply run_template_ref; eauto).
    destruct var as [[[p lp] alias]|].
    + destruct (lift_ok_inv _ _ _ _ _ _ Ha Hs) as (v & Ev & Hv). cbv beta in Hv.
      rewrite (eval_path_ref _ _ _ _ Ev). cbn [lift].
      assert (Earr : (if lp then arraylike uk v else ANot) <> ARaise ->
                     (if lp then arraylike UDefault v else ANot) = (if lp then arraylike uk v else ANot))
        by (destruct lp; [apply arraylike_ref|reflexivity]).
      destruct (if lp then arraylike uk v else ANot) as [l| |] eqn:Ea2.
      * rewrite Earr by discriminate.
        apply back_inv in Hv. destruct Hv as (c1 & Hl & ->). unfold render_loop in *.
        erewrite (loop_items_ref false _ _ _ _ _ _ _ _ _ Hl Hs). reflexivity.
        Unshelve. intros ci itm i cj oj sj Hx Hsj. cbv beta in *. apply (R1 _ _ _ _ Hx Hsj).
      * rewrite Earr by discriminate.
        apply back_inv in Hv. destruct Hv as (c1 & Hl & ->). rewrite (R1 _ _ _ _ Hl Hs). reflexivity.
      * inversion Hv; subst. contradiction.
    + apply back_inv in Ha. destruct Ha as (c1 & Hl & ->). rewrite (R1 _ _ _ _ Hl Hs). reflexivity.
  - exact H.
  - (* call *)
    destruct (alookup name (macros c)) as [[ps body]|].
    + destruct (lift_ok_inv _ _ _ _ _ _ H Hs) as (nm & En & Hn). cbv beta in Hn.
      rewrite (macro_namespace_ref _ _ _ _ _ En). cbn [lift].
      apply back_inv in Hn. destruct Hn as (c1 & Hl & ->).
      rewrite (seq_nodes_ref r1 r2 _ Hr _ _ _ _ Hl Hs). reflexivity.
    + destruct (lift_ok_inv _ _ _ _ _ _ H Hs) as (t & Et & Ht).
      rewrite (to_output_ref _ _ _ Et). exact Ht.
  - exact H.
  - exact H.
Qed.

Theorem exec_refines fuel uk ld :
  refines (exec fuel (Env MStrict uk ld)) (exec fuel (Env MStrict UDefault ld)).
Proof.
  induction fuel as [|f IH].
  - intros n c c' o s H. discriminate.
  - intros n c c' o s H Hs. rewrite exec_S' in *. eapply exec_step_refines; eauto.
Qed.

(* C16: if rendering succeeds with a strict undefined type, the default undefined type gives the same output *)
Theorem run_case_refines k u out :
  k_mode k = MStrict -> run_case (with_uk k u) = Ok out -> run_case (with_uk k UDefault) = Ok out.
Proof.
  intros Hm H. unfold run_case, run_top, case_env, init_ctx, top_globals in *. destruct k as [md uk0 ld a m t e body].
  cbn [with_uk k_mode k_uk k_loader k_args k_matter k_tglobals k_eglobals k_body] in *. subst md.
  match type of H with finish ?X = _ => destruct X as [c o s|] eqn:E; [|discriminate] end.
  destruct s; try discriminate. simpl in H.
  rewrite (run_template_ref false false _ _ body (exec_refines run_fuel u ld) _ _ _ _ E I). simpl. exact H.
Qed.

(* ================================================================== StrictUndefined raises on every use *)
(* a name bound nowhere evaluates to the undefined value under every undefined type: resolving never raises *)
Lemma missing_name_is_undefined uk c x : resolve c x = None -> eval_expr uk c (EPath (Path x [])) = Ok VUndef.
Proof. intro H. simpl. unfold eval_path. simpl. rewrite H. reflexivity. Qed.

Lemma apply_filters_strict_undef fs : fs <> [] -> apply_filters UStrict fs VUndef = Err EUndefined.
Proof. destruct fs as [|f fs]; [congruence|]. intros _. destruct f; reflexivity. Qed.

(* outputting (with or without filters) *)
Theorem strict_output_raises f md ld c e fs :
  eval_expr UStrict c e = Ok VUndef ->
  exec (S f) (Env md UStrict ld) (NOut (FPlain e fs)) c = Done c [] (Raise EUndefined).
Proof.
  intro H. rewrite exec_S'. cbn [exec_step e_uk eval_fexpr]. rewrite H. cbn [bind].
  destruct fs as [|f0 fs]; [reflexivity|]. rewrite apply_filters_strict_undef by discriminate. reflexivity.
Qed.

(* filtering, even when the result is only assigned *)
Theorem strict_filter_raises f md ld c x e flt fs :
  eval_expr UStrict c e = Ok VUndef ->
  exec (S f) (Env md UStrict ld) (NAssign x (FPlain e (flt :: fs))) c = Done c [] (Raise EUndefined).
Proof.
  intro H. rewrite exec_S'. cbn [exec_step e_uk eval_fexpr]. rewrite H. cbn [bind].
  rewrite apply_filters_strict_undef by discriminate. reflexivity.
Qed.

(* iterating *)
Theorem strict_iterate_raises f md ld c x p body els :
  eval_path UStrict c p = Ok VUndef ->
  exec (S f) (Env md UStrict ld) (NFor x (IPath p) body els) c = Done c [] (Raise EUndefined).
Proof. intro H. rewrite exec_S'. cbn [exec_step e_uk eval_iter]. rewrite H. reflexivity. Qed.

(* comparing and testing *)
Definition atom_expr (a : atom) : expr := match a with CTruthy e | CEq e _ | CNe e _ | CLt e _ => e end.
Definition cond_head (cd : cond) : atom := match cd with CAtom a | CAnd a _ | COr a _ => a end.

Lemma strict_atom_raises c a : eval_expr UStrict c (atom_expr a) = Ok VUndef -> eval_atom UStrict c a = Err EUndefined.
Proof. destruct a; simpl; intro H; rewrite H; reflexivity. Qed.

Theorem strict_compare_raises f md ld c cd th el :
  eval_expr UStrict c (atom_expr (cond_head cd)) = Ok VUndef ->
  exec (S f) (Env md UStrict ld) (NIf cd th el) c = Done c [] (Raise EUndefined).
Proof.
  intro H. rewrite exec_S'. cbn [exec_step e_uk].
  assert (E : eval_cond UStrict c cd = Err EUndefined)
    by (destruct cd; simpl in *; rewrite (strict_atom_raises _ _ H); reflexivity).
  rewrite E. reflexivity.
Qed.

(* which use each undefined type permits for an undefined value *)
Lemma undefined_use_table uk :
  to_output uk VUndef = (if strict_kind uk then Err EUndefined else Ok []) /\
  items_of uk VUndef = (if strict_kind uk then Err EUndefined else Ok []) /\
  apply_filter uk FUpcase VUndef = (if strict_kind uk then Err EUndefined else Ok (VStr [])) /\
  apply_filter uk FSize VUndef = (if strict_kind uk then Err EUndefined else Ok (VInt 0)) /\
  truthy uk VUndef = (if probe_raises uk then Err EUndefined else Ok false) /\
  (forall l, apply_filter uk (FDefault l) VUndef = match uk with UStrict => Err EUndefined | _ => Ok (val_of_scalar l) end).
Proof. repeat split. Qed.

(* ================================================================== the default type never raises UndefinedError *)
Definition sg (s : signal) : Prop := s <> Raise EUndefined.
Definition sig_ok (run : node -> ctx -> outcome) : Prop := forall n c c' o s, run n c = Done c' o s -> sg s.

Lemma sg_normal : sg Normal. Proof. discriminate. Qed.
Lemma sg_break : sg Break. Proof. discriminate. Qed.
Lemma sg_continue : sg Continue. Proof. discriminate. Qed.

Lemma seq_nodes_sig run l : sig_ok run -> forall c c' o s, seq_nodes run l c = Done c' o s -> sg s.
Proof.
  intro Hr. induction l as [|n l IH]; intros c c' o s H; simpl in *.
  - inversion H; subst. apply sg_normal.
  - destruct (run n c) as [c1 o1 s1|] eqn:E; [|discriminate]. pose proof (Hr _ _ _ _ _ E) as H1.
    destruct s1; try (inversion H; subst; exact H1).
    destruct (seq_nodes run l c1) as [c2 o2 s2|] eqn:E2; [|discriminate]. inversion H; subst. eapply IH; eauto.
Qed.

Lemma loop_items_sig catch (f : ctx -> val -> Z -> outcome) items :
  (forall c v i c' o s, f c v i = Done c' o s -> sg s) ->
  forall i c c' o s, loop_items catch f items i c = Done c' o s -> sg s.
Proof.
  intro Hf. induction items as [|v items IH]; intros i c c' o s H; simpl in *.
  - inversion H; subst. apply sg_normal.
  - destruct (f c v i) as [c1 o1 s1|] eqn:E; [|discriminate]. pose proof (Hf _ _ _ _ _ _ E) as H1.
    destruct (loop_items catch f items (i + 1)%Z c1) as [c2 o2 s2|] eqn:E2.
    + specialize (IH _ _ _ _ _ E2).
      destruct s1; [|destruct catch|destruct catch|]; inversion H; subst; auto using sg_normal.
    + destruct s1; [|destruct catch|destruct catch|]; try discriminate; inversion H; subst; auto using sg_normal.
Qed.

Lemma tmpl_nodes_sig md pr run l : sig_ok run -> forall c c' o s, tmpl_nodes md pr run l c = Done c' o s -> sg s.
Proof.
  intro Hr. induction l as [|n l IH]; intros c c' o s H; simpl in *.
  - inversion H; subst. apply sg_normal.
  - destruct (run n c) as [c1 o1 s1|] eqn:E; [|discriminate]. pose proof (Hr _ _ _ _ _ E) as H1.
    assert (HS : sg (Raise ESyntax)) by discriminate.
    destruct (tmpl_nodes md pr run l c1) as [c2 o2 s2|] eqn:E2.
    + specialize (IH _ _ _ _ E2).
      destruct s1 as [| | |e]; [|destruct pr|destruct pr|]; try destruct md; try destruct (is_liquid _);
        inversion H; subst; auto.
    + destruct s1 as [| | |e]; [|destruct pr|destruct pr|]; try destruct md; try destruct (is_liquid _);
        try discriminate; inversion H; subst; auto.
Qed.

Lemma run_template_sig md p pr run body : sig_ok run -> forall c c' o s, run_template md p pr run body c = Done c' o s -> sg s.
Proof.
  intros Hr c c' o s H. unfold run_template in H. apply after_inv in H. destruct H as (c1 & H & _).
  eapply tmpl_nodes_sig; eauto.
Qed.

Lemma lift_sig {A} (r : res A) c k c' o s :
  r <> Err EUndefined -> (forall a, k a = Done c' o s -> sg s) -> lift r c k = Done c' o s -> sg s.
Proof.
  intros Hr Hk H. destruct r; simpl in H.
  - eauto.
  - inversion H; subst. intro E. inversion E; subst. apply Hr. reflexivity.
  - discriminate.
Qed.

(* under the default type no evaluation fails with UndefinedError *)
Lemma total_no_undef {A} (r : res A) : (exists a, r = Ok a) -> r <> Err EUndefined.
Proof. intros [a ->]. discriminate. Qed.

Lemma eval_expr_default_total c e : exists v, eval_expr UDefault c e = Ok v.
Proof. destruct e; simpl; [eauto|apply eval_path_default_total]. Qed.

Lemma apply_filters_default_total fs : forall v, exists r, apply_filters UDefault fs v = Ok r.
Proof.
  induction fs as [|f fs IH]; intro v; simpl; [eauto|].
  assert (T : exists r, apply_filter UDefault f v = Ok r).
  { destruct f; simpl; destruct v; eauto; try (destruct b; eauto); try (destruct s; eauto); try (destruct l0; eauto); destruct l; eauto;
      try (destruct d; eauto). }
  destruct T as [r ->]. simpl. apply IH.
Qed.

Lemma eval_fexpr_default_total c e : exists v, eval_fexpr UDefault c e = Ok v.
Proof.
  destruct e as [e0 fs]. simpl. destruct (eval_expr_default_total c e0) as [v ->]. simpl. apply apply_filters_default_total.
Qed.

Lemma to_output_default_total v : exists t, to_output UDefault v = Ok t.
Proof. destruct v; simpl; eauto. Qed.

Lemma eval_atom_default_no_undef c a : eval_atom UDefault c a <> Err EUndefined.
Proof.
  destruct a as [e|e l|e l|e n]; simpl; destruct (eval_expr_default_total c e) as [v ->]; simpl.
  - destruct v; simpl; try discriminate. destruct b; discriminate.
  - rewrite andb_false_r. discriminate.
  - rewrite andb_false_r. discriminate.
  - destruct v; simpl; discriminate.
Qed.

Lemma eval_cond_default_no_undef c cd : eval_cond UDefault c cd <> Err EUndefined.
Proof.
  induction cd as [a|a r IH|a r IH]; simpl.
  - apply eval_atom_default_no_undef.
  - pose proof (eval_atom_default_no_undef c a). destruct (eval_atom UDefault c a) as [b| |]; simpl; try assumption; try discriminate.
    destruct b; [exact IH|discriminate].
  - pose proof (eval_atom_default_no_undef c a). destruct (eval_atom UDefault c a) as [b| |]; simpl; try assumption; try discriminate.
    destruct b; [discriminate|exact IH].
Qed.

Lemma eval_kwargs_default_total c args : forall acc, exists r, eval_kwargs UDefault c args acc = Ok r.
Proof.
  induction args as [|[k e] args IH]; intro acc; simpl; [eauto|].
  destruct (eval_expr_default_total c e) as [v ->]. simpl. apply IH.
Qed.

Lemma eval_iter_default_total c it : exists l, eval_iter UDefault c it = Ok l.
Proof.
  destruct it as [p|a b]; simpl; [|eauto].
  destruct (eval_path_default_total c p) as [v ->]. simpl. destruct v; simpl; eauto. destruct s; eauto.
Qed.

Lemma arraylike_default_no_raise v : arraylike UDefault v <> ARaise.
Proof. destruct v; simpl; discriminate. Qed.

Lemma bind_params_default_total c ps kws : forall acc, exists r, bind_params UDefault c ps kws acc = Ok r.
Proof.
  induction ps as [|[p d] ps IH]; intro acc; simpl; [eauto|].
  assert (T : exists v, match last_kw p kws with
               | Some e => eval_expr UDefault c e
               | None => match d with Some e => eval_expr UDefault c e | None => Ok VUndef end
               end = Ok v).
  { destruct (last_kw p kws); [apply eval_expr_default_total|]. destruct d; [apply eval_expr_default_total|eauto]. }
  destruct T as [v ->]. simpl. apply IH.
Qed.

Lemma macro_namespace_default_total c ps kws : exists r, macro_namespace UDefault c ps kws = Ok r.
Proof.
  unfold macro_namespace. destruct (eval_kwargs_default_total c (filter (fun kv => negb (has_param (fst kv) ps)) kws) []) as [ex ->].
  simpl. apply bind_params_default_total.
Qed.

Lemma exec_step_sig md ld run : sig_ok run -> sig_ok (exec_step (Env md UDefault ld) run).
Proof.
  intros Hr n c c' o s H.
  assert (Hseq : forall l c0 c1 o1 s1, seq_nodes run l c0 = Done c1 o1 s1 -> sg s1) by (intros; eapply seq_nodes_sig; eauto).
  assert (Htm : forall p pr body c0 c1 o1 s1, run_template md p pr run body c0 = Done c1 o1 s1 -> sg s1)
    by (intros; eapply run_template_sig; eauto).
  destruct n; cbn [exec_step e_uk e_mode e_loader] in H.
  - inversion H; subst; apply sg_normal.
  - eapply lift_sig; [apply total_no_undef, eval_fexpr_default_total| |exact H]. intros v Hv. cbv beta in Hv.
    eapply lift_sig; [apply total_no_undef, to_output_default_total| |exact Hv]. intros t Ht. inversion Ht; subst; apply sg_normal.
  - eapply lift_sig; [apply total_no_undef, eval_fexpr_default_total| |exact H]. intros v Hv. inversion Hv; subst; apply sg_normal.
  - destruct (seq_nodes run body c) as [c1 o1 s1|] eqn:E; [|discriminate]. apply Hseq in E.
    destruct s1; inversion H; subst; auto using sg_normal.
  - eapply lift_sig; [apply eval_cond_default_no_undef| |exact H]. intros b Hb. cbv beta in Hb. eapply Hseq; eauto.
  - eapply lift_sig; [apply total_no_undef, eval_iter_default_total| |exact H]. intros items Hi. cbv beta in Hi.
    destruct items as [|v0 items0]; [eapply Hseq; eauto|].
    apply after_inv in Hi. destruct Hi as (c1 & Hl & _).
    eapply loop_items_sig; [|exact Hl]. intros ci v i cj oj sj Hb. cbv beta in Hb. eapply Hseq; eauto.
  - inversion H; subst; apply sg_break.
  - inversion H; subst; apply sg_continue.
  - eapply lift_sig; [apply total_no_undef, eval_kwargs_default_total| |exact H]. intros nw Hw. cbv beta in Hw.
    apply after_inv in Hw. destruct Hw as (c1 & Hb & _). eapply Hseq; eauto.
  - destruct (is_disabled TInclude c); [inversion H; subst; discriminate|].
    destruct (alookup name ld) as [body|]; [|inversion H; subst; discriminate].
    eapply lift_sig; [apply total_no_undef, eval_kwargs_default_total| |exact H]. intros na Ha. cbv beta in Ha.
    apply after_inv in Ha. destruct Ha as (c1 & Hb & _).
    destruct var as [[p alias]|]; [|eapply Htm; eauto].
    eapply lift_sig; [apply total_no_undef, eval_path_default_total| |exact Hb]. intros v Hv. cbv beta in Hv.
    pose proof (arraylike_default_no_raise v) as Hn.
    destruct (arraylike UDefault v); [|eapply Htm; eauto|congruence].
    eapply loop_items_sig; [|exact Hv]. intros ci itm i cj oj sj Hx. cbv beta in Hx. eapply Htm; eauto.
  - destruct (alookup name ld) as [body|]; [|inversion H; subst; discriminate].
    eapply lift_sig; [apply total_no_undef, eval_kwargs_default_total| |exact H]. intros na Ha. cbv beta in Ha.
    destruct var as [[[p lp] alias]|].
    + eapply lift_sig; [apply total_no_undef, eval_path_default_total| |exact Ha]. intros v Hv. cbv beta in Hv.
      pose proof (arraylike_default_no_raise v) as Hn.
      destruct (if lp then arraylike UDefault v else ANot) eqn:Earr.
      * apply back_inv in Hv. destruct Hv as (c1 & Hl & _). unfold render_loop in Hl.
        eapply loop_items_sig; [|exact Hl]. intros ci itm i cj oj sj Hx. cbv beta in Hx. eapply Htm; eauto.
      * apply back_inv in Hv. destruct Hv as (c1 & Hl & _). eapply Htm; eauto.
      * destruct lp; congruence.
    + apply back_inv in Ha. destruct Ha as (c1 & Hl & _). eapply Htm; eauto.
  - inversion H; subst; apply sg_normal.
  - destruct (alookup name (macros c)) as [[ps body]|].
    + eapply lift_sig; [apply total_no_undef, macro_namespace_default_total| |exact H]. intros nm Hn. cbv beta in Hn.
      apply back_inv in Hn. destruct Hn as (c1 & Hl & _). eapply Hseq; eauto.
    + eapply lift_sig; [apply total_no_undef, to_output_default_total| |exact H]. intros t Ht. inversion Ht; subst; apply sg_normal.
  - inversion H; subst; apply sg_normal.
  - inversion H; subst; apply sg_normal.
Qed.

Theorem exec_default_never_undefined fuel md ld : sig_ok (exec fuel (Env md UDefault ld)).
Proof.
  induction fuel as [|f IH].
  - intros n c c' o s H. discriminate.
  - intros n c c' o s H. rewrite exec_S' in H. eapply exec_step_sig; eauto.
Qed.

(* with the default undefined type a render never fails with UndefinedError, in either tolerance mode *)
Theorem run_case_default_never_undefined k : run_case (with_uk k UDefault) <> Err EUndefined.
Proof.
  unfold run_case, run_top, finish. destruct (run_template _ _ _ _ _ _) as [c o s|] eqn:E; [|discriminate].
  apply run_template_sig in E; [|apply exec_default_never_undefined].
  destruct s; try discriminate. intro H. inversion H; subst. apply E. reflexivity.
Qed.

(* the hypothesis "strict tolerance mode" of the refinement is needed: in lax mode the UndefinedError is swallowed,
   the render "succeeds" and prints less than the default type does *)
Definition lax_witness : case :=
  Case MLax UStrict [] [] [] [] []
    [NIf (CAtom (CTruthy (EPath (Path (slit "nosuch") [])))) [NText (slit "t")] [NText (slit "f")]; NText (slit ".")].

Lemma refinement_needs_strict_mode :
  run_case lax_witness = Ok (slit ".") /\ run_case (with_uk lax_witness UDefault) = Ok (slit "f.").
Proof. split; vm_compute; reflexivity. Qed.
