(* Paths (variables): token-level model of Path.parse and Path.__str__ (liquid/builtin/expressions/path.py).
   A path is a non-empty list of segments: a name, an integer index, or a nested path in brackets.  The serialiser
   (after the fix: the FIRST segment gets the same treatment as the others) writes a name that looks like a property as a
   bare word (after a dot unless it is first), any other name as a quoted bracketed string, an index in brackets, a
   nested path in brackets.  Executable definitions only. *)
From LiquidVerif Require Import Prelude.

Inductive ptok :=
| PWord (s : str)          (* TOKEN_WORD *)
| PDot
| PIdentStr (s : str)      (* ["..."] or ['...'] *)
| PIdentIdx (z : Z)        (* [0] [-1] *)
| PLBr | PRBr
| POther.                  (* anything that cannot continue a path: | , : ) operators keywords end *)

Inductive seg := SName (s : str) | SIdx (z : Z) | SNested (p : list seg).

Section Path.
  Variable is_prop : str -> bool.        (* RE_PROPERTY.fullmatch *)

  Fixpoint print_seg (first : bool) (g : seg) : list ptok :=
    match g with
    | SName s => if is_prop s then (if first then [PWord s] else [PDot; PWord s]) else [PIdentStr s]
    | SIdx z => [PIdentIdx z]
    | SNested p =>
        PLBr :: (fix go (first : bool) (l : list seg) : list ptok :=
                   match l with [] => [] | x :: r => print_seg first x ++ go false r end) true p ++ [PRBr]
    end.
  Fixpoint print_segs (first : bool) (l : list seg) : list ptok :=
    match l with [] => [] | x :: r => print_seg first x ++ print_segs false r end.
  Definition print_path (p : list seg) : list ptok := print_segs true p.

  Definition is_word (t : option ptok) : bool := match t with Some (PWord _) => true | _ => false end.

  (* Path.parse in STRICT mode without shorthand indexes: the `while True` loop; returns the segments and the rest *)
  Fixpoint parse_path (fuel : nat) (acc : list seg) (ts : list ptok) {struct fuel} : res (list seg * list ptok) :=
    match fuel with
    | O => OutOfFuel
    | S f =>
        let finish (rest : list ptok) := match acc with [] => Err ESyntax | _ => Ok (rev acc, rest) end in
        match ts with
        | PWord v :: r =>
            if is_word (hd_error r) then Ok (rev (SName v :: acc), r)       (* two consecutive words end the path *)
            else parse_path f (SName v :: acc) r
        | PIdentStr v :: r => if is_word (hd_error r) then Err ESyntax else parse_path f (SName v :: acc) r
        | PIdentIdx z :: r => if is_word (hd_error r) then Err ESyntax else parse_path f (SIdx z :: acc) r
        | PLBr :: r =>
            do x <- parse_path f [] r;
            match snd x with
            | PRBr :: r' => if is_word (hd_error r') then Err ESyntax else parse_path f (SNested (fst x) :: acc) r'
            | _ => Err ESyntax
            end
        | PDot :: r => if is_word (hd_error r) then parse_path f acc r else Err ESyntax
        | _ => finish ts
        end
    end.
End Path.

(* RE_PROPERTY on ASCII: a letter or underscore, then letters, digits, underscores, hyphens (code points >= 128 also count as letters) *)
Definition prop_start (c : N) : bool := ((65 <=? c) && (c <=? 90) || (97 <=? c) && (c <=? 122) || (c =? 95) || (128 <=? c) && (c <=? 65535))%N.
Definition prop_rest (c : N) : bool := (prop_start c || (48 <=? c) && (c <=? 57) || (c =? 45))%N.
Definition std_is_prop (s : str) : bool := match s with [] => false | c :: r => prop_start c && forallb prop_rest r end.

Record pathcase := { pth : list seg }.
Definition run_path (c : pathcase) : list ptok := print_path std_is_prop (pth c).
Definition ptok_eqb (a b : ptok) : bool :=
  match a, b with
  | PWord x, PWord y | PIdentStr x, PIdentStr y => str_eqb x y
  | PIdentIdx x, PIdentIdx y => Z.eqb x y
  | PDot, PDot | PLBr, PLBr | PRBr, PRBr | POther, POther => true
  | _, _ => false
  end.
