(* Model of LoopExpression (_to_iter/_to_int/_slice/evaluate), ForNode/ForLoop, TablerowNode/TableRow
   and RenderContext.stopindex.  Executable definitions only. *)
From Coq Require Import String Ascii.
From LiquidVerif Require Import Prelude PyPrims.

Definition lit (x : string) : str := map N_of_ascii (list_ascii_of_string x).

(* ---- arguments (limit / offset / cols) as the template can supply them ---- *)
Inductive arg :=
| AInt (z : Z)        (* integer literal or integer variable *)
| AStrInt (z : Z)     (* string holding the decimal text of z *)
| ANil                (* nil *)
| AStrBad             (* string that int() rejects: not a number, or a decimal fraction like '2.5' *)
| AFloat (m : Z) (e : nat)   (* the float m / 10^e *)
| ABool (b : bool)
| AInf.               (* float infinity or NaN *)

(* int(float) truncates towards zero *)
Definition float_trunc (m : Z) (e : nat) : Z := Z.quot m (10 ^ Z.of_nat e).

(* liquid.limits.to_int on these values: the integer, or the Python error class *)
Inductive toint := TI (z : Z) | TIValueError | TITypeError.
Definition to_int (a : arg) : toint :=
  match a with
  | AInt z | AStrInt z => TI z
  | AFloat m e => TI (float_trunc m e)
  | ABool b => TI (if b then 1 else 0)%Z
  | ANil => TITypeError
  | AStrBad | AInf => TIValueError         (* int(inf) is OverflowError, which to_int turns into ValueError *)
  end.

(* LoopExpression._to_int : to_int, ValueError/TypeError -> LiquidTypeError *)
Definition to_int_arg (a : arg) : res Z :=
  match to_int a with TI z => Ok z | _ => Err EType end.

Inductive off := OffNone | OffContinue | OffArg (a : arg).

Inductive iterable :=
| ItList (l : list Z) | ItRange (a b : Z) | ItStr (s : str) | ItDict (l : list (str * Z)) | ItOther.

(* _to_iter: the items, each already in the textual form the probe body prints.
   [strseq] is Environment.string_sequences *)
Definition iter_items (strseq : bool) (it : iterable) : list str :=
  match it with
  | ItList l => map Z_to_str l
  | ItRange a b => map Z_to_str (zrange_incl a b)
  | ItStr s => if strseq then map (fun c => [c]) s          (* a sequence of its characters *)
               else match s with [] => [] | _ => [s] end     (* one item, or none for the empty string *)
  | ItDict l => map (fun kv => fst kv ++ [61%N] ++ Z_to_str (snd kv)) l
  | ItOther => []
  end.

(* ---- _slice ---- *)
(* start/stop exactly as the code computes them; [stored] is context.stopindex(key) *)
Definition slice_start (stored : Z) (offset : option Z) (cont : bool) : Z :=
  if cont then stored else match offset with Some z => z | None => 0 end.

Definition slice_bounds (len stored : Z) (limit offset : option Z) (cont : bool) : Z * Z * Z :=
  let start := slice_start stored offset cont in
  let start_ := Z.min (Z.max start 0) len in
  let stop_ := match limit with
               | None => len
               | Some l => Z.min (Z.max (l + start) 0) len
               end in
  (start_, stop_, Z.max (stop_ - start_) 0).

(* the bounds as the code computed them before the fix: `stop or length`, unclamped below *)
Definition slice_bounds_old (len stored : Z) (limit offset : option Z) (cont : bool) : Z * Z * Z :=
  let start := slice_start stored offset cont in
  let start_ := Z.min (Z.max start 0) len in
  let stop_ := match limit with
               | None => len
               | Some l => if (l + start =? 0)%Z then len else Z.min (l + start) len
               end in
  (start_, stop_, Z.max (stop_ - start_) 0).

(* islice(it, start_, stop_) then reversed: the visited items, the length handed to the
   loop helper, and the index stored for `offset: continue` *)
Definition visit {A} (items : list A) (stored : Z) (limit offset : option Z) (cont rev : bool)
  : list A * Z * Z :=
  let '(start_, stop_, length_) := slice_bounds (zlen items) stored limit offset cont in
  let seg := zslice items start_ stop_ in
  ((if rev then List.rev seg else seg), length_, stop_).

Definition visit_old {A} (items : list A) (stored : Z) (limit offset : option Z) (cont rev : bool)
  : res (list A * Z * Z) :=
  let '(start_, stop_, length_) := slice_bounds_old (zlen items) stored limit offset cont in
  if (stop_ <? 0)%Z then Err EValueError     (* islice rejects a negative stop *)
  else let seg := zslice items start_ stop_ in
       Ok ((if rev then List.rev seg else seg), length_, stop_).

(* ---- the reference semantics (Shopify's slice_collection_using_each), written independently ---- *)
Fixpoint spec_each {A} (items : list A) (index from : Z) (to : option Z) : list A :=
  match items with
  | [] => []
  | x :: r =>
      match to with
      | Some t => if (t <=? index)%Z then []
                  else (if (from <=? index)%Z then [x] else []) ++ spec_each r (index + 1) from to
      | None => (if (from <=? index)%Z then [x] else []) ++ spec_each r (index + 1) from to
      end
  end.

Definition spec_visit {A} (items : list A) (stored : Z) (limit offset : option Z) (cont rev : bool) : list A :=
  let from := slice_start stored offset cont in
  let seg := spec_each items 0 from (option_map (fun l => l + from)%Z limit) in
  if rev then List.rev seg else seg.

(* ---- loop helper variables ---- *)
Record helpers := { h_index : Z; h_index0 : Z; h_rindex : Z; h_rindex0 : Z; h_first : bool; h_last : bool; h_length : Z }.

(* ForLoop after k+1 calls of step(), with length n *)
Definition forloop_at (k n : Z) : helpers :=
  {| h_index := k + 1; h_index0 := k; h_rindex := n - k; h_rindex0 := n - k - 1;
     h_first := (k =? 0)%Z; h_last := (k =? n - 1)%Z; h_length := n |}.

(* TableRow.step as a state machine *)
Record trstate := { tr_index : Z; tr_row : Z; tr_col : Z }.
Definition tr_init : trstate := {| tr_index := -1; tr_row := 1; tr_col := 0 |}.
(* `if self._index and self._col == self.ncols` after the index was incremented: a row never ends before its
   first cell *)
Definition tr_step (ncols : Z) (s : trstate) : trstate :=
  if (negb (tr_index s + 1 =? 0)%Z && (tr_col s =? ncols)%Z)%bool
  then {| tr_index := tr_index s + 1; tr_row := tr_row s + 1; tr_col := 1 |}
  else {| tr_index := tr_index s + 1; tr_row := tr_row s; tr_col := tr_col s + 1 |}.

Fixpoint tr_steps (ncols : Z) (n : nat) (s : trstate) : trstate :=
  match n with O => s | S n' => tr_step ncols (tr_steps ncols n' s) end.

(* before the repair: `if self._col == self.ncols`, so cols = 0 ended a row before the first cell *)
Definition tr_step_old (ncols : Z) (s : trstate) : trstate :=
  if (tr_col s =? ncols)%Z
  then {| tr_index := tr_index s + 1; tr_row := tr_row s + 1; tr_col := 1 |}
  else {| tr_index := tr_index s + 1; tr_row := tr_row s; tr_col := tr_col s + 1 |}.
Fixpoint tr_steps_old (ncols : Z) (n : nat) (s : trstate) : trstate :=
  match n with O => s | S n' => tr_step_old ncols (tr_steps_old ncols n' s) end.

(* ---- stopindex map ---- *)
Fixpoint sget (k : N) (m : list (N * Z)) : Z :=
  match m with [] => 0%Z | (k', v) :: m' => if N.eqb k k' then v else sget k m' end.
Definition sset (k : N) (v : Z) (m : list (N * Z)) : list (N * Z) := (k, v) :: m.

(* ---- a small language of loop bodies, enough to observe everything C13 talks about ---- *)
(* [lkey] numbers the offset:continue key "identifier-iterable"; [lname] is that text, which is also forloop.name *)
Record loopx := { lkey : N; lname : str; liter : iterable; llimit : option arg; loffset : off; lrev : bool }.

(* a helper of a for loop *)
Inductive hsel := HIndex | HIndex0 | HRindex | HRindex0 | HFirst | HLast | HLength | HName.

Inductive body :=
| BPrint                       (* item:index:index0:rindex:rindex0:first:last:length;  (or the tablerow helpers) *)
| BParent                      (* {{ forloop.parentloop.index }}  -- nothing when there is no parent *)
| BBreakAt (k : Z)             (* {% if <loop>.index == k %}{% break %}{% endif %} *)
| BContinueAt (k : Z)
| BText (s : str)
| BHelper (up : nat) (h : hsel)   (* {{ forloop.parentloop. ... .parentloop.h }} with [up] parentloops; nothing when undefined *)
| BInclude (b : list body)        (* {% include 'partial' %}: same scope, same loop stack, same stopindex map *)
| BRender (b : list body)         (* {% render 'partial', ... %}: a fresh context *)
| BFor (l : loopx) (b : list body) (els : list body)
| BTablerow (l : loopx) (cols : option arg) (b : list body).

Inductive fkind := KFor | KTable.
Record frame := { f_kind : fkind; f_item : str; f_h : helpers; f_tr : trstate; f_ncols : Z; f_name : str }.

Inductive signal := SNormal | SBreak | SContinue.

Definition eval_loop (strseq : bool) (l : loopx) (st : list (N * Z)) : res (list str * Z * list (N * Z)) :=
  let items := iter_items strseq (liter l) in
  do limit <- match llimit l with None => Ok None | Some a => do z <- to_int_arg a; Ok (Some z) end;
  do offc <- match loffset l with
             | OffNone => Ok (None, false)
             | OffContinue => Ok (None, true)
             | OffArg a => do z <- to_int_arg a; Ok (Some z, false)
             end;
  let '(seg, length_, stop_) := visit items (sget (lkey l) st) limit (fst offc) (snd offc) (lrev l) in
  Ok (seg, length_, sset (lkey l) stop_ st).

(* TablerowNode._int_or_zero: to_int; ValueError and TypeError -> 0 *)
Definition int_or_zero (a : arg) : res Z :=
  match to_int a with TI z => Ok z | _ => Ok 0%Z end.
(* before the C02 repair the TypeError of a nil cols escaped *)
Definition int_or_zero_old (a : arg) : res Z :=
  match to_int a with TI z => Ok z | TIValueError => Ok 0%Z | TITypeError => Err ETypeError end.

Definition join_colon (l : list str) : str :=
  concat_str (map (fun s => s ++ colon) l).

Definition print_for (item : str) (h : helpers) : str :=
  item ++ colon ++ Z_to_str (h_index h) ++ colon ++ Z_to_str (h_index0 h) ++ colon ++ Z_to_str (h_rindex h) ++ colon
  ++ Z_to_str (h_rindex0 h) ++ colon ++ bool_to_str (h_first h) ++ colon ++ bool_to_str (h_last h) ++ colon
  ++ Z_to_str (h_length h) ++ semi.

Definition print_table (item : str) (h : helpers) (t : trstate) (ncols : Z) : str :=
  print_for item h ++ Z_to_str (tr_col t) ++ colon ++ Z_to_str (tr_col t - 1) ++ colon
  ++ bool_to_str (tr_col t =? 1)%Z ++ colon ++ bool_to_str (tr_col t =? ncols)%Z ++ colon ++ Z_to_str (tr_row t) ++ semi.

Fixpoint parent_for (fs : list frame) : option frame :=
  match fs with
  | [] => None
  | f :: r => match f_kind f with KFor => Some f | KTable => parent_for r end
  end.

(* the loop stack (context.loops, innermost first): tablerow does not push on it *)
Definition for_frames (fs : list frame) : list frame :=
  filter (fun f => match f_kind f with KFor => true | KTable => false end) fs.

Definition helper_text (f : frame) (h : hsel) : str :=
  match h with
  | HIndex => Z_to_str (h_index (f_h f))
  | HIndex0 => Z_to_str (h_index0 (f_h f))
  | HRindex => Z_to_str (h_rindex (f_h f))
  | HRindex0 => Z_to_str (h_rindex0 (f_h f))
  | HFirst => bool_to_str (h_first (f_h f))
  | HLast => bool_to_str (h_last (f_h f))
  | HLength => Z_to_str (h_length (f_h f))
  | HName => f_name f
  end.

Definition dummy_tr := tr_init.

(* the iteration of a for loop over the visited items, given how to run the body *)
Definition for_iter (run : list frame -> list (N * Z) -> res (str * list (N * Z) * signal))
  (fs : list frame) (name : str) (n : Z) :=
  fix iter (items : list str) (k : Z) (st : list (N * Z)) (acc : str) {struct items}
    : res (str * list (N * Z) * signal) :=
    match items with
    | [] => Ok (acc, st, SNormal)
    | x :: items' =>
        let f := {| f_kind := KFor; f_item := x; f_h := forloop_at k n; f_tr := dummy_tr; f_ncols := 0; f_name := name |} in
        do r <- run (f :: fs) st;
        let '(out, st', sg) := r in
        match sg with
        | SBreak => Ok (acc ++ out, st', SNormal)
        | _ => iter items' (k + 1)%Z st' (acc ++ out)
        end
    end.

Definition td_open (col : Z) : str := lit "<td class=""col" ++ Z_to_str col ++ lit """>".
Definition td_close : str := lit "</td>".
Definition row_break (row : Z) : str := lit "</tr>" ++ [10%N] ++ lit "<tr class=""row" ++ Z_to_str row ++ lit """>".

Definition table_head : str := lit "<tr class=""row1"">" ++ [10%N].
Definition table_foot : str := lit "</tr>" ++ [10%N].

Definition table_iter (run : list frame -> list (N * Z) -> res (str * list (N * Z) * signal))
  (fs : list frame) (n ncols : Z) :=
  fix iter (items : list str) (k : Z) (t : trstate) (st : list (N * Z)) (acc : str) {struct items}
    : res (str * list (N * Z)) :=
    match items with
    | [] => Ok (acc, st)
    | x :: items' =>
        let t' := tr_step ncols t in
        let h := forloop_at k n in
        let f := {| f_kind := KTable; f_item := x; f_h := h; f_tr := t'; f_ncols := ncols; f_name := [] |} in
        do r <- run (f :: fs) st;
        let '(out, st', sg) := r in
        let cell := td_open (tr_col t') ++ out ++ td_close in
        let brk := if ((tr_col t' =? ncols)%Z && negb (h_last h))%bool then row_break (tr_row t' + 1) else [] in
        match sg with
        | SBreak => Ok (acc ++ cell ++ brk, st')
        | _ => iter items' (k + 1)%Z t' st' (acc ++ cell ++ brk)
        end
    end.

Definition exec_leaf (fs : list frame) (st : list (N * Z)) (b : body) : option (res (str * list (N * Z) * signal)) :=
  match b with
  | BPrint =>
      Some match fs with
      | f :: _ => Ok (match f_kind f with
                      | KFor => print_for (f_item f) (f_h f)
                      | KTable => print_table (f_item f) (f_h f) (f_tr f) (f_ncols f)
                      end, st, SNormal)
      | [] => Ok ([], st, SNormal)
      end
  | BParent =>                   (* forloop is the innermost FOR loop, also inside a tablerow body *)
      Some (Ok (match nth_error (for_frames fs) 1 with Some p => Z_to_str (h_index (f_h p)) | None => [] end, st, SNormal))
  | BBreakAt k =>
      Some match fs with
      | f :: _ => Ok ([], st, if (h_index (f_h f) =? k)%Z then SBreak else SNormal)
      | [] => Ok ([], st, SNormal)
      end
  | BContinueAt k =>
      Some match fs with
      | f :: _ => Ok ([], st, if (h_index (f_h f) =? k)%Z then SContinue else SNormal)
      | [] => Ok ([], st, SNormal)
      end
  | BText s => Some (Ok (s, st, SNormal))
  | BHelper up h =>
      Some (Ok (match nth_error (for_frames fs) up with Some f => helper_text f h | None => [] end, st, SNormal))
  | _ => None
  end.

(* [dis]: include is a disabled tag (we are inside a template rendered with the render tag) *)
Fixpoint exec (strseq dis : bool) (fuel : nat) (fs : list frame) (st : list (N * Z)) (bs : list body)
  : res (str * list (N * Z) * signal) :=
  match fuel with
  | O => OutOfFuel
  | S fuel' =>
      match bs with
      | [] => Ok ([], st, SNormal)
      | b :: rest =>
          do r <- (match b with
                   | BFor l body els =>
                       do ev <- eval_loop strseq l st;
                       let '(seg, n, st1) := ev in
                       if (n =? 0)%Z then exec strseq dis fuel' fs st1 els
                       else for_iter (fun fs' st' => exec strseq dis fuel' fs' st' body) fs (lname l) n seg 0%Z st1 []
                   | BTablerow l cols body =>
                       do ev <- eval_loop strseq l st;
                       let '(seg, n, st1) := ev in
                       do ncols <- match cols with None => Ok n | Some a => int_or_zero a end;
                       do r <- table_iter (fun fs' st' => exec strseq dis fuel' fs' st' body) fs n ncols seg 0%Z tr_init st1 [];
                       let '(out, st2) := r in
                       Ok (table_head ++ out ++ table_foot, st2, SNormal)
                   | BInclude body => if dis then Err EDisabledTag else exec strseq dis fuel' fs st body
                   | BRender body =>
                       do r <- exec strseq true fuel' [] [] body;
                       let '(out, _, sg) := r in
                       match sg with
                       | SNormal => Ok (out, st, SNormal)
                       | _ => Err ESyntax               (* break/continue outside a loop in the partial *)
                       end
                   | _ => match exec_leaf fs st b with Some r => r | None => OutOfFuel end
                   end);
          let '(out, st', sg) := r in
          match sg with
          | SNormal =>
              do r2 <- exec strseq dis fuel' fs st' rest;
              let '(out2, st2, sg2) := r2 in Ok (out ++ out2, st2, sg2)
          | _ => Ok (out, st', sg)
          end
      end
  end.

Inductive obs := OOut (s : str) | OErr (e : exn) | OFuel.

Record tcase := { t_strseq : bool; t_body : list body }.
Definition run_template (c : tcase) : obs :=
  match exec (t_strseq c) false 40 [] [] (t_body c) with
  | Ok (out, _, _) => OOut out
  | Err e => OErr e
  | OutOfFuel => OFuel
  end.

Definition obs_eqb (a b : obs) : bool :=
  match a, b with
  | OOut x, OOut y => str_eqb x y
  | OErr x, OErr y => exn_eqb x y
  | OFuel, OFuel => true
  | _, _ => false
  end.
