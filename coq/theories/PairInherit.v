(* C01 -- the hand-written synchronous / asynchronous copies of template inheritance
   (liquid/extra/tags/extends_tag.py): ExtendsNode.render_to_output / _async, BlockNode.render_to_output / _async,
   _build_block_stacks / _build_block_stacks_async (each with its inner _stack_template_blocks), the include tag as far
   as it matters here, BoundTemplate.render_with_context / _async, and the ONE copy of BlockDrop.__getitem__
   (block.super), which renders the parent block with the SYNCHRONOUS Node.render whichever API is running.
   Executable definitions only.

   What is recorded.  The two APIs differ in exactly two primitives: how a template is obtained
   (Environment.get_template / get_template_async) and how an item of a render-data object is read
   (RenderContext.get / get_async, which calls __getitem_async__ when the object has one).  Both primitives take
   the API as a parameter ([mode]) and leave an event naming it; every event also says whether it happened while a
   parent block was being rendered through block.super ([sup]).  Everything else -- block stacks with their mutable
   parent links, the required rule, the seen set of the extends chain, StopRender -- is state both copies share.

   Block stack items are OBJECTS: _store_blocks sets `stack[-2].parent = stack[-1]` after the item was handed out, and
   `tag_namespace["extends"].clear()` forgets the stacks but not the items a BlockDrop still points to.  Hence a heap
   of items with a mutable parent field, and stacks of heap addresses. *)
From Coq Require Import String Ascii.
From LiquidVerif Require Import Prelude.

Definition ilit (x : string) : str := map N_of_ascii (list_ascii_of_string x).

Inductive mode := Sync | Async.
Definition mode_eqb (a b : mode) : bool := match a, b with Sync, Sync | Async, Async => true | _, _ => false end.

(* ------------------------------------------------------------------------------------------------ syntax *)
Inductive node :=
| NText (t : N)                                          (* literal text, identified by a number *)
| NVar (x : str)                                         (* {{ d.x }} : an item of a render-data object *)
| NSuper                                                 (* {{ block.super }} *)
| NBlock (name : str) (required : bool) (body : list node)
| NExtends (parent : str)
| NInclude (name : str).
Definition template := list node.

(* the two primitives, per API *)
Record world := {
  w_ld : mode -> str -> option template;                 (* get_template | get_template_async *)
  w_acc : mode -> str -> N                               (* obj[key] | await obj.__getitem_async__(key) *)
}.

Inductive ev :=
| EText (t : N)
| EVal (m : mode) (sup : bool) (x : str) (v : N)         (* an item read through API m, printed *)
| ELoad (m : mode) (sup : bool) (name : str) (found : bool).

(* ------------------------------------------------------------------------------------------------ state *)
(* _BlockStackItem: block body, required, and the parent link set later by _store_blocks *)
Record item := { it_body : list node; it_required : bool; it_parent : option nat }.
Record store := { s_heap : list item; s_stacks : list (str * list nat) }.   (* tag_namespace["extends"] *)
Definition store0 : store := {| s_heap := []; s_stacks := [] |}.

Inductive outc (A : Type) := Val (a : A) | Stop | Fail (e : exn) | Fuel.   (* Stop = StopRender *)
Arguments Val {A} a. Arguments Stop {A}. Arguments Fail {A} e. Arguments Fuel {A}.

(* state for the stacks, a writer for the events: the events of a run do not depend on earlier events *)
Definition M (A : Type) := store -> outc A * store * list ev.
Definition ret {A} (a : A) : M A := fun st => (Val a, st, []).
Definition fail {A} (e : exn) : M A := fun st => (Fail e, st, []).
Definition stop {A} : M A := fun st => (Stop, st, []).
Definition fuelM {A} : M A := fun st => (Fuel, st, []).
Definition emit (e : ev) : M unit := fun st => (Val tt, st, [e]).
Definition mbind {A B} (m : M A) (f : A -> M B) : M B :=
  fun st =>
    match m st with
    | (Val a, st1, t1) => match f a st1 with (r, st2, t2) => (r, st2, t1 ++ t2) end
    | (Stop, st1, t1) => (Stop, st1, t1)
    | (Fail e, st1, t1) => (Fail e, st1, t1)
    | (Fuel, st1, t1) => (Fuel, st1, t1)
    end.
Notation "'doM' x <- m ; k" := (mbind m (fun x => k)) (at level 200, x pattern, m at level 100, k at level 200).
Definition getS : M store := fun st => (Val st, st, []).
Definition putS (s : store) : M unit := fun _ => (Val tt, s, []).
(* `except StopRender: break` of the node loop in render_with_context *)
Definition catch_stop (m : M unit) : M unit :=
  fun st => match m st with (Stop, st1, t1) => (Val tt, st1, t1) | r => r end.

(* ------------------------------------------------------------------------------------------------ context *)
(* c_block: what `block` resolves to: None = unbound; Some p = a BlockDrop whose `parent` is p (a heap address or None)
   c_super: a parent block is being rendered by BlockDrop.__getitem__
   c_template: context.template (the template whose extends tag builds the stacks) *)
Record ctx := { c_block : option (option nat); c_super : bool; c_template : template }.
Definition with_block (c : ctx) (b : option (option nat)) : ctx :=
  {| c_block := b; c_super := c_super c; c_template := c_template c |}.
Definition with_super (c : ctx) : ctx := {| c_block := c_block c; c_super := true; c_template := c_template c |}.
Definition with_template (c : ctx) (t : template) : ctx :=
  {| c_block := c_block c; c_super := c_super c; c_template := t |}.

(* the two primitives *)
Definition load (w : world) (m : mode) (c : ctx) (name : str) : M template :=
  match w_ld w m name with
  | Some t => doM _ <- emit (ELoad m (c_super c) name true); ret t
  | None => doM _ <- emit (ELoad m (c_super c) name false); fail ENotFound
  end.
Definition access (w : world) (m : mode) (c : ctx) (x : str) : M unit :=
  emit (EVal m (c_super c) x (w_acc w m x)).

(* ------------------------------------------------------------------------ shared (one copy in the code) *)
(* _find_inheritance_nodes._visit_node: depth first, a node before its children; children(include_partials=False) *)
Inductive found := FBlock (name : str) (required : bool) (body : list node) | FExtends (parent : str).
Fixpoint find_node (n : node) : list found :=
  match n with
  | NBlock name req body => FBlock name req body :: flat_map find_node body
  | NExtends p => [FExtends p]
  | _ => []
  end.
Definition find_nodes (t : template) : list found := flat_map find_node t.
Definition f_extends (l : list found) : list str := flat_map (fun f => match f with FExtends p => [p] | _ => [] end) l.
Definition f_blocks (l : list found) : list (str * bool * list node) :=
  flat_map (fun f => match f with FBlock n r b => [(n, r, b)] | _ => [] end) l.

Fixpoint smem (x : str) (l : list str) : bool := match l with [] => false | y :: r => str_eqb x y || smem x r end.
(* the seen_block_names loop of _stack_blocks *)
Fixpoint has_dup (seen : list str) (names : list str) : bool :=
  match names with [] => false | n :: r => smem n seen || has_dup (n :: seen) r end.

Fixpoint set_nth {A} (i : nat) (f : A -> A) (l : list A) : list A :=
  match l, i with
  | [], _ => []
  | a :: r, O => f a :: r
  | a :: r, S j => a :: set_nth j f r
  end.
Fixpoint stack_append (name : str) (a : nat) (st : list (str * list nat)) : list (str * list nat) :=
  match st with
  | [] => [(name, [a])]
  | (k, l) :: r => if str_eqb name k then (k, l ++ [a]) :: r else (k, l) :: stack_append name a r
  end.
Definition stack_of (name : str) (st : list (str * list nat)) : list nat :=
  match alookup name st with Some l => l | None => [] end.

(* one iteration of _store_blocks, the `required` expression as written *)
Definition store_block (s : store) (b : str * bool * list node) : store :=
  let '(name, req, body) := b in
  let stack := stack_of name (s_stacks s) in
  let required := if negb (match stack with [] => true | _ => false end) && negb req then false else req in
  let a := length (s_heap s) in
  let heap1 := s_heap s ++ [{| it_body := body; it_required := required; it_parent := None |}] in
  (* if len(stack) > 1: stack[-2].parent = stack[-1] *)
  let heap2 := match rev stack with
               | prev :: _ => set_nth prev (fun it => {| it_body := it_body it; it_required := it_required it;
                                                          it_parent := Some a |}) heap1
               | [] => heap1
               end in
  {| s_heap := heap2; s_stacks := stack_append name a (s_stacks s) |}.

(* _stack_blocks: the extends node of the template, if any; its blocks pushed on the stacks *)
Definition stack_blocks (t : template) : M (option str) :=
  let fl := find_nodes t in
  if Nat.ltb 1 (length (f_extends fl)) then fail EInherit                       (* too many 'extends' tags *)
  else if has_dup [] (map (fun b => fst (fst b)) (f_blocks fl)) then fail EInherit   (* duplicate block *)
  else doM s <- getS;
       doM _ <- putS (fold_left store_block (f_blocks fl) s);
       ret (hd_error (f_extends fl)).

Definition clear_stacks : M unit :=
  doM s <- getS; putS {| s_heap := s_heap s; s_stacks := [] |}.

Definition heap_get (a : nat) : M item :=
  doM s <- getS;
  match nth_error (s_heap s) a with Some it => ret it | None => fail EAssertionError end.

(* BlockDrop.__getitem__("super"): ONE copy.  [render_sync] is the synchronous Node.render of the parent block's body. *)
Definition blockdrop_super (render_sync : ctx -> list node -> M unit) (c : ctx) : M unit :=
  match c_block c with
  | None => ret tt                                                 (* `block` is not bound: nothing is printed *)
  | Some None => ret tt                                            (* no parent: env.undefined("super") *)
  | Some (Some p) =>
      doM it <- heap_get p;
      (* with self.context.extend({"block": BlockDrop(parent=self.parent.parent)}): self.parent.block.block.render(...) *)
      render_sync (with_super (with_block c (Some (it_parent it)))) (it_body it)
  end.

(* ------------------------------------------------------------------------ the synchronous copies *)
Definition stack_template_blocks_sync (w : world) (c : ctx) (seen : list str) (t : template) : M (option (str * template)) :=
  doM e <- stack_blocks t;
  match e with
  | None => ret None
  | Some p =>
      if smem p seen then fail EInherit                                          (* circular extends *)
      else doM t' <- load w Sync c p; ret (Some (p, t'))
  end.

Fixpoint build_loop_sync (fuel : nat) (w : world) (c : ctx) (seen : list str) (base next : template) : M template :=
  match fuel with
  | O => fuelM
  | S f =>
      doM r <- stack_template_blocks_sync w c seen next;
      match r with
      | None => ret base
      | Some (p, t') => build_loop_sync f w c (p :: seen) t' t'
      end
  end.

(* _build_block_stacks *)
Definition build_stacks_sync (fuel : nat) (w : world) (c : ctx) (t : template) : M template :=
  doM r <- stack_template_blocks_sync w c [] t;
  match r with
  | None => fail EAssertionError                                                 (* assert base *)
  | Some (p, t') => build_loop_sync fuel w c [p] t' t'
  end.

(* BlockNode.render_to_output *)
Definition block_sync (rec : ctx -> list node -> M unit) (c : ctx) (name : str) (required : bool) (body : list node) : M unit :=
  doM s <- getS;
  match stack_of name (s_stacks s) with
  | [] =>                                                         (* this base template is being rendered directly *)
      if required then fail ERequiredBlock
      else rec (with_block c (Some None)) body
  | a :: _ =>
      doM it <- heap_get a;
      if it_required it then fail ERequiredBlock
      else rec (with_block c (Some (it_parent it))) (it_body it)
  end.

(* BoundTemplate.render_with_context: the node loop; StopRender ends it *)
Definition render_with_context_sync (rec : ctx -> list node -> M unit) (c : ctx) (t : template) : M unit :=
  catch_stop (rec c t).

(* ExtendsNode.render_to_output *)
Definition extends_sync (fuel : nat) (w : world) (rec : ctx -> list node -> M unit) (c : ctx) : M unit :=
  doM base <- build_stacks_sync fuel w c (c_template c);
  doM _ <- render_with_context_sync rec c base;
  doM _ <- clear_stacks;
  stop.                                                                          (* raise StopRender *)

(* IncludeNode.render_to_output, without arguments (those are PairTags.v) *)
Definition include_sync (w : world) (rec : ctx -> list node -> M unit) (c : ctx) (name : str) : M unit :=
  doM t <- load w Sync c name;
  render_with_context_sync rec (with_template c t) t.

(* Node.render over a list of nodes *)
Fixpoint rs (fuel : nat) (w : world) (c : ctx) (ns : list node) : M unit :=
  match fuel with
  | O => fuelM
  | S f =>
      match ns with
      | [] => ret tt
      | n :: r =>
          doM _ <- (match n with
                    | NText t => emit (EText t)
                    | NVar x => access w Sync c x
                    | NSuper => blockdrop_super (rs f w) c
                    | NBlock name req body => block_sync (rs f w) c name req body
                    | NExtends _ => extends_sync f w (rs f w) c
                    | NInclude name => include_sync w (rs f w) c name
                    end);
          rs f w c r
      end
  end.

(* ------------------------------------------------------------------------ the asynchronous copies *)
Definition stack_template_blocks_async (w : world) (c : ctx) (seen : list str) (t : template) : M (option (str * template)) :=
  doM e <- stack_blocks t;
  match e with
  | None => ret None
  | Some p =>
      if smem p seen then fail EInherit
      else doM t' <- load w Async c p; ret (Some (p, t'))
  end.

Fixpoint build_loop_async (fuel : nat) (w : world) (c : ctx) (seen : list str) (base next : template) : M template :=
  match fuel with
  | O => fuelM
  | S f =>
      doM r <- stack_template_blocks_async w c seen next;
      match r with
      | None => ret base
      | Some (p, t') => build_loop_async f w c (p :: seen) t' t'
      end
  end.

Definition build_stacks_async (fuel : nat) (w : world) (c : ctx) (t : template) : M template :=
  doM r <- stack_template_blocks_async w c [] t;
  match r with
  | None => fail EAssertionError
  | Some (p, t') => build_loop_async fuel w c [p] t' t'
  end.

(* BlockNode.render_to_output_async *)
Definition block_async (rec : ctx -> list node -> M unit) (c : ctx) (name : str) (required : bool) (body : list node) : M unit :=
  doM s <- getS;
  match stack_of name (s_stacks s) with
  | [] =>
      if required then fail ERequiredBlock
      else rec (with_block c (Some None)) body
  | a :: _ =>
      doM it <- heap_get a;
      if it_required it then fail ERequiredBlock
      else rec (with_block c (Some (it_parent it))) (it_body it)
  end.

Definition render_with_context_async (rec : ctx -> list node -> M unit) (c : ctx) (t : template) : M unit :=
  catch_stop (rec c t).

(* ExtendsNode.render_to_output_async *)
Definition extends_async (fuel : nat) (w : world) (rec : ctx -> list node -> M unit) (c : ctx) : M unit :=
  doM base <- build_stacks_async fuel w c (c_template c);
  doM _ <- render_with_context_async rec c base;
  doM _ <- clear_stacks;
  stop.

Definition include_async (w : world) (rec : ctx -> list node -> M unit) (c : ctx) (name : str) : M unit :=
  doM t <- load w Async c name;
  render_with_context_async rec (with_template c t) t.

(* Node.render_async over a list of nodes.  block.super is the same BlockDrop.__getitem__: it is handed the
   SYNCHRONOUS renderer [rs]. *)
Fixpoint ra (fuel : nat) (w : world) (c : ctx) (ns : list node) : M unit :=
  match fuel with
  | O => fuelM
  | S f =>
      match ns with
      | [] => ret tt
      | n :: r =>
          doM _ <- (match n with
                    | NText t => emit (EText t)
                    | NVar x => access w Async c x
                    | NSuper => blockdrop_super (rs f w) c
                    | NBlock name req body => block_async (ra f w) c name req body
                    | NExtends _ => extends_async f w (ra f w) c
                    | NInclude name => include_async w (ra f w) c name
                    end);
          ra f w c r
      end
  end.

(* What the asynchronous API would be with a BlockDrop.__getitem_async__ that awaits render_async of the parent
   block: not the code -- the yardstick the code is measured against. *)
Fixpoint ra_full (fuel : nat) (w : world) (c : ctx) (ns : list node) : M unit :=
  match fuel with
  | O => fuelM
  | S f =>
      match ns with
      | [] => ret tt
      | n :: r =>
          doM _ <- (match n with
                    | NText t => emit (EText t)
                    | NVar x => access w Async c x
                    | NSuper => blockdrop_super (ra_full f w) c
                    | NBlock name req body => block_async (ra_full f w) c name req body
                    | NExtends _ => extends_async f w (ra_full f w) c
                    | NInclude name => include_async w (ra_full f w) c name
                    end);
          ra_full f w c r
      end
  end.

(* BoundTemplate.render / render_async of template t *)
Definition ctx0 (t : template) : ctx := {| c_block := None; c_super := false; c_template := t |}.
Definition render_sync (fuel : nat) (w : world) (t : template) : M unit := render_with_context_sync (rs fuel w) (ctx0 t) t.
Definition render_async (fuel : nat) (w : world) (t : template) : M unit := render_with_context_async (ra fuel w) (ctx0 t) t.
Definition render_async_full (fuel : nat) (w : world) (t : template) : M unit :=
  render_with_context_async (ra_full fuel w) (ctx0 t) t.

(* ------------------------------------------------------------------------ erasing the API marker *)
Inductive uev := UText (t : N) | UVal (x : str) (v : N) | ULoad (name : str) (found : bool).
Definition erase1 (e : ev) : uev :=
  match e with EText t => UText t | EVal _ _ x v => UVal x v | ELoad _ _ n f => ULoad n f end.
Definition erase (t : list ev) : list uev := map erase1 t.
Definition erase_run {A} (r : outc A * store * list ev) : outc A * store * list uev :=
  match r with (o, st, t) => (o, st, erase t) end.

Definition ev_sup (e : ev) : bool := match e with EText _ => false | EVal _ s _ _ => s | ELoad _ s _ _ => s end.
Definition ev_mode (e : ev) : option mode := match e with EText _ => None | EVal m _ _ _ => Some m | ELoad m _ _ _ => Some m end.

(* ------------------------------------------------------------------------ correspondence *)
(* the run: templates by name (the same through both APIs), an instrumented data object whose items read "s" through
   __getitem__ and "a" through __getitem_async__, a loader that records which of get_source / get_source_async ran *)
Record icase := { ic_templates : list (str * template); ic_root : str }.
Definition ic_world (k : icase) : world :=
  {| w_ld := fun _ n => alookup n (ic_templates k);
     w_acc := fun m _ => match m with Sync => 0%N | Async => 1%N end |}.

Inductive oev := OText (t : N) | OVal (m : mode) (x : str).
Record iobs := { io_out : list oev; io_loads : list (mode * str * bool); io_end : option exn }.
Definition out_of (t : list ev) : list oev :=
  flat_map (fun e => match e with EText n => [OText n] | EVal m _ x _ => [OVal m x] | ELoad _ _ _ _ => [] end) t.
Definition loads_of (t : list ev) : list (mode * str * bool) :=
  flat_map (fun e => match e with ELoad m _ n f => [(m, n, f)] | _ => [] end) t.
Definition iobserve (r : outc unit * store * list ev) : iobs :=
  match r with
  | (o, _, t) => {| io_out := out_of t; io_loads := loads_of t;
                    io_end := match o with Val _ => None | Stop => Some EOtherForeign | Fail e => Some e
                                      | Fuel => Some ERecursionError end |}
  end.

Definition run_with (f : nat -> world -> template -> M unit) (k : icase) : iobs :=
  match alookup (ic_root k) (ic_templates k) with
  | None => {| io_out := []; io_loads := []; io_end := Some ENotFound |}
  | Some t => iobserve (f 60 (ic_world k) t store0)
  end.
Definition run_inherit (k : icase) : iobs * iobs := (run_with render_sync k, run_with render_async k).

Definition oev_eqb (a b : oev) : bool :=
  match a, b with
  | OText x, OText y => N.eqb x y
  | OVal m x, OVal m' y => mode_eqb m m' && str_eqb x y
  | _, _ => false
  end.
Definition load_eqb (a b : mode * str * bool) : bool :=
  mode_eqb (fst (fst a)) (fst (fst b)) && str_eqb (snd (fst a)) (snd (fst b)) && Bool.eqb (snd a) (snd b).
Definition iobs_eqb (a b : iobs) : bool :=
  list_eqb load_eqb (io_loads a) (io_loads b) && option_eqb exn_eqb (io_end a) (io_end b) &&
  (match io_end a with Some _ => true | None => list_eqb oev_eqb (io_out a) (io_out b) end).
Definition iobs2_eqb (a b : iobs * iobs) : bool := iobs_eqb (fst a) (fst b) && iobs_eqb (snd a) (snd b).
