From LiquidVerif Require Import Prelude PyPrims LoopSlice.
From Coq Require Import ZifyBool.
Local Open Scope list_scope.

(* ------------------------------------------------------------------ *)
(* the reference loop is a clamped slice                               *)

Lemma to_nat_succ z : (1 <= z)%Z -> Z.to_nat z = S (Z.to_nat (z - 1)).
Proof. intro H. rewrite <- Z2Nat.inj_succ by lia. f_equal. lia. Qed.

Lemma spec_each_slice {A} (items : list A) : forall idx from to,
  let len := zlen items in
  let lo := Z.min (Z.max (from - idx) 0) len in
  let hi := match to with None => len | Some t => Z.min (Z.max (t - idx) 0) len end in
  spec_each items idx from to = firstn (Z.to_nat (hi - lo)) (skipn (Z.to_nat lo) items).
Proof.
  induction items as [|x r IH]; intros idx from to; cbn zeta.
  - simpl. rewrite skipn_nil, firstn_nil. destruct to; reflexivity.
  - unfold zlen. cbn [length]. rewrite Nat2Z.inj_succ.
    set (n := Z.of_nat (length r)). assert (Hn : (0 <= n)%Z) by (unfold n; lia).
    specialize (IH (idx + 1)%Z from to). cbn zeta in IH. unfold zlen in IH. fold n in IH.
    cbn [spec_each].
    destruct to as [t|].
    + destruct (Z.leb_spec t idx) as [Hle|Hgt].
      * replace (Z.to_nat (Z.min (Z.max (t - idx) 0) (Z.succ n) - Z.min (Z.max (from - idx) 0) (Z.succ n))) with O by lia.
        reflexivity.
      * destruct (Z.leb_spec from idx) as [Hf|Hf].
        -- replace (Z.min (Z.max (from - idx) 0) (Z.succ n)) with 0%Z by lia.
           cbn [Z.to_nat skipn]. rewrite Z.sub_0_r.
           rewrite to_nat_succ by lia. cbn [firstn app]. f_equal.
           rewrite IH. replace (Z.min (Z.max (from - (idx + 1)) 0) n) with 0%Z by lia.
           cbn [Z.to_nat skipn]. f_equal. lia.
        -- rewrite (to_nat_succ (Z.min (Z.max (from - idx) 0) (Z.succ n))) by lia. cbn [skipn app].
           rewrite IH. f_equal; [|f_equal]; lia.
    + destruct (Z.leb_spec from idx) as [Hf|Hf].
      * replace (Z.min (Z.max (from - idx) 0) (Z.succ n)) with 0%Z by lia.
        cbn [Z.to_nat skipn]. rewrite Z.sub_0_r.
        rewrite to_nat_succ by lia. cbn [firstn app]. f_equal.
        rewrite IH. replace (Z.min (Z.max (from - (idx + 1)) 0) n) with 0%Z by lia.
        cbn [Z.to_nat skipn]. f_equal. lia.
      * rewrite (to_nat_succ (Z.min (Z.max (from - idx) 0) (Z.succ n))) by lia. cbn [skipn app].
        rewrite IH. f_equal; [|f_equal]; lia.
Qed.

(* C13: the items a loop visits are exactly those of the reference semantics, for every
   limit and offset (zero, negative, huge), offset:continue, and reversed *)
Theorem slice_matches_reference {A} (items : list A) stored limit offset cont rev :
  fst (fst (visit items stored limit offset cont rev)) = spec_visit items stored limit offset cont rev.
Proof.
  unfold visit, spec_visit, slice_bounds, zslice.
  set (start := slice_start stored offset cont). cbn [fst].
  rewrite (spec_each_slice items 0 start (option_map (fun l => (l + start)%Z) limit)). cbn zeta.
  rewrite !Z.sub_0_r.
  destruct limit as [l|]; cbn [option_map]; rewrite ?Z.sub_0_r; reflexivity.
Qed.

(* the separately computed length handed to the loop helper is the number of items visited *)
Lemma zslice_length {A} (l : list A) a b :
  (0 <= a <= zlen l)%Z -> (b <= zlen l)%Z -> zlen (zslice l a b) = Z.max (b - a) 0.
Proof.
  unfold zslice, zlen. intros Ha Hb. rewrite firstn_length, skipn_length. lia.
Qed.

Theorem length_is_visited_count {A} (items : list A) stored limit offset cont rev :
  let '(seg, length_, _) := visit items stored limit offset cont rev in
  length_ = zlen seg.
Proof.
  unfold visit, slice_bounds.
  set (start := slice_start stored offset cont).
  assert (Hl : (0 <= zlen items)%Z) by (unfold zlen; lia).
  assert (Hrev : forall s : list A, zlen (if rev then List.rev s else s) = zlen s).
  { intro s. destruct rev; [unfold zlen; rewrite rev_length|]; reflexivity. }
  rewrite Hrev. destruct limit as [l|]; rewrite zslice_length; lia.
Qed.

Corollary else_iff_nothing_visited {A} (items : list A) stored limit offset cont rev :
  let '(seg, length_, _) := visit items stored limit offset cont rev in
  (length_ = 0%Z <-> seg = []).
Proof.
  pose proof (length_is_visited_count items stored limit offset cont rev) as H.
  destruct (visit items stored limit offset cont rev) as [[seg n] st]. subst n.
  unfold zlen. destruct seg; simpl; split; intro; try reflexivity; try lia; discriminate.
Qed.

(* the stored continue index: where the reference stopped, clamped into the collection *)
Theorem stored_index {A} (items : list A) stored limit offset cont rev :
  snd (visit items stored limit offset cont rev) =
  match limit with
  | None => zlen items
  | Some l => Z.min (Z.max (l + slice_start stored offset cont) 0) (zlen items)
  end.
Proof. unfold visit, slice_bounds. destruct limit; reflexivity. Qed.

(* ------------------------------------------------------------------ *)
(* offset: continue chains                                             *)

Lemma firstn_plus {A} (l : list A) : forall n m, firstn (n + m) l = firstn n l ++ firstn m (skipn n l).
Proof.
  induction l as [|x l IH]; intros [|n] m; simpl; try reflexivity.
  - rewrite firstn_nil. reflexivity.
  - f_equal. apply IH.
Qed.

Lemma skipn_plus {A} (l : list A) : forall n m, skipn m (skipn n l) = skipn (n + m) l.
Proof.
  induction l as [|x l IH]; intros [|n] m; simpl; try reflexivity.
  - apply skipn_nil.
  - apply IH.
Qed.

Lemma zslice_app {A} (l : list A) a b c :
  (0 <= a <= b)%Z -> (b <= c)%Z -> (c <= zlen l)%Z -> zslice l a b ++ zslice l b c = zslice l a c.
Proof.
  unfold zslice, zlen. intros Hab Hbc Hc.
  replace (Z.to_nat (c - a)) with (Z.to_nat (b - a) + Z.to_nat (c - b))%nat by lia.
  rewrite firstn_plus. f_equal. rewrite skipn_plus. f_equal. f_equal. lia.
Qed.

(* A loop with offset:continue starts exactly where the previous loop over the same key
   stopped: together the two loops visit one contiguous segment, nothing twice, nothing skipped. *)
Theorem continue_chain {A} (items : list A) stored limit1 offset1 cont1 limit2 :
  let '(seg1, _, stop1) := visit items stored limit1 offset1 cont1 false in
  let '(seg2, _, stop2) := visit items stop1 limit2 None true false in
  let start1 := Z.min (Z.max (slice_start stored offset1 cont1) 0) (zlen items) in
  (start1 <= stop1)%Z -> (stop1 <= stop2)%Z ->
  seg1 ++ seg2 = zslice items start1 stop2.
Proof.
  unfold visit, slice_bounds. cbn [slice_start].
  set (s1 := slice_start stored offset1 cont1).
  assert (Hl : (0 <= zlen items)%Z) by (unfold zlen; lia).
  set (stop1 := match limit1 with None => zlen items | Some l => Z.min (Z.max (l + s1) 0) (zlen items) end).
  assert (H1 : (0 <= stop1 <= zlen items)%Z) by (unfold stop1; destruct limit1; lia).
  set (stop2 := match limit2 with None => zlen items | Some l => Z.min (Z.max (l + stop1) 0) (zlen items) end).
  assert (H2 : (0 <= stop2 <= zlen items)%Z) by (unfold stop2; destruct limit2; lia).
  intros Ha Hb.
  replace (Z.min (Z.max stop1 0) (zlen items)) with stop1 by lia.
  apply zslice_app; lia.
Qed.

(* ------------------------------------------------------------------ *)
(* loop helpers                                                        *)

Theorem forloop_helpers k n :
  let h := forloop_at k n in
  h_index h = (k + 1)%Z /\ h_index0 h = k /\ h_rindex h = (n - k)%Z /\ h_rindex0 h = (n - k - 1)%Z /\
  (h_first h = true <-> k = 0%Z) /\ (h_last h = true <-> k = (n - 1)%Z) /\ h_length h = n.
Proof. simpl. repeat split; try reflexivity; intros; lia. Qed.

(* the for loop prints every visited item exactly once, in order, the k-th with the helper
   values of position k out of the number of items actually visited *)
Fixpoint printed (items : list str) (k n : Z) : str :=
  match items with
  | [] => []
  | x :: r => print_for x (forloop_at k n) ++ printed r (k + 1) n
  end.

Lemma for_iter_print run fs name n :
  (forall x k st, run ({| f_kind := KFor; f_item := x; f_h := forloop_at k n; f_tr := dummy_tr; f_ncols := 0; f_name := name |} :: fs) st
                  = Ok (print_for x (forloop_at k n), st, SNormal)) ->
  forall items k st acc, for_iter run fs name n items k st acc = Ok (acc ++ printed items k n, st, SNormal).
Proof.
  intros Hrun. induction items as [|x r IH]; intros k st acc.
  - simpl. rewrite app_nil_r. reflexivity.
  - cbn [printed for_iter]. rewrite Hrun. cbn [bind]. fold (for_iter run fs name n).
    rewrite IH. rewrite <- app_assoc. reflexivity.
Qed.

Lemma exec_print sq dis fuel f fs st :
  f_kind f = KFor ->
  exec sq dis (S (S fuel)) (f :: fs) st [BPrint] = Ok (print_for (f_item f) (f_h f), st, SNormal).
Proof. intro Hk. cbn [exec exec_leaf bind]. rewrite Hk. rewrite app_nil_r. reflexivity. Qed.

Lemma eval_loop_length sq (l : loopx) st seg n st1 :
  eval_loop sq l st = Ok (seg, n, st1) -> n = zlen seg.
Proof.
  intro He.
  unfold eval_loop in He.
  destruct (match llimit l with None => Ok None | Some a => do z <- to_int_arg a; Ok (Some z) end) as [lim| |]; try discriminate.
  cbn [bind] in He.
  destruct (match loffset l with OffNone => Ok (None, false) | OffContinue => Ok (None, true)
            | OffArg a => do z <- to_int_arg a; Ok (Some z, false) end) as [offc| |]; try discriminate.
  cbn [bind] in He.
  pose proof (length_is_visited_count (iter_items sq (liter l)) (sget (lkey l) st) lim (fst offc) (snd offc) (lrev l)) as H.
  destruct (visit (iter_items sq (liter l)) (sget (lkey l) st) lim (fst offc) (snd offc) (lrev l)) as [[sg ln] stp].
  cbn in H. injection He as E1 E2 E3. rewrite <- E1, <- E2. exact H.
Qed.

Theorem for_prints_visited sq dis fuel (l : loopx) els fs st seg n st1 :
  eval_loop sq l st = Ok (seg, n, st1) -> n <> 0%Z ->
  exec sq dis (S (S (S (S fuel)))) fs st [BFor l [BPrint] els] = Ok (printed seg 0 (zlen seg), st1, SNormal).
Proof.
  intros He Hn.
  assert (Hlen : n = zlen seg) by (eapply eval_loop_length; exact He).
  change (exec sq dis (S (S (S (S fuel)))) fs st [BFor l [BPrint] els]) with
    (do r <- (do ev <- eval_loop sq l st;
              let '(seg, n, st1) := ev in
              if (n =? 0)%Z then exec sq dis (S (S (S fuel))) fs st1 els
              else for_iter (fun fs' st' => exec sq dis (S (S (S fuel))) fs' st' [BPrint]) fs (lname l) n seg 0%Z st1 []);
     let '(out, st', sg) := r in
     match sg with
     | SNormal => do r2 <- exec sq dis (S (S (S fuel))) fs st' [];
                  let '(out2, st2, sg2) := r2 in Ok (out ++ out2, st2, sg2)
     | _ => Ok (out, st', sg)
     end).
  rewrite He. cbn [bind].
  destruct (Z.eqb_spec n 0) as [|_]; [contradiction|].
  rewrite (for_iter_print _ fs (lname l) n); [|intros x k st0; apply exec_print; reflexivity].
  cbn [bind app exec]. rewrite app_nil_r. subst n. reflexivity.
Qed.

Theorem for_else_when_nothing_visited sq dis fuel (l : loopx) body els fs st seg st1 :
  eval_loop sq l st = Ok (seg, 0%Z, st1) ->
  exec sq dis (S (S fuel)) fs st [BFor l body els] =
  (do r <- exec sq dis (S fuel) fs st1 els;
   let '(out, st', sg) := r in
   match sg with
   | SNormal => Ok (out ++ [], st', SNormal)
   | _ => Ok (out, st', sg)
   end).
Proof. intro He. cbn [exec]. rewrite He. cbn [bind Z.eqb]. reflexivity. Qed.

(* ------------------------------------------------------------------ *)
(* tablerow: row / column structure                                    *)

Lemma tr_invariant c : (0 < c)%Z -> forall k : nat,
  let s := tr_steps c (S k) tr_init in
  tr_index s = Z.of_nat k /\ (1 <= tr_col s <= c)%Z /\ (1 <= tr_row s)%Z /\
  Z.of_nat k = ((tr_row s - 1) * c + (tr_col s - 1))%Z.
Proof.
  intros Hc. induction k as [|k IH]; cbn zeta.
  - cbn [tr_steps]. unfold tr_step, tr_init. cbn [tr_col tr_index tr_row].
    cbn [Z.add Z.eqb negb andb Z.opp Z.pos_sub]. cbn [tr_col tr_index tr_row]. repeat split; lia.
  - cbn zeta in IH. destruct IH as (Hi & Hcol & Hrow & Hk).
    change (tr_steps c (S (S k)) tr_init) with (tr_step c (tr_steps c (S k) tr_init)).
    set (s := tr_steps c (S k) tr_init) in *.
    unfold tr_step. replace (tr_index s + 1 =? 0)%Z with false by lia. cbn [negb andb].
    destruct (Z.eqb_spec (tr_col s) c) as [E|E]; cbn [tr_col tr_index tr_row].
    + repeat split; try lia; rewrite Nat2Z.inj_succ, Hk, E; ring.
    + repeat split; try lia; rewrite Nat2Z.inj_succ, Hk; ring.
Qed.

(* for cols = c > 0 the k-th visited item (0-based) sits in row k/c + 1, column k mod c + 1 *)
Theorem tablerow_structure c (k : nat) : (0 < c)%Z ->
  let s := tr_steps c (S k) tr_init in
  tr_index s = Z.of_nat k /\ tr_row s = (Z.of_nat k / c + 1)%Z /\ tr_col s = (Z.of_nat k mod c + 1)%Z /\
  ((tr_col s =? 1)%Z = true <-> (Z.of_nat k mod c = 0)%Z) /\
  ((tr_col s =? c)%Z = true <-> (Z.of_nat k mod c = c - 1)%Z).
Proof.
  intros Hc. cbn zeta. destruct (tr_invariant c Hc k) as (Hi & Hcol & Hrow & Hk).
  set (s := tr_steps c (S k) tr_init) in *.
  assert (Hq : (Z.of_nat k / c = tr_row s - 1)%Z).
  { symmetry. apply (Z.div_unique_pos _ _ _ (tr_col s - 1)); [lia|]. rewrite Hk. ring. }
  assert (Hr : (Z.of_nat k mod c = tr_col s - 1)%Z).
  { symmetry. apply (Z.mod_unique_pos _ _ (tr_row s - 1)); [lia|]. rewrite Hk. ring. }
  rewrite Hq, Hr. repeat split; try lia.
Qed.

(* ------------------------------------------------------------------ *)
(* tablerow: every cols value that is not positive                     *)

(* cols <= 0 (0, negative, and -- through _int_or_zero -- nil, non-numeric strings, infinity): no column is ever the
   last one, so all items are in row 1 and the k-th is column k+1 *)
Theorem tablerow_nonpositive c (k : nat) : (c <= 0)%Z ->
  tr_steps c (S k) tr_init = {| tr_index := Z.of_nat k; tr_row := 1; tr_col := Z.of_nat k + 1 |}.
Proof.
  intro Hc. induction k as [|k IH].
  - reflexivity.
  - change (tr_steps c (S (S k)) tr_init) with (tr_step c (tr_steps c (S k) tr_init)). rewrite IH.
    unfold tr_step. cbn [tr_index tr_col tr_row].
    replace (Z.of_nat k + 1 =? 0)%Z with false by lia. replace (Z.of_nat k + 1 =? c)%Z with false by lia.
    cbn [negb andb]. rewrite Nat2Z.inj_succ. f_equal; lia.
Qed.

(* cols larger than the number of items (huge values included): one row as well *)
Corollary tablerow_wide c (k : nat) : (Z.of_nat k < c)%Z ->
  let s := tr_steps c (S k) tr_init in tr_row s = 1%Z /\ tr_col s = (Z.of_nat k + 1)%Z.
Proof.
  intro H. destruct (tablerow_structure c k ltac:(lia)) as (_ & Hr & Hcl & _). cbn zeta.
  rewrite Hr, Hcl. rewrite Z.div_small, Z.mod_small by lia. split; reflexivity.
Qed.

(* what cols values come to: never an error *)
Theorem cols_value a : int_or_zero a = Ok (match to_int_arg a with Ok z => z | _ => 0%Z end).
Proof. unfold int_or_zero, to_int_arg. destruct (to_int a); reflexivity. Qed.

(* ------------------------------------------------------------------ *)
(* limit / offset values                                               *)

(* floats count by their integer part, booleans as 0/1, numeric strings as their number;
   nil, other strings and infinities are the Liquid type error, nothing else is *)
Theorem arg_value a :
  to_int_arg a =
  match a with
  | AInt z | AStrInt z => Ok z
  | AFloat m e => Ok (Z.quot m (10 ^ Z.of_nat e))
  | ABool b => Ok (if b then 1 else 0)%Z
  | ANil | AStrBad | AInf => Err EType
  end.
Proof. destruct a; reflexivity. Qed.

(* a loop depends on its limit and offset arguments only through those integer values *)
Theorem limit_by_value sq k nm it a a' o r st : to_int_arg a = to_int_arg a' ->
  eval_loop sq {| lkey := k; lname := nm; liter := it; llimit := Some a; loffset := o; lrev := r |} st =
  eval_loop sq {| lkey := k; lname := nm; liter := it; llimit := Some a'; loffset := o; lrev := r |} st.
Proof. intro H. unfold eval_loop. cbn [llimit loffset liter lkey lrev]. rewrite H. reflexivity. Qed.

Theorem offset_by_value sq k nm it lim a a' r st : to_int_arg a = to_int_arg a' ->
  eval_loop sq {| lkey := k; lname := nm; liter := it; llimit := lim; loffset := OffArg a; lrev := r |} st =
  eval_loop sq {| lkey := k; lname := nm; liter := it; llimit := lim; loffset := OffArg a'; lrev := r |} st.
Proof. intro H. unfold eval_loop. cbn [llimit loffset liter lkey lrev]. rewrite H. reflexivity. Qed.

(* ------------------------------------------------------------------ *)
(* strings and hashes as loop sources                                  *)

Theorem string_items_sequence s :
  iter_items true (ItStr s) = map (fun c => [c]) s /\
  length (iter_items true (ItStr s)) = length s /\ concat_str (iter_items true (ItStr s)) = s.
Proof.
  cbn [iter_items]. repeat split; [apply map_length|].
  induction s as [|c s IH]; cbn [map concat_str]; [reflexivity|]. rewrite IH. reflexivity.
Qed.

Theorem string_items_single s :
  iter_items false (ItStr s) = match s with [] => [] | _ => [s] end.
Proof. reflexivity. Qed.

Theorem hash_items sq l :
  iter_items sq (ItDict l) = map (fun kv => fst kv ++ [61%N] ++ Z_to_str (snd kv)) l /\
  length (iter_items sq (ItDict l)) = length l.
Proof. cbn [iter_items]. split; [reflexivity|apply map_length]. Qed.

(* ------------------------------------------------------------------ *)
(* the stored continue position: shared by for and tablerow            *)

Lemma sget_sset k v m : sget k (sset k v m) = v.
Proof. unfold sset. cbn [sget]. rewrite N.eqb_refl. reflexivity. Qed.

Lemma sget_sset_other k k' v m : k <> k' -> sget k (sset k' v m) = sget k m.
Proof. intro H. unfold sset. cbn [sget]. destruct (N.eqb_spec k k'); [contradiction|reflexivity]. Qed.

(* every loop expression -- the for tag and the tablerow tag evaluate the same one -- leaves the index where it
   stopped under its key; a later loop over the key with offset:continue starts there *)
Theorem eval_loop_spec sq l st seg n st1 : eval_loop sq l st = Ok (seg, n, st1) ->
  exists lim off cont,
    match llimit l with None => lim = None | Some a => to_int_arg a = Ok (match lim with Some z => z | None => 0%Z end) /\ lim <> None end /\
    match loffset l with
    | OffNone => off = None /\ cont = false
    | OffContinue => off = None /\ cont = true
    | OffArg a => cont = false /\ exists z, to_int_arg a = Ok z /\ off = Some z
    end /\
    visit (iter_items sq (liter l)) (sget (lkey l) st) lim off cont (lrev l) = (seg, n, sget (lkey l) st1) /\
    st1 = sset (lkey l) (sget (lkey l) st1) st.
Proof.
  unfold eval_loop. intro He.
  destruct (llimit l) as [a|] eqn:El.
  - destruct (to_int_arg a) as [z| |] eqn:Ea; cbn [bind] in He; try discriminate.
    destruct (loffset l) as [| |b] eqn:Eo; cbn [bind fst snd] in He.
    + destruct (visit _ _ _ _ _ _) as [[sg ln] stp] eqn:Ev. injection He as <- <- <-.
      exists (Some z), None, false. rewrite sget_sset. repeat split; try assumption; discriminate.
    + destruct (visit _ _ _ _ _ _) as [[sg ln] stp] eqn:Ev. injection He as <- <- <-.
      exists (Some z), None, true. rewrite sget_sset. repeat split; try assumption; discriminate.
    + destruct (to_int_arg b) as [zb| |] eqn:Eb; cbn [bind fst snd] in He; try discriminate.
      destruct (visit _ _ _ _ _ _) as [[sg ln] stp] eqn:Ev. injection He as <- <- <-.
      exists (Some z), (Some zb), false. rewrite sget_sset. repeat split; try assumption; try discriminate.
      exists zb. split; reflexivity.
  - cbn [bind] in He.
    destruct (loffset l) as [| |b] eqn:Eo; cbn [bind fst snd] in He.
    + destruct (visit _ _ _ _ _ _) as [[sg ln] stp] eqn:Ev. injection He as <- <- <-.
      exists None, None, false. rewrite sget_sset. repeat split; assumption.
    + destruct (visit _ _ _ _ _ _) as [[sg ln] stp] eqn:Ev. injection He as <- <- <-.
      exists None, None, true. rewrite sget_sset. repeat split; assumption.
    + destruct (to_int_arg b) as [zb| |] eqn:Eb; cbn [bind fst snd] in He; try discriminate.
      destruct (visit _ _ _ _ _ _) as [[sg ln] stp] eqn:Ev. injection He as <- <- <-.
      exists None, (Some zb), false. rewrite sget_sset. repeat split; try assumption.
      exists zb. split; reflexivity.
Qed.

(* ------------------------------------------------------------------ *)
(* parentloop, include and render                                      *)

(* the loop stack: a for loop pushes its frame, a tablerow does not *)
Lemma for_frames_for f fs : f_kind f = KFor -> for_frames (f :: fs) = f :: for_frames fs.
Proof. intro H. unfold for_frames. cbn [filter]. rewrite H. reflexivity. Qed.
Lemma for_frames_table f fs : f_kind f = KTable -> for_frames (f :: fs) = for_frames fs.
Proof. intro H. unfold for_frames. cbn [filter]. rewrite H. reflexivity. Qed.

(* forloop.parentloop. ... .h with [up] parentloops is the helper of the up-th enclosing FOR loop counted from the
   innermost one (tablerow loops in between do not count); undefined -- nothing is printed -- when there are fewer *)
Theorem helper_is_enclosing_for sq dis fuel fs st up h :
  exec sq dis (S (S fuel)) fs st [BHelper up h] =
  Ok (match nth_error (for_frames fs) up with Some f => helper_text f h | None => [] end, st, SNormal).
Proof. cbn [exec exec_leaf bind]. rewrite app_nil_r. reflexivity. Qed.

(* include: the partial's body runs with the same loop stack and the same continue positions, and its
   break/continue reach the enclosing loop *)
Theorem include_is_transparent sq fuel fs st b :
  exec sq false (S (S fuel)) fs st [BInclude b] =
  (do r <- exec sq false (S fuel) fs st b;
   let '(out, st', sg) := r in
   match sg with SNormal => Ok (out ++ [], st', SNormal) | _ => Ok (out, st', sg) end).
Proof. cbn [exec]. reflexivity. Qed.

(* render: the partial runs with an empty loop stack and no continue positions, whatever the caller's are, and
   leaves the caller's continue positions as they were *)
Theorem render_is_isolated sq dis fuel fs st b :
  exec sq dis (S (S fuel)) fs st [BRender b] =
  match exec sq true (S fuel) [] [] b with
  | Ok (out, _, SNormal) => Ok (out ++ [], st, SNormal)
  | Ok (_, _, _) => Err ESyntax
  | Err e => Err e
  | OutOfFuel => OutOfFuel
  end.
Proof.
  remember (S fuel) as f1 eqn:Ef. cbn [exec].
  destruct (exec sq true f1 [] [] b) as [[[out st'] sg]|e|]; cbn [bind]; try reflexivity.
  destruct sg; try reflexivity. rewrite Ef. cbn [exec bind]. reflexivity.
Qed.

Corollary render_ignores_caller sq dis dis' fuel fs fs' st st' b out st1 sg :
  exec sq dis (S (S fuel)) fs st [BRender b] = Ok (out, st1, sg) ->
  exec sq dis' (S (S fuel)) fs' st' [BRender b] = Ok (out, st', sg) /\ st1 = st.
Proof.
  rewrite !render_is_isolated. destruct (exec sq true (S fuel) [] [] b) as [[[o s'] g]|e|]; try discriminate.
  destruct g; try discriminate. intro H. injection H as <- <- <-. split; reflexivity.
Qed.

(* ------------------------------------------------------------------ *)
(* break and continue, in for loops and in tablerow loops              *)

Definition fframe (name : str) (x : str) (k n : Z) : frame :=
  {| f_kind := KFor; f_item := x; f_h := forloop_at k n; f_tr := dummy_tr; f_ncols := 0; f_name := name |}.
Definition tframe (x : str) (k n : Z) (t' : trstate) (ncols : Z) : frame :=
  {| f_kind := KTable; f_item := x; f_h := forloop_at k n; f_tr := t'; f_ncols := ncols; f_name := [] |}.

(* what a for loop writes when the body, run for the k-th item, writes [out] and ends with signal [sigf]:
   the outputs in order, up to and including the first item whose body breaks *)
Fixpoint fcells (out : frame -> str) (sigf : frame -> signal) (name : str) (items : list str) (k n : Z) : str :=
  match items with
  | [] => []
  | x :: r =>
      let f := fframe name x k n in
      out f ++ match sigf f with SBreak => [] | _ => fcells out sigf name r (k + 1) n end
  end.

Lemma for_iter_general run fs name n out sigf :
  (forall x k st, run (fframe name x k n :: fs) st = Ok (out (fframe name x k n), st, sigf (fframe name x k n))) ->
  forall items k st acc, for_iter run fs name n items k st acc = Ok (acc ++ fcells out sigf name items k n, st, SNormal).
Proof.
  intros Hrun. induction items as [|x r IH]; intros k st acc.
  - cbn. rewrite app_nil_r. reflexivity.
  - cbn [fcells for_iter]. fold (fframe name x k n). rewrite Hrun. cbn [bind]. fold (for_iter run fs name n).
    destruct (sigf (fframe name x k n)); try (rewrite IH, <- app_assoc; reflexivity).
    rewrite app_nil_r. reflexivity.
Qed.

(* the same for tablerow: every cell is opened and closed, a row break follows the last column unless the item is
   the last one, and a break takes effect only after the cell (and its row break) is written *)
Fixpoint tcells (out : frame -> str) (sigf : frame -> signal) (items : list str) (k : Z) (t : trstate) (n ncols : Z) : str :=
  match items with
  | [] => []
  | x :: r =>
      let t' := tr_step ncols t in
      let f := tframe x k n t' ncols in
      td_open (tr_col t') ++ out f ++ td_close ++
      (if ((tr_col t' =? ncols)%Z && negb (h_last (forloop_at k n)))%bool then row_break (tr_row t' + 1) else []) ++
      match sigf f with SBreak => [] | _ => tcells out sigf r (k + 1) t' n ncols end
  end.

Lemma table_iter_general run fs n ncols out sigf :
  (forall x k t' st, run (tframe x k n t' ncols :: fs) st = Ok (out (tframe x k n t' ncols), st, sigf (tframe x k n t' ncols))) ->
  forall items k t st acc, table_iter run fs n ncols items k t st acc = Ok (acc ++ tcells out sigf items k t n ncols, st).
Proof.
  intros Hrun. induction items as [|x r IH]; intros k t st acc.
  - cbn. rewrite app_nil_r. reflexivity.
  - cbn [tcells table_iter]. fold (tframe x k n (tr_step ncols t) ncols). rewrite Hrun. cbn [bind].
    fold (table_iter run fs n ncols).
    destruct (sigf (tframe x k n (tr_step ncols t) ncols)).
    + rewrite IH. f_equal. f_equal. rewrite <- !app_assoc. reflexivity.
    + f_equal. f_equal. rewrite app_nil_r, <- !app_assoc. reflexivity.
    + rewrite IH. f_equal. f_equal. rewrite <- !app_assoc. reflexivity.
Qed.

(* the probe bodies *)
Definition leaf_print (f : frame) : str :=
  match f_kind f with
  | KFor => print_for (f_item f) (f_h f)
  | KTable => print_table (f_item f) (f_h f) (f_tr f) (f_ncols f)
  end.
Definition no_sig (f : frame) : signal := SNormal.
Definition break_at (j : Z) (f : frame) : signal := if (h_index (f_h f) =? j)%Z then SBreak else SNormal.
Definition continue_at (j : Z) (f : frame) : signal := if (h_index (f_h f) =? j)%Z then SContinue else SNormal.
Definition print_unless (j : Z) (f : frame) : str := if (h_index (f_h f) =? j)%Z then [] else leaf_print f.

Lemma exec_leaf_print sq dis fuel f fs st :
  exec sq dis (S (S fuel)) (f :: fs) st [BPrint] = Ok (leaf_print f, st, no_sig f).
Proof. cbn [exec exec_leaf bind]. rewrite app_nil_r. reflexivity. Qed.

Lemma exec_print_break sq dis fuel f fs st j :
  exec sq dis (S (S (S fuel))) (f :: fs) st [BPrint; BBreakAt j] = Ok (leaf_print f, st, break_at j f).
Proof.
  cbn [exec exec_leaf bind]. unfold break_at. destruct (h_index (f_h f) =? j)%Z; cbn [bind app]; rewrite ?app_nil_r; reflexivity.
Qed.

Lemma exec_continue_print sq dis fuel f fs st j :
  exec sq dis (S (S (S fuel))) (f :: fs) st [BContinueAt j; BPrint] = Ok (print_unless j f, st, continue_at j f).
Proof.
  cbn [exec exec_leaf bind]. unfold print_unless, continue_at. destruct (h_index (f_h f) =? j)%Z; cbn [bind app]; rewrite ?app_nil_r; reflexivity.
Qed.

(* a for loop around a probe body: evaluation of the loop expression, then the cells *)
Lemma exec_for_general sq dis fuel (l : loopx) body els fs st seg n st1 out sigf :
  eval_loop sq l st = Ok (seg, n, st1) -> n <> 0%Z ->
  (forall x k st0, exec sq dis (S fuel) (fframe (lname l) x k n :: fs) st0 body =
                   Ok (out (fframe (lname l) x k n), st0, sigf (fframe (lname l) x k n))) ->
  exec sq dis (S (S fuel)) fs st [BFor l body els] = Ok (fcells out sigf (lname l) seg 0 n, st1, SNormal).
Proof.
  intros He Hn Hrun. remember (S fuel) as f1 eqn:Ef. cbn [exec]. rewrite He. cbn [bind].
  destruct (Z.eqb_spec n 0) as [|_]; [contradiction|].
  rewrite (for_iter_general _ fs (lname l) n out sigf Hrun). cbn [bind app].
  rewrite Ef. cbn [exec bind]. rewrite app_nil_r. reflexivity.
Qed.

Lemma exec_table_general sq dis fuel (l : loopx) cols body fs st seg n st1 ncols out sigf :
  eval_loop sq l st = Ok (seg, n, st1) ->
  match cols with None => Ok n | Some a => int_or_zero a end = Ok ncols ->
  (forall x k t' st0, exec sq dis (S fuel) (tframe x k n t' ncols :: fs) st0 body =
                      Ok (out (tframe x k n t' ncols), st0, sigf (tframe x k n t' ncols))) ->
  exec sq dis (S (S fuel)) fs st [BTablerow l cols body] =
  Ok (table_head ++ tcells out sigf seg 0 tr_init n ncols ++ table_foot, st1, SNormal).
Proof.
  intros He Hc Hrun. remember (S fuel) as f1 eqn:Ef. cbn [exec]. rewrite He. cbn [bind]. rewrite Hc. cbn [bind].
  rewrite (table_iter_general _ fs n ncols out sigf Hrun). cbn [bind app].
  rewrite Ef. cbn [exec bind]. rewrite app_nil_r. reflexivity.
Qed.

(* break after the j-th item: exactly the first j items are written, with the helper values of the WHOLE loop *)
Lemma fcells_break_prefix out name j n : forall items k, (k + 1 <= j)%Z ->
  fcells out (break_at j) name items k n = fcells out no_sig name (firstn (Z.to_nat (j - k)) items) k n.
Proof.
  induction items as [|x r IH]; intros k Hk.
  - rewrite firstn_nil. reflexivity.
  - rewrite (to_nat_succ (j - k)) by lia. cbn [firstn fcells]. f_equal.
    unfold break_at at 1, no_sig at 1. cbn [fframe f_h forloop_at h_index].
    destruct (Z.eqb_spec (k + 1) j) as [E|E].
    + replace (Z.to_nat (j - k - 1)) with O by lia. reflexivity.
    + rewrite IH by lia. do 2 f_equal. lia.
Qed.

Lemma tcells_break_prefix out j n ncols : forall items k t, (k + 1 <= j)%Z ->
  tcells out (break_at j) items k t n ncols = tcells out no_sig (firstn (Z.to_nat (j - k)) items) k t n ncols.
Proof.
  induction items as [|x r IH]; intros k t Hk.
  - rewrite firstn_nil. reflexivity.
  - rewrite (to_nat_succ (j - k)) by lia. cbn [firstn tcells]. do 4 f_equal.
    unfold break_at at 1, no_sig at 1. cbn [tframe f_h forloop_at h_index].
    destruct (Z.eqb_spec (k + 1) j) as [E|E].
    + replace (Z.to_nat (j - k - 1)) with O by lia. reflexivity.
    + rewrite IH by lia. do 2 f_equal. lia.
Qed.

(* a continue never ends the loop *)
Lemma fcells_continue out name j : forall items k n,
  fcells out (continue_at j) name items k n = fcells out no_sig name items k n.
Proof.
  induction items as [|x r IH]; intros k n; [reflexivity|].
  cbn [fcells]. rewrite IH. unfold continue_at, no_sig. destruct (h_index _ =? j)%Z; reflexivity.
Qed.

Lemma tcells_continue out j : forall items k t n ncols,
  tcells out (continue_at j) items k t n ncols = tcells out no_sig items k t n ncols.
Proof.
  induction items as [|x r IH]; intros k t n ncols; [reflexivity|].
  cbn [tcells]. rewrite IH. unfold continue_at, no_sig. destruct (h_index _ =? j)%Z; reflexivity.
Qed.

(* without interrupts the for loop writes the probe line of every visited item (the earlier theorem) *)
Lemma fcells_printed name : forall items k n, fcells leaf_print no_sig name items k n = printed items k n.
Proof. induction items as [|x r IH]; intros k n; [reflexivity|]. cbn [fcells printed no_sig]. rewrite IH. reflexivity. Qed.

Theorem for_break sq dis fuel (l : loopx) els fs st seg n st1 j :
  eval_loop sq l st = Ok (seg, n, st1) -> n <> 0%Z -> (1 <= j)%Z ->
  exec sq dis (S (S (S (S (S fuel))))) fs st [BFor l [BPrint; BBreakAt j] els] =
  Ok (printed (firstn (Z.to_nat j) seg) 0 n, st1, SNormal).
Proof.
  intros He Hn Hj.
  rewrite (exec_for_general sq dis _ l _ els fs st seg n st1 leaf_print (break_at j) He Hn)
    by (intros; apply exec_print_break).
  rewrite fcells_break_prefix by lia. rewrite Z.sub_0_r, fcells_printed. reflexivity.
Qed.

(* continue at the j-th item: every item is visited with its own helper values, the j-th writes nothing after the
   continue tag *)
Theorem for_continue sq dis fuel (l : loopx) els fs st seg n st1 j :
  eval_loop sq l st = Ok (seg, n, st1) -> n <> 0%Z ->
  exec sq dis (S (S (S (S (S fuel))))) fs st [BFor l [BContinueAt j; BPrint] els] =
  Ok (fcells (print_unless j) no_sig (lname l) seg 0 n, st1, SNormal).
Proof.
  intros He Hn.
  rewrite (exec_for_general sq dis _ l _ els fs st seg n st1 (print_unless j) (continue_at j) He Hn)
    by (intros; apply exec_continue_print).
  rewrite fcells_continue. reflexivity.
Qed.

(* tablerow *)
Theorem tablerow_prints sq dis fuel (l : loopx) cols fs st seg n st1 ncols :
  eval_loop sq l st = Ok (seg, n, st1) ->
  match cols with None => Ok n | Some a => int_or_zero a end = Ok ncols ->
  exec sq dis (S (S (S (S fuel)))) fs st [BTablerow l cols [BPrint]] =
  Ok (table_head ++ tcells leaf_print no_sig seg 0 tr_init n ncols ++ table_foot, st1, SNormal).
Proof.
  intros He Hc. apply (exec_table_general sq dis _ l cols _ fs st seg n st1 ncols leaf_print no_sig He Hc).
  intros. apply exec_leaf_print.
Qed.

(* break in a tablerow: the cell of the j-th item is completed and closed (with its row break), then the loop ends;
   the table is closed as usual *)
Theorem tablerow_break sq dis fuel (l : loopx) cols fs st seg n st1 ncols j :
  eval_loop sq l st = Ok (seg, n, st1) ->
  match cols with None => Ok n | Some a => int_or_zero a end = Ok ncols -> (1 <= j)%Z ->
  exec sq dis (S (S (S (S (S fuel))))) fs st [BTablerow l cols [BPrint; BBreakAt j]] =
  Ok (table_head ++ tcells leaf_print no_sig (firstn (Z.to_nat j) seg) 0 tr_init n ncols ++ table_foot, st1, SNormal).
Proof.
  intros He Hc Hj.
  rewrite (exec_table_general sq dis _ l cols _ fs st seg n st1 ncols leaf_print (break_at j) He Hc)
    by (intros; apply exec_print_break).
  rewrite tcells_break_prefix by lia. rewrite Z.sub_0_r. reflexivity.
Qed.

(* continue in a tablerow: the cell is still closed and every later item still gets its cell *)
Theorem tablerow_continue sq dis fuel (l : loopx) cols fs st seg n st1 ncols j :
  eval_loop sq l st = Ok (seg, n, st1) ->
  match cols with None => Ok n | Some a => int_or_zero a end = Ok ncols ->
  exec sq dis (S (S (S (S (S fuel))))) fs st [BTablerow l cols [BContinueAt j; BPrint]] =
  Ok (table_head ++ tcells (print_unless j) no_sig seg 0 tr_init n ncols ++ table_foot, st1, SNormal).
Proof.
  intros He Hc.
  rewrite (exec_table_general sq dis _ l cols _ fs st seg n st1 ncols (print_unless j) (continue_at j) He Hc)
    by (intros; apply exec_continue_print).
  rewrite tcells_continue. reflexivity.
Qed.

