(* Paths: parsing the serialisation of a path gives the path back. *)
From LiquidVerif Require Import Prelude PathSyntax.

Section RoundTrip.
  Variable is_prop : str -> bool.
  Local Notation print_seg := (PathSyntax.print_seg is_prop).
  Local Notation print_segs := (PathSyntax.print_segs is_prop).
  Local Notation parse_path := (PathSyntax.parse_path).

  Lemma go_print_segs first p :
    (fix go (first : bool) (l : list seg) : list ptok :=
       match l with [] => [] | x :: r => print_seg first x ++ go false r end) first p = print_segs first p.
  Proof. revert first. induction p as [|x r IH]; intro first; [reflexivity|]. cbn [PathSyntax.print_segs]. rewrite <- (IH false). reflexivity. Qed.

  Lemma print_nested p : print_seg false (SNested p) = PLBr :: print_segs true p ++ [PRBr].
  Proof. cbn [PathSyntax.print_seg]. rewrite go_print_segs. reflexivity. Qed.
  Lemma print_nested_first b p : print_seg b (SNested p) = PLBr :: print_segs true p ++ [PRBr].
  Proof. cbn [PathSyntax.print_seg]. rewrite go_print_segs. reflexivity. Qed.

  (* nested paths are non-empty (the parser never builds an empty one) *)
  Fixpoint wfs (g : seg) : bool :=
    match g with
    | SNested p => match p with [] => false | _ => true end &&
                   (fix wl (l : list seg) : bool := match l with [] => true | x :: r => wfs x && wl r end) p
    | _ => true
    end.
  Fixpoint wfl (l : list seg) : bool := match l with [] => true | x :: r => wfs x && wfl r end.
  Lemma wl_wfl l : (fix wl (l : list seg) : bool := match l with [] => true | x :: r => wfs x && wl r end) l = wfl l.
  Proof. induction l as [|x r IH]; [reflexivity|]. cbn [wfl]. rewrite <- IH. reflexivity. Qed.
  Lemma wfs_nested p : wfs (SNested p) = match p with [] => false | _ => true end && wfl p.
  Proof. cbn [wfs]. rewrite wl_wfl. reflexivity. Qed.

  Definition rest_ok (rest : list ptok) : Prop :=
    match rest with [] => True | PRBr :: _ | POther :: _ => True | _ => False end.

  Lemma not_word_after l rest : rest_ok rest -> is_word (hd_error (print_segs false l ++ rest)) = false.
  Proof.
    intro Hr. destruct l as [|x r].
    - cbn. destruct rest as [|[]]; cbn in *; try reflexivity; contradiction.
    - cbn [PathSyntax.print_segs]. destruct x as [s|z|p].
      + cbn [PathSyntax.print_seg]. destruct (is_prop s); reflexivity.
      + reflexivity.
      + rewrite print_nested_first. reflexivity.
  Qed.

  Ltac len := cbn [length app PathSyntax.print_segs] in *; repeat rewrite app_length in *; cbn [length] in *;
              repeat rewrite app_length in *; cbn [length] in *; lia.

  Lemma parse_print : forall k l first acc rest fuel,
    length (print_segs first l) <= k -> wfl l = true -> (acc <> [] \/ l <> []) -> (first = true -> acc = []) ->
    rest_ok rest -> length (print_segs first l ++ rest) < fuel ->
    parse_path fuel acc (print_segs first l ++ rest) = Ok (rev acc ++ l, rest).
  Proof.
    induction k as [|k IHk]; intros l first acc rest fuel Hlen Hwf Hne Hfirst Hr Hf.
    - destruct l as [|x r].
      + destruct fuel as [|f]; [lia|]. cbn [PathSyntax.print_segs app]. rewrite app_nil_r.
        destruct Hne as [Hne|Hne]; [|congruence].
        destruct rest as [|[]]; cbn in Hr; try contradiction; cbn [PathSyntax.parse_path]; destruct acc; try congruence; reflexivity.
      + exfalso. cbn [PathSyntax.print_segs] in Hlen. rewrite app_length in Hlen.
        destruct x as [s|z|p]; [cbn in Hlen; destruct (is_prop s), first; cbn in Hlen; lia|cbn in Hlen; lia|rewrite print_nested_first in Hlen; cbn in Hlen; lia].
    - destruct l as [|x r].
      + destruct fuel as [|f]; [lia|]. cbn [PathSyntax.print_segs app]. rewrite app_nil_r.
        destruct Hne as [Hne|Hne]; [|congruence].
        destruct rest as [|[]]; cbn in Hr; try contradiction; cbn [PathSyntax.parse_path]; destruct acc; try congruence; reflexivity.
      + cbn [wfl] in Hwf. apply andb_true_iff in Hwf. destruct Hwf as [Hx Hwr].
        assert (Hnw : is_word (hd_error (print_segs false r ++ rest)) = false) by (apply not_word_after, Hr).
        assert (Hrec : forall g a, length (print_segs false r) <= k -> length (print_segs false r ++ rest) < g ->
                  parse_path g (a :: acc) (print_segs false r ++ rest) = Ok (rev (a :: acc) ++ r, rest)).
        { intros g a H1 H2. apply IHk; try assumption; [left; discriminate|discriminate]. }
        cbn [PathSyntax.print_segs]. rewrite <- app_assoc.
        destruct x as [s|z|p].
        * cbn [PathSyntax.print_seg]. destruct (is_prop s) eqn:Ep.
          -- destruct first.
             ++ destruct fuel as [|f]; [lia|]. cbn [app PathSyntax.parse_path]. rewrite Hnw.
                rewrite Hrec; [cbn [rev]; rewrite <- app_assoc; reflexivity| |];
                  cbn [PathSyntax.print_segs PathSyntax.print_seg] in Hlen, Hf; rewrite Ep in *; len.
             ++ destruct fuel as [|f]; [lia|]. cbn [app PathSyntax.parse_path hd_error is_word].
                destruct f as [|f']; [cbn [PathSyntax.print_segs PathSyntax.print_seg] in Hf; rewrite Ep in Hf; len|].
                cbn [PathSyntax.parse_path]. rewrite Hnw.
                rewrite Hrec; [cbn [rev]; rewrite <- app_assoc; reflexivity| |];
                  cbn [PathSyntax.print_segs PathSyntax.print_seg] in Hlen, Hf; rewrite Ep in *; len.
          -- destruct fuel as [|f]; [lia|]. cbn [app PathSyntax.parse_path]. rewrite Hnw.
             rewrite Hrec; [cbn [rev]; rewrite <- app_assoc; reflexivity| |];
               cbn [PathSyntax.print_segs PathSyntax.print_seg] in Hlen, Hf; rewrite Ep in *; len.
        * destruct fuel as [|f]; [lia|]. cbn [PathSyntax.print_seg app PathSyntax.parse_path]. rewrite Hnw.
          rewrite Hrec; [cbn [rev]; rewrite <- app_assoc; reflexivity| |];
            cbn [PathSyntax.print_segs PathSyntax.print_seg] in Hlen, Hf; len.
        * rewrite wfs_nested in Hx. apply andb_true_iff in Hx. destruct Hx as [Hpne Hwp].
          rewrite print_nested_first. cbn [PathSyntax.print_segs] in Hlen, Hf. rewrite print_nested_first in Hlen, Hf.
          destruct fuel as [|f]; [lia|]. cbn [app]. rewrite <- app_assoc. cbn [app PathSyntax.parse_path].
          rewrite (IHk p true [] (PRBr :: print_segs false r ++ rest) f); [| len | exact Hwp | right; destruct p; [discriminate|discriminate] | reflexivity | exact I | len ].
          cbn [bind fst snd rev app]. rewrite Hnw.
          rewrite Hrec; [cbn [rev]; rewrite <- app_assoc; reflexivity| len | len].
  Qed.

  (* C04 (paths): for every path (names of any spelling, integer indexes, nested paths to any depth, non-empty at every level)
     the tokens Path.__str__ writes are read back by Path.parse as the same path, whatever non-path token follows *)
  Theorem path_roundtrip p rest : p <> [] -> wfl p = true -> rest_ok rest ->
    parse_path (S (length (print_path is_prop p ++ rest))) [] (print_path is_prop p ++ rest) = Ok (p, rest).
  Proof.
    intros Hne Hwf Hr. unfold print_path.
    rewrite (parse_print (length (print_segs true p)) p true [] rest); [reflexivity|lia|exact Hwf|right; exact Hne|reflexivity|exact Hr|lia].
  Qed.
End RoundTrip.

(* before the fix the first segment was written bare: the path [x] (the value of x used as a name) was written x *)
Definition print_path_old (is_prop : str -> bool) (p : list seg) : list ptok :=
  match p with
  | SNested [SName s] :: r => PWord s :: print_segs is_prop false r
  | SName s :: r => PWord s :: print_segs is_prop false r
  | _ => print_segs is_prop true p
  end.

Theorem path_old_refuted : let p := [SNested [SName [120%N]]] in
  parse_path 5 [] (print_path_old std_is_prop p) = Ok ([SName [120%N]], []) /\ wfl p = true.
Proof. vm_compute. split; reflexivity. Qed.
