(* C19 -- proofs about StaticAnalysis.v.
   Part 1: facts about the walk (monotonicity, what a visit records, how the scope grows, which partials
           have been walked by the time the analysis returns).
   Part 2: a simulation lemma, generic in the notion of "covered at sigma", for the tracing interpreter.
   Part 3: the two instances: full visits cover variables/filters/tags; any visit covers the globals clause. *)
From Coq Require Import List Bool Arith ZArith Lia.
From LiquidVerif Require Import Prelude StaticAnalysis.
Import ListNotations.

(* ------------------------------------------------------------------ small facts *)
Lemma mem_In x l : mem x l = true <-> In x l.
Proof.
  unfold mem. rewrite existsb_exists. split.
  - intros (y & Hy & E). apply str_eqb_eq in E. subst. exact Hy.
  - intro H. exists x. split; [exact H | apply str_eqb_refl].
Qed.

Lemma mem_false_not_In x l : mem x l = false -> ~ In x l.
Proof. intros H Hin. apply mem_In in Hin. congruence. Qed.

Lemma subset_incl a b : subset a b = true -> incl a b.
Proof.
  unfold subset. rewrite forallb_forall. intros H x Hx. apply mem_In. apply H. exact Hx.
Qed.

Lemma set_eqb_incl a b : set_eqb a b = true -> incl a b /\ incl b a.
Proof. unfold set_eqb. rewrite andb_true_iff. intros [H1 H2]. split; apply subset_incl; assumption. Qed.

Lemma alookup_In {V} k (l : list (str * V)) v : alookup k l = Some v -> In (k, v) l.
Proof.
  induction l as [|[k' v'] l IH]; simpl; [discriminate|].
  destruct (str_eqb_spec k k') as [->|]; intro H.
  - inversion H; subst. left; reflexivity.
  - right; apply IH; exact H.
Qed.

Lemma seqM_app {A S} (step : A -> S -> res S) l1 l2 s s' :
  seqM step (l1 ++ l2) s = Ok s' -> exists m, seqM step l1 s = Ok m /\ seqM step l2 m = Ok s'.
Proof.
  revert s. induction l1 as [|a l1 IH]; simpl; intros s H.
  - exists s; split; [reflexivity | exact H].
  - destruct (step a s) as [s1| |] eqn:E; simpl in *; try discriminate.
    apply IH in H. exact H.
Qed.

Lemma flatM_app {A B} (f : A -> res (list B)) l1 l2 r :
  flatM f (l1 ++ l2) = Ok r -> exists a b, flatM f l1 = Ok a /\ flatM f l2 = Ok b /\ r = a ++ b.
Proof.
  revert r. induction l1 as [|x l1 IH]; simpl; intros r H.
  - exists [], r. repeat split; assumption.
  - destruct (f x) as [a1| |] eqn:E1; simpl in *; try discriminate.
    destruct (flatM f (l1 ++ l2)) as [r1| |] eqn:E2; simpl in *; try discriminate.
    inversion H; subst. destruct (IH _ eq_refl) as (a & b & Ha & Hb & ->).
    exists (a1 ++ a), b. rewrite Ha. simpl. repeat split; [assumption | apply app_assoc].
Qed.

(* ------------------------------------------------------------------ the seen map *)
Lemma seen_get_add_other m n k sn : m <> n -> seen_get m (seen_add n k sn) = seen_get m sn.
Proof.
  intro Hne. unfold seen_get. induction sn as [|[n' l] sn IH]; simpl.
  - destruct (str_eqb_spec m n); [contradiction | reflexivity].
  - destruct (str_eqb_spec n n') as [->|Hn]; simpl.
    + destruct (str_eqb_spec m n'); [contradiction | reflexivity].
    + destruct (str_eqb_spec m n'); [reflexivity | exact IH].
Qed.

Lemma seen_get_add_same n k sn :
  seen_get n (seen_add n k sn) = if skey_in k (seen_get n sn) then seen_get n sn else seen_get n sn ++ [k].
Proof.
  unfold seen_get. induction sn as [|[n' l] sn IH]; simpl.
  - rewrite str_eqb_refl. reflexivity.
  - destruct (str_eqb_spec n n') as [->|Hn]; simpl.
    + rewrite str_eqb_refl. destruct (skey_in k l); reflexivity.
    + destruct (str_eqb_spec n n'); [contradiction | exact IH].
Qed.

Lemma seen_add_mono m n k k0 sn : In k0 (seen_get m sn) -> In k0 (seen_get m (seen_add n k sn)).
Proof.
  intro H. destruct (str_eqb_spec m n) as [->|Hne].
  - rewrite seen_get_add_same. destruct (skey_in k (seen_get n sn)); [exact H | apply in_or_app; left; exact H].
  - rewrite seen_get_add_other by exact Hne. exact H.
Qed.

Lemma seen_add_new m n k k0 sn :
  In k0 (seen_get m (seen_add n k sn)) -> In k0 (seen_get m sn) \/ (m = n /\ k0 = k).
Proof.
  destruct (str_eqb_spec m n) as [->|Hne].
  - rewrite seen_get_add_same. destruct (skey_in k (seen_get n sn)); [auto|].
    intro H. apply in_app_or in H. destruct H as [H|[H|[]]]; [left; exact H | right; split; congruence].
  - rewrite seen_get_add_other by exact Hne. auto.
Qed.

Lemma seen_add_has n k sn : exists k', In k' (seen_get n (seen_add n k sn)) /\ skey_eqb k k' = true.
Proof.
  rewrite seen_get_add_same. destruct (skey_in k (seen_get n sn)) eqn:E.
  - unfold skey_in in E. apply existsb_exists in E. destruct E as (k' & Hin & He). exists k'; split; assumption.
  - exists k. split; [apply in_or_app; right; left; reflexivity|].
    destruct k as [|kk v]; simpl; [reflexivity|].
    rewrite andb_true_iff. split.
    + destruct kk as [l|]; simpl; [|reflexivity]. apply list_eqb_eq; [apply str_eqb_eq | reflexivity].
    + unfold set_eqb. assert (Hs : subset v v = true).
      { unfold subset. apply forallb_forall. intros x Hx. apply mem_In. exact Hx. }
      rewrite Hs. reflexivity.
Qed.

Lemma seen_dom_add m n k sn : seen_dom m (seen_add n k sn) = seen_dom m sn || str_eqb m n.
Proof.
  unfold seen_dom. induction sn as [|[n' l] sn IH]; simpl.
  - rewrite orb_false_r. reflexivity.
  - destruct (str_eqb_spec n n') as [->|Hn]; simpl.
    + destruct (str_eqb m n'); simpl; [reflexivity|]. rewrite orb_false_r. reflexivity.
    + rewrite IH. destruct (str_eqb m n'); reflexivity.
Qed.

Lemma seen_get_dom m k sn : In k (seen_get m sn) -> seen_dom m sn = true.
Proof.
  unfold seen_get, seen_dom. induction sn as [|[n' l] sn IH]; simpl; [intros []|].
  destruct (str_eqb m n'); simpl; [reflexivity | exact IH].
Qed.

(* ------------------------------------------------------------------ the order on analysis states *)
Definition le_st (a b : astate) : Prop :=
  incl (a_vars a) (a_vars b) /\ incl (a_globals a) (a_globals b) /\
  incl (a_filters a) (a_filters b) /\ incl (a_tags a) (a_tags b) /\
  (forall m k, In k (seen_get m (a_seen a)) -> In k (seen_get m (a_seen b))) /\
  (forall m, seen_dom m (a_seen a) = true -> seen_dom m (a_seen b) = true).

Lemma le_refl a : le_st a a.
Proof. unfold le_st; repeat split; auto using incl_refl. Qed.

Lemma le_trans a b c : le_st a b -> le_st b c -> le_st a c.
Proof.
  unfold le_st. intros (A1 & A2 & A3 & A4 & A5 & A6) (B1 & B2 & B3 & B4 & B5 & B6).
  repeat split; eauto using incl_tran.
Qed.

Lemma le_set_scope s a : le_st a (set_scope s a).
Proof. unfold le_st; simpl; repeat split; auto using incl_refl. Qed.

Lemma le_set_scope_l s a b : le_st a b -> le_st (set_scope s a) b.
Proof. unfold le_st; simpl; auto. Qed.

Lemma le_seen_add n k a : le_st a (set_seen (seen_add n k (a_seen a)) a).
Proof.
  unfold le_st; simpl; repeat split; auto using incl_refl.
  - intros m k0. apply seen_add_mono.
  - intros m H. rewrite seen_dom_add, H. reflexivity.
Qed.

Lemma record_path_le jg p st : le_st st (record_path jg p st).
Proof.
  unfold record_path.
  assert (H1 : le_st st (if jg then st else set_vars (a_vars st ++ [p]) st)).
  { destruct jg; [apply le_refl|]. unfold le_st; simpl; repeat split; auto using incl_refl, incl_appl. }
  eapply le_trans; [exact H1|].
  destruct (sc_mem _ _); [apply le_refl|].
  unfold le_st; simpl; repeat split; auto using incl_refl, incl_appl.
Qed.

Lemma fold_le {X} (f : astate -> X -> astate) (Hf : forall st x, le_st st (f st x)) l st : le_st st (fold_left f l st).
Proof. revert st. induction l as [|x l IH]; simpl; intro st; [apply le_refl | eapply le_trans; [apply Hf | apply IH]]. Qed.

Lemma record_expr_le jg st e : le_st st (record_expr jg st e).
Proof.
  unfold record_expr. eapply le_trans.
  - apply (fold_le (fun s p => record_path jg p s)). intros; apply record_path_le.
  - destruct jg; [apply le_refl|]. unfold le_st; simpl; repeat split; auto using incl_refl, incl_appl.
Qed.

Lemma record_tscope_le st x : le_st st (record_tscope st x).
Proof. unfold record_tscope, le_st; simpl; repeat split; auto using incl_refl. Qed.

Lemma pre_visit_le jg tn n st : le_st st (pre_visit jg tn n st).
Proof.
  unfold pre_visit.
  eapply le_trans; [|apply fold_le; apply record_tscope_le].
  eapply le_trans; [|apply fold_le; apply record_expr_le].
  eapply le_trans.
  - instantiate (1 := if negb jg && negb (is_empty tn) then set_seen (seen_add tn KMark (a_seen st)) st else st).
    destruct (negb jg && negb (is_empty tn)); [apply le_seen_add | apply le_refl].
  - destruct jg; [apply le_refl|]. destruct (n_tag n); [|apply le_refl].
    unfold le_st; simpl; repeat split; auto using incl_refl, incl_appl.
Qed.

(* scope bookkeeping of pre_visit: only record_tscope touches the scope *)
Lemma record_path_scope jg p st : a_scope (record_path jg p st) = a_scope st.
Proof. unfold record_path. destruct jg; simpl; destruct (sc_mem _ _); reflexivity. Qed.

Lemma record_expr_scope jg st e : a_scope (record_expr jg st e) = a_scope st.
Proof.
  unfold record_expr.
  assert (H : forall l s, a_scope (fold_left (fun s p => record_path jg p s) l s) = a_scope s).
  { induction l as [|p l IH]; simpl; intro s; [reflexivity|]. rewrite IH. apply record_path_scope. }
  destruct jg; simpl; apply H.
Qed.

Lemma fold_record_expr_scope jg l st : a_scope (fold_left (record_expr jg) l st) = a_scope st.
Proof. revert st. induction l as [|e l IH]; simpl; intro st; [reflexivity|]. rewrite IH. apply record_expr_scope. Qed.

Lemma fold_tscope_scope l st :
  a_scope (fold_left record_tscope l st) =
  {| sc_frames := sc_frames (a_scope st); sc_base := sc_base (a_scope st) ++ l |}.
Proof.
  revert st. induction l as [|x l IH]; simpl; intro st.
  - rewrite app_nil_r. destruct (a_scope st); reflexivity.
  - rewrite IH. simpl. rewrite <- app_assoc. reflexivity.
Qed.

Lemma pre_visit_scope jg tn n st :
  a_scope (pre_visit jg tn n st) =
  {| sc_frames := sc_frames (a_scope st); sc_base := sc_base (a_scope st) ++ n_tscope n |}.
Proof.
  unfold pre_visit. rewrite fold_tscope_scope, fold_record_expr_scope.
  destruct (negb jg && negb (is_empty tn)); destruct jg; simpl; try destruct (n_tag n); reflexivity.
Qed.

(* the scope the expressions of a node are analysed in is the scope on entry *)
Lemma pre_visit_globals jg tn n st e p :
  In e (n_exprs n) -> In p (expr_paths e) -> sc_mem (p_root p) (a_scope st) = false ->
  In p (a_globals (pre_visit jg tn n st)).
Proof.
  intros He Hp Hs. unfold pre_visit.
  set (st0 := if negb jg && negb (is_empty tn) then _ else st).
  set (st1 := if jg then st0 else _).
  assert (Hsc : a_scope st1 = a_scope st).
  { unfold st1, st0. destruct (negb jg && negb (is_empty tn)); destruct jg; simpl; try destruct (n_tag n); reflexivity. }
  assert (Hg : In p (a_globals (fold_left (record_expr jg) (n_exprs n) st1))).
  { clearbody st1. clear st0. revert st1 Hsc. induction (n_exprs n) as [|e' l IH]; [destruct He|].
    simpl. intros st1 Hsc. destruct He as [->|He].
    - assert (Hin : In p (a_globals (record_expr jg st1 e))).
      { unfold record_expr.
        assert (H : forall l s, a_scope s = a_scope st -> In p l ->
                    In p (a_globals (fold_left (fun s p => record_path jg p s) l s))).
        { induction l0 as [|q l0 IH0]; [intros s _ []|]. simpl. intros s Hs0 [->|Hq].
          - assert (Hin : In p (a_globals (record_path jg p s))).
            { unfold record_path.
              assert (Hsc2 : a_scope (if jg then s else set_vars (a_vars s ++ [p]) s) = a_scope st) by (destruct jg; simpl; exact Hs0).
              rewrite Hsc2, Hs. simpl. apply in_or_app; right; left; reflexivity. }
            pose proof (fold_le (fun s p => record_path jg p s) (fun s q => record_path_le jg q s) l0 (record_path jg p s)) as Hle.
            apply Hle. exact Hin.
          - apply IH0; [rewrite record_path_scope; exact Hs0 | exact Hq]. }
        specialize (H (expr_paths e) st1 Hsc Hp).
        destruct jg; simpl; exact H. }
      pose proof (fold_le (record_expr jg) (record_expr_le jg) l (record_expr jg st1 e)) as Hle.
      apply Hle. exact Hin.
    - apply IH; [exact He | rewrite record_expr_scope; exact Hsc]. }
  pose proof (fold_le record_tscope record_tscope_le (n_tscope n) (fold_left (record_expr jg) (n_exprs n) st1)) as Hle.
  apply Hle. exact Hg.
Qed.

(* what a full visit records about the node itself *)
Lemma pre_visit_records tn n st :
  (forall t, n_tag n = Some t -> In t (a_tags (pre_visit false tn n st))) /\
  (forall e, In e (n_exprs n) ->
     incl (expr_paths e) (a_vars (pre_visit false tn n st)) /\
     incl (expr_filters e) (a_filters (pre_visit false tn n st))).
Proof.
  unfold pre_visit. simpl.
  set (st0 := if negb (is_empty tn) then _ else st).
  set (st1 := match n_tag n with Some t => set_tags (a_tags st0 ++ [t]) st0 | None => st0 end).
  pose proof (fold_le record_tscope record_tscope_le (n_tscope n) (fold_left (record_expr false) (n_exprs n) st1)) as Hle2.
  pose proof (fold_le (record_expr false) (record_expr_le false) (n_exprs n) st1) as Hle1.
  split.
  - intros t Ht. apply Hle2. apply Hle1. unfold st1. rewrite Ht. simpl. apply in_or_app; right; left; reflexivity.
  - intros e He.
    assert (H : incl (expr_paths e) (a_vars (fold_left (record_expr false) (n_exprs n) st1)) /\
                incl (expr_filters e) (a_filters (fold_left (record_expr false) (n_exprs n) st1))).
    { clear Hle1 Hle2. generalize st1. induction (n_exprs n) as [|e' l IH]; [destruct He|].
      simpl. intro s. destruct He as [->|He]; [|apply IH; exact He].
      pose proof (fold_le (record_expr false) (record_expr_le false) l (record_expr false s e)) as Hle.
      assert (H0 : incl (expr_paths e) (a_vars (record_expr false s e)) /\ incl (expr_filters e) (a_filters (record_expr false s e))).
      { unfold record_expr. simpl. split; [|apply incl_appr, incl_refl].
        assert (H : forall l s, incl l (a_vars (fold_left (fun s p => record_path false p s) l s))).
        { induction l0 as [|q l0 IH0]; intros s0 x Hx; [destruct Hx|]. simpl. destruct Hx as [->|Hx].
          - pose proof (fold_le (fun s p => record_path false p s) (fun s q => record_path_le false q s) l0 (record_path false x s0)) as Hle0.
            apply Hle0. unfold record_path. simpl. destruct (sc_mem _ _); simpl; apply in_or_app; right; left; reflexivity.
          - apply IH0. exact Hx. }
        apply H. }
      destruct H0 as [Ha Hb]. split; intros x Hx; apply Hle; [apply Ha | apply Hb]; exact Hx. }
    destruct H as [Ha Hb]. split; intros x Hx; apply Hle2; [apply Ha | apply Hb]; exact Hx.
Qed.

(* ================================================================== Part 1: the walk *)
Section Walk.
Variable P : prog.

Lemma visit_le f : forall jg tn n st st', visit P f jg tn n st = Ok st' -> le_st st st'.
Proof.
  induction f as [|f IH]; intros jg tn n st st' H; [discriminate|].
  assert (IHl : forall jg tn ns st st', seqM (visit P f jg tn) ns st = Ok st' -> le_st st st').
  { intros jg0 tn0 ns. induction ns as [|m ns IHns]; simpl; intros s s' Hs.
    - inversion Hs; apply le_refl.
    - destruct (visit P f jg0 tn0 m s) as [s1| |] eqn:E; simpl in Hs; try discriminate.
      eapply le_trans; [eapply IH; exact E | apply IHns; exact Hs]. }
  simpl in H. pose proof (pre_visit_le jg tn n st) as Hpre.
  set (st0 := pre_visit jg tn n st) in *.
  destruct (n_partial n) as [[[[pname iso] insc] key]|].
  - destruct (skey_in _ _); [inversion H; subst; exact Hpre|].
    destruct (alookup pname (pg_tpls P)) as [body|]; [|discriminate].
    match type of H with (do st' <- seqM _ _ ?s; _) = _ => destruct (seqM (visit P f (seen_dom pname (a_seen st0)) pname) body s) as [s1| |] eqn:E end;
      simpl in H; try discriminate.
    inversion H; subst. eapply le_trans; [exact Hpre|].
    eapply le_trans; [apply le_seen_add|].
    eapply le_trans; [|apply le_set_scope].
    apply IHl in E. eapply le_trans; [|exact E]. apply le_set_scope.
  - match type of H with (do st' <- seqM _ _ ?s; _) = _ => destruct (seqM (visit P f jg tn) (n_children n) s) as [s1| |] eqn:E end;
      simpl in H; try discriminate.
    inversion H; subst. eapply le_trans; [exact Hpre|].
    eapply le_trans; [|apply le_set_scope].
    apply IHl in E. eapply le_trans; [|exact E]. apply le_set_scope.
Qed.

Lemma seq_visit_le f jg tn ns st st' : seqM (visit P f jg tn) ns st = Ok st' -> le_st st st'.
Proof.
  revert st. induction ns as [|m ns IH]; simpl; intros s Hs.
  - inversion Hs; apply le_refl.
  - destruct (visit P f jg tn m s) as [s1| |] eqn:E; simpl in Hs; try discriminate.
    eapply le_trans; [eapply visit_le; exact E | apply IH; exact Hs].
Qed.

(* ---- how the scope changes across a visit: the frames are restored, the base grows by names that the
        node assigns (partials with shared scope expanded) *)
Definition grows (st st' : astate) (names : list str -> Prop) : Prop :=
  sc_frames (a_scope st') = sc_frames (a_scope st) /\
  exists extra, sc_base (a_scope st') = sc_base (a_scope st) ++ extra /\ names extra.

Definition within_assigned (n : node) (extra : list str) : Prop :=
  forall f2 a, assigned P f2 n = Ok a -> incl extra a.
Definition within_assigned_list (ns : list node) (extra : list str) : Prop :=
  forall f2 a, flatM (assigned P f2) ns = Ok a -> incl extra a.

Lemma visit_scope f : forall jg tn n st st', visit P f jg tn n st = Ok st' -> grows st st' (within_assigned n).
Proof.
  induction f as [|f IH]; intros jg tn n st st' H; [discriminate|].
  assert (IHl : forall jg tn ns st st', seqM (visit P f jg tn) ns st = Ok st' -> grows st st' (within_assigned_list ns)).
  { intros jg0 tn0 ns. induction ns as [|m ns IHns]; simpl; intros s s' Hs.
    - inversion Hs; subst. split; [reflexivity|]. exists []. rewrite app_nil_r. split; [reflexivity|].
      intros f2 a _. apply incl_nil_l.
    - destruct (visit P f jg0 tn0 m s) as [s1| |] eqn:E; simpl in Hs; try discriminate.
      apply IH in E. apply IHns in Hs. destruct E as (F1 & x1 & B1 & W1). destruct Hs as (F2 & x2 & B2 & W2).
      split; [congruence|]. exists (x1 ++ x2). split; [rewrite B2, B1, app_assoc; reflexivity|].
      intros f2 a Ha. simpl in Ha.
      destruct (assigned P f2 m) as [a1| |] eqn:E1; simpl in Ha; try discriminate.
      destruct (flatM (assigned P f2) ns) as [a2| |] eqn:E2; simpl in Ha; try discriminate.
      inversion Ha; subst. apply incl_app; [apply incl_appl; eapply W1; exact E1 | apply incl_appr; eapply W2; exact E2]. }
  simpl in H. pose proof (pre_visit_scope jg tn n st) as Hpre.
  set (st0 := pre_visit jg tn n st) in *.
  assert (Hts : forall rest f2 a, assigned P (S f2) n = Ok a ->
            (forall r, match n with
                       | NInclude p _ _ => match alookup p (pg_tpls P) with Some body => flatM (assigned P f2) body | None => Ok [] end
                       | NRender _ _ _ => Ok []
                       | _ => flatM (assigned P f2) (n_children n)
                       end = Ok r -> incl rest r) ->
            incl (n_tscope n ++ rest) a).
  { intros rest f2 a Ha Hr. simpl in Ha.
    match type of Ha with (do rest <- ?X; _) = _ => destruct X as [r| |] eqn:E end; simpl in Ha; try discriminate.
    inversion Ha; subst. apply incl_app; [apply incl_appl, incl_refl | apply incl_appr, Hr; reflexivity]. }
  destruct (n_partial n) as [[[[pname iso] insc] key]|] eqn:Hp.
  - destruct (skey_in _ _).
    { inversion H; subst. split; [rewrite Hpre; reflexivity|]. exists (n_tscope n). split; [rewrite Hpre; reflexivity|].
      intros f2 a Ha. destruct f2; [discriminate|].
      pose proof (Hts [] f2 a Ha (fun r _ => incl_nil_l r)) as Hi. rewrite app_nil_r in Hi. exact Hi. }
    destruct (alookup pname (pg_tpls P)) as [body|] eqn:Hb; [|discriminate].
    match type of H with (do st' <- seqM _ _ ?s; _) = _ => destruct (seqM (visit P f (seen_dom pname (a_seen st0)) pname) body s) as [s1| |] eqn:E end;
      simpl in H; try discriminate.
    inversion H; subst. clear H. apply IHl in E. destruct E as (F1 & x1 & B1 & W1).
    destruct iso; simpl in F1, B1; unfold grows; simpl.
    + (* isolated: the saved scope is put back *)
      split; [rewrite Hpre; reflexivity|]. exists (n_tscope n). split; [rewrite Hpre; reflexivity|].
      intros f2 a Ha. destruct f2; [discriminate|].
      pose proof (Hts [] f2 a Ha (fun r _ => incl_nil_l r)) as Hi. rewrite app_nil_r in Hi. exact Hi.
    + rewrite F1. simpl. split; [rewrite Hpre; reflexivity|].
      exists (n_tscope n ++ x1). split; [rewrite B1, Hpre; simpl; rewrite app_assoc; reflexivity|].
      intros f2 a Ha. destruct f2; [discriminate|]. apply (Hts x1 f2 a Ha).
      destruct n; try discriminate. simpl in Hp. inversion Hp; subst. rewrite Hb. intros r Hr. eapply W1; exact Hr.
  - match type of H with (do st' <- seqM _ _ ?s; _) = _ => destruct (seqM (visit P f jg tn) (n_children n) s) as [s1| |] eqn:E end;
      simpl in H; try discriminate.
    inversion H; subst. clear H. apply IHl in E. destruct E as (F1 & x1 & B1 & W1). simpl in F1, B1.
    unfold grows; simpl. rewrite F1. simpl. split; [rewrite Hpre; reflexivity|].
    exists (n_tscope n ++ x1). split; [rewrite B1, Hpre; simpl; rewrite app_assoc; reflexivity|].
    intros f2 a Ha. destruct f2; [discriminate|]. apply (Hts x1 f2 a Ha).
    destruct n; try discriminate; intros r Hr; eapply W1; exact Hr.
Qed.

Lemma grows_flat st st' names S :
  grows st st' names -> incl (sc_flat (a_scope st)) S ->
  exists extra, names extra /\ incl (sc_flat (a_scope st')) (S ++ extra).
Proof.
  intros (F & x & B & W) HS. exists x. split; [exact W|].
  unfold sc_flat in *. rewrite F, B, app_assoc. apply incl_app; [apply incl_appl; exact HS | apply incl_appr, incl_refl].
Qed.

End Walk.

(* ------------------------------------------------------------------ which templates have been walked *)
Section Closure.
Variable P : prog.

(* the nodes ns were walked (mode jg) from a state whose scope was within S, and what the walk recorded is in A *)
Definition walked (A : astate) (jg : bool) (ns : list node) (S : list str) : Prop :=
  exists f tn st1 st2, seqM (visit P f jg tn) ns st1 = Ok st2 /\ incl (sc_flat (a_scope st1)) S /\ le_st st2 A.
Definition fullwalk (A : astate) (ns : list node) : Prop := exists S, walked A false ns S.

Lemma walked_le A A' jg ns S : walked A jg ns S -> le_st A A' -> walked A' jg ns S.
Proof.
  intros (f & tn & s1 & s2 & H & HS & Hle) HA. exists f, tn, s1, s2.
  split; [exact H|]. split; [exact HS | eapply le_trans; eassumption].
Qed.
Lemma walked_incl A jg ns S S' : walked A jg ns S -> incl S S' -> walked A jg ns S'.
Proof.
  intros (f & tn & s1 & s2 & H & HS & Hle) HA. exists f, tn, s1, s2.
  split; [exact H|]. split; [eapply incl_tran; eassumption | exact Hle].
Qed.
Lemma fullwalk_le A A' ns : fullwalk A ns -> le_st A A' -> fullwalk A' ns.
Proof. intros (S & H) HA. exists S. eapply walked_le; eassumption. Qed.

(* by the time a visit returns, every partial it met for the first time has been walked in full, and every
   (partial, names in scope) pair it registered has been walked with a scope within those names *)
Definition newdom (tn : str) (st st' : astate) : Prop :=
  forall m, seen_dom m (a_seen st') = true ->
    seen_dom m (a_seen st) = true \/ m = tn \/ exists body, alookup m (pg_tpls P) = Some body /\ fullwalk st' body.
Definition newkeys (st st' : astate) : Prop :=
  forall m k vis, In (KPart k vis) (seen_get m (a_seen st')) ->
    In (KPart k vis) (seen_get m (a_seen st)) \/
    exists body, alookup m (pg_tpls P) = Some body /\ exists jg, walked st' jg body vis.

Lemma newdom_trans tn a b c : le_st b c -> newdom tn a b -> newdom tn b c -> newdom tn a c.
Proof.
  intros Hle H1 H2 m Hm. destruct (H2 m Hm) as [Hb|[->|(body & Hb & Hw)]]; [|auto|right; right; eauto].
  destruct (H1 m Hb) as [Ha|[->|(body & Hb' & Hw)]]; [auto|auto|].
  right; right. exists body. split; [exact Hb'|]. eapply fullwalk_le; eassumption.
Qed.

Lemma newkeys_trans a b c : le_st b c -> newkeys a b -> newkeys b c -> newkeys a c.
Proof.
  intros Hle H1 H2 m k vis Hm. destruct (H2 m k vis Hm) as [Hb|(body & Hb & jg & Hw)]; [|right; eauto].
  destruct (H1 m k vis Hb) as [Ha|(body & Hb' & jg & Hw)]; [auto|].
  right. exists body. split; [exact Hb'|]. exists jg. eapply walked_le; eassumption.
Qed.

Lemma pre_visit_seen jg tn n st :
  (forall m, seen_dom m (a_seen (pre_visit jg tn n st)) = true -> seen_dom m (a_seen st) = true \/ m = tn) /\
  (forall m k vis, In (KPart k vis) (seen_get m (a_seen (pre_visit jg tn n st))) -> In (KPart k vis) (seen_get m (a_seen st))).
Proof.
  assert (Hs : a_seen (pre_visit jg tn n st) =
               if negb jg && negb (is_empty tn) then seen_add tn KMark (a_seen st) else a_seen st).
  { unfold pre_visit.
    assert (H1 : forall l s, a_seen (fold_left record_tscope l s) = a_seen s).
    { induction l as [|x l IH]; simpl; intro s; [reflexivity | rewrite IH; reflexivity]. }
    assert (H2 : forall l s, a_seen (fold_left (record_expr jg) l s) = a_seen s).
    { induction l as [|x l IH]; simpl; intro s; [reflexivity|]. rewrite IH. unfold record_expr.
      assert (H3 : forall l s, a_seen (fold_left (fun s p => record_path jg p s) l s) = a_seen s).
      { induction l0 as [|q l0 IH0]; simpl; intro s0; [reflexivity|]. rewrite IH0. unfold record_path.
        destruct jg; simpl; destruct (sc_mem _ _); reflexivity. }
      destruct jg; simpl; apply H3. }
    rewrite H1, H2. destruct (negb jg && negb (is_empty tn)); destruct jg; simpl; try destruct (n_tag n); reflexivity. }
  rewrite Hs. destruct (negb jg && negb (is_empty tn)); [|auto].
  split.
  - intros m. rewrite seen_dom_add. intro H. apply orb_true_iff in H. destruct H as [H|H]; [auto|].
    right. apply str_eqb_eq. exact H.
  - intros m k vis H. apply seen_add_new in H. destruct H as [H|[_ H]]; [exact H | discriminate].
Qed.

Lemma visit_post f : forall jg tn n st st',
  visit P f jg tn n st = Ok st' -> newdom tn st st' /\ newkeys st st'.
Proof.
  induction f as [|f IH]; intros jg tn n st st' H; [discriminate|].
  assert (IHl : forall jg tn ns st st', seqM (visit P f jg tn) ns st = Ok st' -> newdom tn st st' /\ newkeys st st').
  { intros jg0 tn0 ns. induction ns as [|m ns IHns]; simpl; intros s s' Hs.
    - inversion Hs; subst. split; [intros m Hm; auto | intros m k vis Hm; auto].
    - destruct (visit P f jg0 tn0 m s) as [s1| |] eqn:E; simpl in Hs; try discriminate.
      pose proof (seq_visit_le P _ _ _ _ _ _ Hs) as Hle.
      apply IH in E. apply IHns in Hs. destruct E as [D1 K1]. destruct Hs as [D2 K2].
      split; [eapply newdom_trans; eassumption | eapply newkeys_trans; eassumption]. }
  simpl in H.
  destruct (pre_visit_seen jg tn n st) as [PD PK].
  set (st0 := pre_visit jg tn n st) in *.
  destruct (n_partial n) as [[[[pname iso] insc] key]|] eqn:Hp.
  - destruct (skey_in _ _) eqn:Hin.
    { inversion H; subst. split.
      - intros m Hm. destruct (PD m Hm); auto.
      - intros m k vis Hm. left. apply PK. exact Hm. }
    destruct (alookup pname (pg_tpls P)) as [body|] eqn:Hb; [|discriminate].
    set (vis := if iso then insc else sc_flat (a_scope st0) ++ insc) in *.
    set (stA := set_seen (seen_add pname (KPart key vis) (a_seen st0)) st0) in *.
    match type of H with (do st' <- seqM _ _ ?s; _) = _ => set (stB := s) in *;
      destruct (seqM (visit P f (seen_dom pname (a_seen st0)) pname) body stB) as [s1| |] eqn:E end;
      simpl in H; try discriminate.
    inversion H; subst st'. clear H.
    set (stC := set_scope (if iso then a_scope stA else sc_pop (a_scope s1)) s1).
    assert (HleC : le_st s1 stC) by apply le_set_scope.
    assert (Hwalk : walked stC (seen_dom pname (a_seen st0)) body vis).
    { exists f, pname, stB, s1. split; [exact E|]. split; [|exact HleC].
      unfold stB, vis. destruct iso; simpl.
      - unfold sc_flat; simpl. apply incl_refl.
      - unfold sc_flat; simpl. intros x Hx. apply in_app_or in Hx. apply in_or_app.
        destruct Hx as [Hx|Hx]; [|left; apply in_or_app; right; exact Hx].
        apply in_app_or in Hx. destruct Hx as [Hx|Hx]; [right; exact Hx | left; apply in_or_app; left; exact Hx]. }
    destruct (IHl _ _ _ _ _ E) as [D K].
    split.
    + intros m Hm. change (seen_dom m (a_seen s1) = true) in Hm.
      destruct (D m Hm) as [Hd|[->|(body' & Hb' & Hw)]].
      * change (seen_dom m (seen_add pname (KPart key vis) (a_seen st0)) = true) in Hd.
        rewrite seen_dom_add in Hd. apply orb_true_iff in Hd. destruct Hd as [Hd|Hd].
        -- destruct (PD m Hd); auto.
        -- apply str_eqb_eq in Hd. subst m.
           destruct (seen_dom pname (a_seen st0)) eqn:Hd0.
           ++ destruct (PD pname Hd0); auto.
           ++ right; right. exists body. split; [exact Hb|]. exists vis. exact Hwalk.
      * destruct (seen_dom pname (a_seen st0)) eqn:Hd0.
        -- destruct (PD pname Hd0); auto.
        -- right; right. exists body. split; [exact Hb|]. exists vis. exact Hwalk.
      * right; right. exists body'. split; [exact Hb'|]. eapply fullwalk_le; eassumption.
    + intros m k vis0 Hm. change (In (KPart k vis0) (seen_get m (a_seen s1))) in Hm.
      destruct (K m k vis0 Hm) as [Hk|(body' & Hb' & jg' & Hw)].
      * change (In (KPart k vis0) (seen_get m (seen_add pname (KPart key vis) (a_seen st0)))) in Hk.
        apply seen_add_new in Hk. destruct Hk as [Hk|[-> Hk]].
        -- left. apply PK. exact Hk.
        -- inversion Hk; subst. right. exists body. split; [exact Hb|]. eexists. exact Hwalk.
      * right. exists body'. split; [exact Hb'|]. exists jg'. eapply walked_le; eassumption.
  - match type of H with (do st' <- seqM _ _ ?s; _) = _ => set (stB := s) in *;
      destruct (seqM (visit P f jg tn) (n_children n) stB) as [s1| |] eqn:E end;
      simpl in H; try discriminate.
    inversion H; subst st'. clear H.
    assert (HleC : le_st s1 (set_scope (sc_pop (a_scope s1)) s1)) by apply le_set_scope.
    destruct (IHl _ _ _ _ _ E) as [D K].
    split.
    + intros m Hm. change (seen_dom m (a_seen s1) = true) in Hm.
      destruct (D m Hm) as [Hd|[->|(body' & Hb' & Hw)]]; [|auto|].
      * change (seen_dom m (a_seen st0) = true) in Hd. destruct (PD m Hd); auto.
      * right; right. exists body'. split; [exact Hb'|]. eapply fullwalk_le; eassumption.
    + intros m k vis0 Hm. change (In (KPart k vis0) (seen_get m (a_seen s1))) in Hm.
      destruct (K m k vis0 Hm) as [Hk|(body' & Hb' & jg' & Hw)].
      * left. apply PK. exact Hk.
      * right. exists body'. split; [exact Hb'|]. exists jg'. eapply walked_le; eassumption.
Qed.

Lemma seq_visit_post f jg tn ns st st' :
  seqM (visit P f jg tn) ns st = Ok st' -> newdom tn st st' /\ newkeys st st'.
Proof.
  revert st. induction ns as [|m ns IHns]; simpl; intros s Hs.
  - inversion Hs; subst. split; [intros m Hm; auto | intros m k vis Hm; auto].
  - destruct (visit P f jg tn m s) as [s1| |] eqn:E; simpl in Hs; try discriminate.
    pose proof (seq_visit_le P _ _ _ _ _ _ Hs) as Hle.
    apply visit_post in E. apply IHns in Hs. destruct E as [D1 K1]. destruct Hs as [D2 K2].
    split; [eapply newdom_trans; eassumption | eapply newkeys_trans; eassumption].
Qed.

(* what holds of the result of a completed analysis *)
Definition closedA (A : astate) : Prop :=
  forall m, seen_dom m (a_seen A) = true -> exists body, alookup m (pg_tpls P) = Some body /\ fullwalk A body.
Definition closedB (A : astate) : Prop :=
  forall m k vis, In (KPart k vis) (seen_get m (a_seen A)) ->
    exists body, alookup m (pg_tpls P) = Some body /\ exists jg, walked A jg body vis.

Lemma analyze_closed fuel A :
  analyze P fuel = Ok A ->
  exists body, alookup (pg_root P) (pg_tpls P) = Some body /\
    walked A false body [] /\ closedA A /\ closedB A.
Proof.
  unfold analyze. destruct (alookup (pg_root P) (pg_tpls P)) as [body|] eqn:Hb; [|discriminate].
  intro H. exists body. split; [reflexivity|].
  assert (Hw : walked A false body []).
  { exists fuel, (pg_root P), a_init, A. split; [exact H|]. split; [|apply le_refl]. simpl. apply incl_refl. }
  split; [exact Hw|].
  destruct (seq_visit_post _ _ _ _ _ _ H) as [D K].
  split.
  - intros m Hm. destruct (D m Hm) as [Hd|[->|Hd]]; [discriminate| |exact Hd].
    exists body. split; [exact Hb|]. exists []. exact Hw.
  - intros m k vis Hm. destruct (K m k vis Hm) as [[]|Hk]. exact Hk.
Qed.

End Closure.

(* ================================================================== Part 2: a generic simulation *)
Section Sim.
Variable P : prog.
Variable Q : event -> Prop.                       (* what every event of a trace must satisfy *)
Variable CovN : list str -> node -> Prop.         (* the node is covered when run with sigma *)
Variable CovL : list str -> list node -> Prop.    (* the list is covered when run from sigma *)

Definition okpaths (sg : list str) (ps : list path) : Prop :=
  forall p, In p ps -> forall g, Q (ERead p g (mem (p_root p) sg)).

Hypothesis H_tag : forall sg n t, CovN sg n -> n_tag n = Some t -> Q (ETag t).
Hypothesis H_exprs : forall sg n e, CovN sg n -> In e (n_exprs n) ->
  okpaths sg (expr_paths e) /\ (forall fn, In fn (expr_filters e) -> Q (EFilter fn)).
Hypothesis H_children : forall sg n, CovN sg n -> n_partial n = None ->
  CovL (sg ++ n_tscope n ++ n_bscope n) (n_children n).
Hypothesis H_partial : forall sg n pname iso insc key body,
  CovN sg n -> n_partial n = Some (pname, iso, insc, key) -> alookup pname (pg_tpls P) = Some body ->
  CovL (if iso then insc else sg ++ insc) body.
Hypothesis H_cons : forall sg n ns, CovL sg (n :: ns) ->
  CovN sg n /\ (forall f a, assigned P f n = Ok a -> CovL (sg ++ a) ns).

Lemma cov_app sg l1 l2 : CovL sg (l1 ++ l2) -> forall f a, flatM (assigned P f) l1 = Ok a -> CovL (sg ++ a) l2.
Proof.
  revert sg. induction l1 as [|n l1 IH]; simpl; intros sg H f a Ha.
  - inversion Ha; subst. rewrite app_nil_r. exact H.
  - destruct (assigned P f n) as [a1| |] eqn:E1; simpl in Ha; try discriminate.
    destruct (flatM (assigned P f) l1) as [a2| |] eqn:E2; simpl in Ha; try discriminate.
    inversion Ha; subst. rewrite app_assoc. eapply IH; [|exact E2].
    destruct (H_cons _ _ _ H) as [_ Hc]. eapply Hc. exact E1.
Qed.

Definition macs_ok (ms : list (str * macro)) : Prop :=
  forall m mc, alookup m ms = Some mc -> CovN (mc_sigma mc) (NMacro m (mc_params mc) (mc_body mc)).
Definition inv (st : dstate) : Prop := Forall Q (d_trace st) /\ macs_ok (d_macros st).
(* st' is st with more events, all of them fine *)
Definition ext (st st' : dstate) : Prop :=
  d_macros st' = d_macros st /\ (Forall Q (d_trace st) -> Forall Q (d_trace st')).

Lemma ext_refl st : ext st st. Proof. split; auto. Qed.
Lemma ext_trans a b c : ext a b -> ext b c -> ext a c.
Proof. intros [M1 T1] [M2 T2]. split; [congruence | auto]. Qed.
Lemma ext_inv st st' : ext st st' -> inv st -> inv st'.
Proof. intros [M T] [I1 I2]. split; [auto | rewrite M; exact I2]. Qed.

Lemma emit_ext e st : Q e -> ext st (emit e st).
Proof.
  intro He. unfold emit. destruct (d_status st); try apply ext_refl.
  split; simpl; [reflexivity | intro H; constructor; assumption].
Qed.

Lemma okpaths_app sg a b : okpaths sg (a ++ b) -> okpaths sg a /\ okpaths sg b.
Proof. intro H. split; intros p Hp; apply H; apply in_or_app; auto. Qed.

(* nested paths: induction on the size of a path *)
Fixpoint psize (p : path) : nat :=
  match p with
  | Path _ segs =>
      S ((fix go (l : list seg) : nat :=
            match l with
            | [] => 0
            | SSub q :: l' => psize q + go l'
            | _ :: l' => go l'
            end) segs)
  end.
Definition segs_size (l : list seg) : nat :=
  (fix go (l : list seg) : nat :=
     match l with [] => 0 | SSub q :: l' => psize q + go l' | _ :: l' => go l' end) l.
Definition segs_paths (l : list seg) : list path :=
  (fix go (l : list seg) : list path :=
     match l with [] => [] | SSub q :: l' => all_paths q ++ go l' | _ :: l' => go l' end) l.
Definition eval_segs (c : ctx) (sg : list str) (l : list seg) (st : dstate) : list value * dstate :=
  (fix go (l : list seg) (st : dstate) : list value * dstate :=
     match l with
     | [] => ([], st)
     | s :: l' =>
         let '(k, sa) := match s with
                         | SKey x => (VStr x, st)
                         | SIdx i => (VInt i, st)
                         | SSub q => eval_path c sg q st
                         end in
         let '(ks, sb) := go l' sa in
         (k :: ks, sb)
     end) l st.

Lemma psize_eq r segs : psize (Path r segs) = S (segs_size segs). Proof. reflexivity. Qed.
Lemma all_paths_eq r segs : all_paths (Path r segs) = Path r segs :: segs_paths segs. Proof. reflexivity. Qed.
Lemma eval_path_eq c sg r segs st :
  eval_path c sg (Path r segs) st =
  let '(ks, st1) := eval_segs c sg segs st in
  let '(v0, g) := lookup c st1 r in
  (fold_left get_key ks v0, emit (ERead (Path r segs) g (mem r sg)) st1).
Proof. reflexivity. Qed.

Lemma eval_path_ext c sg : forall n p, psize p <= n -> forall st,
  okpaths sg (all_paths p) -> ext st (snd (eval_path c sg p st)).
Proof.
  induction n as [|n IH]; intros [r segs] Hn st Hp; [rewrite psize_eq in Hn; lia|].
  rewrite psize_eq in Hn. rewrite all_paths_eq in Hp. rewrite eval_path_eq.
  assert (Hs : forall l st0, segs_size l <= n -> okpaths sg (segs_paths l) -> ext st0 (snd (eval_segs c sg l st0))).
  { induction l as [|s l IHl]; intros st0 Hl Hq; [apply ext_refl|].
    change (eval_segs c sg (s :: l) st0) with
      (let '(k, sa) := match s with SKey x => (VStr x, st0) | SIdx i => (VInt i, st0) | SSub q => eval_path c sg q st0 end in
       let '(ks, sb) := eval_segs c sg l sa in (k :: ks, sb)).
    destruct s as [x|i|q].
    - change (segs_size (SKey x :: l)) with (segs_size l) in Hl. change (segs_paths (SKey x :: l)) with (segs_paths l) in Hq.
      pose proof (IHl st0 Hl Hq) as E. destruct (eval_segs c sg l st0) as [ks sb]. exact E.
    - change (segs_size (SIdx i :: l)) with (segs_size l) in Hl. change (segs_paths (SIdx i :: l)) with (segs_paths l) in Hq.
      pose proof (IHl st0 Hl Hq) as E. destruct (eval_segs c sg l st0) as [ks sb]. exact E.
    - change (segs_size (SSub q :: l)) with (psize q + segs_size l) in Hl.
      change (segs_paths (SSub q :: l)) with (all_paths q ++ segs_paths l) in Hq.
      apply okpaths_app in Hq. destruct Hq as [Hq1 Hq2].
      assert (E1 : ext st0 (snd (eval_path c sg q st0))) by (apply IH; [lia | exact Hq1]).
      destruct (eval_path c sg q st0) as [k sa]. simpl in E1.
      assert (E2 : ext sa (snd (eval_segs c sg l sa))) by (apply IHl; [lia | exact Hq2]).
      destruct (eval_segs c sg l sa) as [ks sb]. simpl in *. eapply ext_trans; eassumption. }
  assert (E1 : ext st (snd (eval_segs c sg segs st))).
  { apply Hs; [lia|]. intros q Hq. apply Hp. right. exact Hq. }
  destruct (eval_segs c sg segs st) as [ks st1]. simpl in E1.
  destruct (lookup c st1 r) as [v0 g]. simpl. eapply ext_trans; [exact E1|]. apply emit_ext.
  apply (Hp (Path r segs)). left; reflexivity.
Qed.

Lemma eval_atom_ext c sg a st : okpaths sg (atom_paths a) -> ext st (snd (eval_atom c sg a st)).
Proof.
  destruct a as [v|p]; simpl; intro H; [apply ext_refl|].
  apply (eval_path_ext c sg (psize p) p (le_n _) st H).
Qed.

Lemma eval_atoms_ext c sg l : forall st, okpaths sg (flat_map atom_paths l) -> ext st (snd (eval_atoms c sg l st)).
Proof.
  induction l as [|a l IH]; simpl; intros st H; [apply ext_refl|].
  apply okpaths_app in H. destruct H as [Ha Hl].
  pose proof (eval_atom_ext c sg a st Ha) as E1. destruct (eval_atom c sg a st) as [v st1]. simpl in E1.
  pose proof (IH st1 Hl) as E2. destruct (eval_atoms c sg l st1) as [vs st2]. simpl in *.
  eapply ext_trans; eassumption.
Qed.

Lemma eval_filters_ext c sg fs : forall st,
  okpaths sg (flat_map (fun f => flat_map atom_paths (f_args f)) fs) ->
  (forall fn, In fn (map f_name fs) -> Q (EFilter fn)) -> ext st (eval_filters c sg fs st).
Proof.
  induction fs as [|f fs IH]; simpl; intros st Hp Hf; [apply ext_refl|].
  apply okpaths_app in Hp. destruct Hp as [Ha Hl].
  pose proof (eval_atoms_ext c sg (f_args f) st Ha) as E1. destruct (eval_atoms c sg (f_args f) st) as [vs st1]. simpl in E1.
  eapply ext_trans; [exact E1|]. eapply ext_trans; [apply emit_ext; apply Hf; left; reflexivity|].
  apply IH; [exact Hl | intros fn Hfn; apply Hf; right; exact Hfn].
Qed.

Lemma eval_expr_ext c sg e st :
  okpaths sg (expr_paths e) -> (forall fn, In fn (expr_filters e) -> Q (EFilter fn)) ->
  ext st (snd (eval_expr c sg e st)).
Proof.
  unfold eval_expr, expr_paths, expr_filters. intros Hp Hf. apply okpaths_app in Hp. destruct Hp as [Ha Hl].
  pose proof (eval_atom_ext c sg (e_left e) st Ha) as E1. destruct (eval_atom c sg (e_left e) st) as [v st1]. simpl in E1.
  destruct (e_filters e) as [|f fs] eqn:Ef; simpl; [exact E1|].
  eapply ext_trans; [exact E1|]. apply (eval_filters_ext c sg (f :: fs)); assumption.
Qed.

Lemma eval_cond_ext c sg cd : forall st,
  okpaths sg (flat_map atom_paths (cond_atoms cd)) -> ext st (snd (eval_cond c sg cd st)).
Proof.
  induction cd as [a|a b|x IHx y IHy|x IHx y IHy]; simpl; intros st H.
  - rewrite app_nil_r in H. pose proof (eval_atom_ext c sg a st H) as E. destruct (eval_atom c sg a st). exact E.
  - rewrite app_nil_r in H. apply okpaths_app in H. destruct H as [Ha Hb].
    pose proof (eval_atom_ext c sg a st Ha) as E1. destruct (eval_atom c sg a st) as [v st1]. simpl in E1.
    pose proof (eval_atom_ext c sg b st1 Hb) as E2. destruct (eval_atom c sg b st1) as [w st2]. simpl in *.
    eapply ext_trans; eassumption.
  - rewrite flat_map_app in H. apply okpaths_app in H. destruct H as [Ha Hb].
    pose proof (IHx st Ha) as E1. destruct (eval_cond c sg x st) as [b st1]. simpl in E1.
    destruct b; simpl; [|exact E1]. eapply ext_trans; [exact E1 | apply IHy; exact Hb].
  - rewrite flat_map_app in H. apply okpaths_app in H. destruct H as [Ha Hb].
    pose proof (IHx st Ha) as E1. destruct (eval_cond c sg x st) as [b st1]. simpl in E1.
    destruct b; simpl; [exact E1|]. eapply ext_trans; [exact E1 | apply IHy; exact Hb].
Qed.

Lemma eval_binds_ext c sg b : forall acc st,
  okpaths sg (flat_map (fun kv => atom_paths (snd kv)) b) -> ext st (snd (eval_binds c sg b acc st)).
Proof.
  induction b as [|[k a] b IH]; simpl; intros acc st H; [apply ext_refl|].
  apply okpaths_app in H. destruct H as [Ha Hb].
  pose proof (eval_atom_ext c sg a st Ha) as E1. destruct (eval_atom c sg a st) as [v st1]. simpl in E1.
  eapply ext_trans; [exact E1 | apply IH; exact Hb].
Qed.

Lemma eval_iter_ext c sg it st :
  (forall e, In e (iter_exprs it) -> okpaths sg (expr_paths e)) -> ext st (snd (eval_iter c sg it st)).
Proof.
  destruct it as [p|a b]; intro H; unfold eval_iter.
  - assert (Hp : okpaths sg (atom_paths (AVar p))).
    { pose proof (H _ (or_introl eq_refl)) as Hp. unfold expr_paths in Hp. simpl in Hp. rewrite app_nil_r in Hp. exact Hp. }
    pose proof (eval_atom_ext c sg (AVar p) st Hp) as E. destruct (eval_atom c sg (AVar p) st) as [v st1]. exact E.
  - assert (Ha : okpaths sg (atom_paths a)).
    { pose proof (H _ (or_introl eq_refl)) as Hp. unfold expr_paths in Hp. simpl in Hp. rewrite app_nil_r in Hp. exact Hp. }
    assert (Hb : okpaths sg (atom_paths b)).
    { pose proof (H _ (or_intror (or_introl eq_refl))) as Hp. unfold expr_paths in Hp. simpl in Hp. rewrite app_nil_r in Hp. exact Hp. }
    pose proof (eval_atom_ext c sg a st Ha) as E1. destruct (eval_atom c sg a st) as [va st1]. simpl in E1.
    pose proof (eval_atom_ext c sg b st1 Hb) as E2. destruct (eval_atom c sg b st1) as [vb st2]. simpl in *.
    eapply ext_trans; eassumption.
Qed.

Lemma halt_ext st : ext st (halt st).
Proof. unfold halt. destruct (d_status st); split; auto. Qed.

Lemma eval_loop_ext c sg x it la st :
  (forall e, In e (iter_exprs it) -> okpaths sg (expr_paths e)) ->
  okpaths sg (flat_map atom_paths (la_atoms la)) ->
  ext st (snd (eval_loop c sg x it la st)).
Proof.
  intros Hit Hla. unfold eval_loop.
  pose proof (eval_iter_ext c sg it st Hit) as E0. destruct (eval_iter c sg it st) as [items st1]. simpl in E0.
  unfold la_atoms in Hla. rewrite !flat_map_app in Hla. apply okpaths_app in Hla. destruct Hla as [Hlim Hrest].
  apply okpaths_app in Hrest. destruct Hrest as [Hoff _].
  assert (E1 : ext st1 (snd (match la_limit la with
                             | None => (Some None, st1)
                             | Some a => let '(v, s) := eval_atom c sg a st1 in
                                         (match to_int_strict v with Some z => Some (Some z) | None => None end, s)
                             end))).
  { destruct (la_limit la) as [a|]; simpl; [|apply ext_refl].
    simpl in Hlim. rewrite app_nil_r in Hlim.
    pose proof (eval_atom_ext c sg a st1 Hlim) as E. destruct (eval_atom c sg a st1) as [v s]. exact E. }
  destruct (match la_limit la with
            | None => (Some None, st1)
            | Some a => let '(v, s) := eval_atom c sg a st1 in
                        (match to_int_strict v with Some z => Some (Some z) | None => None end, s)
            end) as [lim st2]. simpl in E1.
  destruct lim as [lim|]; simpl; [|eapply ext_trans; [exact E0|]; eapply ext_trans; [exact E1 | apply halt_ext]].
  assert (E2 : ext st2 (snd (match la_offset la with
                             | None => (Some 0%Z, st2)
                             | Some OffContinue => (Some (stop_lookup x it (d_stop st2)), st2)
                             | Some (OffAtom a) => let '(v, s) := eval_atom c sg a st2 in (to_int_strict v, s)
                             end))).
  { destruct (la_offset la) as [[a|]|]; simpl; try apply ext_refl.
    simpl in Hoff. rewrite app_nil_r in Hoff.
    pose proof (eval_atom_ext c sg a st2 Hoff) as E. destruct (eval_atom c sg a st2) as [v s]. exact E. }
  destruct (match la_offset la with
            | None => (Some 0%Z, st2)
            | Some OffContinue => (Some (stop_lookup x it (d_stop st2)), st2)
            | Some (OffAtom a) => let '(v, s) := eval_atom c sg a st2 in (to_int_strict v, s)
            end) as [off st3]. simpl in E2.
  destruct off as [start|]; simpl.
  - eapply ext_trans; [exact E0|]. eapply ext_trans; [exact E1|]. eapply ext_trans; [exact E2|]. split; auto.
  - eapply ext_trans; [exact E0|]. eapply ext_trans; [exact E1|]. eapply ext_trans; [exact E2 | apply halt_ext].
Qed.

Lemma eval_params_ext c sg sgd (b : list (str * option (bool * atom))) : forall acc st,
  (forall k (isdef : bool) a, In (k, Some (isdef, a)) b -> okpaths (if isdef then sgd else sg) (atom_paths a)) ->
  ext st (snd (eval_params c sg sgd b acc st)).
Proof.
  induction b as [|[k [[isdef a]|]] b IH]; simpl; intros acc st H; [apply ext_refl| |].
  - pose proof (eval_atom_ext c (if isdef then sgd else sg) a st (H k isdef a (or_introl eq_refl))) as E1.
    destruct (eval_atom c (if isdef then sgd else sg) a st) as [v st1]. simpl in E1.
    eapply ext_trans; [exact E1 | apply IH; intros k' i' a' Hin; eapply H; right; exact Hin].
  - apply IH. intros k' i' a' Hin. eapply H. right. exact Hin.
Qed.

(* where the expressions bound by a call come from *)
Lemma bind_params_src ps : forall pos kws bound excess,
  bind_params ps pos kws = (bound, excess) ->
  incl excess pos /\
  forall k (isdef : bool) a, In (k, Some (isdef, a)) bound ->
    if isdef then In (k, Some a) ps else In a pos \/ In a (map snd kws).
Proof.
  induction ps as [|[x d] ps IH]; simpl; intros pos kws bound excess H.
  - inversion H; subst. split; [apply incl_refl | intros k i a []].
  - destruct pos as [|a0 r].
    + destruct (bind_params ps [] kws) as [rest ex] eqn:E. inversion H; subst. clear H.
      destruct (IH _ _ _ _ E) as [Hex Hb]. split; [exact Hex|].
      intros k isdef a [Hin|Hin].
      * inversion Hin; subst. clear Hin.
        destruct (find_last k kws) as [w|] eqn:Ef.
        -- inversion H1; subst. right.
           clear -Ef. induction kws as [|[k' v] kws IHk]; simpl in *; [discriminate|].
           destruct (find_last k kws) as [w'|]; [inversion Ef; subst; right; apply IHk; reflexivity|].
           destruct (str_eqb k k'); [inversion Ef; subst; left; reflexivity | discriminate].
        -- destruct d as [a'|]; [|discriminate]. inversion H1; subst. left; reflexivity.
      * specialize (Hb k isdef a Hin). destruct isdef; [right; exact Hb | exact Hb].
    + destruct (bind_params ps r kws) as [rest ex] eqn:E. inversion H; subst. clear H.
      destruct (IH _ _ _ _ E) as [Hex Hb]. split; [apply incl_tl; exact Hex|].
      intros k isdef a [Hin|Hin].
      * inversion Hin; subst. clear Hin.
        destruct (find_last k kws) as [w|] eqn:Ef.
        -- inversion H1; subst. right.
           clear -Ef. induction kws as [|[k' v] kws IHk]; simpl in *; [discriminate|].
           destruct (find_last k kws) as [w'|]; [inversion Ef; subst; right; apply IHk; reflexivity|].
           destruct (str_eqb k k'); [inversion Ef; subst; left; reflexivity | discriminate].
        -- inversion H1; subst. left; left; reflexivity.
      * specialize (Hb k isdef a Hin). destruct isdef; [right; exact Hb|].
        destruct Hb as [Hb|Hb]; [left; right; exact Hb | right; exact Hb].
Qed.

Lemma iter_inv {X} (run : X -> dstate -> dstate) items :
  (forall x st, inv st -> inv (run x st)) -> forall st, inv st -> inv (iter run items st).
Proof. intro Hr. induction items as [|x r IH]; simpl; intros st H; [exact H | apply IH, Hr, H]. Qed.

Lemma inv_assign x v st : inv st -> inv (assign x v st).
Proof. intros [A B]. split; assumption. Qed.
Lemma inv_halt st : inv st -> inv (halt st).
Proof. intros [A B]. unfold halt. destruct (d_status st); split; assumption. Qed.
Lemma inv_exhaust st : inv st -> inv (exhaust st).
Proof. intros [A B]. unfold exhaust. destruct (d_status st); split; assumption. Qed.
Lemma inv_fresh st : inv st -> inv (d_fresh st).
Proof. intros [A B]. split; [exact A | intros m mc H; discriminate]. Qed.
Lemma inv_call st : inv st -> inv (d_call st).
Proof. intros [A B]. split; assumption. Qed.
Lemma inv_restore saved st : inv saved -> inv st -> inv (d_restore saved st).
Proof. intros [A B] [C D]. split; assumption. Qed.

Lemma plain_ok sg n a : CovN sg n -> In (plain a) (n_exprs n) -> okpaths sg (atom_paths a).
Proof.
  intros Hc Hin. destruct (H_exprs _ _ _ Hc Hin) as [Hp _]. unfold expr_paths in Hp. simpl in Hp.
  rewrite app_nil_r in Hp. exact Hp.
Qed.

Lemma plain_list_ok sg n (l : list atom) :
  CovN sg n -> (forall a, In a l -> In (plain a) (n_exprs n)) -> okpaths sg (flat_map atom_paths l).
Proof.
  intros Hc Hl p Hp g. apply in_flat_map in Hp. destruct Hp as (a & Ha & Hpa).
  exact (plain_ok sg n a Hc (Hl a Ha) p Hpa g).
Qed.

Lemma plain_binds_ok sg n (b : list (str * atom)) :
  CovN sg n -> (forall kv, In kv b -> In (plain (snd kv)) (n_exprs n)) ->
  okpaths sg (flat_map (fun kv => atom_paths (snd kv)) b).
Proof.
  intros Hc Hl p Hp g. apply in_flat_map in Hp. destruct Hp as (kv & Ha & Hpa).
  exact (plain_ok sg n (snd kv) Hc (Hl kv Ha) p Hpa g).
Qed.

Lemma sim_list_from
  (f : nat) (IH : forall c sg n st, CovN sg n -> inv st -> inv (exec P f c sg n st)) :
  forall l rest c sg st, CovL sg (l ++ rest) -> inv st -> inv (run_nodes (exec P f c) (assigned P f) sg l st).
Proof.
  induction l as [|n l IHl]; simpl; intros rest c sg st Hc Hi; [exact Hi|].
  destruct (H_cons _ _ _ Hc) as [Hn Hrest].
  pose proof (IH c sg n st Hn Hi) as Hi1.
  destruct (assigned P f n) as [a| |] eqn:Ea; [|apply inv_exhaust; exact Hi1 | apply inv_exhaust; exact Hi1].
  eapply IHl; [eapply Hrest; exact Ea | exact Hi1].
Qed.

Local Arguments eval_atom : simpl never.
Local Arguments eval_atoms : simpl never.
Local Arguments eval_expr : simpl never.
Local Arguments eval_cond : simpl never.
Local Arguments eval_binds : simpl never.
Local Arguments eval_params : simpl never.
Local Arguments bind_params : simpl never.
Local Arguments iter : simpl never.
Local Arguments to_iter : simpl never.

Lemma cov_children_nil sg n b :
  CovN sg n -> n_partial n = None -> n_tscope n = [] -> n_bscope n = [] -> n_children n = b -> CovL sg b.
Proof.
  intros Hc Hp Ht Hb Hch. pose proof (H_children _ _ Hc Hp) as H. rewrite Ht, Hb, Hch in H. simpl in H.
  rewrite app_nil_r in H. exact H.
Qed.

Lemma run_alts_inv f c
  (IHl : forall l sg st, CovL sg l -> inv st -> inv (run_nodes (exec P f c) (assigned P f) sg l st)) :
  forall alts sg els st,
    CovL sg (map (fun cb => NElsif (fst cb) (snd cb)) alts ++ els) -> inv st ->
    inv (run_alts (run_nodes (exec P f c) (assigned P f)) (eval_cond c) (flatM (assigned P f)) sg alts els st).
Proof.
  induction alts as [|[cd b] r IH]; simpl; intros sg els st Hc Hi; [apply IHl; assumption|].
  destruct (H_cons _ _ _ Hc) as [Hn Hrest].
  assert (Hp : okpaths sg (flat_map atom_paths (cond_atoms cd))).
  { apply (plain_list_ok sg (NElsif cd b)); [exact Hn|]. intros a Ha. simpl. apply in_map. exact Ha. }
  pose proof (eval_cond_ext c sg cd st Hp) as E. destruct (eval_cond c sg cd st) as [v st1]. simpl in E.
  pose proof (ext_inv _ _ E Hi) as Hi1.
  destruct v.
  - apply IHl; [|exact Hi1]. eapply cov_children_nil; [exact Hn | reflexivity..].
  - destruct (flatM (assigned P f) b) as [a| |] eqn:Ea; [|apply inv_exhaust; exact Hi1|apply inv_exhaust; exact Hi1].
    apply IH; [|exact Hi1]. apply (Hrest (S f)). simpl. rewrite Ea. reflexivity.
Qed.

Lemma run_whens_inv f c sg0 subj
  (IHl : forall l sg st, CovL sg l -> inv st -> inv (run_nodes (exec P f c) (assigned P f) sg l st))
  (Hsubj : okpaths sg0 (atom_paths subj)) :
  forall whens sg els matched st,
    CovL sg (map (fun ab => NWhen subj (fst ab) (snd ab)) whens ++ els) -> inv st ->
    inv (run_whens (run_nodes (exec P f c) (assigned P f)) (eval_atom c sg0 subj) (eval_atoms c)
                   (flatM (assigned P f)) sg whens els matched st).
Proof.
  induction whens as [|[atoms b] r IH]; simpl; intros sg els matched st Hc Hi.
  - destruct matched; [exact Hi | apply IHl; assumption].
  - destruct (H_cons _ _ _ Hc) as [Hn Hrest].
    pose proof (eval_atom_ext c sg0 subj st Hsubj) as E1. destruct (eval_atom c sg0 subj st) as [v st1]. simpl in E1.
    assert (Hp : okpaths sg (flat_map atom_paths atoms)).
    { apply (plain_list_ok sg (NWhen subj atoms b)); [exact Hn|]. intros a Ha. simpl. apply in_map. exact Ha. }
    pose proof (eval_atoms_ext c sg atoms st1 Hp) as E2. destruct (eval_atoms c sg atoms st1) as [ws st2]. simpl in E2.
    assert (Hi2 : inv st2) by (eapply ext_inv; [exact E2|]; eapply ext_inv; eassumption).
    assert (Hb : CovL sg b) by (eapply cov_children_nil; [exact Hn | reflexivity..]).
    assert (Hi3 : inv (iter (fun (_ : unit) s => run_nodes (exec P f c) (assigned P f) sg b s)
                            (repeat tt (length (filter (veq v) ws))) st2)).
    { apply iter_inv; [|exact Hi2]. intros x s Hs. apply IHl; assumption. }
    destruct (flatM (assigned P f) b) as [a| |] eqn:Ea; [|apply inv_exhaust; exact Hi3|apply inv_exhaust; exact Hi3].
    apply IH; [|exact Hi3]. apply (Hrest (S f)). simpl. rewrite Ea. reflexivity.
Qed.

Lemma iter_exprs_ok sg n it :
  CovN sg n -> (forall e, In e (iter_exprs it) -> In e (n_exprs n)) ->
  forall e, In e (iter_exprs it) -> okpaths sg (expr_paths e).
Proof. intros Hc Hin e He. exact (proj1 (H_exprs _ _ e Hc (Hin e He))). Qed.

Lemma sim_node : forall fuel c sg n st, CovN sg n -> inv st -> inv (exec P fuel c sg n st).
Proof.
  induction fuel as [|f IH]; intros c sg n st Hc Hi.
  - simpl. destruct (d_status st); [apply inv_exhaust| |]; exact Hi.
  - pose proof (sim_list_from f IH) as IHl0.
    assert (IHl : forall c l sg st, CovL sg l -> inv st -> inv (run_nodes (exec P f c) (assigned P f) sg l st)).
    { intros c0 l sg0 s0 Hl. apply (IHl0 l [] c0 sg0 s0). rewrite app_nil_r. exact Hl. }
    simpl. destruct (d_status st) eqn:Hst; [|exact Hi|exact Hi].
    assert (Hi0 : inv (match n_tag n with Some t => emit (ETag t) st | None => st end)).
    { destruct (n_tag n) as [t|] eqn:Ht; [|exact Hi]. eapply ext_inv; [apply emit_ext; eapply H_tag; eassumption | exact Hi]. }
    set (st0 := match n_tag n with Some t => emit (ETag t) st | None => st end) in *.
    clearbody st0. clear Hi Hst st.
    destruct n.
    + (* text *) exact Hi0.
    + (* output *)
      eapply ext_inv; [|exact Hi0]. destruct (H_exprs _ _ e Hc (or_introl eq_refl)) as [Hp Hf].
      apply eval_expr_ext; assumption.
    + (* echo *)
      eapply ext_inv; [|exact Hi0]. destruct (H_exprs _ _ e Hc (or_introl eq_refl)) as [Hp Hf].
      apply eval_expr_ext; assumption.
    + (* assign *)
      destruct (H_exprs _ _ e Hc (or_introl eq_refl)) as [Hp Hf].
      pose proof (eval_expr_ext c sg e st0 Hp Hf) as E. destruct (eval_expr c sg e st0) as [v st1]. simpl in E.
      apply inv_assign. eapply ext_inv; eassumption.
    + (* capture *)
      apply inv_assign. apply IHl; [exact (H_children _ _ Hc eq_refl) | exact Hi0].
    + (* for *)
      pose proof (H_children _ _ Hc eq_refl) as Hch. simpl n_children in Hch.
      assert (Hit : forall e, In e (iter_exprs it) -> okpaths sg (expr_paths e)).
      { intros e He. apply (proj1 (H_exprs _ _ e Hc (in_or_app _ _ _ (or_introl He)))). }
      assert (Hla : okpaths sg (flat_map atom_paths (la_atoms la))).
      { apply (plain_list_ok sg (NFor x it la body els)); [exact Hc|]. intros a Ha. simpl. apply in_or_app. right. apply in_map. exact Ha. }
      pose proof (eval_loop_ext c sg x it la st0 Hit Hla) as E.
      destruct (eval_loop c sg x it la st0) as [its st1]. simpl in E.
      pose proof (ext_inv _ _ E Hi0) as Hi1.
      destruct its as [|v0 items].
      * destruct (flatM (assigned P f) body) as [a| |] eqn:Ea; [|apply inv_exhaust; exact Hi1|apply inv_exhaust; exact Hi1].
        apply IHl; [eapply cov_app; [exact Hch | exact Ea] | exact Hi1].
      * apply iter_inv; [|exact Hi1]. intros item s Hs. eapply IHl0; [exact Hch | exact Hs].
    + (* tablerow *)
      pose proof (H_children _ _ Hc eq_refl) as Hch. simpl n_children in Hch.
      assert (Hit : forall e, In e (iter_exprs it) -> okpaths sg (expr_paths e)).
      { intros e He. apply (proj1 (H_exprs _ _ e Hc (in_or_app _ _ _ (or_introl He)))). }
      assert (Hla : okpaths sg (flat_map atom_paths (la_atoms la))).
      { apply (plain_list_ok sg (NTablerow x it la body)); [exact Hc|]. intros a Ha. simpl. apply in_or_app. right. apply in_map. exact Ha. }
      pose proof (eval_loop_ext c sg x it la st0 Hit Hla) as E.
      destruct (eval_loop c sg x it la st0) as [its st1]. simpl in E.
      pose proof (ext_inv _ _ E Hi0) as Hi1.
      assert (Hi2 : inv (match la_cols la with Some a => snd (eval_atom c sg a st1) | None => st1 end)).
      { destruct (la_cols la) as [a|] eqn:Hcols; [|exact Hi1]. eapply ext_inv; [|exact Hi1]. apply eval_atom_ext.
        intros p Hp g. apply Hla. unfold la_atoms. rewrite Hcols. rewrite !flat_map_app. apply in_or_app. right.
        apply in_or_app. right. simpl. rewrite app_nil_r. exact Hp. }
      apply iter_inv; [|exact Hi2]. intros item s Hs. apply IHl; [exact Hch | exact Hs].
    + (* if / unless *)
      pose proof (H_children _ _ Hc eq_refl) as Hch. simpl n_children in Hch.
      assert (Hp : okpaths sg (flat_map atom_paths (cond_atoms c0))).
      { apply (plain_list_ok sg (NIf neg c0 thn alts els)); [exact Hc|]. intros a Ha. simpl. apply in_map. exact Ha. }
      pose proof (eval_cond_ext c sg c0 st0 Hp) as E. destruct (eval_cond c sg c0 st0) as [b st1]. simpl in E.
      pose proof (ext_inv _ _ E Hi0) as Hi1.
      destruct (xorb neg b).
      * eapply IHl0; [exact Hch | exact Hi1].
      * destruct (flatM (assigned P f) thn) as [a| |] eqn:Ea; [|apply inv_exhaust; exact Hi1|apply inv_exhaust; exact Hi1].
        apply (run_alts_inv f c (IHl c)); [eapply cov_app; [exact Hch | exact Ea] | exact Hi1].
    + (* elsif, on its own *)
      assert (Hp : okpaths sg (flat_map atom_paths (cond_atoms c0))).
      { apply (plain_list_ok sg (NElsif c0 body)); [exact Hc|]. intros a Ha. simpl. apply in_map. exact Ha. }
      pose proof (eval_cond_ext c sg c0 st0 Hp) as E. destruct (eval_cond c sg c0 st0) as [b st1]. simpl in E.
      pose proof (ext_inv _ _ E Hi0) as Hi1.
      destruct b; [|exact Hi1]. apply IHl; [exact (H_children _ _ Hc eq_refl) | exact Hi1].
    + (* case *)
      pose proof (H_children _ _ Hc eq_refl) as Hch. simpl n_children in Hch.
      apply (run_whens_inv f c sg subj (IHl c)); [|exact Hch | exact Hi0].
      apply (plain_ok _ _ subj Hc). simpl. left; reflexivity.
    + (* when, on its own: not a template; the interpreter does nothing *)
      exact Hi0.
    + (* cycle *)
      eapply ext_inv; [|exact Hi0]. apply eval_atoms_ext.
      apply (plain_list_ok sg (NCycle group args)); [exact Hc|]. intros a Ha. simpl. apply in_map. exact Ha.
    + (* liquid *)
      apply IHl; [exact (H_children _ _ Hc eq_refl) | exact Hi0].
    + (* with *)
      assert (Hp : okpaths sg (flat_map (fun kv => atom_paths (snd kv)) binds)).
      { apply (plain_binds_ok sg (NWith binds body)); [exact Hc|]. intros kv Hkv. simpl.
        apply (in_map (fun kv => plain (snd kv))). exact Hkv. }
      pose proof (eval_binds_ext c sg binds [] st0 Hp) as E. destruct (eval_binds c sg binds [] st0) as [ns st1]. simpl in E.
      apply IHl; [exact (H_children _ _ Hc eq_refl) | eapply ext_inv; eassumption].
    + (* macro *)
      destruct Hi0 as [T M]. split; [exact T|]. intros m' mc. simpl.
      destruct (str_eqb_spec m' m) as [->|Hne]; [|apply M].
      intro H. inversion H; subst. simpl. exact Hc.
    + (* call *)
      destruct (alookup m (d_macros st0)) as [mc|] eqn:Hm; [|exact Hi0].
      pose proof (proj2 Hi0 _ _ Hm) as Hmc.
      destruct (bind_params (mc_params mc) pos kws) as [bound excess] eqn:Hb.
      destruct (bind_params_src _ _ _ _ _ Hb) as [Hex Hsrc].
      assert (Hpos : forall a, In a pos -> In (plain a) (n_exprs (NCall m pos kws))).
      { intros a Ha. simpl. apply in_or_app. left. apply in_map. exact Ha. }
      assert (Hkws : forall kv, In kv kws -> In (plain (snd kv)) (n_exprs (NCall m pos kws))).
      { intros kv Ha. simpl. apply in_or_app. right. apply (in_map (fun kv => plain (snd kv))). exact Ha. }
      assert (Hp1 : okpaths sg (flat_map atom_paths excess)).
      { apply (plain_list_ok sg (NCall m pos kws)); [exact Hc|]. intros a Ha. apply Hpos, Hex, Ha. }
      pose proof (eval_atoms_ext c sg excess st0 Hp1) as E1. destruct (eval_atoms c sg excess st0) as [xs st1]. simpl in E1.
      set (xkw := filter _ kws).
      assert (Hp2 : okpaths sg (flat_map (fun kv => atom_paths (snd kv)) xkw)).
      { apply (plain_binds_ok sg (NCall m pos kws)); [exact Hc|]. intros kv Hkv. apply Hkws.
        unfold xkw in Hkv. apply filter_In in Hkv. apply Hkv. }
      pose proof (eval_binds_ext c sg xkw [] st1 Hp2) as E2. destruct (eval_binds c sg xkw [] st1) as [kvs st2]. simpl in E2.
      assert (Hp3 : forall k (isdef : bool) a, In (k, Some (isdef, a)) bound ->
                okpaths (if isdef then mc_sigma mc else sg) (atom_paths a)).
      { intros k isdef a Hin. specialize (Hsrc k isdef a Hin). destruct isdef.
        - apply (plain_ok _ _ a Hmc). simpl. apply in_flat_map. exists (k, Some a). split; [exact Hsrc | left; reflexivity].
        - apply (plain_ok _ _ a Hc). destruct Hsrc as [Hs|Hs]; [apply Hpos, Hs|].
          apply in_map_iff in Hs. destruct Hs as (kv & <- & Hkv). apply Hkws, Hkv. }
      pose proof (eval_params_ext c sg (mc_sigma mc) bound [(s_kwargs, VMap kvs); (s_args, VList xs)] st2 Hp3) as E3.
      destruct (eval_params c sg (mc_sigma mc) bound [(s_kwargs, VMap kvs); (s_args, VList xs)] st2) as [ns st3]. simpl in E3.
      assert (Hi3 : inv st3) by (eapply ext_inv; [exact E3|]; eapply ext_inv; [exact E2|]; eapply ext_inv; eassumption).
      apply inv_restore; [exact Hi3|]. apply IHl; [exact (H_children _ _ Hmc eq_refl) | apply inv_call; exact Hi3].
    + (* include *)
      destruct (c_noinc c); [apply inv_halt; exact Hi0|].
      destruct (alookup p (pg_tpls P)) as [body|] eqn:Hb; [|apply inv_halt; exact Hi0].
      assert (Hargs : forall kv, In kv args -> In (plain (snd kv)) (n_exprs (NInclude p bind args))).
      { intros kv Ha. simpl. apply in_or_app. right. apply (in_map (fun kv => plain (snd kv))). exact Ha. }
      pose proof (plain_binds_ok sg _ args Hc Hargs) as Hp.
      pose proof (eval_binds_ext c sg args [] st0 Hp) as E. destruct (eval_binds c sg args [] st0) as [ns st1]. simpl in E.
      pose proof (ext_inv _ _ E Hi0) as Hi1.
      pose proof (H_partial _ _ _ _ _ _ _ Hc eq_refl Hb) as Hcb. simpl in Hcb.
      destruct bind as [[vp al]|].
      * assert (Hpv : okpaths sg (atom_paths (AVar vp))) by (apply (plain_ok _ _ (AVar vp) Hc); simpl; left; reflexivity).
        pose proof (eval_atom_ext (push_ns ns c) sg (AVar vp) st1 Hpv) as E2.
        destruct (eval_atom (push_ns ns c) sg (AVar vp) st1) as [v st2]. simpl in E2.
        pose proof (ext_inv _ _ E2 Hi1) as Hi2.
        destruct v; try (apply IHl; [exact Hcb | exact Hi2]).
        apply iter_inv; [|exact Hi2]. intros item s Hs. apply IHl; [exact Hcb | exact Hs].
      * apply IHl; [exact Hcb | exact Hi1].
    + (* render *)
      destruct (alookup p (pg_tpls P)) as [body|] eqn:Hb; [|apply inv_halt; exact Hi0].
      assert (Hargs : forall kv, In kv args -> In (plain (snd kv)) (n_exprs (NRender p bind args))).
      { intros kv Ha. simpl. apply in_or_app. right. apply (in_map (fun kv => plain (snd kv))). exact Ha. }
      pose proof (plain_binds_ok sg _ args Hc Hargs) as Hp.
      pose proof (eval_binds_ext c sg args [] st0 Hp) as E. destruct (eval_binds c sg args [] st0) as [ns st1]. simpl in E.
      pose proof (ext_inv _ _ E Hi0) as Hi1.
      pose proof (H_partial _ _ _ _ _ _ _ Hc eq_refl Hb) as Hcb. simpl in Hcb.
      destruct bind as [[[isfor vp] al]|].
      * assert (Hpv : okpaths sg (atom_paths (AVar vp))) by (apply (plain_ok _ _ (AVar vp) Hc); simpl; left; reflexivity).
        pose proof (eval_atom_ext c sg (AVar vp) st1 Hpv) as E2.
        destruct (eval_atom c sg (AVar vp) st1) as [v st2]. simpl in E2.
        pose proof (ext_inv _ _ E2 Hi1) as Hi2.
        destruct isfor; destruct v; apply inv_restore; try exact Hi2;
          try (apply IHl; [exact Hcb | apply inv_fresh; exact Hi2]).
        apply iter_inv; [|apply inv_fresh; exact Hi2]. intros item s Hs. apply IHl; [exact Hcb | apply inv_fresh; exact Hs].
      * apply inv_restore; [exact Hi1|]. apply IHl; [exact Hcb | apply inv_fresh; exact Hi1].
    + (* increment *)
      destruct Hi0 as [T M]. split; assumption.
    + (* decrement *)
      destruct Hi0 as [T M]. split; assumption.
Qed.

Lemma sim_nodes fuel c sg ns st : CovL sg ns -> inv st -> inv (exec_nodes P fuel c sg ns st).
Proof.
  intros Hc Hi. unfold exec_nodes. apply (sim_list_from fuel (sim_node fuel) ns [] c sg st); [rewrite app_nil_r; exact Hc | exact Hi].
Qed.

End Sim.

(* ================================================================== Part 3: the two instances *)
Section Instances.
Variable P : prog.

Lemma partial_no_tscope n x : n_partial n = Some x -> n_tscope n = [].
Proof. destruct n; simpl; intro H; try discriminate; reflexivity. Qed.

(* one step of visit, read backwards *)
Lemma visit_inv f jg tn n st1 st2 :
  visit P f jg tn n st1 = Ok st2 ->
  let st0 := pre_visit jg tn n st1 in
  exists f', f = S f' /\ le_st st0 st2 /\
    (n_partial n = None ->
       exists s1, seqM (visit P f' jg tn) (n_children n) (set_scope (sc_push (n_bscope n) (a_scope st0)) st0) = Ok s1 /\
                  le_st s1 st2) /\
    (forall pname iso insc key, n_partial n = Some (pname, iso, insc, key) ->
       exists k', In k' (seen_get pname (a_seen st2)) /\
                  skey_eqb (KPart key (if iso then insc else sc_flat (a_scope st0) ++ insc)) k' = true).
Proof.
  destruct f as [|f]; [discriminate|]. simpl. intro H. exists f. split; [reflexivity|].
  set (st0 := pre_visit jg tn n st1) in *.
  destruct (n_partial n) as [[[[pname iso] insc] key]|] eqn:Hp.
  - set (vis := if iso then insc else sc_flat (a_scope st0) ++ insc) in *.
    destruct (skey_in (KPart key vis) (seen_get pname (a_seen st0))) eqn:Hin.
    + inversion H; subst st2. split; [apply le_refl|]. split; [discriminate|].
      intros pn i ins ky E. inversion E; subst. unfold skey_in in Hin. apply existsb_exists in Hin.
      destruct Hin as (k' & Hk & He). exists k'. split; assumption.
    + destruct (alookup pname (pg_tpls P)) as [body|]; [|discriminate].
      match type of H with (do st' <- seqM _ _ ?s; _) = _ =>
        destruct (seqM (visit P f (seen_dom pname (a_seen st0)) pname) body s) as [s1| |] eqn:E end; simpl in H; try discriminate.
      inversion H; subst st2. clear H. apply seq_visit_le in E.
      assert (Hle : le_st (set_seen (seen_add pname (KPart key vis) (a_seen st0)) st0) s1).
      { eapply le_trans; [apply le_set_scope | exact E]. }
      split; [eapply le_trans; [apply le_seen_add|]; eapply le_trans; [exact Hle | apply le_set_scope]|].
      split; [discriminate|].
      intros pn i ins ky E'. inversion E'; subst.
      destruct (seen_add_has pn (KPart ky vis) (a_seen st0)) as (k' & Hk & He). exists k'. split; [|exact He].
      simpl. destruct Hle as (_ & _ & _ & _ & Hs & _). apply Hs. exact Hk.
  - match type of H with (do st' <- seqM _ _ ?s; _) = _ =>
      destruct (seqM (visit P f jg tn) (n_children n) s) as [s1| |] eqn:E end; simpl in H; try discriminate.
    inversion H; subst st2. clear H.
    split; [eapply le_trans; [apply le_set_scope|]; eapply le_trans; [eapply seq_visit_le; exact E | apply le_set_scope]|].
    split; [|discriminate]. intros _. exists s1. split; [first [exact E | reflexivity] | apply le_set_scope].
Qed.

(* ------------------------------------------------ A: variables, filters, tags *)
Section InstA.
Variable A : astate.
Hypothesis HclA : closedA P A.

Definition QA (e : event) : Prop :=
  match e with
  | ERead p _ _ => In p (a_vars A)
  | EFilter f => In f (a_filters A)
  | ETag t => In t (a_tags A)
  end.
Definition CovNA (sg : list str) (n : node) : Prop :=
  exists f tn st1 st2, visit P f false tn n st1 = Ok st2 /\ le_st st2 A.
Definition CovLA (sg : list str) (ns : list node) : Prop := fullwalk P A ns.

Lemma A_tag sg n t : CovNA sg n -> n_tag n = Some t -> QA (ETag t).
Proof.
  intros (f & tn & s1 & s2 & Hv & Hle) Ht. destruct (visit_inv _ _ _ _ _ _ Hv) as (f' & _ & Hle0 & _).
  simpl. destruct Hle as (_ & _ & _ & T & _). apply T. destruct Hle0 as (_ & _ & _ & T0 & _). apply T0.
  apply (proj1 (pre_visit_records tn n s1)). exact Ht.
Qed.

Lemma A_exprs sg n e : CovNA sg n -> In e (n_exprs n) ->
  okpaths QA sg (expr_paths e) /\ (forall fn, In fn (expr_filters e) -> QA (EFilter fn)).
Proof.
  intros (f & tn & s1 & s2 & Hv & Hle) He. destruct (visit_inv _ _ _ _ _ _ Hv) as (f' & _ & Hle0 & _).
  destruct (proj2 (pre_visit_records tn n s1) e He) as [Hp Hf].
  destruct Hle as (V & _ & F & _). destruct Hle0 as (V0 & _ & F0 & _).
  split.
  - intros p Hin g. simpl. apply V, V0, Hp, Hin.
  - intros fn Hin. simpl. apply F, F0, Hf, Hin.
Qed.

Lemma A_children sg n : CovNA sg n -> n_partial n = None -> CovLA (sg ++ n_tscope n ++ n_bscope n) (n_children n).
Proof.
  intros (f & tn & s1 & s2 & Hv & Hle) Hp. destruct (visit_inv _ _ _ _ _ _ Hv) as (f' & _ & _ & Hc & _).
  destruct (Hc Hp) as (s3 & Hs & Hle3). eexists. exists f', tn. eexists. exists s3.
  split; [exact Hs|]. split; [apply incl_refl | eapply le_trans; eassumption].
Qed.

Lemma A_partial sg n pname iso insc key body :
  CovNA sg n -> n_partial n = Some (pname, iso, insc, key) -> alookup pname (pg_tpls P) = Some body ->
  CovLA (if iso then insc else sg ++ insc) body.
Proof.
  intros (f & tn & s1 & s2 & Hv & Hle) Hp Hb. destruct (visit_inv _ _ _ _ _ _ Hv) as (f' & _ & _ & _ & Hk).
  destruct (Hk _ _ _ _ Hp) as (k' & Hin & _). apply seen_get_dom in Hin.
  destruct Hle as (_ & _ & _ & _ & _ & D). apply D in Hin. destruct (HclA _ Hin) as (body' & Hb' & Hw).
  rewrite Hb in Hb'. inversion Hb'; subst. exact Hw.
Qed.

Lemma A_cons sg n ns : CovLA sg (n :: ns) ->
  CovNA sg n /\ (forall f a, assigned P f n = Ok a -> CovLA (sg ++ a) ns).
Proof.
  intros (S & f & tn & s1 & s2 & Hs & HS & Hle). simpl in Hs.
  destruct (visit P f false tn n s1) as [sm| |] eqn:E; simpl in Hs; try discriminate.
  pose proof (seq_visit_le P _ _ _ _ _ _ Hs) as Hle2.
  split.
  - exists f, tn, s1, sm. split; [exact E | eapply le_trans; eassumption].
  - intros f2 a _. exists (sc_flat (a_scope sm)), f, tn, sm, s2. split; [exact Hs|]. split; [apply incl_refl | exact Hle].
Qed.

Lemma A_sound fe data body :
  alookup (pg_root P) (pg_tpls P) = Some body -> fullwalk P A body ->
  Forall QA (d_trace (exec_prog P fe data)).
Proof.
  intros Hb Hw. unfold exec_prog. rewrite Hb.
  refine (proj1 (sim_nodes P QA CovNA CovLA A_tag A_exprs A_children A_partial A_cons fe _ [] body d_init Hw _)).
  split; [constructor | intros m mc H; discriminate].
Qed.
End InstA.

(* ------------------------------------------------ B: the globals clause *)
Section InstB.
Variable A : astate.
Hypothesis HclB : closedB P A.

Definition QB (e : event) : Prop :=
  match e with
  | ERead p true false => In p (a_globals A)
  | _ => True
  end.
Definition CovNB (sg : list str) (n : node) : Prop :=
  exists f jg tn st1 st2, visit P f jg tn n st1 = Ok st2 /\ incl (sc_flat (a_scope st1)) sg /\ le_st st2 A.
Definition CovLB (sg : list str) (ns : list node) : Prop := exists jg, walked P A jg ns sg.

Lemma B_tag sg n t : CovNB sg n -> n_tag n = Some t -> QB (ETag t).
Proof. intros; exact I. Qed.

Lemma B_exprs sg n e : CovNB sg n -> In e (n_exprs n) ->
  okpaths QB sg (expr_paths e) /\ (forall fn, In fn (expr_filters e) -> QB (EFilter fn)).
Proof.
  intros (f & jg & tn & s1 & s2 & Hv & HS & Hle) He. split; [|intros; exact I].
  intros p Hp g. simpl. destruct g; [|exact I]. destruct (mem (p_root p) sg) eqn:Hm; [exact I|].
  destruct (visit_inv _ _ _ _ _ _ Hv) as (f' & _ & Hle0 & _).
  destruct Hle as (_ & G & _). destruct Hle0 as (_ & G0 & _). apply G, G0.
  eapply pre_visit_globals; [exact He | exact Hp|].
  unfold sc_mem. destruct (mem (p_root p) (sc_flat (a_scope s1))) eqn:Hm2; [|reflexivity].
  apply mem_In in Hm2. apply HS in Hm2. apply mem_In in Hm2. congruence.
Qed.

Lemma pre_visit_flat jg tn n st S :
  incl (sc_flat (a_scope st)) S -> incl (sc_flat (a_scope (pre_visit jg tn n st))) (S ++ n_tscope n).
Proof.
  intro HS. rewrite pre_visit_scope. unfold sc_flat in *. simpl. rewrite app_assoc.
  apply incl_app; [apply incl_appl; exact HS | apply incl_appr, incl_refl].
Qed.

Lemma B_children sg n : CovNB sg n -> n_partial n = None -> CovLB (sg ++ n_tscope n ++ n_bscope n) (n_children n).
Proof.
  intros (f & jg & tn & s1 & s2 & Hv & HS & Hle) Hp. destruct (visit_inv _ _ _ _ _ _ Hv) as (f' & _ & _ & Hc & _).
  destruct (Hc Hp) as (s3 & Hs & Hle3). exists jg, f', tn. eexists. exists s3.
  split; [exact Hs|]. split; [|eapply le_trans; eassumption].
  pose proof (pre_visit_flat jg tn n s1 sg HS) as Hf.
  unfold sc_flat in *. simpl. intros x Hx. apply in_app_or in Hx. destruct Hx as [Hx|Hx].
  - apply in_app_or in Hx. destruct Hx as [Hx|Hx].
    + apply in_or_app; right. apply in_or_app; right. exact Hx.
    + assert (Hx' : In x (sg ++ n_tscope n)) by (apply Hf; apply in_or_app; left; exact Hx).
      apply in_app_or in Hx'. apply in_or_app. destruct Hx'; [left; assumption | right; apply in_or_app; left; assumption].
  - assert (Hx' : In x (sg ++ n_tscope n)) by (apply Hf; apply in_or_app; right; exact Hx).
    apply in_app_or in Hx'. apply in_or_app. destruct Hx'; [left; assumption | right; apply in_or_app; left; assumption].
Qed.

Lemma B_partial sg n pname iso insc key body :
  CovNB sg n -> n_partial n = Some (pname, iso, insc, key) -> alookup pname (pg_tpls P) = Some body ->
  CovLB (if iso then insc else sg ++ insc) body.
Proof.
  intros (f & jg & tn & s1 & s2 & Hv & HS & Hle) Hp Hb. destruct (visit_inv _ _ _ _ _ _ Hv) as (f' & _ & _ & _ & Hk).
  destruct (Hk _ _ _ _ Hp) as (k' & Hin & He).
  destruct k' as [|key' vis']; [discriminate|]. simpl in He. apply andb_true_iff in He. destruct He as [_ He].
  apply set_eqb_incl in He. destruct He as [_ Hsub].
  destruct Hle as (_ & _ & _ & _ & Sn & _). apply Sn in Hin.
  destruct (HclB _ _ _ Hin) as (body' & Hb' & jg' & Hw). rewrite Hb in Hb'. inversion Hb'; subst body'.
  exists jg'. eapply walked_incl; [exact Hw|].
  eapply incl_tran; [exact Hsub|].
  destruct iso; [apply incl_refl|].
  pose proof (pre_visit_flat jg tn n s1 sg HS) as Hf. rewrite (partial_no_tscope _ _ Hp), app_nil_r in Hf.
  apply incl_app; [apply incl_appl; exact Hf | apply incl_appr, incl_refl].
Qed.

Lemma B_cons sg n ns : CovLB sg (n :: ns) ->
  CovNB sg n /\ (forall f a, assigned P f n = Ok a -> CovLB (sg ++ a) ns).
Proof.
  intros (jg & f & tn & s1 & s2 & Hs & HS & Hle). simpl in Hs.
  destruct (visit P f jg tn n s1) as [sm| |] eqn:E; simpl in Hs; try discriminate.
  pose proof (seq_visit_le P _ _ _ _ _ _ Hs) as Hle2.
  split.
  - exists f, jg, tn, s1, sm. split; [exact E|]. split; [exact HS | eapply le_trans; eassumption].
  - intros f2 a Ha. exists jg, f, tn, sm, s2. split; [exact Hs|]. split; [|exact Hle].
    destruct (grows_flat _ _ _ _ (visit_scope P _ _ _ _ _ _ E) HS) as (extra & Hw & Hi).
    eapply incl_tran; [exact Hi|]. apply incl_app; [apply incl_appl, incl_refl | apply incl_appr].
    eapply Hw. exact Ha.
Qed.

Lemma B_sound fe data body :
  alookup (pg_root P) (pg_tpls P) = Some body -> walked P A false body [] ->
  Forall QB (d_trace (exec_prog P fe data)).
Proof.
  intros Hb Hw. unfold exec_prog. rewrite Hb.
  refine (proj1 (sim_nodes P QB CovNB CovLB B_tag B_exprs B_children B_partial B_cons fe _ [] body d_init _ _)).
  - exists false. exact Hw.
  - split; [constructor | intros m mc H; discriminate].
Qed.
End InstB.

(* ================================================================== the theorems *)
Theorem variables_sound fa fe data A p g e :
  analyze P fa = Ok A -> In (ERead p g e) (d_trace (exec_prog P fe data)) -> In p (a_vars A).
Proof.
  intros Ha Hin. destruct (analyze_closed P fa A Ha) as (body & Hb & Hw & HA & _).
  pose proof (A_sound A HA fe data body Hb (ex_intro _ [] Hw)) as Hf.
  rewrite Forall_forall in Hf. exact (Hf _ Hin).
Qed.

Theorem filters_sound fa fe data A f :
  analyze P fa = Ok A -> In (EFilter f) (d_trace (exec_prog P fe data)) -> In f (a_filters A).
Proof.
  intros Ha Hin. destruct (analyze_closed P fa A Ha) as (body & Hb & Hw & HA & _).
  pose proof (A_sound A HA fe data body Hb (ex_intro _ [] Hw)) as Hf.
  rewrite Forall_forall in Hf. exact (Hf _ Hin).
Qed.

Theorem tags_sound fa fe data A t :
  analyze P fa = Ok A -> In (ETag t) (d_trace (exec_prog P fe data)) -> In t (a_tags A).
Proof.
  intros Ha Hin. destruct (analyze_closed P fa A Ha) as (body & Hb & Hw & HA & _).
  pose proof (A_sound A HA fe data body Hb (ex_intro _ [] Hw)) as Hf.
  rewrite Forall_forall in Hf. exact (Hf _ Hin).
Qed.

Theorem globals_sound fa fe data A p :
  analyze P fa = Ok A -> In (ERead p true false) (d_trace (exec_prog P fe data)) -> In p (a_globals A).
Proof.
  intros Ha Hin. destruct (analyze_closed P fa A Ha) as (body & Hb & Hw & _ & HB).
  pose proof (B_sound A HB fe data body Hb Hw) as Hf.
  rewrite Forall_forall in Hf. exact (Hf _ Hin).
Qed.

End Instances.

(* ================================================================== witnesses of the pre-fix walk *)
Definition q_main : str := [109; 97; 105; 110]%N.
Definition q_p1 : str := [112; 49]%N.
Definition q_p2 : str := [112; 50]%N.
Definition q_x : str := [120]%N.
Definition q_y : str := [121]%N.
Definition q_z : str := [122]%N.
Definition q_v : str := [118]%N.
Definition q_xs : str := [120; 115]%N.
Definition q_go : str := [103; 111]%N.
Definition q_upcase : str := [117; 112; 99; 97; 115; 101]%N.
Definition pv (s : str) : path := Path s [].
Definition outv (s : str) : node := NOutput (plain (AVar (pv s))).

(* for x in xs: include p1 / include p1, with p1 = x *)
Definition W_seen : prog :=
  {| pg_root := q_main;
     pg_tpls := [(q_main, [NFor q_x (IPath (pv q_xs)) la_none [NInclude q_p1 None []] []; NInclude q_p1 None []]);
                 (q_p1, [NText; outv q_x])] |}.
Definition W_seen_data : list (str * value) := [(q_xs, VList [VInt 1; VInt 2]); (q_x, VStr [71%N])].

(* if go: render main, go: false / render p1, with p1 = y | upcase, assign z = 1 *)
Definition W_jg : prog :=
  {| pg_root := q_main;
     pg_tpls := [(q_main, [NIf false (CTruthy (AVar (pv q_go))) [NRender q_main None [(q_go, ALit (VBool false))]] [] [];
                           NRender q_p1 None []]);
                 (q_p1, [NText; NOutput {| e_left := AVar (pv q_y); e_filters := [{| f_name := q_upcase; f_args := [] |}] |};
                         NAssign q_z (plain (ALit (VInt 1)))])] |}.
Definition W_jg_data : list (str * value) := [(q_go, VBool true); (q_y, VStr [104%N])].

(* if go: render p1 / v, with p1 = include p2, p2 = assign v = 1 *)
Definition W_inc : prog :=
  {| pg_root := q_main;
     pg_tpls := [(q_main, [NIf false (CTruthy (AVar (pv q_go))) [NRender q_p1 None []] [] []; outv q_v]);
                 (q_p1, [NText; NInclude q_p2 None []]);
                 (q_p2, [NText; NAssign q_v (plain (ALit (VInt 1)))])] |}.
Definition W_inc_data : list (str * value) := [(q_v, VStr [71%N])].

Ltac refute :=
  eexists; split; [vm_compute; reflexivity | split; [vm_compute; tauto | vm_compute; intuition discriminate]].

Lemma variables_old_refuted :
  exists A, analyze_old W_jg 20 = Ok A /\
    In (ERead (pv q_y) true false) (d_trace (exec_prog W_jg 20 W_jg_data)) /\ ~ In (pv q_y) (a_vars A).
Proof. refute. Qed.

Lemma filters_old_refuted :
  exists A, analyze_old W_jg 20 = Ok A /\
    In (EFilter q_upcase) (d_trace (exec_prog W_jg 20 W_jg_data)) /\ ~ In q_upcase (a_filters A).
Proof. refute. Qed.

Lemma tags_old_refuted :
  exists A, analyze_old W_jg 20 = Ok A /\
    In (ETag s_assign) (d_trace (exec_prog W_jg 20 W_jg_data)) /\ ~ In s_assign (a_tags A).
Proof. refute. Qed.

Lemma globals_old_refuted_seen :
  exists A, analyze_old W_seen 20 = Ok A /\
    In (ERead (pv q_x) true false) (d_trace (exec_prog W_seen 20 W_seen_data)) /\ ~ In (pv q_x) (a_globals A).
Proof. refute. Qed.

Lemma globals_old_refuted_include_under_render :
  exists A, analyze_old W_inc 20 = Ok A /\
    In (ERead (pv q_v) true false) (d_trace (exec_prog W_inc 20 W_inc_data)) /\ ~ In (pv q_v) (a_globals A).
Proof. refute. Qed.

(* the repaired walk on the same programs (non-vacuity of the theorems' hypotheses) *)
Lemma repaired_on_witnesses :
  (exists A, analyze W_jg 20 = Ok A /\ In (pv q_y) (a_vars A) /\ In q_upcase (a_filters A) /\ In s_assign (a_tags A)) /\
  (exists A, analyze W_seen 20 = Ok A /\ In (pv q_x) (a_globals A)) /\
  (exists A, analyze W_inc 20 = Ok A /\ In (pv q_v) (a_globals A)).
Proof.
  repeat split; eexists; (split; [vm_compute; reflexivity | vm_compute; tauto]).
Qed.

(* the widened language: unless/elsif, case/when, tablerow over a range, cycle, liquid, a nested path *)
Definition q_a : str := [97]%N.
Definition q_b : str := [98]%N.
Definition q_k : str := [107]%N.
Definition q_c0 : str := [99]%N.
Definition W_wide : prog :=
  {| pg_root := q_main;
     pg_tpls := [(q_main,
        [NIf true (CTruthy (AVar (pv q_go))) [outv q_x] [(CEq (AVar (pv q_v)) (ALit (VInt 1)), [outv q_y])] [outv q_z];
         NCase (AVar (pv q_v)) [([ALit (VInt 1); ALit (VInt 1)], [outv q_a])] [outv q_b];
         NTablerow q_x (IRange (ALit (VInt 1)) (AVar (pv q_y))) la_none [outv q_x];
         NLiquid [NCycle None [AVar (pv q_a)];
                  NEcho (plain (AVar (Path q_a [SSub (Path q_b [SKey q_k; SSub (pv q_c0)])])))];
         NDecrement q_z; outv q_z])] |}.
Definition W_wide_data : list (str * value) := [(q_go, VBool true); (q_v, VInt 1); (q_y, VInt 2); (q_b, VMap [(q_k, VStr q_k)])].

Lemma wide_language_example :
  exists A, analyze W_wide 20 = Ok A /\
    (* the path used as a segment is reported on its own, and read on its own *)
    In (Path q_b [SKey q_k; SSub (pv q_c0)]) (a_vars A) /\
    In (ERead (Path q_b [SKey q_k; SSub (pv q_c0)]) true false) (d_trace (exec_prog W_wide 20 W_wide_data)) /\
    (* unless go (true) falls to the elsif v == 1: y is read; the case value met twice renders a twice *)
    length (filter (event_eqb (ERead (pv q_a) false false)) (d_trace (exec_prog W_wide 20 W_wide_data))) = 3 /\
    d_status (exec_prog W_wide 20 W_wide_data) = Running.
Proof.
  eexists. split; [vm_compute; reflexivity|]. split; [vm_compute; tauto|]. split; [vm_compute; tauto|].
  split; vm_compute; reflexivity.
Qed.

(* the arguments of a loop are among the expressions the walk analyses, whichever of the others are present *)
Lemma loop_arguments_analysed x it la body els a :
  la_limit la = Some a \/ la_offset la = Some (OffAtom a) \/ la_cols la = Some a ->
  In (plain a) (n_exprs (NFor x it la body els)) /\ In (plain a) (n_exprs (NTablerow x it la body)).
Proof.
  intro H.
  assert (Hin : In a (la_atoms la)).
  { unfold la_atoms. destruct H as [H|[H|H]]; rewrite H.
    - apply in_or_app; left; left; reflexivity.
    - apply in_or_app; right; apply in_or_app; left; left; reflexivity.
    - apply in_or_app; right; apply in_or_app; right; left; reflexivity. }
  split; simpl; apply in_or_app; right; apply in_map; exact Hin.
Qed.

(* a loop with limit, offset and cols given as paths, the limit unconvertible: the render fails at the limit,
   yet all three are reported; with a convertible limit all three are read *)
Definition q_lim : str := [108; 105; 109]%N.
Definition q_off : str := [111; 102; 102]%N.
Definition q_c : str := [99]%N.
Definition W_loop : prog :=
  {| pg_root := q_main;
     pg_tpls := [(q_main,
        [NTablerow q_x (IPath (pv q_xs))
           {| la_limit := Some (AVar (pv q_lim)); la_offset := Some (OffAtom (AVar (pv q_off))); la_reversed := true;
              la_cols := Some (AVar (pv q_c)) |} [outv q_x];
         NFor q_x (IPath (pv q_xs)) {| la_limit := None; la_offset := Some OffContinue; la_reversed := false; la_cols := None |}
           [outv q_x] []])] |}.
Definition W_loop_data (lim : value) : list (str * value) :=
  [(q_xs, VList [VInt 1; VInt 2; VInt 3]); (q_lim, lim); (q_off, VInt 1); (q_c, VInt 2)].

Lemma loop_arguments_example :
  exists A, analyze W_loop 20 = Ok A /\
    In (pv q_lim) (a_vars A) /\ In (pv q_off) (a_vars A) /\ In (pv q_c) (a_vars A) /\
    (* limit 1, offset 1: the tablerow renders item 2 and stops at index 2; the for loop continues with item 3 *)
    map (fun e => match e with ERead p _ _ => p_root p | _ => [] end)
        (filter (fun e => match e with ERead _ _ _ => true | _ => false end) (rev (d_trace (exec_prog W_loop 20 (W_loop_data (VInt 1))))))
      = [q_xs; q_lim; q_off; q_c; q_x; q_xs; q_x] /\
    d_status (exec_prog W_loop 20 (W_loop_data (VStr q_x))) = Halted.
Proof.
  eexists. split; [vm_compute; reflexivity|]. repeat split; vm_compute; tauto.
Qed.

(* a[b.k[c]]: the path at every level is reported on its own and read on its own, innermost first *)
Lemma nested_paths_example :
  exists A, analyze W_wide 20 = Ok A /\
    forallb (fun p => existsb (path_eqb p) (a_vars A))
            [pv q_c0; Path q_b [SKey q_k; SSub (pv q_c0)]; Path q_a [SSub (Path q_b [SKey q_k; SSub (pv q_c0)])]] = true /\
    map (fun e => match e with ERead p _ _ => p_root p | _ => [] end)
        (firstn 4 (filter (fun e => match e with ERead _ _ _ => true | _ => false end)
                          (d_trace (exec_prog W_wide 20 W_wide_data))))
      = [q_z; q_a; q_b; q_c0].
Proof.
  eexists. split; [vm_compute; reflexivity|]. split; vm_compute; reflexivity.
Qed.

(* the walk analyses a path used as a segment, and with it every path nested in that one, at any depth *)
Lemma nested_paths_analysed r segs q : In (SSub q) segs -> incl (all_paths q) (atom_paths (AVar (Path r segs))).
Proof.
  intro H. unfold atom_paths. rewrite all_paths_eq. intros x Hx. right.
  induction segs as [|s l IH]; [destruct H|].
  destruct H as [->|H].
  - change (segs_paths (SSub q :: l)) with (all_paths q ++ segs_paths l). apply in_or_app. left. exact Hx.
  - specialize (IH H). destruct s as [k|i|q']; try exact IH.
    change (segs_paths (SSub q' :: l)) with (all_paths q' ++ segs_paths l). apply in_or_app. right. exact IH.
Qed.
