(* Model of template inheritance: liquid/extra/tags/extends_tag.py (ExtendsNode, BlockNode, BlockDrop.super,
   _build_block_stacks / _stack_blocks / _store_blocks) together with the two depth guards of
   liquid/context.py it runs under (RenderContext.extend: scope size; RenderContext.copy: copy depth).
   Executable definitions only -- no proofs in this file.

   Part 1: the transcription of the code (block stacks with parent links, BlockNode.render, block.super), with the
           engine-wide blank-body rule of liquid/ast.py (BlockNode: a body all of whose nodes are blank is rendered into a
           null buffer) for the bodies of this fragment; the block tag itself is never blank.
   Part 2: the specification, written independently: `first_def` searches the chain for the most-derived
           definition; no stacks, no parent links, no depth counters. *)
From Coq Require Import String Ascii.
From LiquidVerif Require Import Prelude PyPrims.

Definition lit (x : string) : str := map N_of_ascii (list_ascii_of_string x).

(* ------------------------------------------------------------------------------------------------ syntax *)
Inductive node :=
| Text (s : str)
| Var (x : str)                                          (* {{ x }} ; an unbound name prints nothing *)
| Super (up : bool)                                      (* {{ block.super }} ; up: {{ block.super | upcase }} *)
| Block (name : str) (required : bool) (endname : option str) (body : list node)
                                                         (* {% block name [required] %} body {% endblock [endname] %} *)
| For (x : str) (items : list Z) (body : list node).     (* {% for x in ... %} body {% endfor %} *)

(* top level of a template: nodes and extends tags *)
Inductive titem := TNode (n : node) | TExtends (parent : str).
Definition template := list titem.
Definition loader := list (str * template).              (* DictLoader *)
Definition env := list (str * Z).                        (* innermost binding first *)

Definition show_var (e : env) (x : str) : str :=
  match alookup x e with Some z => Z_to_str z | None => [] end.

(* a block definition as _find_inheritance_nodes sees it *)
Record bdef := { bd_name : str; bd_required : bool; bd_body : list node }.

(* _find_inheritance_nodes._visit_node: depth-first, a block before the blocks nested in it *)
Fixpoint blocks_of_node (n : node) : list bdef :=
  match n with
  | Block name req _ body => {| bd_name := name; bd_required := req; bd_body := body |} :: flat_map blocks_of_node body
  | For _ _ body => flat_map blocks_of_node body
  | _ => []
  end.

Definition blocks_of_item (i : titem) : list bdef := match i with TNode n => blocks_of_node n | TExtends _ => [] end.
Definition tblocks (t : template) : list bdef := flat_map blocks_of_item t.
Definition textends (t : template) : list str :=
  flat_map (fun i => match i with TExtends p => [p] | TNode _ => [] end) t.
Definition tnodes (t : template) : list node :=
  flat_map (fun i => match i with TNode n => [n] | TExtends _ => [] end) t.

(* the nodes before the first extends tag, and whether there is one *)
Fixpoint split_extends (t : template) : list node * bool :=
  match t with
  | [] => ([], false)
  | TNode n :: r => let '(pre, e) := split_extends r in (n :: pre, e)
  | TExtends _ :: _ => ([], true)
  end.

(* BlockTag.parse: an endblock name, when given, must equal the block's name *)
Fixpoint endblock_ok_node (n : node) : bool :=
  match n with
  | Block name _ en body =>
      (match en with Some e => str_eqb e name | None => true end) && forallb endblock_ok_node body
  | For _ _ body => forallb endblock_ok_node body
  | _ => true
  end.
Definition parse_ok (t : template) : bool :=
  forallb (fun i => match i with TNode n => endblock_ok_node n | TExtends _ => true end) t.

(* Environment.get_template: not found, or the parse error of a mismatched endblock *)
Definition load (ld : loader) (name : str) : res template :=
  match alookup name ld with
  | None => Err ENotFound
  | Some t => if parse_ok t then Ok t else Err EInherit
  end.

(* ------------------------------------------------------------------------------ part 1: block stacks *)
(* _BlockStackItem; its `parent` field is the next item of the stack list (stack[-2].parent = stack[-1] on
   every append), so a pointer to an item is the list suffix starting at it *)
Record item := { it_body : list node; it_required : bool }.
Definition stacks := list (str * list item).             (* context.tag_namespace["extends"] *)

Definition slookup (name : str) (st : stacks) : list item :=
  match alookup name st with Some l => l | None => [] end.

Fixpoint stack_append (name : str) (it : item) (st : stacks) : stacks :=
  match st with
  | [] => [(name, [it])]
  | (k, l) :: r => if str_eqb name k then (k, l ++ [it]) :: r else (k, l) :: stack_append name it r
  end.

(* one iteration of the loop of _store_blocks, with the `required` expression as written in the code *)
Definition store_block (st : stacks) (b : bdef) : stacks :=
  let stack := slookup (bd_name b) st in
  let required := if (negb (match stack with [] => true | _ => false end)) && negb (bd_required b)
                  then false else bd_required b in
  stack_append (bd_name b) {| it_body := bd_body b; it_required := required |} st.

Fixpoint smem (x : str) (l : list str) : bool :=
  match l with [] => false | y :: r => str_eqb x y || smem x r end.

(* the seen_block_names loop of _stack_blocks *)
Fixpoint has_dup (names : list str) : bool :=
  match names with [] => false | n :: r => smem n r || has_dup r end.

Definition stack_blocks (st : stacks) (t : template) : res (option str * stacks) :=
  let ext := textends t in
  let blocks := tblocks t in
  if (1 <? length ext)%nat then Err EInherit                               (* too many 'extends' tags *)
  else if has_dup (map bd_name blocks) then Err EInherit                   (* duplicate block *)
  else Ok (hd_error ext, fold_left store_block blocks st).

(* _build_block_stacks: the while loop, with its `seen` set of parent names *)
Fixpoint build (fuel : nat) (ld : loader) (seen : list str) (st : stacks) (t : template) : res (template * stacks) :=
  match fuel with
  | O => OutOfFuel
  | S f =>
      do r <- stack_blocks st t;
      let '(ext, st') := r in
      match ext with
      | None => Ok (t, st')
      | Some p =>
          if smem p seen then Err EInherit                                 (* circular extends *)
          else do t' <- load ld p; build f ld (p :: seen) st' t'
      end
  end.

(* ------------------------------------------------------------------------------ blank block bodies *)
(* str.isspace() of CPython 3.12, per code point *)
Definition is_space_char (c : N) : bool :=
  ((9 <=? c) && (c <=? 13) || (28 <=? c) && (c <=? 32) || (c =? 133) || (c =? 160) || (c =? 5760)
   || (8192 <=? c) && (c <=? 8202) || (c =? 8232) || (c =? 8233) || (c =? 8239) || (c =? 8287) || (c =? 12288))%N.

(* Node.blank: ContentNode: `not text or text.isspace()`; OutputNode: False; the block tag of extends_tag.py: False
   (set on purpose in BlockNode.__init__); ForNode: block.blank (no else branch in this model) *)
Fixpoint node_blank (n : node) : bool :=
  match n with
  | Text s => forallb is_space_char s
  | Var _ | Super _ => false
  | Block _ _ _ _ => false
  | For _ _ body => forallb node_blank body
  end.

(* the behaviour of a seeded change: the block tag takes the blankness of its body (`self.blank = block.blank`) *)
Fixpoint node_blank_seeded (n : node) : bool :=
  match n with
  | Text s => forallb is_space_char s
  | Var _ | Super _ => false
  | Block _ _ _ body => forallb node_blank_seeded body
  | For _ _ body => forallb node_blank_seeded body
  end.

(* ast.BlockNode.render_to_output: a blank body is rendered into a NullIO buffer -- it runs, its output is dropped *)
Definition discard (r : res str) : res str := do _ <- r; Ok [].

(* the upcase filter on the text block.super returns (str.upper on the ASCII letters; other code points: modelled as unchanged) *)
Definition upcase_char (c : N) : N := if ((97 <=? c) && (c <=? 122))%N then (c - 32)%N else c.
Definition post (up : bool) (r : res str) : res str := if up then (do x <- r; Ok (map upcase_char x)) else r.
Definition wrap (blank : bool) (r : res str) : res str := if blank then discard r else r.

(* ------------------------------------------------------------------------------ part 1: rendering *)
(* the `block` drop.  Its `context` field is either the suspended context in which the block tag is being
   rendered (BlockNode.render_to_output passes `context`, not the copy it renders the body in), recorded here by
   its variables, scope size and copy depth; or the very context the current body is rendered in (drops made by
   BlockDrop.__getitem__, and by a block rendered without a stack) *)
Inductive handle :=
| HSite (e : env) (s d : nat) (parents : list item)
| HCur (parents : list item).

Record ctx := { c_env : env;          (* variables visible *)
                c_s : nat;            (* context.scope.size() *)
                c_d : nat;            (* context._copy_depth *)
                c_block : option handle }.

Definition seq_res {A} (f : A -> res str) : list A -> res str :=
  fix go (l : list A) : res str :=
    match l with
    | [] => Ok []
    | a :: r => do x <- f a; do y <- go r; Ok (x ++ y)
    end.

Section Exec.
  Variable sup : bool.                                   (* env.suppress_blank_control_flow_blocks *)
  Variable nb : node -> bool.                            (* Node.blank *)
  Variable L : nat.                                      (* env.context_depth_limit *)
  Variable st : stacks.
  Variable jump : ctx -> list node -> res str.           (* rendering of another body (one unit of fuel less) *)

  Definition body_blank (body : list node) : bool := sup && forallb nb body.

  Fixpoint exec_node (c : ctx) (n : node) {struct n} : res str :=
    match n with
    | Text s => Ok s
    | Var x => Ok (show_var (c_env c) x)
    | Super up => post up
        match c_block c with
        | None => Ok []                                                     (* `block` is undefined *)
        | Some (HSite e s d parents) =>
            match parents with
            | [] => Ok []                                                   (* undefined `super` *)
            | p :: rest =>
                if (L <? s)%nat then Err EContextDepth                      (* self.context.extend *)
                else jump {| c_env := e; c_s := S s; c_d := d; c_block := Some (HCur rest) |} (it_body p)
            end
        | Some (HCur parents) =>
            match parents with
            | [] => Ok []
            | p :: rest =>
                if (L <? c_s c)%nat then Err EContextDepth
                else jump {| c_env := c_env c; c_s := S (c_s c); c_d := c_d c; c_block := Some (HCur rest) |} (it_body p)
            end
        end
    | Block name req _ body =>
        match slookup name st with
        | [] =>                                                             (* rendered directly *)
            if req then Err ERequiredBlock
            else if (L <? c_s c)%nat then Err EContextDepth                 (* context.extend *)
            else jump {| c_env := c_env c; c_s := S (c_s c); c_d := c_d c; c_block := Some (HCur []) |} body
        | it :: rest =>                                                     (* stack[0] *)
            if it_required it then Err ERequiredBlock
            else if (L <? c_d c)%nat then Err EContextDepth                 (* context.copy *)
            else jump {| c_env := c_env c; c_s := 4; c_d := S (c_d c);
                         c_block := Some (HSite (c_env c) (c_s c) (c_d c) rest) |} (it_body it)
        end
    | For x items body =>
        match items with
        | [] => Ok []
        | _ =>
            if (L <? c_s c)%nat then Err EContextDepth                      (* context.loop -> extend *)
            else seq_res (fun v => wrap (body_blank body)       (* self.block.render per item *)
                                     (seq_res (fun m => exec_node {| c_env := (x, v) :: c_env c; c_s := S (c_s c);
                                                                      c_d := c_d c; c_block := c_block c |} m) body)) items
        end
    end.

  Definition exec_nodes (c : ctx) (body : list node) : res str := seq_res (exec_node c) body.
End Exec.

(* the body of a block tag (a definition reached through a block tag or through block.super): an ast.BlockNode *)
Fixpoint exec_body (fuel : nat) (sup : bool) (nb : node -> bool) (L : nat) (st : stacks) (c : ctx) (body : list node)
  : res str :=
  match fuel with
  | O => OutOfFuel
  | S f => wrap (body_blank sup nb body) (exec_nodes sup nb L st (exec_body f sup nb L st) c body)
  end.

(* the top level of a template: BoundTemplate.nodes, rendered one by one (no blank rule) *)
Definition exec (fuel : nat) (sup : bool) (nb : node -> bool) (L : nat) (st : stacks) (c : ctx) (nodes : list node)
  : res str :=
  match fuel with
  | O => OutOfFuel
  | S f => exec_nodes sup nb L st (exec_body f sup nb L st) c nodes
  end.

(* BoundTemplate.render of a loaded template: render_with_context pushes one namespace (scope size 4 -> 5); nodes
   are rendered in order until the extends tag, which builds the stacks, renders the base template through
   render_with_context (5 -> 6) and raises StopRender *)
Definition render_template (fuel : nat) (sup : bool) (nb : node -> bool) (L : nat) (ld : loader) (data : env)
  (t : template) : res str :=
  if (L <? 4)%nat then Err EContextDepth else
  let '(pre, ext) := split_extends t in
  do a <- exec fuel sup nb L [] {| c_env := data; c_s := 5; c_d := 0; c_block := None |} pre;
  if ext then
    do r <- build (S (S (length ld))) ld [] [] t;
    let '(base, st) := r in
    if (L <? 5)%nat then Err EContextDepth else
    do b <- exec fuel sup nb L st {| c_env := data; c_s := 6; c_d := 0; c_block := None |} (tnodes base);
    Ok (a ++ b)
  else Ok a.

Definition render_model (fuel : nat) (sup : bool) (nb : node -> bool) (L : nat) (ld : loader) (leaf : str) (data : env)
  : res str :=
  do t <- load ld leaf; render_template fuel sup nb L ld data t.

(* enough fuel for every input (proved in Inherit_Proofs.render_model_fuel) *)
Definition fuel_bound (L : nat) : nat := ((L + 2) * (L + 3) + (L + 2)) * 2 + 2.

Record icase := { k_suppress : bool; k_limit : nat; k_loader : loader; k_leaf : str; k_data : env }.
Definition run_inherit (c : icase) : res str :=
  render_model (fuel_bound (k_limit c)) (k_suppress c) node_blank (k_limit c) (k_loader c) (k_leaf c) (k_data c).
(* the same with the seeded blankness of block tags (kept as the witness of what the check must notice) *)
Definition run_inherit_seeded (c : icase) : res str :=
  render_model (fuel_bound (k_limit c)) (k_suppress c) node_blank_seeded (k_limit c) (k_loader c) (k_leaf c) (k_data c).

Definition res_str_eqb (a b : res str) : bool :=
  match a, b with
  | Ok x, Ok y => str_eqb x y
  | Err e, Err f => exn_eqb e f
  | _, _ => false
  end.

(* ------------------------------------------------------------------------------ part 2: specification *)
(* the block called `name` of a template *)
Definition find_block (name : str) (t : template) : option bdef :=
  find (fun b => str_eqb name (bd_name b)) (tblocks t).

(* the first template of `ch` (leaf first) defining `name`: that definition and the templates above it *)
Fixpoint first_def (ch : list template) (name : str) : option (bdef * list template) :=
  match ch with
  | [] => None
  | t :: r => match find_block name t with Some b => Some (b, r) | None => first_def r name end
  end.

(* where rendering currently is: in the definition of `name` whose more-basic templates are `above`;
   `site` = Some e when this is the most-derived definition, entered from a block tag rendered with variables e *)
Record scur := { sc_name : str; sc_above : list template; sc_site : option env }.
Record sctx := { sc_env : env; sc_cur : option scur }.

Section Spec.
  Variable sup : bool.                                   (* blank bodies produce no output when set *)
  Variable nb : node -> bool.
  Variable chain : list template.                        (* [] = no inheritance in effect *)
  Variable jump : sctx -> list node -> res str.

  Fixpoint spec_node (c : sctx) (n : node) {struct n} : res str :=
    match n with
    | Text s => Ok s
    | Var x => Ok (show_var (sc_env c) x)
    | Super up => post up
        match sc_cur c with
        | None => Ok []
        | Some cur =>
            match first_def (sc_above cur) (sc_name cur) with
            | None => Ok []                              (* nothing further up the chain *)
            | Some (b, above) =>
                (* the next definition up.  Variables: those of the block tag when block.super is written in the
                   most-derived definition, those visible at the reference otherwise *)
                jump {| sc_env := match sc_site cur with Some e => e | None => sc_env c end;
                        sc_cur := Some {| sc_name := sc_name cur; sc_above := above; sc_site := None |} |} (bd_body b)
            end
        end
    | Block name req _ body =>
        (* the most-derived definition; a block nobody else defines is its own definition *)
        let '(b, above) := match first_def chain name with
                           | Some r => r
                           | None => ({| bd_name := name; bd_required := req; bd_body := body |}, [])
                           end in
        if bd_required b then Err ERequiredBlock
        else jump {| sc_env := sc_env c;
                     sc_cur := Some {| sc_name := name; sc_above := above; sc_site := Some (sc_env c) |} |} (bd_body b)
    | For x items body =>
        seq_res (fun v => wrap (body_blank sup nb body)
                            (seq_res (fun m => spec_node {| sc_env := (x, v) :: sc_env c; sc_cur := sc_cur c |} m) body)) items
    end.
End Spec.

(* a definition's body: engine-wide rule -- a body all of whose nodes are blank produces no output *)
Fixpoint spec_body (fuel : nat) (sup : bool) (nb : node -> bool) (chain : list template) (c : sctx) (body : list node)
  : res str :=
  match fuel with
  | O => OutOfFuel
  | S f => wrap (body_blank sup nb body) (seq_res (spec_node sup nb chain (spec_body f sup nb chain) c) body)
  end.

(* the top level of a template *)
Definition spec_exec (fuel : nat) (sup : bool) (nb : node -> bool) (chain : list template) (c : sctx) (nodes : list node)
  : res str :=
  match fuel with
  | O => OutOfFuel
  | S f => seq_res (spec_node sup nb chain (spec_body f sup nb chain) c) nodes
  end.

Definition template_bad (t : template) : bool := has_dup (map bd_name (tblocks t)) || negb (parse_ok t).

(* the documented result for a chain (leaf first; the last template is the root) *)
Definition render_spec (fuel : nat) (sup : bool) (nb : node -> bool) (chain : list template) (data : env) : res str :=
  let c0 := {| sc_env := data; sc_cur := None |} in
  match chain with
  | [] => Err ENotFound
  | leaf :: parents =>
      if negb (parse_ok leaf) then Err EInherit                              (* the leaf does not parse *)
      else match parents with
           | [] => if template_bad leaf then Err EInherit                    (* duplicate block names are rejected *)
                   else spec_exec fuel sup nb [] c0 (tnodes leaf)
           | _ =>
               do a <- spec_exec fuel sup nb [] c0 (fst (split_extends leaf));      (* what precedes the extends tag *)
               if existsb template_bad chain then Err EInherit
               else do b <- spec_exec fuel sup nb chain c0 (tnodes (last chain leaf)); Ok (a ++ b)
           end
  end.

(* a chain: every template but the last has exactly one extends tag, naming the next one *)
Inductive chain_from (ld : loader) : template -> list template -> Prop :=
| chain_root t : textends t = [] -> chain_from ld t [t]
| chain_step t p t' rest :
    textends t = [p] -> alookup p ld = Some t' -> chain_from ld t' rest -> chain_from ld t (t :: rest).
