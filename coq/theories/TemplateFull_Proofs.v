(* Whole templates: parsing the serialisation of a tree with structured payloads gives the tree back.
   Composition of TagTree_Proofs.parse_print_template (tag structure) with ExprSyntax_Tags_Proofs.payload_roundtrip (every payload),
   ExprSyntax_Proofs.expr_roundtrip (output statements) and CondParen_Proofs.print2_roundtrip (if / elsif / unless). *)
From LiquidVerif Require Import Prelude PyPrims Cond CondPrint Cond_Proofs CondParen CondParen_Proofs StrLit PathSyntax PathSyntax_Proofs
  TagTree TagTree_Proofs ExprSyntax ExprSyntax_Proofs ExprSyntax_Tags_Proofs TemplateFull.

Lemma all_in {A} (P : A -> Prop) l x : all P l -> In x l -> P x.
Proof. induction l as [|y r IH]; cbn; [tauto|]. intros [Hy Hr] [->|Hi]; [exact Hy|apply IH; assumption]. Qed.

Lemma res_map_inv {A B} (f : A -> res B) (g : B -> A) l : (forall x, In x l -> f (g x) = Ok x) -> res_map f (map g l) = Ok l.
Proof.
  induction l as [|x r IH]; intro H; [reflexivity|]. cbn [map res_map]. rewrite (H x (or_introl eq_refl)).
  rewrite IH by (intros y Hy; apply H; right; exact Hy). reflexivity.
Qed.

Fixpoint fsize (n : fnode) : nat :=
  match n with
  | FBlock _ _ body secs => S (list_sum (map fsize body) + list_sum (map (fun s => list_sum (map fsize (snd s))) secs))
  | _ => 1
  end.

Lemma in_sum {A} (f : A -> nat) l x : In x l -> f x <= list_sum (map f l).
Proof.
  unfold list_sum. induction l as [|y r IH]; cbn [In map fold_right]; [tauto|]. intros [->|Hi]; [lia|]. specialize (IH Hi). lia.
Qed.

Section FullProofs.
  Variable is_prop : str -> bool.
  Hypothesis is_prop_not_kw : forall s, is_prop s = true -> is_kw s = false.
  Variable render : list etok -> str.
  Variable lex : str -> res (list etok).
  Variable tag_kind : str -> tagkind.
  Hypothesis Hreg : reg_ok tag_kind.
  Variable tpk_of : str -> tpk.
  Local Notation pay_text := (TemplateFull.pay_text is_prop render).
  Local Notation unstruct := (TemplateFull.unstruct is_prop render).
  Local Notation decode_pay := (TemplateFull.decode_pay lex tpk_of).
  Local Notation decode := (TemplateFull.decode lex tpk_of).
  Local Notation pay_ok := (TemplateFull.pay_ok is_prop render lex tpk_of).
  Local Notation ok := (TemplateFull.ok is_prop render lex tpk_of).
  Local Notation wf_full := (TemplateFull.wf_full is_prop render lex tag_kind tpk_of).
  Local Notation print_template_full := (TemplateFull.print_template_full is_prop render).
  Local Notation parse_template_full := (TemplateFull.parse_template_full lex tag_kind tpk_of).

  (* a tag's own parser reads back the payload the tag's __str__ wrote *)
  Lemma decode_pay_ok name p : pay_ok name p -> decode_pay name (pay_text p) = Ok p.
  Proof.
    unfold TemplateFull.pay_ok, TemplateFull.decode_pay. destruct (tpk_of name) as [k| | |]; destruct p as [y|c| |s]; try contradiction.
    - intros (Hwf & Hk & Hl). cbn [TemplateFull.pay_text TemplateFull.pay_toks]. rewrite Hl. cbn [bind].
      destruct Hk as [->|[-> [s ->]]].
      + rewrite (payload_roundtrip is_prop is_prop_not_kw y Hwf). reflexivity.
      + rewrite (capture_roundtrip is_prop is_prop_not_kw s). reflexivity.
    - intro Hl. cbn [TemplateFull.pay_text TemplateFull.pay_toks]. rewrite Hl. cbn [bind]. rewrite to_ctok_cond, print2_roundtrip. reflexivity.
    - reflexivity.
    - reflexivity.
  Qed.

  Lemma decode_unstruct_k : forall k n, fsize n <= k -> ok n -> decode (unstruct n) = Ok n.
  Proof.
    induction k as [|k IH]; intros n Hs Hok; [destruct n; cbn in Hs; lia|].
    destruct n as [s|s|s|e|name p|name p body secs]; try reflexivity.
    - destruct Hok as [Hwf Hl]. cbn [TemplateFull.unstruct TemplateFull.decode]. rewrite Hl. cbn [bind].
      rewrite (expr_roundtrip is_prop is_prop_not_kw e Hwf). reflexivity.
    - cbn [TemplateFull.unstruct TemplateFull.decode]. cbn [TemplateFull.ok] in Hok. rewrite (decode_pay_ok name p Hok). reflexivity.
    - cbn [TemplateFull.ok] in Hok. destruct Hok as (Hp & Hb & Hss). cbn [fsize] in Hs.
      cbn [TemplateFull.unstruct TemplateFull.decode]. rewrite (decode_pay_ok name p Hp). cbn [bind].
      rewrite (res_map_inv decode unstruct body).
      2:{ intros m Hm. apply IH; [pose proof (in_sum fsize body m Hm); lia|exact (all_in _ body m Hb Hm)]. }
      cbn [bind].
      rewrite (res_map_inv _ (fun s => (fst (fst s), pay_text (snd (fst s)), map unstruct (snd s))) secs).
      + reflexivity.
      + intros [[sn sp] sb] Hin. cbn [fst snd].
        pose proof (all_in _ secs _ Hss Hin) as [Hsp Hsb]. cbn [fst snd] in Hsp, Hsb.
        rewrite (decode_pay_ok sn sp Hsp). cbn [bind].
        rewrite (res_map_inv decode unstruct sb); [reflexivity|].
        intros m Hm. apply IH; [|exact (all_in _ sb m Hsb Hm)].
        pose proof (in_sum fsize sb m Hm). pose proof (in_sum (fun s => list_sum (map fsize (snd s))) secs _ Hin). cbn [snd] in *. lia.
  Qed.

  Lemma decode_unstruct n : ok n -> decode (unstruct n) = Ok n.
  Proof. apply (decode_unstruct_k (fsize n)). lia. Qed.

  (* C04 (whole templates): for EVERY well-formed template tree with structured payloads -- any nesting of block tags with their
     sections, every tag's expression a well-formed payload, every condition tree -- the block parser followed by each tag's own
     expression parser reads back from the serialisation exactly the tree that was serialised *)
  Theorem full_roundtrip t : wf_full t -> parse_template_full (print_template_full t) = Ok t.
  Proof.
    intros [Hshape Hok]. unfold TemplateFull.parse_template_full, TemplateFull.print_template_full.
    rewrite (parse_print_template tag_kind Hreg _ Hshape). cbn [bind].
    apply res_map_inv. intros n Hn. apply decode_unstruct. exact (all_in _ t n Hok Hn).
  Qed.

  (* ... so the re-parsed template IS the original tree (it renders identically on every data, being the same tree), and serialising it
     again gives the same tokens *)
  Corollary full_same_tree t : wf_full t ->
    exists t', parse_template_full (print_template_full t) = Ok t' /\ t' = t /\ print_template_full t' = print_template_full t.
  Proof. intro H. exists t. rewrite (full_roundtrip t H). repeat split. Qed.

  (* from SOURCE tokens: if the parser accepts them and the tree is well formed, str() of the parsed template parses to the same
     tree, and a second str() gives the same tokens *)
  Corollary full_idempotent ts t : parse_template_full ts = Ok t -> wf_full t ->
    exists t', parse_template_full (print_template_full t) = Ok t' /\ print_template_full t' = print_template_full t.
  Proof. intros _ H. exists t. rewrite (full_roundtrip t H). split; reflexivity. Qed.

End FullProofs.

(* ---- the standard register and payload kinds; the lexer hypothesis is satisfiable ---- *)
From Coq Require Import String.
Local Open Scope string_scope. Local Open Scope list_scope.

Theorem std_full_roundtrip render lex t : wf_full expr_is_prop render lex std_kind std_tpk t ->
  parse_template_full lex std_kind std_tpk (print_template_full expr_is_prop render t) = Ok t.
Proof. apply full_roundtrip; [exact expr_is_prop_not_kw|exact std_reg_ok]. Qed.

(* a template that uses every payload kind, with a lexer given as a finite table for exactly its expressions *)

Definition demo_tree : list fnode :=
  [ FText (slit "a");
    FOut (XFilt {| fe_left := v1 "x"; fe_filters := [{| f_name := lit "f"; f_args := [APos (PInt 1); AKw (lit "k") (v1 "v")] |}] |});
    FInline (slit "assign") (FP (YAssign (lit "z") (XFilt {| fe_left := PStr (lit "s"); fe_filters := [] |})));
    FBlock (slit "if") (FCond (BOr (BAnd (BVar (lit "a")) (BVar (lit "b"))) (BVar (lit "c"))))
      [FInline (slit "increment") (FP (YIdent (lit "n")))]
      [(slit "elsif", FCond (BNot (BVar (lit "a"))), [FRaw (slit "{{")]); (slit "else", FNone, [FInline (slit "liquid") (FOpaque (slit "echo x"))])];
    FBlock (slit "for") (FP (YLoop {| lp_id := lit "i"; lp_iter := PRange (PInt 1) (v1 "n"); lp_limit := Some (PInt 2); lp_offset := None;
                                      lp_cols := None; lp_rev := true |}))
      [FBlock (slit "case") (FP (YCase (v1 "i"))) [] [(slit "when", FP (YWhen [PInt 1; PStr (lit "a")]), [FInline (slit "break") FNone]); (slit "else", FNone, [])]]
      [(slit "else", FNone, [FInline (slit "cycle") (FP (YCycle (Some (PStr (lit "g"))) [PInt 1; PInt 2]))])];
    FBlock (slit "capture") (FP (YIdent (lit "c"))) [FInline (slit "include") (FP (YInclude {| in_name := PStr (lit "p"); in_bind := Some ([SName (lit "x")], Some (lit "y")); in_args := [(lit "k", PInt 1)] |}))] [] ].

(* render: a self-delimiting spelling is not needed for the witness -- the text of a token list is any injective code on the lists
   that occur; here the position in the table *)
Definition demo_exprs : list (list etok) :=
  let p := print_payload expr_is_prop in
  [ print_expr expr_is_prop (XFilt {| fe_left := v1 "x"; fe_filters := [{| f_name := lit "f"; f_args := [APos (PInt 1); AKw (lit "k") (v1 "v")] |}] |});
    p (YAssign (lit "z") (XFilt {| fe_left := PStr (lit "s"); fe_filters := [] |}));
    map ECond (print2 (BOr (BAnd (BVar (lit "a")) (BVar (lit "b"))) (BVar (lit "c"))));
    p (YIdent (lit "n")); map ECond (print2 (BNot (BVar (lit "a"))));
    p (YLoop {| lp_id := lit "i"; lp_iter := PRange (PInt 1) (v1 "n"); lp_limit := Some (PInt 2); lp_offset := None; lp_cols := None; lp_rev := true |});
    p (YCase (v1 "i")); p (YWhen [PInt 1; PStr (lit "a")]); p (YCycle (Some (PStr (lit "g"))) [PInt 1; PInt 2]); p (YIdent (lit "c"));
    p (YInclude {| in_name := PStr (lit "p"); in_bind := Some ([SName (lit "x")], Some (lit "y")); in_args := [(lit "k", PInt 1)] |}) ].
Fixpoint index_of (ts : list etok) (l : list (list etok)) (i : N) : N :=
  match l with [] => i | x :: r => if list_eqb etok_eqb ts x then i else index_of ts r (N.succ i) end.
Definition demo_render (ts : list etok) : str := [index_of ts demo_exprs 65%N].
Definition demo_lex (s : str) : res (list etok) :=
  match s with [c] => match nth_error demo_exprs (N.to_nat (c - 65)) with Some ts => Ok ts | None => Err ESyntax end | _ => Err ESyntax end.

Example demo_wf_full : wf_full expr_is_prop demo_render demo_lex std_kind std_tpk demo_tree.
Proof. split; [vm_compute; reflexivity|]. vm_compute. repeat split; try (left; reflexivity); try (right; split; [reflexivity|eexists; reflexivity]). Qed.

Example demo_roundtrip :
  parse_template_full demo_lex std_kind std_tpk (print_template_full expr_is_prop demo_render demo_tree) = Ok demo_tree.
Proof. vm_compute. reflexivity. Qed.
