(* Second part of the C25 model (Filters.v is the first): strip_newlines, round with a digits argument, divided_by and
   modulo on decimal operands, map with missing keys and non-hash items, default with the allow_false argument given as a
   value.  Everything else is dispatched to Filters.apply_filter.  Executable definitions only.

   Numbers are the ones of Filters.v: an int, or a float holding exactly the short decimal m * 10^-e (the filters read a
   float through Decimal(str(x)), so what they compute on is that decimal; the way back, float(Decimal) followed by the
   float's repr, is faithful below 16 significant digits - modelled, not verified). *)
From LiquidVerif Require Import Prelude PyPrims Filters.

(* ---- strip_newlines: re.sub of  \r?\n  by the empty string ---- *)
Fixpoint strip_newlines_s (s : str) : str :=
  match s with
  | [] => []
  | c :: r =>
      if (c =? 10)%N then strip_newlines_s r
      else if (c =? 13)%N then
        match r with
        | d :: r' => if (d =? 10)%N then strip_newlines_s r' else c :: strip_newlines_s r
        | [] => [c]
        end
      else c :: strip_newlines_s r
  end.

(* ---- default: the keyword argument counts only when it is the boolean true (`allow_false is True`) ---- *)
Definition f_default2 (v d af : val) : fres :=
  f_default v d (match af with VBool true => true | _ => false end).

(* ---- map ---- *)
Fixpoint is_infix (k s : str) : bool :=
  is_prefix k s || match s with [] => false | _ :: r => is_infix k r end.

Inductive itemres := IVal (v : val) | INone | IErr.

(* _getitem(item, str(key), default=_NULL); the private null object is observed as nil *)
Definition map_item (k : str) (item : val) : itemres :=
  match item with
  | VDict d => IVal (match alookup k d with Some x => x | None => VNil end)
  | VNil => INone                                   (* FilterItemTypeError: the whole filter returns nil *)
  | VStr s => IVal (if is_infix k s then VStr k else VNil)
  | VInt _ | VBool _ | VDec _ _ => IErr             (* TypeError re-raised: FilterError, can't map sequence *)
  | VList _ => IVal VNil
  | VUndef => IVal VUndef
  end.

Inductive mapres := MOk (l : list val) | MNone | MErr.

(* the list comprehension stops at the first item that raises *)
Fixpoint map_items (k : str) (l : list val) : mapres :=
  match l with
  | [] => MOk []
  | x :: r =>
      match map_item k x with
      | IVal y => match map_items k r with MOk ys => MOk (y :: ys) | o => o end
      | INone => MNone
      | IErr => MErr
      end
  end.

Definition f_map2 (v key : val) : fres :=
  match py_str key with
  | None => FErr EOtherForeign
  | Some k =>
      match v with
      | VUndef => FOk (VList [])                    (* iterating the undefined object yields nothing *)
      | _ => match as_sequence v with
             | Some l => match map_items k l with
                         | MOk ys => FOk (VList ys)
                         | MNone => FOk VNil
                         | MErr => FErr ELiquid
                         end
             | None => FErr EOtherForeign
             end
      end
  end.

(* ---- numbers ---- *)
Definition mant (n : num) : Z := match n with NInt z => z | NDec m _ => m end.

(* nearest integer to m / p for p > 0, exact halves to the even neighbour *)
Definition round_half_even (m p : Z) : Z :=
  let q := (m / p)%Z in let r := (m mod p)%Z in
  if (2 * r <? p)%Z then q else if (p <? 2 * r)%Z then q + 1 else if Z.even q then q else q + 1.

(* round(num, ndigits) *)
Definition f_round2 (v nd : val) : fres :=
  match num_arg nd None with
  | None => f_round v                                (* nil, undefined, or not a number: plain round *)
  | Some n =>
      let n := match n with NInt z => z | NDec m e => Z.quot m (pow10 e) end in     (* int(float) *)
      if (n <? 0)%Z then FOk (VInt 0)
      else if (n =? 0)%Z then f_round v
      else match math_in v with
           | NInt z => FOk (VInt z)
           | NDec m e =>
               if (Z.of_nat e <=? n)%Z then FOk (mk_dec m e)
               else FOk (mk_dec (round_half_even m (pow10 (e - Z.to_nat n))) (Z.to_nat n))
           end
  end.

(* divided_by, repaired: floor division of two ints, otherwise the quotient of the two decimals.  The model finds the
   quotient when it terminates within DIV_DIGITS places; a longer or non-terminating quotient is rounded by the
   Decimal context (28 digits) and then by float(): outside the model, signalled as EOtherForeign. *)
Definition DIV_DIGITS : nat := 20.
Fixpoint find_quot (fuel k : nat) (n d : Z) : option (Z * nat) :=
  match fuel with
  | O => None
  | S f => if (n mod d =? 0)%Z then Some ((n / d)%Z, k) else find_quot f (S k) (n * 10)%Z d
  end.

Definition f_divided_by2 (v o : val) : fres :=
  match math_in v, math_in o with
  | NInt x, NInt y => if (y =? 0)%Z then FErr EFilterArg else FOk (VInt (x / y))
  | a, b =>
      (* a / b = (ma * 10^eb) / (mb * 10^ea) *)
      let n := (mant a * pow10 (num_e b))%Z in
      let d := (mant b * pow10 (num_e a))%Z in
      if (d =? 0)%Z then FErr EFilterArg
      else match find_quot (S DIV_DIGITS) 0 n d with
           | Some (q, k) => FOk (mk_dec q k)
           | None => FErr EOtherForeign
           end
  end.

(* modulo, repaired: the remainder has the sign of the divisor, for ints and for decimals alike *)
Definition f_modulo2 (v o : val) : fres :=
  match math_in v, math_in o with
  | NInt x, NInt y => if (y =? 0)%Z then FErr EFilterArg else FOk (VInt (x mod y))
  | a, b =>
      let e := Nat.max (num_e a) (num_e b) in
      let B := scale b e in
      if (B =? 0)%Z then FErr EFilterArg else FOk (mk_dec (scale a e mod B) e)
  end.

(* before the repair Decimal's % was used as is: the remainder had the sign of the dividend *)
Definition f_modulo_old (v o : val) : fres :=
  match math_in v, math_in o with
  | NInt x, NInt y => if (y =? 0)%Z then FErr EFilterArg else FOk (VInt (x mod y))
  | a, b =>
      let e := Nat.max (num_e a) (num_e b) in
      let B := scale b e in
      if (B =? 0)%Z then FErr EFilterArg else FOk (mk_dec (Z.rem (scale a e) B) e)
  end.

(* before the repair a boolean operand reached Decimal(str(True)) whenever the other operand was not an int *)
Definition is_boolv (v : val) : bool := match v with VBool _ => true | _ => false end.
Definition f_plus_old (v o : val) : fres :=
  if (is_boolv v || is_boolv o) && negb (is_int (math_in v) && is_int (math_in o)) then FErr EFilterArg
  else f_plus v o.

(* ---- dispatch for the correspondence run ---- *)
Inductive fname2 :=
| Base (f : fname)
| Xstrip_newlines | Xround | Xdivided_by | Xmodulo | Xmap | Xdefault.

Definition apply_filter2 (f : fname2) (v : val) (args : list val) : fres :=
  match f with
  | Base g => apply_filter g v args
  | Xstrip_newlines => str_filter1 strip_newlines_s v
  | Xround => f_round2 v (arg args 0 VUndef)
  | Xdivided_by => f_divided_by2 v (arg args 0 VUndef)
  | Xmodulo => f_modulo2 v (arg args 0 VUndef)
  | Xmap => f_map2 v (arg args 0 VUndef)
  | Xdefault => f_default2 v (arg args 0 (VStr [])) (arg args 1 (VBool false))
  end.

Record fcase2 := { fc2_name : fname2; fc2_val : val; fc2_args : list val }.
Definition run_fcase2 (c : fcase2) : fres := apply_filter2 (fc2_name c) (fc2_val c) (fc2_args c).
