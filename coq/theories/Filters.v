(* Model of the built-in filters named by C25 (string.py, array.py, math.py, misc.py, utils/text.py and the
   decorators of liquid/filter.py), over a small universe of JSON-like values.  Executable definitions only. *)
From Coq Require Import String Ascii.
From LiquidVerif Require Import Prelude PyPrims.

Definition lit (x : string) : str := map N_of_ascii (list_ascii_of_string x).

Inductive val :=
| VNil | VUndef | VBool (b : bool) | VInt (z : Z)
| VDec (m : Z) (e : nat)                 (* a float holding exactly m * 10^-e *)
| VStr (s : str)
| VList (l : list val)
| VDict (l : list (str * val)).

(* ------------------------------------------------------------------ *)
(* value equality (Python == on this universe, bools kept apart from ints) *)

Fixpoint val_eqb (a b : val) {struct a} : bool :=
  match a, b with
  | VNil, VNil | VUndef, VUndef => true
  | VBool x, VBool y => Bool.eqb x y
  | VInt x, VInt y => Z.eqb x y
  | VDec m e, VDec m' e' => Z.eqb m m' && Nat.eqb e e'
  | VStr x, VStr y => str_eqb x y
  | VList x, VList y =>
      (fix go (x y : list val) {struct x} : bool :=
         match x, y with
         | [], [] => true
         | a :: x', b :: y' => val_eqb a b && go x' y'
         | _, _ => false
         end) x y
  | VDict x, VDict y =>
      (fix go (x y : list (str * val)) {struct x} : bool :=
         match x, y with
         | [], [] => true
         | (k, a) :: x', (k', b) :: y' => str_eqb k k' && val_eqb a b && go x' y'
         | _, _ => false
         end) x y
  | _, _ => false
  end.

(* ------------------------------------------------------------------ *)
(* decimals: canonical form has e >= 1 and no trailing zero beyond the first decimal place (float repr) *)

Fixpoint canon_dec (fuel : nat) (m : Z) (e : nat) : Z * nat :=
  match fuel with
  | O => (m, e)
  | S f => match e with
           | S (S e') => if (m mod 10 =? 0)%Z then canon_dec f (m / 10)%Z (S e') else (m, e)
           | _ => (m, e)
           end
  end.
Definition mk_dec (m : Z) (e : nat) : val :=
  match e with
  | O => VDec (m * 10) 1
  | _ => let '(m', e') := canon_dec e m e in VDec m' e'
  end.

Definition pow10 (e : nat) : Z := Z.pow 10 (Z.of_nat e).

(* a number: int, or decimal *)
Inductive num := NInt (z : Z) | NDec (m : Z) (e : nat).

Definition num_val (n : num) : val := match n with NInt z => VInt z | NDec m e => mk_dec m e end.

(* bring two numbers to a common scale *)
Definition scale (n : num) (e : nat) : Z :=
  match n with NInt z => z * pow10 e | NDec m e' => m * pow10 (e - e') end.
Definition num_e (n : num) : nat := match n with NInt _ => O | NDec _ e => e end.
Definition is_int (n : num) : bool := match n with NInt _ => true | _ => false end.

(* ------------------------------------------------------------------ *)
(* outcomes *)
Inductive fres := FOk (v : val) | FErr (e : exn).

(* ---- liquid/filter.py: argument helpers ---- *)

(* a decimal-digit string -> number (only the shapes the correspondence run uses) *)
Fixpoint parse_digits (s : str) (acc : Z) : option Z :=
  match s with
  | [] => Some acc
  | c :: r => if ((48 <=? c) && (c <=? 57))%N then parse_digits r (acc * 10 + Z.of_N (c - 48)) else None
  end.
Definition parse_int (s : str) : option Z :=
  match s with
  | [] => None
  | 45%N :: (_ :: _) as r => match parse_digits (tl s) 0 with Some z => Some (- z)%Z | None => None end
  | _ => parse_digits s 0
  end.

Fixpoint split_dot (s : str) (acc : str) : option (str * str) :=
  match s with
  | [] => None
  | c :: r => if (c =? 46)%N then Some (rev acc, r) else split_dot r (c :: acc)
  end.
(* "12.50" -> NDec 1250 2 ; only plain decimal notation *)
Definition parse_dec (s : str) : option num :=
  match split_dot s [] with
  | Some (ip, fp) =>
      match fp with
      | [] => None
      | _ =>
        let neg := match ip with 45%N :: _ => true | _ => false end in
        let ipd := if neg then tl ip else ip in
        match (match ipd with [] => Some 0%Z | _ => parse_digits ipd 0 end), parse_digits fp 0 with
        | Some i, Some f =>
            let m := (i * pow10 (length fp) + f)%Z in
            Some (NDec (if neg then - m else m)%Z (length fp))
        | _, _ => None
        end
      end
  | None => None
  end.

(* num_arg(val, default) *)
Definition num_arg (v : val) (default : option num) : option num :=
  match v with
  | VInt z => Some (NInt z)
  | VBool b => Some (NInt (if b then 1 else 0))          (* bool is an int in Python *)
  | VDec m e => Some (NDec m e)
  | VStr s => match parse_int s with
              | Some z => Some (NInt z)
              | None => match parse_dec s with Some d => Some d | None => default end
              end
  | _ => default
  end.

(* int_arg / to_int on the argument shapes we use: Ok z | ValueError-like | TypeError-like *)
Inductive intarg := IA (z : Z) | IAValueError | IATypeError | IAUndef.
Definition to_int_val (v : val) : intarg :=
  match v with
  | VInt z => IA z
  | VBool b => IA (if b then 1 else 0)
  | VDec m e => IA (Z.quot m (pow10 e))                    (* int(float) truncates *)
  | VStr s => match parse_int s with Some z => IA z | None => IAValueError end
  | VUndef => IAUndef
  | _ => IATypeError
  end.

(* string_filter: None -> "", other non-strings -> str(val) *)
Definition py_str (v : val) : option str :=
  match v with
  | VStr s => Some s
  | VNil => Some (lit "None")
  | VUndef => Some []
  | VBool b => Some (if b then lit "True" else lit "False")
  | VInt z => Some (Z_to_str z)
  | _ => None                                             (* reprs of floats/lists/dicts are outside the model *)
  end.
Definition string_arg (v : val) : option str :=
  match v with VNil => Some [] | _ => py_str v end.

(* ------------------------------------------------------------------ *)
(* utils/text.py truncate_chars, and the truncate filter *)

Definition slen (s : str) : Z := Z.of_nat (length s).

(* Python s[:k] for any integer k *)
Definition py_prefix (s : str) (k : Z) : str :=
  if (k <? 0)%Z then firstn (Z.to_nat (Z.max 0 (slen s + k))) s else firstn (Z.to_nat k) s.

Definition truncate_chars (s : str) (num : Z) (e : str) : str :=
  if (slen s <=? num)%Z then s else py_prefix s (Z.max (num - slen e) 0) ++ e.

(* before the fix: `<` instead of `<=`, and a negative slice end when the ellipsis is longer than num *)
Definition truncate_chars_old (s : str) (num : Z) (e : str) : str :=
  if (slen s <? num)%Z then s else py_prefix s (num - slen e) ++ e.

Definition f_truncate (v num e : val) : fres :=
  match string_arg v, py_str e with
  | Some s, Some es =>
      match to_int_val num with
      | IA n => FOk (VStr (truncate_chars s n es))
      | _ => FErr EFilterArg
      end
  | _, _ => FErr EOtherForeign
  end.

(* ---- truncatewords ---- *)
(* str.isspace on ASCII: space, TAB..CR and the four separators FS GS RS US (28..31); U+0085, U+00A0 and the other
   non-ASCII spaces are outside the model *)
Definition is_space (c : N) : bool := ((c =? 32) || (9 <=? c) && (c <=? 13) || (28 <=? c) && (c <=? 31))%N.

(* str.split() : maximal runs of non-whitespace *)
Fixpoint words_go (s : str) (cur : str) : list str :=
  match s with
  | [] => match cur with [] => [] | _ => [rev cur] end
  | c :: r => if is_space c then match cur with [] => words_go r [] | _ => rev cur :: words_go r [] end
              else words_go r (c :: cur)
  end.
Definition words (s : str) : list str := words_go s [].

Fixpoint join_str (sep : str) (l : list str) : str :=
  match l with
  | [] => []
  | [x] => x
  | x :: r => x ++ sep ++ join_str sep r
  end.

Definition MAX_TRUNC_WORDS : Z := 2147483647.

Definition truncatewords (s : str) (num : Z) (e : str) : str :=
  let n := if (num <=? 0)%Z then 1%Z else num in
  let ws := words s in
  if (MAX_TRUNC_WORDS <=? n)%Z then s
  else if (Z.of_nat (length ws) <? n)%Z then join_str [32%N] ws
  else join_str [32%N] (firstn (Z.to_nat n) ws) ++ e.

Definition f_truncatewords (v num e : val) : fres :=
  match string_arg v, py_str e with
  | Some s, Some es =>
      match to_int_val num with
      | IA n => FOk (VStr (truncatewords s n es))
      | _ => FErr EFilterArg
      end
  | _, _ => FErr EOtherForeign
  end.

(* ---- size ---- *)
Definition f_size (v : val) : fres :=
  FOk (VInt (match v with
             | VStr s => slen s
             | VList l => Z.of_nat (length l)
             | VDict l => Z.of_nat (length l)
             | _ => 0
             end)).

(* ---- case and whitespace filters (ASCII) ---- *)
Definition up (c : N) : N := if ((97 <=? c) && (c <=? 122))%N then (c - 32)%N else c.
Definition low (c : N) : N := if ((65 <=? c) && (c <=? 90))%N then (c + 32)%N else c.
Fixpoint lstrip_s (s : str) : str := match s with c :: r => if is_space c then lstrip_s r else s | [] => [] end.
Definition rstrip_s (s : str) : str := rev (lstrip_s (rev s)).
Definition strip_s (s : str) : str := rstrip_s (lstrip_s s).
Definition capitalize_s (s : str) : str := match s with [] => [] | c :: r => up c :: map low r end.

Definition str_filter1 (f : str -> str) (v : val) : fres :=
  match string_arg v with Some s => FOk (VStr (f s)) | None => FErr EOtherForeign end.

(* ---- split / join ---- *)
Fixpoint is_prefix (p s : str) : bool :=
  match p, s with
  | [], _ => true
  | a :: p', b :: s' => N.eqb a b && is_prefix p' s'
  | _ :: _, [] => false
  end.

(* str.split(sep) for a non-empty separator; [skip] passes over the rest of a separator already matched *)
Fixpoint split_go (skip : nat) (sep s cur : str) : list str :=
  match s with
  | [] => [rev cur]
  | c :: r =>
      match skip with
      | S k => split_go k sep r cur
      | O => if is_prefix sep s then rev cur :: split_go (length sep - 1) sep r []
             else split_go 0 sep r (c :: cur)
      end
  end.
Definition py_split (s sep : str) : list str := split_go 0 sep s [].

Definition f_split (v sep : val) : fres :=
  match string_arg v with
  | None => FErr EOtherForeign
  | Some s =>
      let chars := VList (map (fun c => VStr [c]) s) in
      match sep with
      | VUndef | VNil => FOk chars
      | VStr [] => FOk chars
      | _ =>
          match py_str sep with
          | None => FErr EOtherForeign
          | Some sp =>
              if (match s with [] => true | _ => str_eqb s sp end) then FOk (VList [])
              else if str_eqb sp [32%N] then FOk (VList (map VStr (words s)))
              else FOk (VList (map VStr (py_split s sp)))
          end
      end
  end.

(* sequence_filter: lists are flattened (one level is enough here), strings/dicts/scalars are wrapped *)
Definition as_sequence (v : val) : option (list val) :=
  match v with
  | VList l => Some (flat_map (fun x => match x with VList l' => l' | _ => [x] end) l)
  | VUndef => None
  | _ => Some [v]
  end.

Fixpoint all_some {A} (l : list (option A)) : option (list A) :=
  match l with
  | [] => Some []
  | Some x :: r => match all_some r with Some r' => Some (x :: r') | None => None end
  | None :: _ => None
  end.

Definition f_join (v sep : val) : fres :=
  match as_sequence v, py_str sep with
  | Some l, Some sp =>
      match all_some (map py_str l) with
      | Some ss => FOk (VStr (join_str sp ss))
      | None => FErr EOtherForeign
      end
  | _, _ => FErr EOtherForeign
  end.

(* ---- slice, first, last ---- *)
Definition clamp63 (z : Z) : Z := Z.max (Z.min z 9223372036854775807) (-9223372036854775808).

(* Python seq[a:b] with b possibly None *)
Definition norm_idx (len i : Z) : Z := if (i <? 0)%Z then Z.max 0 (len + i) else Z.min i len.
Definition py_slice {A} (l : list A) (a : Z) (b : option Z) : list A :=
  let len := Z.of_nat (length l) in
  let a' := norm_idx len a in
  let b' := match b with None => len | Some b => norm_idx len b end in
  firstn (Z.to_nat (b' - a')) (skipn (Z.to_nat a') l).

Definition slice_arg (v : val) : option Z :=
  match v with
  | VDec _ _ => None
  | _ => match to_int_val v with IA z => Some (clamp63 z) | _ => None end
  end.

Definition f_slice (v start len : val) : fres :=
  match start with
  | VUndef => FErr EFilterArg
  | _ =>
    let len := match len with VUndef => VInt 1 | _ => len end in
    match slice_arg start, slice_arg len with
    | Some a, Some n =>
        let e := (a + n)%Z in
        let e' := if ((a <? 0) && (0 <=? e))%Z then None else Some e in
        match v with
        | VList l => FOk (VList (py_slice l a e'))
        | VStr s => FOk (VStr (py_slice s a e'))
        | _ => match py_str v with Some s => FOk (VStr (py_slice s a e')) | None => FErr EOtherForeign end
        end
    | _, _ => FErr EFilterArg
    end
  end.

Definition f_first (v : val) : fres :=
  match v with
  | VUndef => FErr EFilterArg                       (* indexing the undefined object is a TypeError, re-raised *)
  | VList (x :: _) => FOk x
  | VDict ((k, x) :: _) => FOk (VList [VStr k; x])
  | _ => FOk VNil
  end.
Definition f_last (v : val) : fres :=
  match v with
  | VUndef => FErr EFilterArg
  | VList l => FOk (last l VNil)
  | _ => FOk VNil
  end.

(* ---- reverse, sort, sort_natural, uniq, compact, concat, map, where, reject ---- *)
Definition f_reverse (v : val) : fres :=
  match as_sequence v with Some l => FOk (VList (rev l)) | None => FErr EOtherForeign end.

(* a total order on the sortable values: all ints, or all strings *)
Fixpoint str_leb (a b : str) : bool :=
  match a, b with
  | [], _ => true
  | _ :: _, [] => false
  | x :: a', y :: b' => if (x <? y)%N then true else if (y <? x)%N then false else str_leb a' b'
  end.

Inductive skey := KInt (z : Z) | KStr (s : str).
Definition skey_leb (a b : skey) : bool :=
  match a, b with
  | KInt x, KInt y => Z.leb x y
  | KStr x, KStr y => str_leb x y
  | KInt _, KStr _ => true
  | KStr _, KInt _ => false
  end.

(* stable insertion sort by key *)
Fixpoint insert_by {A} (key : A -> skey) (x : A) (l : list A) : list A :=
  match l with
  | [] => [x]
  | y :: r => if skey_leb (key x) (key y) then x :: l else y :: insert_by key x r
  end.
Fixpoint sort_by {A} (key : A -> skey) (l : list A) : list A :=
  match l with [] => [] | x :: r => insert_by key x (sort_by key r) end.
(* elements are inserted from the right, each in front of the first element whose key is not smaller:
   equal keys keep their original order (stable, like Python's sorted) *)

Definition homogeneous (l : list val) : option (list (skey * val)) :=
  match l with
  | VInt _ :: _ => all_some (map (fun v => match v with VInt z => Some (KInt z, v) | _ => None end) l)
  | VStr _ :: _ => all_some (map (fun v => match v with VStr s => Some (KStr s, v) | _ => None end) l)
  | [] => Some []
  | _ => None
  end.

Definition f_sort (v : val) : fres :=
  match as_sequence v with
  | None => FErr EOtherForeign
  | Some l => match l with
              | [] | [_] => FOk (VList l)                (* nothing is ever compared *)
              | _ => match homogeneous l with
                     | Some kl => FOk (VList (map snd (sort_by fst kl)))
                     | None => FErr ELiquid              (* FilterError: can't sort sequence *)
                     end
              end
  end.

(* sort_natural: key = str(obj).lower() *)
Definition f_sort_natural (v : val) : fres :=
  match as_sequence v with
  | None => FErr EOtherForeign
  | Some l => match all_some (map (fun x => match py_str x with Some s => Some (KStr (map low s), x) | None => None end) l) with
              | Some kl => FOk (VList (map snd (sort_by fst kl)))
              | None => FErr EOtherForeign
              end
  end.

Fixpoint memv (x : val) (l : list val) : bool :=
  match l with [] => false | y :: r => val_eqb x y || memv x r end.

(* uniq: keep the first occurrence of every value *)
Fixpoint uniq_go (l seen : list val) : list val :=
  match l with
  | [] => []
  | x :: r => if memv x seen then uniq_go r seen else x :: uniq_go r (x :: seen)
  end.
Definition f_uniq (v : val) : fres :=
  match as_sequence v with Some l => FOk (VList (uniq_go l [])) | None => FErr EOtherForeign end.

Definition is_nil (v : val) : bool := match v with VNil => true | _ => false end.
Definition f_compact (v : val) : fres :=
  match as_sequence v with
  | Some l => FOk (VList (filter (fun x => negb (is_nil x)) l))
  | None => FErr EOtherForeign
  end.

Definition f_concat (v other : val) : fres :=
  match other with
  | VList l2 =>
      match v with
      | VUndef => FOk other
      | _ => match as_sequence v with Some l => FOk (VList (l ++ l2)) | None => FErr EOtherForeign end
      end
  | _ => FErr EFilterArg
  end.

Definition getitem (item : val) (k : str) : option val :=
  match item with VDict d => alookup k d | _ => None end.

(* where/reject with a string attribute, over dict items *)
Definition truthy_attr (x : option val) : bool :=
  match x with None | Some VNil | Some (VBool false) => false | _ => true end.

Definition attr_test (attr : str) (value : val) (item : val) : bool :=
  match value with
  | VNil | VUndef => truthy_attr (getitem item attr)
  | _ => match getitem item attr with Some x => val_eqb x value | None => false end
  end.

Definition all_dicts (l : list val) : bool := forallb (fun x => match x with VDict _ => true | _ => false end) l.

Definition f_where (v attr value : val) : fres :=
  match as_sequence v, attr with
  | Some l, VStr a => if all_dicts l then FOk (VList (filter (attr_test a value) l)) else FErr EOtherForeign
  | _, _ => FErr EOtherForeign
  end.
Definition f_reject (v attr value : val) : fres :=
  match as_sequence v, attr with
  | Some l, VStr a => if all_dicts l then FOk (VList (filter (fun x => negb (attr_test a value x)) l)) else FErr EOtherForeign
  | _, _ => FErr EOtherForeign
  end.

(* map: the values at a key; a missing key gives null *)
Definition f_map (v key : val) : fres :=
  match as_sequence v, key with
  | Some l, VStr k =>
      if all_dicts l then
        (* a missing key gives the engine's private null object, which the json filter used for observation rejects *)
        match all_some (map (fun x => getitem x k) l) with
        | Some ys => FOk (VList ys)
        | None => FErr EFilterArg
        end
      else FErr EOtherForeign
  | _, _ => FErr EOtherForeign
  end.

(* ---- default ---- *)
Definition is_empty_v (v : val) : bool :=
  match v with VStr [] | VList [] | VDict [] => true | _ => false end.
Definition f_default (v d : val) (allow_false : bool) : fres :=
  FOk (match v with
       | VInt _ | VDec _ _ => v
       | VBool false => if allow_false then v else d
       | VNil | VUndef => d
       | _ => if is_empty_v v then d else v
       end).

(* ---- math ---- *)
Definition math_in (v : val) : num := match num_arg v (Some (NInt 0)) with Some n => n | None => NInt 0 end.
Definition other_in (v : val) : num := math_in v.

Definition num_leb (a b : num) : bool :=
  let e := Nat.max (num_e a) (num_e b) in Z.leb (scale a e) (scale b e).

Definition arith (op : Z -> Z -> Z) (mul : bool) (a b : num) : val :=
  match a, b with
  | NInt x, NInt y => VInt (op x y)
  | _, _ =>
      if mul then mk_dec (scale a (num_e a) * scale b (num_e b)) (num_e a + num_e b)
      else let e := Nat.max (num_e a) (num_e b) in mk_dec (op (scale a e) (scale b e)) e
  end.

Definition f_plus (v o : val) : fres := FOk (arith Z.add false (math_in v) (other_in o)).
Definition f_minus (v o : val) : fres := FOk (arith Z.sub false (math_in v) (other_in o)).
Definition f_times (v o : val) : fres := FOk (arith Z.mul true (math_in v) (other_in o)).

Definition f_divided_by (v o : val) : fres :=
  match math_in v, other_in o with
  | NInt x, NInt y => if (y =? 0)%Z then FErr EFilterArg else FOk (VInt (x / y))
  | _, _ => FErr EOtherForeign                      (* binary float division: outside the model *)
  end.
Definition f_modulo (v o : val) : fres :=
  match math_in v, other_in o with
  | NInt x, NInt y => if (y =? 0)%Z then FErr EFilterArg else FOk (VInt (x mod y))
  | _, _ => FErr EOtherForeign
  end.
Definition f_abs (v : val) : fres :=
  FOk (match math_in v with NInt x => VInt (Z.abs x) | NDec m e => mk_dec (Z.abs m) e end).
(* max(num, other) / min(num, other): on a tie Python returns the first argument *)
Definition f_at_least (v o : val) : fres :=
  let a := math_in v in let b := other_in o in FOk (num_val (if num_leb b a then a else b)).
Definition f_at_most (v o : val) : fres :=
  let a := math_in v in let b := other_in o in FOk (num_val (if num_leb a b then a else b)).
Definition f_ceil (v : val) : fres :=
  FOk (match math_in v with NInt x => VInt x | NDec m e => VInt (- ((- m) / pow10 e)) end).
Definition f_floor (v : val) : fres :=
  FOk (match math_in v with NInt x => VInt x | NDec m e => VInt (m / pow10 e) end).
(* round(x) with no digits: Python rounds exact halves to even *)
Definition f_round (v : val) : fres :=
  FOk (match math_in v with
       | NInt x => VInt x
       | NDec m e =>
           let p := pow10 e in
           let q := (m / p)%Z in let r := (m mod p)%Z in
           VInt (if (2 * r <? p)%Z then q else if (p <? 2 * r)%Z then q + 1 else if Z.even q then q else q + 1)
       end).

(* ---- dispatch for the correspondence run ---- *)
Inductive fname :=
| Ftruncate | Ftruncatewords | Fsize | Fupcase | Fdowncase | Fcapitalize | Fstrip | Flstrip | Frstrip
| Fsplit | Fjoin | Fslice | Ffirst | Flast | Freverse | Fsort | Fsort_natural | Funiq | Fcompact | Fconcat
| Fmap | Fwhere | Freject | Fdefault | Fdefault_allow_false
| Fplus | Fminus | Ftimes | Fdivided_by | Fmodulo | Fabs | Fat_least | Fat_most | Fceil | Ffloor | Fround.

Definition arg (args : list val) (i : nat) (d : val) : val := nth i args d.

Definition apply_filter (f : fname) (v : val) (args : list val) : fres :=
  match f with
  | Ftruncate => f_truncate v (arg args 0 (VInt 50)) (arg args 1 (VStr (lit "...")))
  | Ftruncatewords => f_truncatewords v (arg args 0 (VInt 15)) (arg args 1 (VStr (lit "...")))
  | Fsize => f_size v
  | Fupcase => str_filter1 (map up) v
  | Fdowncase => str_filter1 (map low) v
  | Fcapitalize => str_filter1 capitalize_s v
  | Fstrip => str_filter1 strip_s v
  | Flstrip => str_filter1 lstrip_s v
  | Frstrip => str_filter1 rstrip_s v
  | Fsplit => f_split v (arg args 0 VUndef)
  | Fjoin => f_join v (arg args 0 (VStr [32%N]))
  | Fslice => f_slice v (arg args 0 VUndef) (arg args 1 (VInt 1))
  | Ffirst => f_first v
  | Flast => f_last v
  | Freverse => f_reverse v
  | Fsort => f_sort v
  | Fsort_natural => f_sort_natural v
  | Funiq => f_uniq v
  | Fcompact => f_compact v
  | Fconcat => f_concat v (arg args 0 VUndef)
  | Fmap => f_map v (arg args 0 VUndef)
  | Fwhere => f_where v (arg args 0 VUndef) (arg args 1 VNil)
  | Freject => f_reject v (arg args 0 VUndef) (arg args 1 VNil)
  | Fdefault => f_default v (arg args 0 (VStr [])) false
  | Fdefault_allow_false => f_default v (arg args 0 (VStr [])) true
  | Fplus => f_plus v (arg args 0 VUndef)
  | Fminus => f_minus v (arg args 0 VUndef)
  | Ftimes => f_times v (arg args 0 VUndef)
  | Fdivided_by => f_divided_by v (arg args 0 VUndef)
  | Fmodulo => f_modulo v (arg args 0 VUndef)
  | Fabs => f_abs v
  | Fat_least => f_at_least v (arg args 0 VUndef)
  | Fat_most => f_at_most v (arg args 0 VUndef)
  | Fceil => f_ceil v
  | Ffloor => f_floor v
  | Fround => f_round v
  end.

Record fcase := { fc_name : fname; fc_val : val; fc_args : list val }.
Definition run_fcase (c : fcase) : fres := apply_filter (fc_name c) (fc_val c) (fc_args c).

Definition fres_eqb (a b : fres) : bool :=
  match a, b with
  | FOk x, FOk y => val_eqb x y
  | FErr x, FErr y => exn_eqb x y
  | _, _ => false
  end.
