(* Lex_Proofs.v — basic lemmas about the scanner primitives of Lex.v (prefix test, whitespace runs, close,
   find_first, wordtag) on sources of the shape  known-prefix ++ rest. *)
From Coq Require Import ZArith NArith List Bool Lia ZifyBool.
From LiquidVerif Require Import Prelude Lex LexSpec.
Import ListNotations.
Arguments hy : simpl never.
Arguments nl : simpl never.
Arguments hash : simpl never.
Arguments lbrace : simpl never.

(* ---------------------------------------------------------------- lists *)
Lemma skipn_app_len {A} (a s : list A) : skipn (length a) (a ++ s) = s.
Proof. induction a; simpl; auto. Qed.

Lemma skipn_app_len_add {A} (a s : list A) k : skipn (length a + k) (a ++ s) = skipn k s.
Proof. induction a; simpl; auto. Qed.

Lemma firstn_app_len {A} (a s : list A) : firstn (length a) (a ++ s) = a.
Proof. induction a; simpl; congruence. Qed.

Lemma skipn_add {A} (s : list A) a b : skipn (a + b) s = skipn b (skipn a s).
Proof. revert s; induction a; intros s; simpl; auto. destruct s; simpl; auto. destruct b; reflexivity. Qed.

Lemma sub_app_len (a b s : str) : sub (a ++ b ++ s) (length a) (length b) = b.
Proof. unfold sub. rewrite skipn_app_len. apply firstn_app_len. Qed.

Lemma sub_0_len (a s : str) : sub (a ++ s) 0 (length a) = a.
Proof. unfold sub. simpl. apply firstn_app_len. Qed.

(* ---------------------------------------------------------------- prefixb *)
Lemma prefixb_app p s : prefixb p (p ++ s) = true.
Proof. induction p; simpl; auto. rewrite N.eqb_refl. auto. Qed.

Lemma prefixb_hd_neq p c s : nonempty p = true -> hd0 p <> c -> prefixb p (c :: s) = false.
Proof. destruct p; simpl; try discriminate. intros _ H. destruct (N.eqb_spec n c); auto. contradiction. Qed.

Lemma prefixb_nil p : nonempty p = true -> prefixb p [] = false.
Proof. destruct p; simpl; auto; discriminate. Qed.

Lemma clash_false a b s : clash a b = false -> prefixb a (b ++ s) = false.
Proof.
  unfold clash. revert b. induction a as [|x a IH]; intros b H.
  - simpl in H. discriminate.
  - destruct b as [|y b].
    + simpl in H. discriminate.
    + simpl in *. destruct (N.eqb_spec x y) as [->|Hn]; simpl; auto.
      rewrite N.eqb_refl in H. simpl in H. apply IH. exact H.
Qed.

Lemma clash_sym a b : clash a b = clash b a.
Proof. unfold clash. apply orb_comm. Qed.

(* ---------------------------------------------------------------- whitespace / word runs *)
Lemma space_not_word c : is_space c = true -> is_word c = false.
Proof. unfold is_space, is_word. intros H. lia. Qed.

Lemma hy_not_space : is_space hy = false. Proof. reflexivity. Qed.
Lemma hy_not_word : is_word hy = false. Proof. reflexivity. Qed.

Lemma ws_len_app w s : all_space w = true -> ws_len (w ++ s) = length w + ws_len s.
Proof.
  unfold all_space. induction w as [|c w IH]; simpl; auto. intros H. apply andb_true_iff in H as [Hc Hw].
  rewrite Hc. rewrite IH; auto.
Qed.

Lemma ws_len_stop c s : is_space c = false -> ws_len (c :: s) = 0.
Proof. intros H. simpl. rewrite H. reflexivity. Qed.

Lemma ws_len_nil : ws_len [] = 0. Proof. reflexivity. Qed.

Lemma word_len_stop c s : is_word c = false -> word_len (c :: s) = 0.
Proof. intros H. simpl. rewrite H. reflexivity. Qed.

Lemma word_len_app w s : forallb is_word w = true -> word_len (w ++ s) = length w + word_len s.
Proof.
  induction w as [|c w IH]; simpl; auto. intros H. apply andb_true_iff in H as [Hc Hw].
  rewrite Hc. rewrite IH; auto.
Qed.

(* a "stopper": a string whose first character (if any) is not whitespace *)
Definition stops (s : str) : Prop := match s with c :: _ => is_space c = false | [] => True end.

Lemma ws_len_stops s : stops s -> ws_len s = 0.
Proof. destruct s; simpl; auto. intros ->. reflexivity. Qed.

Lemma ws_len_app_stops w s : all_space w = true -> stops s -> ws_len (w ++ s) = length w.
Proof. intros Hw Hs. rewrite ws_len_app, ws_len_stops; auto. Qed.

Lemma hyp_length b : length (hyp b) = if b then 1 else 0.
Proof. destruct b; reflexivity. Qed.

(* ---------------------------------------------------------------- close *)
Section Close.
  Variable e : str.
  Hypothesis e_ne : nonempty e = true.
  Hypothesis e_nsp : is_space (hd0 e) = false.
  Hypothesis e_nhy : N.eqb (hd0 e) hy = false.

  Lemma stops_e s : stops (e ++ s).
  Proof. destruct e; simpl in *; try discriminate. exact e_nsp. Qed.

  Lemma stops_hyp_e r s : stops (hyp r ++ e ++ s).
  Proof. destruct r; simpl. reflexivity. apply stops_e. Qed.

  Lemma prefixb_hy_e s : prefixb (hy :: e) (e ++ s) = false.
  Proof.
    clear e_nsp. destruct e as [|c e']; cbn [nonempty hd0 app prefixb] in *; try discriminate.
    rewrite N.eqb_sym, e_nhy. reflexivity.
  Qed.

  (* the closing sub-pattern matches right here: optional whitespace, optional hyphen, e *)
  Lemma close_here w r rest : all_space w = true ->
    close e (w ++ hyp r ++ e ++ rest) = Some (r, length w + length (hyp r) + length e).
  Proof.
    intros Hw. unfold close. rewrite ws_len_app_stops by (auto using stops_hyp_e).
    rewrite skipn_app_len. destruct r; simpl hyp; cbn [app length].
    - change (hy :: e ++ rest) with ((hy :: e) ++ rest). rewrite prefixb_app. repeat f_equal; try lia.
    - rewrite prefixb_hy_e, prefixb_app. f_equal. f_equal. lia.
  Qed.

  Lemma close_space c l : is_space c = true ->
    close e (c :: l) = match close e l with Some (h, n) => Some (h, S n) | None => None end.
  Proof.
    intros Hc. unfold close. cbn [ws_len]. rewrite Hc. cbn [skipn].
    destruct (prefixb (hy :: e) (skipn (ws_len l) l)); [reflexivity|].
    destruct (prefixb e (skipn (ws_len l) l)); reflexivity.
  Qed.

  (* ... and does not match anywhere inside a body none of whose characters is e's first character and which
     does not end in whitespace or a hyphen *)
  Definition body_ok (y : str) : Prop :=
    forallb (fun c => negb (N.eqb c (hd0 e))) y = true /\
    (y <> [] -> is_space (last0 y) = false /\ N.eqb (last0 y) hy = false).

  Lemma body_ok_tl c y : y <> [] -> body_ok (c :: y) -> body_ok y.
  Proof.
    intros Hy [H1 H2]. split.
    - simpl in H1. apply andb_true_iff in H1. tauto.
    - intros _. unfold last0 in *. destruct y; [congruence|]. apply H2. discriminate.
  Qed.

  Lemma close_none y z : y <> [] -> body_ok y -> close e (y ++ z) = None.
  Proof.
    induction y as [|c y IH]; intros Hne Hok; [congruence|].
    destruct (is_space c) eqn:Hc.
    - destruct y as [|c2 y].
      + destruct Hok as [_ H2]. unfold last0 in H2. simpl in H2. destruct (H2 ltac:(discriminate)). congruence.
      + simpl app. rewrite close_space by exact Hc. change (c2 :: y ++ z) with ((c2 :: y) ++ z).
        rewrite IH; auto. discriminate. eapply body_ok_tl; eauto. discriminate.
    - unfold close. simpl app. rewrite ws_len_stop by exact Hc. cbn [skipn].
      destruct Hok as [H1 H2]. simpl in H1. apply andb_true_iff in H1 as [Hc1 Hy1].
      apply negb_true_iff in Hc1.
      assert (Hpe : prefixb e (c :: y ++ z) = false).
      { apply prefixb_hd_neq; auto. intro E. rewrite E, N.eqb_refl in Hc1. discriminate. }
      rewrite Hpe. cbn [prefixb].
      destruct (N.eqb_spec hy c) as [Ec|Nc]; simpl; auto.
      destruct y as [|c2 y].
      + destruct (H2 ltac:(discriminate)) as [_ H]. unfold last0 in H. simpl in H. subst c.
        rewrite N.eqb_refl in H. discriminate.
      + simpl in Hy1. apply andb_true_iff in Hy1 as [Hc2 _]. apply negb_true_iff in Hc2.
        simpl app. rewrite prefixb_hd_neq; auto. intro E. rewrite E, N.eqb_refl in Hc2. discriminate.
  Qed.
End Close.

(* ---------------------------------------------------------------- find_first *)
Lemma find_first_here {A} (f : str -> option (A * nat)) s a n :
  f s = Some (a, n) -> find_first f s = Some (0, a, n).
Proof. intros H. destruct s; simpl; rewrite H; reflexivity. Qed.

Lemma find_first_skip {A} (f : str -> option (A * nat)) y z a n :
  (forall k, k < length y -> f (skipn k (y ++ z)) = None) ->
  find_first f z = Some (0, a, n) ->
  find_first f (y ++ z) = Some (length y, a, length y + n).
Proof.
  induction y as [|c y IH]; intros Hn Hz; simpl; auto.
  pose proof (Hn 0 ltac:(simpl; lia)) as H0. simpl in H0. rewrite H0.
  rewrite IH; auto. intros k Hk. apply (Hn (S k)). simpl. lia.
Qed.

Lemma body_ok_suffix e y k : k < length y -> body_ok e y -> skipn k y <> [] /\ body_ok e (skipn k y).
Proof.
  revert y. induction k; intros y Hk Hok.
  - simpl. split; auto. destruct y; simpl in *; [lia|discriminate].
  - destruct y as [|c y]; simpl in *; [lia|]. apply IHk. lia.
    eapply body_ok_tl; eauto. destruct y; simpl in *; [lia|discriminate].
Qed.

Lemma skipn_app_lt {A} (y z : list A) k : k <= length y -> skipn k (y ++ z) = skipn k y ++ z.
Proof. revert y; induction k; intros y H; simpl; auto. destruct y; simpl in *; [lia|]. apply IHk. lia. Qed.

(* the lazy body followed by the closing sub-pattern: the body is found whole *)
Lemma lazy_close e y w r rest :
  nonempty e = true -> is_space (hd0 e) = false -> N.eqb (hd0 e) hy = false ->
  body_ok e y -> all_space w = true ->
  find_first (close e) (y ++ w ++ hyp r ++ e ++ rest)
  = Some (length y, r, length y + (length w + length (hyp r) + length e)).
Proof.
  intros He1 He2 He3 Hy Hw. apply find_first_skip.
  - intros k Hk. rewrite skipn_app_lt by lia.
    destruct (body_ok_suffix e y k Hk Hy) as [Hne Hok]. apply close_none; auto.
  - apply find_first_here. apply close_here; auto.
Qed.

(* ---------------------------------------------------------------- cclose (shorthand comment end) *)
Lemma cclose_here e r rest : nonempty e = true -> N.eqb (hd0 e) hy = false ->
  cclose e (hyp r ++ e ++ rest) = Some (r, length (hyp r) + length e).
Proof.
  intros H1 H2. unfold cclose. destruct r; simpl hyp; cbn [app length].
  - change (hy :: e ++ rest) with ((hy :: e) ++ rest). rewrite prefixb_app. reflexivity.
  - rewrite (prefixb_hy_e e H1 H2). rewrite prefixb_app. reflexivity.
Qed.

Definition cbody_ok (e y : str) : Prop :=
  forallb (fun c => negb (N.eqb c (hd0 e))) y = true /\ (y <> [] -> N.eqb (last0 y) hy = false).

Lemma cbody_ok_tl e c y : y <> [] -> cbody_ok e (c :: y) -> cbody_ok e y.
Proof.
  intros Hy [H1 H2]. split.
  - simpl in H1. apply andb_true_iff in H1. tauto.
  - intros _. unfold last0 in *. destruct y; [congruence|]. apply H2. discriminate.
Qed.

Lemma cclose_none e y z : nonempty e = true -> y <> [] -> cbody_ok e y -> cclose e (y ++ z) = None.
Proof.
  intros He Hne [H1 H2]. destruct y as [|c y]; [congruence|]. unfold cclose. simpl app.
  simpl in H1. apply andb_true_iff in H1 as [Hc1 Hy1]. apply negb_true_iff in Hc1.
  assert (Hpe : prefixb e (c :: y ++ z) = false).
  { apply prefixb_hd_neq; auto. intro E. rewrite E, N.eqb_refl in Hc1. discriminate. }
  rewrite Hpe. cbn [prefixb].
  destruct (N.eqb_spec hy c) as [Ec|Nc]; simpl; auto.
  destruct y as [|c2 y].
  - pose proof (H2 ltac:(discriminate)) as H. unfold last0 in H. simpl in H. subst c.
    rewrite N.eqb_refl in H. discriminate.
  - simpl in Hy1. apply andb_true_iff in Hy1 as [Hc2 _]. apply negb_true_iff in Hc2.
    simpl app. rewrite prefixb_hd_neq; auto. intro E. rewrite E, N.eqb_refl in Hc2. discriminate.
Qed.

Lemma cbody_ok_suffix e y k : k < length y -> cbody_ok e y -> skipn k y <> [] /\ cbody_ok e (skipn k y).
Proof.
  revert y. induction k; intros y Hk Hok.
  - simpl. split; auto. destruct y; simpl in *; [lia|discriminate].
  - destruct y as [|c y]; simpl in *; [lia|]. apply IHk. lia.
    eapply cbody_ok_tl; eauto. destruct y; simpl in *; [lia|discriminate].
Qed.

Lemma lazy_cclose e y r rest :
  nonempty e = true -> N.eqb (hd0 e) hy = false -> cbody_ok e y ->
  find_first (cclose e) (y ++ hyp r ++ e ++ rest) = Some (length y, r, length y + (length (hyp r) + length e)).
Proof.
  intros He1 He3 Hy. apply find_first_skip.
  - intros k Hk. rewrite skipn_app_lt by lia.
    destruct (cbody_ok_suffix e y k Hk Hy) as [Hne Hok]. apply cclose_none; auto.
  - apply find_first_here. apply cclose_here; auto.
Qed.

(* ---------------------------------------------------------------- with_hyphen *)
Lemma with_hyphen_yes {A} s k (f : nat -> option A) x r :
  skipn k s = hy :: x -> f (S k) = Some r -> with_hyphen s k f = Some r.
Proof. intros H1 H2. unfold with_hyphen. rewrite H1, N.eqb_refl, H2. reflexivity. Qed.

Lemma with_hyphen_yes_none {A} s k (f : nat -> option A) x :
  skipn k s = hy :: x -> f (S k) = None -> with_hyphen s k f = f k.
Proof. intros H1 H2. unfold with_hyphen. rewrite H1, N.eqb_refl, H2. reflexivity. Qed.

Lemma with_hyphen_no {A} s k (f : nat -> option A) :
  hyphen_next (skipn k s) = false -> with_hyphen s k f = f k.
Proof.
  unfold with_hyphen, hyphen_next. destruct (skipn k s) as [|c x]; auto. intros ->. reflexivity.
Qed.
